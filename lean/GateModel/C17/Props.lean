import GateModel.C17.Lemmas
import GateModel.C17.Spec
/-
C17 — Initial and fallback server choice follows forced hosts, then the try list.

Property theorems only.  `w : World` is ANY configuration (forced hosts, try list), registry and virtual host;
`s : PState` ANY player state (remembered list, cursor, current and in-flight server).
-/
namespace Gate.C17.Props
open Gate Gate.C17

/-! ### the virtual host is compared without case, port, Forge and TCPShield suffixes -/

/-- "<host>:<port>" -/
theorem host_with_port (h p : Bytes) (hh : HostChars h) (hd : NoEdgeDots h)
    (hp : ∀ b ∈ p, b ≠ 0 ∧ b ≠ 46 ∧ b ≠ 47 ∧ b ≠ 58 ∧ b ≠ 91 ∧ b ≠ 93) :
    cleanHost (h ++ 58 :: p) = lower h := by
  have hall0 : ∀ b ∈ h ++ 58 :: p, b ≠ 0 := by
    intro b hb
    simp only [List.mem_append, List.mem_cons] at hb
    rcases hb with hb | hb | hb
    · exact (hh b hb).1
    · rw [hb]; decide
    · exact (hp b hb).1
  have hall47 : ∀ b ∈ h ++ 58 :: p, b ≠ 47 := by
    intro b hb
    simp only [List.mem_append, List.mem_cons] at hb
    rcases hb with hb | hb | hb
    · exact (hh b hb).2.1
    · rw [hb]; decide
    · exact (hp b hb).2.2.1
  have hdots : NoEdgeDots (h ++ 58 :: p) := by
    constructor
    · cases h with
      | nil => simp
      | cons b t => simpa using hd.1
    · rw [List.getLast?_append]
      cases p with
      | nil => simp
      | cons c t =>
        have hne : (58 :: c :: t : Bytes).getLast? = some ((c :: t).getLast (by simp)) := by
          simp [List.getLast?_eq_some_getLast]
        rw [hne]
        have hmem : (c :: t).getLast (by simp) ∈ c :: t := List.getLast_mem _
        have := (hp _ hmem).2.1
        simpa using this
  unfold cleanHost clearVirtualHost
  rw [beforeNul_id _ hall0, beforeTriple_id _ hall47, trimDots_id _ hdots,
    hostStr_hostPort h p hh (fun b hb => ⟨(hp b hb).2.2.2.1, (hp b hb).2.2.2.2⟩)]

/-- "<host>\0<anything>" (Forge marker; the port the proxy appends comes after it) -/
theorem host_with_forge_suffix (h x : Bytes) (hh : HostChars h) (hd : NoEdgeDots h) :
    cleanHost (h ++ 0 :: x) = lower h := by
  unfold cleanHost clearVirtualHost
  rw [beforeNul_append h _ (fun b hb => (hh b hb).1), beforeNul_nul, List.append_nil,
    beforeTriple_id h (fun b hb => (hh b hb).2.1), trimDots_id h hd,
    hostStr_noColon h (fun b hb => (hh b hb).2.2.1)]

/-- "<host>///<anything>" (TCPShield real-ip data, possibly followed by a Forge marker and the port) -/
theorem host_with_tcpshield_suffix (h x : Bytes) (hh : HostChars h) (hd : NoEdgeDots h) :
    cleanHost (h ++ 47 :: 47 :: 47 :: x) = lower h := by
  unfold cleanHost clearVirtualHost
  rw [beforeNul_append h _ (fun b hb => (hh b hb).1), beforeTriple_append h _ (fun b hb => (hh b hb).2.1)]
  have : beforeTriple (beforeNul (47 :: 47 :: 47 :: x)) = [] := by
    simp [beforeNul, beforeTriple]
  rw [this, List.append_nil, trimDots_id h hd, hostStr_noColon h (fun b hb => (hh b hb).2.2.1)]

/-- a bare host -/
theorem host_bare (h : Bytes) (hh : HostChars h) (hd : NoEdgeDots h) : cleanHost h = lower h := by
  unfold cleanHost clearVirtualHost
  rw [beforeNul_id h (fun b hb => (hh b hb).1), beforeTriple_id h (fun b hb => (hh b hb).2.1), trimDots_id h hd,
    hostStr_noColon h (fun b hb => (hh b hb).2.2.1)]

/-- hence: two spellings of hosts that differ only in case (and port) select the same forced-host entry -/
theorem forced_lookup_spelling_independent (forced : List (Bytes × List Name)) (h₁ h₂ p₁ p₂ : Bytes)
    (hh₁ : HostChars h₁) (hd₁ : NoEdgeDots h₁) (hh₂ : HostChars h₂) (hd₂ : NoEdgeDots h₂)
    (hp₁ : ∀ b ∈ p₁, b ≠ 0 ∧ b ≠ 46 ∧ b ≠ 47 ∧ b ≠ 58 ∧ b ≠ 91 ∧ b ≠ 93)
    (hp₂ : ∀ b ∈ p₂, b ≠ 0 ∧ b ≠ 46 ∧ b ≠ 47 ∧ b ≠ 58 ∧ b ≠ 91 ∧ b ≠ 93) (hcase : lower h₁ = lower h₂) :
    lookupForced forced (cleanHost (h₁ ++ 58 :: p₁)) = lookupForced forced (cleanHost (h₂ ++ 58 :: p₂)) := by
  rw [host_with_port h₁ p₁ hh₁ hd₁ hp₁, host_with_port h₂ p₂ hh₂ hd₂ hp₂, hcase]

/-- what the real code does NOT remove (outside the property's statement, recorded): a trailing dot in front of
    a port survives, behind a Forge marker it is trimmed -/
-- "play.example.com.:25565" ↦ "play.example.com."
example : cleanHost [112, 108, 97, 121, 46, 101, 120, 97, 109, 112, 108, 101, 46, 99, 111, 109, 46, 58, 50, 53, 53, 54, 53] = [112, 108, 97, 121, 46, 101, 120, 97, 109, 112, 108, 101, 46, 99, 111, 109, 46] := by decide
-- "play.example.com.\0FML\0:25565" ↦ "play.example.com"
example : cleanHost [112, 108, 97, 121, 46, 101, 120, 97, 109, 112, 108, 101, 46, 99, 111, 109, 46, 0, 70, 77, 76, 0, 58, 50, 53, 53, 54, 53] = [112, 108, 97, 121, 46, 101, 120, 97, 109, 112, 108, 101, 46, 99, 111, 109] := by decide
-- "PLAY.Example.COM///10.0.0.1:5///17\0FML\0:25565" ↦ "play.example.com"
example : cleanHost [80, 76, 65, 89, 46, 69, 120, 97, 109, 112, 108, 101, 46, 67, 79, 77, 47, 47, 47, 49, 48, 46, 48, 46, 48, 46, 49, 58, 53, 47, 47, 47, 49, 55, 0, 70, 77, 76, 0, 58, 50, 53, 53, 54, 53] = [112, 108, 97, 121, 46, 101, 120, 97, 109, 112, 108, 101, 46, 99, 111, 109] := by decide

/-! ### the choice -/

/-- The model's choice IS the property's choice: the first entry at or after the cursor that is registered and
    is neither the failed (`cur`), the current nor the in-flight server. -/
theorem next_is_spec_choice (w : World) (s : PState) (cur : Option Name) :
    (nextServerToTry .repaired w s cur).2 =
      specChoice w.reg (chosenList w s) s.idx (optList cur ++ optList s.conn ++ optList s.infl) := by
  have hskip : ∀ n, skips .repaired s cur n =
      (optList cur ++ optList s.conn ++ optList s.infl).any (fun x => lower x = lower n) := by
    intro n
    cases cur <;> cases hc : s.conn <;> cases hi : s.infl <;>
      simp [skips, same, optList, hc, hi, Bool.or_comm]
  have hscan : ∀ (l : List Name) (i idx : Nat),
      (scan (skips .repaired s cur) (lookupReg w.reg) l i idx).2 =
        l.findSome? (fun n => if (optList cur ++ optList s.conn ++ optList s.infl).any (fun x => lower x = lower n)
          then none else lookupReg w.reg n) := by
    intro l
    induction l with
    | nil => intro i idx; rfl
    | cons n rest ih =>
      intro i idx
      simp only [scan, List.findSome?_cons, hskip n]
      by_cases hx : (optList cur ++ optList s.conn ++ optList s.infl).any (fun x => lower x = lower n) = true
      · simp only [hx, if_true]; exact ih _ _
      · simp only [hx, Bool.false_eq_true, if_false]
        cases hr : lookupReg w.reg n with
        | some r => rfl
        | none => exact ih _ _
  unfold nextServerToTry specChoice
  by_cases he : (chosenList w s).isEmpty = true
  · have : chosenList w s = [] := by simpa using he
    simp [this]
  · simp only [he]
    exact hscan _ _ _

/-- A joining player (fresh state, nothing to skip) is sent to the first registered server listed for its
    virtual host, or of the try list when there is no (non-empty) forced-host entry. -/
theorem initial_choice (w : World) :
    (nextServerToTry .repaired w PState.fresh none).2 =
      (let f := lookupForced w.forced (cleanHost w.vhost)
       (if f.isEmpty then w.try_ else f).findSome? (lookupReg w.reg)) := by
  rw [next_is_spec_choice]
  simp [specChoice, chosenList, PState.fresh, optList]

/-- After a kick from `failed`: the server returned is registered, is listed at the new cursor position, and is
    none of the failed, the current and the in-flight server; every earlier position from the old cursor on
    was excluded or unregistered. -/
theorem next_after_kick (w : World) (s s' : PState) (failed r : Name)
    (h : nextServerToTry .repaired w s (some failed) = (s', some r)) :
    r ∈ w.reg ∧ r ≠ failed ∧ s.conn ≠ some r ∧ s.infl ≠ some r ∧
    ∃ n, (chosenList w s)[s'.idx]? = some n ∧ s.idx ≤ s'.idx ∧ lookupReg w.reg n = some r ∧
      ∀ j n', s.idx ≤ j → j < s'.idx → (chosenList w s)[j]? = some n' →
        skips .repaired s (some failed) n' = true ∨ lookupReg w.reg n' = none := by
  obtain ⟨_, _, _, _, _, n, hn, hle, hreg, hskip, hbefore⟩ := next_some h
  obtain ⟨hmem, hlow⟩ := lookupReg_lower hreg
  simp only [skips, Bool.or_eq_false_iff] at hskip
  obtain ⟨⟨hc, hi⟩, hf⟩ := hskip
  refine ⟨hmem, ?_, ?_, ?_, n, hn, hle, hreg, hbefore⟩
  · intro he; subst he
    exact same_repaired_false hf r rfl hlow
  · intro he
    exact same_repaired_false hc r he hlow
  · intro he
    exact same_repaired_false hi r he hlow

/-- When the call returns nothing, no listed server from the cursor on is registered and eligible. -/
theorem none_left (w : World) (s s' : PState) (cur : Option Name)
    (h : nextServerToTry .repaired w s cur = (s', none)) :
    ∀ j n, s.idx ≤ j → (chosenList w s)[j]? = some n →
      skips .repaired s cur n = true ∨ lookupReg w.reg n = none := next_none h

/-- … and then the player is disconnected with the given reason (one event, DisconnectPlayerKickResult). -/
theorem exhausted_disconnects (w : World) (fuel : Nat) (s s' : PState) (rs : Name) (reason : Bytes)
    (ha : s.active = true) (hcur : s.conn = none ∨ s.conn = some rs)
    (h : nextServerToTry .repaired w s (some rs) = (s', none)) :
    (kick .repaired w (fuel + 1) s rs reason true).evs = [⟨rs, false, .disconnect reason⟩] ∧
    (kick .repaired w (fuel + 1) s rs reason true).st.active = false := by
  have hc : (s.conn.isNone || s.conn == some rs) = true := by
    rcases hcur with h1 | h1 <;> simp [h1]
  simp [kick, ha, hc, h]

/-- A kick from a server that is not the current one (a failed switch) only notifies: the player stays. -/
theorem notify_when_not_current (w : World) (fuel : Nat) (s : PState) (rs cur : Name) (reason : Bytes)
    (ha : s.active = true) (hconn : s.conn = some cur) (hne : cur ≠ rs) :
    (kick .repaired w (fuel + 1) s rs reason true).evs = [⟨rs, true, .notify reason⟩] ∧
    (kick .repaired w (fuel + 1) s rs reason true).st = { s with infl := none } := by
  have hc : (s.conn.isNone || s.conn == some rs) = false := by simp [hconn, hne]
  simp [kick, ha, hc]

/-- connecting resets the cursor -/
theorem cursor_reset_on_connect (s : PState) (c : Option Name) : (setConnected s c).idx = 0 := rfl

/-! ### sequences of failures -/

/-- Re-entered after a redirect to `rs` failed, the choice moves strictly forward in the list. -/
theorem failed_redirect_moves_on (w : World) (L : List Name) (s s' : PState) (rs r : Name)
    (hot : Hot w L s rs) (h : nextServerToTry .repaired w s (some rs) = (s', some r)) : s.idx < s'.idx :=
  (next_hot hot h).1

/-- A chain of failing redirects always ends: with fuel ≥ length of the list + 2 the model never runs out of
    fuel, for every configuration, state, failed server and reason (the real recursion is bounded). -/
theorem chain_always_ends (w : World) (s : PState) (rs : Name) (reason : Bytes) (safe : Bool) (fuel : Nat)
    (hf : (chosenList w s).length + 2 ≤ fuel) :
    (kick .repaired w fuel s rs reason safe).runaway = false := by
  cases fuel with
  | zero => omega
  | succ fuel =>
    simp only [kick]
    by_cases ha : s.active = true
    · by_cases hs : safe = true
      · by_cases hc : (s.conn.isNone || s.conn == some rs) = true
        · simp only [ha, hs, hc, Bool.not_true, Bool.false_eq_true, ↓reduceIte]
          cases hnx : nextServerToTry .repaired w s (some rs) with
          | mk s1 next =>
            cases next with
            | none => rfl
            | some r =>
              obtain ⟨hl, hne, _, _, _, n, hn, _, hreg, _, _⟩ := next_some hnx
              have hot : Hot w (chosenList w s) { s1 with infl := none, conn := none } r :=
                ⟨hl, hne, rfl, rfl, n, hn, hreg⟩
              have := kick_hot_no_runaway w (chosenList w s) fuel { s1 with infl := none, conn := none } r
                (unableMsg r) hot (by dsimp only; omega)
              simpa using this
        · simp [ha, hs, hc]
      · simp [ha, hs]
    · simp [ha]

/-! ### the pre-fix comparison (`rs.ServerInfo().Name() == name`) violates the property -/

def nLobby : Name := [76, 111, 98, 98, 121]   -- "Lobby"
def nlobby : Name := [108, 111, 98, 98, 121]   -- "lobby"
def ns1 : Name := [115, 49]
def ns2 : Name := [115, 50]

/-- try: ["Lobby"], registered: "lobby" -/
def lobbyWorld : World := { forced := [], try_ := [nLobby], reg := [nlobby], vhost := [120, 58, 49] }

/-- the server that just failed is chosen again -/
theorem defective_rechooses_failed_fails :
    ¬ (∀ s' r, nextServerToTry .defective lobbyWorld PState.fresh (some nlobby) = (s', some r) → r ≠ nlobby) := by
  intro h
  have hrun : nextServerToTry .defective lobbyWorld PState.fresh (some nlobby) =
      ({ PState.fresh with list := [nLobby] }, some nlobby) := by decide
  exact h _ _ hrun rfl

/-- … and a chain of failures never ends (any fuel is exhausted; the real code overflowed its stack) -/
theorem defective_chain_runs_away_fails :
    ¬ (kick .defective lobbyWorld 40 PState.fresh nlobby [70] true).runaway = false := by decide

example : (kick .repaired lobbyWorld 40 PState.fresh nlobby [70] true).evs = [⟨nlobby, false, .disconnect [70]⟩] := by
  decide

/-! ### the source has the modelled shape (regenerated facts) -/

theorem source_sameName_lowercases : codeVariant = .repaired := by decide

theorem source_nextServerToTry_shape :
    Gate.Gen.C17.nextServerToTryCalls =
      ["p.mu.Lock", "defer:p.mu.Unlock", "len", "p.getVirtualHostname", "p.config", "len", "p.config", "len", "return",
       "func:{", "rs.ServerInfo", "rs.ServerInfo().Name", "strings.ToLower", "strings.ToLower", "return", "}",
       "len", "p.connectedServer_.Server", "sameName", "p.connInFlight.Server", "sameName", "sameName",
       "p.proxy.Server", "return", "return"] := by decide

theorem source_getVirtualHostname_shape :
    Gate.Gen.C17.getVirtualHostnameCalls =
      ["return", "p.virtualHost.String", "lite.ClearVirtualHost", "netutil.HostStr", "strings.ToLower", "return"] := by
  decide

theorem source_clearVirtualHost_shape :
    Gate.Gen.C17.clearVirtualHostCalls = ["strings.Split", "strings.Split", "strings.Trim", "return"] ∧
    Gate.Gen.C17.forgeSeparator = "\x00" ∧ Gate.Gen.C17.tcpShieldSeparator = "///" ∧
    Gate.Gen.C17.clearVirtualHostStrings = ["."] := by decide

theorem source_hostStr_shape :
    Gate.Gen.C17.splitHostPortCalls =
      ["net.SplitHostPort", "strconv.Atoi", "isMissingPortErr", "isTooManyColonsErr", "uint16", "return"] := by decide

/-- the registry lower-cases the name it looks up; gate's config loaders lower-case forced-host keys -/
theorem source_case_normalisation :
    Gate.Gen.C17.proxyServerCalls.head? = some "strings.ToLower" ∧
    Gate.Gen.C17.finishConfigCandidateCalls.contains "strings.ToLower" = true := by decide

theorem source_kick_result_shape :
    Gate.Gen.C17.handleConnectionErr2Calls =
      ["p.Active", "return", "p.Disconnect", "return", "p.CurrentServer", "currentServer.Server",
       "RegisteredServerEqual", "p.nextServerToTry", "p.mu.Lock", "p.connInFlight.Server", "RegisteredServerEqual",
       "p.resetInFlightConnection0", "p.mu.Unlock", "newKickedFromServerEvent", "p.handleKickEvent"] := by decide

theorem source_messages :
    Gate.Gen.C17.handleConnectionErrStrings.contains "Unable to connect to %q. Try again later." = true ∧
    Gate.Gen.C17.handleDisconnectStrings.contains "Can't connect to server %q: " = true ∧
    Gate.Gen.C17.movedToNewServerStrings = ["The server you were on kicked you: "] := by decide

/-! ### non-vacuity -/

-- "play.example.com"
example : HostChars [112, 108, 97, 121, 46, 101, 120, 97, 109, 112, 108, 101, 46, 99, 111, 109] ∧ NoEdgeDots [112, 108, 97, 121, 46, 101, 120, 97, 109, 112, 108, 101, 46, 99, 111, 109] := by
  constructor
  · intro b hb; revert b; decide
  · exact ⟨by decide, by decide⟩

/-- forced hosts: play.example.com → [s1, s2]; try: [lobby]; registered: s2, lobby; virtual host
    "PLAY.example.com\0FML\0:25565" -/
def demoWorld : World :=
  { forced := [([112, 108, 97, 121, 46, 101, 120, 97, 109, 112, 108, 101, 46, 99, 111, 109], [ns1, ns2])], try_ := [nlobby], reg := [ns2, nlobby], vhost := [80, 76, 65, 89, 46, 101, 120, 97, 109, 112, 108, 101, 46, 99, 111, 109, 0, 70, 77, 76, 0, 58, 50, 53, 53, 54, 53] }

example : (nextServerToTry .repaired demoWorld PState.fresh none).2 = some ns2 := by decide
example : (nextServerToTry .repaired demoWorld { PState.fresh with list := [ns1, ns2], idx := 1 } (some ns2)).2 = none := by
  decide

end Gate.C17.Props
