import GateModel.C17.Model
/-
C17 helper lemmas: string-level facts about the host normalisation, the characterisation of the cursor loop,
and the progress argument for a chain of failing redirects.
-/
namespace Gate.C17
open Gate

/-! ### host normalisation -/

/-- bytes that cannot occur in a plain host name as far as the normalisation is concerned:
    NUL (Forge separator), '/', ':', '[' and ']' -/
def HostChars (h : Bytes) : Prop := ∀ b ∈ h, b ≠ 0 ∧ b ≠ 47 ∧ b ≠ 58 ∧ b ≠ 91 ∧ b ≠ 93

def NoEdgeDots (h : Bytes) : Prop := h.head? ≠ some 46 ∧ h.getLast? ≠ some 46

theorem beforeNul_append (h r : Bytes) (hh : ∀ b ∈ h, b ≠ 0) : beforeNul (h ++ r) = h ++ beforeNul r := by
  induction h with
  | nil => rfl
  | cons b t ih =>
    have hb : b ≠ 0 := hh b (by simp)
    simp only [List.cons_append, beforeNul, if_neg hb]
    rw [ih (fun x hx => hh x (by simp [hx]))]

theorem beforeNul_nul (x : Bytes) : beforeNul (0 :: x) = [] := by simp [beforeNul]
theorem beforeNul_id (h : Bytes) (hh : ∀ b ∈ h, b ≠ 0) : beforeNul h = h := by
  have := beforeNul_append h [] hh
  simpa [beforeNul] using this

theorem beforeTriple_append (h r : Bytes) (hh : ∀ b ∈ h, b ≠ 47) : beforeTriple (h ++ r) = h ++ beforeTriple r := by
  induction h with
  | nil => rfl
  | cons b t ih =>
    have hb : b ≠ 47 := hh b (by simp)
    simp only [List.cons_append, beforeTriple]
    rw [if_neg (fun h => hb h.1), ih (fun x hx => hh x (by simp [hx]))]

theorem beforeTriple_triple (x : Bytes) : beforeTriple (47 :: 47 :: 47 :: x) = [] := by simp [beforeTriple]
theorem beforeTriple_id (h : Bytes) (hh : ∀ b ∈ h, b ≠ 47) : beforeTriple h = h := by
  have := beforeTriple_append h [] hh
  simpa [beforeTriple] using this

theorem dropDots_id (s : Bytes) (h : s.head? ≠ some 46) : dropDots s = s := by
  cases s with
  | nil => rfl
  | cons b t =>
    have : b ≠ 46 := by simpa using h
    simp [dropDots, List.dropWhile, this]

theorem trimDots_id (s : Bytes) (h : NoEdgeDots s) : trimDots s = s := by
  unfold trimDots
  rw [dropDots_id s h.1, dropDots_id s.reverse (by simpa using h.2), List.reverse_reverse]

theorem lastIndexOf_none (c : UInt8) (p : Bytes) (h : ∀ b ∈ p, b ≠ c) : lastIndexOf c p = none := by
  induction p with
  | nil => rfl
  | cons b t ih =>
    have hb : b ≠ c := h b (by simp)
    simp [lastIndexOf, ih (fun x hx => h x (by simp [hx])), hb]

theorem lastIndexOf_append (c : UInt8) (h p : Bytes) (hp : ∀ b ∈ p, b ≠ c) :
    lastIndexOf c (h ++ c :: p) = some h.length := by
  induction h with
  | nil => simp [lastIndexOf, lastIndexOf_none c p hp]
  | cons b t ih => simp [lastIndexOf, ih]

theorem contains_false_of (c : UInt8) (s : Bytes) (h : ∀ b ∈ s, b ≠ c) : s.contains c = false := by
  cases hc : s.contains c with
  | false => rfl
  | true =>
    have := List.contains_iff_mem.mp hc
    exact absurd rfl (h c this)

theorem hostStr_noColon (h : Bytes) (hh : ∀ b ∈ h, b ≠ 58) : hostStr h = h := by
  simp [hostStr, lastIndexOf_none 58 h hh]

/-- "<host>:<port>" → host, for a host without the special bytes and a port without ':' '[' ']' -/
theorem hostStr_hostPort (h p : Bytes) (hh : HostChars h) (hp : ∀ b ∈ p, b ≠ 58 ∧ b ≠ 91 ∧ b ≠ 93) :
    hostStr (h ++ 58 :: p) = h := by
  have hl := lastIndexOf_append 58 h p (fun b hb => (hp b hb).1)
  have hhead : (h ++ 58 :: p).head? ≠ some 91 := by
    cases h with
    | nil => simp
    | cons b t =>
      have := (hh b (by simp)).2.2.2.1
      simpa using this
  have h58 : (List.take h.length (h ++ 58 :: p)).contains 58 = false := by
    rw [List.take_left']
    · exact contains_false_of 58 h (fun b hb => (hh b hb).2.2.1)
    · rfl
  have hmem : ∀ c : UInt8, c ≠ 58 → (∀ b ∈ h, b ≠ c) → (∀ b ∈ p, b ≠ c) → (h ++ 58 :: p).contains c = false := by
    intro c hc h1 h2
    apply contains_false_of
    intro b hb
    simp only [List.mem_append, List.mem_cons] at hb
    rcases hb with hb | hb | hb
    · exact h1 b hb
    · rw [hb]; exact fun h => hc h.symm
    · exact h2 b hb
  have h91 := hmem 91 (by decide) (fun b hb => (hh b hb).2.2.2.1) (fun b hb => (hp b hb).2.1)
  have h93 := hmem 93 (by decide) (fun b hb => (hh b hb).2.2.2.2) (fun b hb => (hp b hb).2.2)
  simp only [hostStr, hl]
  rw [if_neg hhead]
  simp only [h58, h91, h93]
  simp [List.take_left']

theorem lower_append (a b : Bytes) : lower (a ++ b) = lower a ++ lower b := by simp [lower]

/-! ### the cursor loop -/

theorem scan_some {skip : Name → Bool} {reg : Name → Option Name} :
    ∀ {l : List Name} {i idx j : Nat} {r : Name}, scan skip reg l i idx = (j, some r) →
      ∃ k n, l[k]? = some n ∧ j = i + k ∧ skip n = false ∧ reg n = some r ∧
        ∀ k' n', k' < k → l[k']? = some n' → skip n' = true ∨ reg n' = none
  | [], i, idx, j, r, h => by simp [scan] at h
  | n :: rest, i, idx, j, r, h => by
    simp only [scan] at h
    by_cases hs : skip n = true
    · rw [if_pos hs] at h
      obtain ⟨k, m, hk, hj, h1, h2, h3⟩ := scan_some h
      refine ⟨k + 1, m, by simpa using hk, by omega, h1, h2, ?_⟩
      intro k' n' hk' hn'
      cases k' with
      | zero => simp at hn'; subst hn'; exact Or.inl hs
      | succ k'' => exact h3 k'' n' (by omega) (by simpa using hn')
    · rw [if_neg hs] at h
      cases hr : reg n with
      | some r' =>
        rw [hr] at h
        simp only [Prod.mk.injEq, Option.some.injEq] at h
        refine ⟨0, n, by simp, by omega, by simpa using hs, by rw [hr, h.2], ?_⟩
        intro k' n' hk' _
        omega
      | none =>
        rw [hr] at h
        obtain ⟨k, m, hk, hj, h1, h2, h3⟩ := scan_some h
        refine ⟨k + 1, m, by simpa using hk, by omega, h1, h2, ?_⟩
        intro k' n' hk' hn'
        cases k' with
        | zero => simp at hn'; subst hn'; exact Or.inr hr
        | succ k'' => exact h3 k'' n' (by omega) (by simpa using hn')

theorem scan_none {skip : Name → Bool} {reg : Name → Option Name} :
    ∀ {l : List Name} {i idx j : Nat}, scan skip reg l i idx = (j, none) →
      ∀ n ∈ l, skip n = true ∨ reg n = none
  | [], _, _, _, _ => by simp
  | n :: rest, i, idx, j, h => by
    simp only [scan] at h
    intro m hm
    by_cases hs : skip n = true
    · rw [if_pos hs] at h
      rcases List.mem_cons.mp hm with rfl | hm'
      · exact Or.inl hs
      · exact scan_none h m hm'
    · rw [if_neg hs] at h
      cases hr : reg n with
      | some r' => rw [hr] at h; simp at h
      | none =>
        rw [hr] at h
        rcases List.mem_cons.mp hm with rfl | hm'
        · exact Or.inr hr
        · exact scan_none h m hm'

/-- with nothing to skip the loop returns the first registered entry -/
theorem scan_noskip {skip : Name → Bool} {reg : Name → Option Name} :
    ∀ (l : List Name) (i idx : Nat), (∀ n ∈ l, skip n = false) → (scan skip reg l i idx).2 = l.findSome? reg
  | [], _, _, _ => rfl
  | n :: rest, i, idx, h => by
    have hn : skip n = false := h n (by simp)
    simp only [scan, hn, List.findSome?_cons]
    cases hr : reg n with
    | some r => simp
    | none => simpa using scan_noskip rest (i + 1) i (fun m hm => h m (by simp [hm]))

theorem lookupReg_lower {reg : List Name} {n r : Name} (h : lookupReg reg n = some r) :
    r ∈ reg ∧ lower r = lower n := by
  unfold lookupReg at h
  have h1 := List.find?_some h
  have h2 := List.mem_of_find?_eq_some h
  exact ⟨h2, by simpa using h1⟩

theorem same_repaired_of_lower {a n : Name} (h : lower a = lower n) : same .repaired (some a) n = true := by
  simp [same, h]

theorem same_repaired_false {a : Option Name} {n : Name} (h : same .repaired a n = false) :
    ∀ x, a = some x → lower x ≠ lower n := by
  intro x hx
  subst hx
  simpa [same] using h

/-! ### nextServerToTry -/

theorem chosenList_of_nonempty (w : World) (s : PState) (h : s.list ≠ []) : chosenList w s = s.list := by
  unfold chosenList
  have : s.list.isEmpty = false := by
    cases hl : s.list with
    | nil => exact absurd hl h
    | cons a t => rfl
  simp [this]

/-- everything a successful call guarantees (repaired code) -/
theorem next_some {w : World} {s s1 : PState} {cur : Option Name} {r : Name}
    (h : nextServerToTry .repaired w s cur = (s1, some r)) :
    let L := chosenList w s
    s1.list = L ∧ L ≠ [] ∧ s1.conn = s.conn ∧ s1.infl = s.infl ∧ s1.active = s.active ∧
    ∃ n, L[s1.idx]? = some n ∧ s.idx ≤ s1.idx ∧ lookupReg w.reg n = some r ∧
      skips .repaired s cur n = false ∧
      ∀ j n', s.idx ≤ j → j < s1.idx → L[j]? = some n' →
        skips .repaired s cur n' = true ∨ lookupReg w.reg n' = none := by
  intro L
  unfold nextServerToTry at h
  by_cases he : (chosenList w s).isEmpty = true
  · simp [he] at h
  · simp only [he] at h
    cases hsc : scan (skips .repaired s cur) (lookupReg w.reg) ((chosenList w s).drop s.idx) s.idx s.idx with
    | mk j r' =>
      rw [hsc] at h
      simp only [Bool.false_eq_true, ↓reduceIte, Prod.mk.injEq] at h
      obtain ⟨hs1, hr⟩ := h
      subst hr
      obtain ⟨k, n, hk, hj, h1, h2, h3⟩ := scan_some hsc
      subst hs1
      refine ⟨rfl, ?_, rfl, rfl, rfl, n, ?_, by dsimp only; omega, h2, h1, ?_⟩
      · intro hn; apply he; have hn' : chosenList w s = [] := hn; rw [hn']; rfl
      · dsimp only
        rw [hj, ← List.getElem?_drop]; exact hk
      · intro j' n' hlo hhi hn'
        dsimp only at hhi
        refine h3 (j' - s.idx) n' (by omega) ?_
        rw [List.getElem?_drop]
        have : s.idx + (j' - s.idx) = j' := by omega
        rw [this]; exact hn'

/-- nothing eligible is left when the call fails -/
theorem next_none {w : World} {s s1 : PState} {cur : Option Name}
    (h : nextServerToTry .repaired w s cur = (s1, none)) :
    ∀ j n, s.idx ≤ j → (chosenList w s)[j]? = some n →
      skips .repaired s cur n = true ∨ lookupReg w.reg n = none := by
  unfold nextServerToTry at h
  by_cases he : (chosenList w s).isEmpty = true
  · intro j n _ hn
    have : chosenList w s = [] := by simpa using he
    rw [this] at hn; simp at hn
  · simp only [he] at h
    cases hsc : scan (skips .repaired s cur) (lookupReg w.reg) ((chosenList w s).drop s.idx) s.idx s.idx with
    | mk j r' =>
      rw [hsc] at h
      simp only [Bool.false_eq_true, ↓reduceIte, Prod.mk.injEq] at h
      obtain ⟨_, hr⟩ := h
      subst hr
      intro j' n hlo hn
      refine scan_none hsc n ?_
      have : ((chosenList w s).drop s.idx)[j' - s.idx]? = some n := by
        rw [List.getElem?_drop]
        have : s.idx + (j' - s.idx) = j' := by omega
        rw [this]; exact hn
      exact List.mem_of_getElem? this

/-! ### a chain of failing redirects makes progress -/

/-- the state in which handleConnectionErr2 is re-entered after a redirect to `rs` failed -/
structure Hot (w : World) (L : List Name) (s : PState) (rs : Name) : Prop where
  list_eq : s.list = L
  ne      : L ≠ []
  conn    : s.conn = none
  infl    : s.infl = none
  at_idx  : ∃ n', L[s.idx]? = some n' ∧ lookupReg w.reg n' = some rs

theorem next_hot {w : World} {L : List Name} {s s1 : PState} {rs r : Name} (hot : Hot w L s rs)
    (h : nextServerToTry .repaired w s (some rs) = (s1, some r)) :
    s.idx < s1.idx ∧ Hot w L { s1 with infl := none, conn := none } r := by
  have hL : chosenList w s = L := by
    rw [chosenList_of_nonempty w s (by rw [hot.list_eq]; exact hot.ne), hot.list_eq]
  obtain ⟨hl, hne, _, _, _, n, hn, hle, hreg, hskip, _⟩ := next_some h
  rw [hL] at hl hn
  obtain ⟨n', hn', hreg'⟩ := hot.at_idx
  have hlt : s.idx < s1.idx := by
    rcases Nat.lt_or_ge s.idx s1.idx with h1 | h1
    · exact h1
    · exfalso
      have heq : s1.idx = s.idx := by omega
      rw [heq, hn'] at hn
      simp only [Option.some.injEq] at hn
      subst hn
      have := same_repaired_of_lower (lookupReg_lower hreg').2
      simp [skips, this] at hskip
  exact ⟨hlt, ⟨hl, hot.ne, rfl, rfl, n, hn, hreg⟩⟩

theorem kick_hot_no_runaway (w : World) (L : List Name) :
    ∀ (fuel : Nat) (s : PState) (rs : Name) (fr : Bytes), Hot w L s rs → L.length - s.idx ≤ fuel →
      (kick .repaired w fuel s rs fr true).runaway = false
  | 0, s, rs, _, hot, hf => by
    exfalso
    obtain ⟨n', hn', _⟩ := hot.at_idx
    have : s.idx < L.length := by
      rcases Nat.lt_or_ge s.idx L.length with h | h
      · exact h
      · rw [List.getElem?_eq_none h] at hn'; simp at hn'
    omega
  | fuel + 1, s, rs, fr, hot, hf => by
    simp only [kick]
    by_cases ha : s.active = true
    · simp only [ha, Bool.not_true, Bool.false_eq_true, ↓reduceIte, hot.conn, Option.isNone_none, Bool.true_or]
      cases hnx : nextServerToTry .repaired w s (some rs) with
      | mk s1 next =>
        cases next with
        | none => rfl
        | some r =>
          obtain ⟨hlt, hot'⟩ := next_hot hot hnx
          have := kick_hot_no_runaway w L fuel { s1 with infl := none, conn := none } r (unableMsg r) hot'
            (by dsimp only; omega)
          simpa using this
    · simp [ha]

end Gate.C17
