import GateModel.Base.Line
import GateModel.C17.Spec
/-
C17 driver (stateful).  Case lines as written by harness/c17/main.go:

  vh <vhostHex>  |  vhs <hostHex> <vhostHex>        → hex of cleanHost
  reset <vhostHex> <forced> <try> <registered>      → ok
  next <current|->                                  → ret=<name|-> idx=<i> list=<n,n|->
  conn <name|->  |  infl <name|->                   → ok
  kick <name> <safe> <e|d>                          → <events> active=<a> idx=<i> conn=<c> infl=<f> dials=<d>[ runaway]

The model runs the code variant the regenerated facts say the source is (`codeVariant`).
Verdicts (on the IMPLEMENTATION's output): `vhs` → hostVerdict, `next` → nextVerdict (reference choice over the
tracked state), `kick` → chainVerdict, and for a kick from the current server firstKickVerdict
(the first redirect must be the reference choice given the failed, current AND in-flight server at that moment).
-/
namespace Gate.C17
open Gate

def nameOfString (s : String) : Name := s.toUTF8.toList
def stringOfName (n : Name) : String := String.ofList (n.map fun b => Char.ofNat b.toNat)
def showOpt : Option Name → String
  | none => "-"
  | some n => stringOfName n
def showList (l : List Name) : String := if l.isEmpty then "-" else ",".intercalate (l.map stringOfName)
def parseOptName (s : String) : Option Name := if s = "-" then none else some (nameOfString s)
def parseNames (s : String) : List Name := if s = "-" then [] else (s.splitOn ",").map nameOfString

def parseForced (s : String) : Option (List (Bytes × List Name)) :=
  if s = "-" then some [] else
  (s.splitOn ";").mapM fun e => match e.splitOn "=" with
    | [k, l] => do pure (← parseHex k, parseNames l)
    | _ => none

def showEv (e : Ev) : String :=
  stringOfName e.src ++ ">" ++ (match e.res with
    | .disconnect r => "D:" ++ (if e.during then "1" else "0") ++ ":" ++ toHex r
    | .redirect t => "R:" ++ (if e.during then "1" else "0") ++ ":" ++ stringOfName t
    | .notify m => "N:" ++ (if e.during then "1" else "0") ++ ":" ++ toHex m)

def showOut (o : Out) : String :=
  (if o.evs.isEmpty then "-" else "|".intercalate (o.evs.map showEv)) ++
  " active=" ++ (if o.st.active then "1" else "0") ++ " idx=" ++ toString o.st.idx ++
  " conn=" ++ showOpt o.st.conn ++ " infl=" ++ showOpt o.st.infl ++ " dials=" ++ toString o.dials ++
  (if o.runaway then " runaway" else "")

/-- `<src>><K>:<d>:<x>` of the implementation's line → (src, K, target-or-empty) -/
def parseImplEvents (s : String) : List (Name × Char × Name) :=
  if s = "-" then [] else
  (s.splitOn "|").filterMap fun e => match e.splitOn ">" with
    | [src, rest] => match rest.splitOn ":" with
      | [k, _, x] => some (nameOfString src, k.toList.headD '?', if k = "R" then nameOfString x else [])
      | _ => none
    | _ => none

structure DState where
  w : World
  s : PState

def dinit : DState := ⟨⟨[], [], [], []⟩, PState.fresh⟩

def fieldOf (impl : String) (key : String) : Option String :=
  (impl.splitOn " ").findSome? fun t => if t.startsWith key then some (t.drop key.length).toString else none

def stepCase (d : DState) (c : Case) : DState × String × String :=
  match c.op, c.args with
  | "vh", [v] => match parseHex v with
    | some bs => (d, toHex (cleanHost bs), "-")
    | none => (d, "bad-case", "-")
  | "vhs", [h, v] => match parseHex h, parseHex v with
    | some hb, some bs =>
      (d, toHex (cleanHost bs), match parseHex c.impl with
        | some ib => hostVerdict hb ib
        | none => "viol:unparsable-output")
    | _, _ => (d, "bad-case", "-")
  | "reset", [v, f, t, r] => match parseHex v, parseForced f with
    | some vb, some fs => (⟨⟨fs, parseNames t, parseNames r, vb⟩, PState.fresh⟩, "ok", "-")
    | _, _ => (d, "bad-case", "-")
  | "next", [cur] =>
    let cu := parseOptName cur
    let (s', r) := nextServerToTry codeVariant d.w d.s cu
    let verdict := match fieldOf c.impl "ret=" with
      | some x => nextVerdict d.w d.s cu (parseOptName x)
      | none => "viol:unparsable-output"
    (⟨d.w, s'⟩, "ret=" ++ showOpt r ++ " idx=" ++ toString s'.idx ++ " list=" ++ showList s'.list, verdict)
  | "conn", [n] => (⟨d.w, setConnected d.s (parseOptName n)⟩, "ok", "-")
  | "infl", [n] => (⟨d.w, { d.s with infl := parseOptName n }⟩, "ok", "-")
  | "kick", [n, safe, mode] =>
    let rs := nameOfString n
    let o := if mode = "d" then backendKick codeVariant d.w 64 d.s rs [75] (safe = "1")
             else kick codeVariant d.w 64 d.s rs [70] (safe = "1")
    let implEvs := parseImplEvents ((c.impl.splitOn " ").headD "-")
    let v1 := chainVerdict implEvs ((c.impl.splitOn " ").contains "runaway")
    let fromCurrent := d.s.active && safe = "1" && (d.s.conn.isNone || d.s.conn == some rs)
    let verdict := if v1 != "ok" then v1
      else if fromCurrent then firstKickVerdict d.w d.s rs implEvs.head? else v1
    (⟨d.w, o.st⟩, showOut o, verdict)
  | _, _ => (d, "bad-case", "-")

end Gate.C17

def main : IO Unit := Gate.runDriver Gate.C17.dinit Gate.C17.stepCase
