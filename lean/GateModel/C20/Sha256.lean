import GateModel.Base.Bytes
/-
C20 — SHA-256 (FIPS 180-4) and HMAC (RFC 2104) over byte lists.  Core Lean only.

Written for this property (crypto/sha256 and crypto/hmac are the external functions Go calls); the
correspondence run compares these definitions with Go's on every generated payload, the `#guard`s
below compare them with the published test vectors at build time.  No theorem depends on any
cryptographic quality of the function — only on `hmacSha256` being a function with 32-byte output.
-/
namespace Gate.C20

def K : Array UInt32 := #[
  0x428a2f98, 0x71374491, 0xb5c0fbcf, 0xe9b5dba5, 0x3956c25b, 0x59f111f1, 0x923f82a4, 0xab1c5ed5,
  0xd807aa98, 0x12835b01, 0x243185be, 0x550c7dc3, 0x72be5d74, 0x80deb1fe, 0x9bdc06a7, 0xc19bf174,
  0xe49b69c1, 0xefbe4786, 0x0fc19dc6, 0x240ca1cc, 0x2de92c6f, 0x4a7484aa, 0x5cb0a9dc, 0x76f988da,
  0x983e5152, 0xa831c66d, 0xb00327c8, 0xbf597fc7, 0xc6e00bf3, 0xd5a79147, 0x06ca6351, 0x14292967,
  0x27b70a85, 0x2e1b2138, 0x4d2c6dfc, 0x53380d13, 0x650a7354, 0x766a0abb, 0x81c2c92e, 0x92722c85,
  0xa2bfe8a1, 0xa81a664b, 0xc24b8b70, 0xc76c51a3, 0xd192e819, 0xd6990624, 0xf40e3585, 0x106aa070,
  0x19a4c116, 0x1e376c08, 0x2748774c, 0x34b0bcb5, 0x391c0cb3, 0x4ed8aa4a, 0x5b9cca4f, 0x682e6ff3,
  0x748f82ee, 0x78a5636f, 0x84c87814, 0x8cc70208, 0x90befffa, 0xa4506ceb, 0xbef9a3f7, 0xc67178f2]

@[inline] def rotr (x : UInt32) (n : UInt32) : UInt32 := (x >>> n) ||| (x <<< (32 - n))

/-- the eight working/chaining words -/
structure H8 where
  a : UInt32
  b : UInt32
  c : UInt32
  d : UInt32
  e : UInt32
  f : UInt32
  g : UInt32
  h : UInt32

def H8.init : H8 :=
  ⟨0x6a09e667, 0xbb67ae85, 0x3c6ef372, 0xa54ff53a, 0x510e527f, 0x9b05688c, 0x1f83d9ab, 0x5be0cd19⟩

def word (b0 b1 b2 b3 : UInt8) : UInt32 :=
  (b0.toUInt32 <<< 24) ||| (b1.toUInt32 <<< 16) ||| (b2.toUInt32 <<< 8) ||| b3.toUInt32

/-- big-endian 32-bit words of a block -/
def wordsOf : Bytes → List UInt32
  | b0 :: b1 :: b2 :: b3 :: r => word b0 b1 b2 b3 :: wordsOf r
  | _ => []

/-- message schedule: 16 block words extended to 64 -/
def schedule (w : Array UInt32) : Array UInt32 :=
  (List.range 48).foldl (fun w i =>
    let j := i + 16
    let x15 := w.getD (j - 15) 0
    let x2 := w.getD (j - 2) 0
    let s0 := rotr x15 7 ^^^ rotr x15 18 ^^^ (x15 >>> 3)
    let s1 := rotr x2 17 ^^^ rotr x2 19 ^^^ (x2 >>> 10)
    w.push (w.getD (j - 16) 0 + s0 + w.getD (j - 7) 0 + s1)) w

def round (w : Array UInt32) (s : H8) (i : Nat) : H8 :=
  let S1 := rotr s.e 6 ^^^ rotr s.e 11 ^^^ rotr s.e 25
  let ch := (s.e &&& s.f) ^^^ ((~~~ s.e) &&& s.g)
  let t1 := s.h + S1 + ch + K.getD i 0 + w.getD i 0
  let S0 := rotr s.a 2 ^^^ rotr s.a 13 ^^^ rotr s.a 22
  let maj := (s.a &&& s.b) ^^^ (s.a &&& s.c) ^^^ (s.b &&& s.c)
  let t2 := S0 + maj
  ⟨t1 + t2, s.a, s.b, s.c, s.d + t1, s.e, s.f, s.g⟩

def compress (h : H8) (blk : Bytes) : H8 :=
  let w := schedule (wordsOf blk).toArray
  let s := (List.range 64).foldl (round w) h
  ⟨h.a + s.a, h.b + s.b, h.c + s.c, h.d + s.d, h.e + s.e, h.f + s.f, h.g + s.g, h.h + s.h⟩

/-- `n` 64-byte blocks of `bs` -/
def processBlocks : Nat → H8 → Bytes → H8
  | 0, h, _ => h
  | n + 1, h, bs => processBlocks n (compress h (bs.take 64)) (bs.drop 64)

/-- FIPS 180-4 §5.1.1 padding: 0x80, zeros up to 56 mod 64, 64-bit big-endian bit length -/
def pad (m : Bytes) : Bytes :=
  m ++ [0x80] ++ List.replicate ((119 - m.length % 64) % 64) 0 ++ beBytes 8 (m.length * 8)

def be4 (x : UInt32) : Bytes := beBytes 4 x.toNat

def H8.digest (h : H8) : Bytes :=
  be4 h.a ++ be4 h.b ++ be4 h.c ++ be4 h.d ++ be4 h.e ++ be4 h.f ++ be4 h.g ++ be4 h.h

def sha256 (m : Bytes) : Bytes :=
  let p := pad m
  (processBlocks (p.length / 64) H8.init p).digest

/-- RFC 2104 with B = 64: keys longer than a block are hashed first, then zero-padded. -/
def hmacKeyBlock (key : Bytes) : Bytes :=
  let k := if key.length > 64 then sha256 key else key
  k ++ List.replicate (64 - k.length) 0

def hmacSha256 (key msg : Bytes) : Bytes :=
  let kb := hmacKeyBlock key
  let ikey := kb.map (· ^^^ 0x36)
  let okey := kb.map (· ^^^ 0x5c)
  sha256 (okey ++ sha256 (ikey ++ msg))

/-! build-time sanity checks against published vectors (evaluator, not part of any proof) -/
#guard toHex (sha256 []) = "e3b0c44298fc1c149afbf4c8996fb92427ae41e4649b934ca495991b7852b855"
#guard toHex (sha256 "abc".toUTF8.toList) = "ba7816bf8f01cfea414140de5dae2223b00361a396177a9cb410ff61f20015ad"
#guard toHex (sha256 "abcdbcdecdefdefgefghfghighijhijkijkljklmklmnlmnomnopnopq".toUTF8.toList)
  = "248d6a61d20638b8e5c026930c3e6039a33ce45964ff2167f6ecedd419db06c1"
-- RFC 4231 test case 2
#guard toHex (hmacSha256 "Jefe".toUTF8.toList "what do ya want for nothing?".toUTF8.toList)
  = "5bdcc146bf60754e6a042426089575c75a003f089d2739839dec58b964ec3843"
-- RFC 4231 test case 6 (131-byte key: hashed first)
#guard toHex (hmacSha256 (List.replicate 131 0xaa) "Test Using Larger Than Block-Size Key - Hash Key First".toUTF8.toList)
  = "60e431591ee0b67f0d8a26aacbf5b77f8e0bc6213728c5140546040f0ee37f54"

end Gate.C20
