import GateModel.Base.Line
import GateModel.C20.Link
/-
C20 driver.  Case lines (all byte strings hex, `-` = empty):

  const <what>                                                        constants read back from the code
  cfd <secret> <addr> <uuid> <name> <props> <proto> <key> <requested> one CreateForwardingData call
  alias <cfd-args A> <cfd-args B>                                     A's returned slice, read after B was built
  conc <round> <idx> <cfd-args>                                       own slice, read after concurrent builds
  reset <mode> <secret> <addr> <uuid> <name> <props> <proto> <key>    new backend login handler
  pm <channel> <id> <data> <writeOk> | ls | enc | dc | sc <ok> | oth  one HandlePacket call
  secret <hex>                                                        config reload: forwarding secret rotated

<props> = `_` or `name,value,sig;…`;  <key> = `-` or `rev,expiryMs,pub,sig,holder` (rev ∈ nil|v1|v2|other).

Model output = what the Go side prints.  Spec verdict (on the IMPLEMENTATION's output):
  * a forwarding payload (cfd / answered pm) inside the parser's domain must be accepted by the Paper
    parser under the secret and yield exactly the expected fields with VELOCITY's version choice;
  * `ls` in velocity mode with no answered request so far must be refused.
-/
namespace Gate.C20
open Gate Gate.C03 Gate.C20.Spec

def parseProps (s : String) : Option (List Property) :=
  if s = "_" then some [] else
  (s.splitOn ";").mapM fun e => match e.splitOn "," with
    | [a, b, c] => do pure ⟨← parseHex a, ← parseHex b, ← parseHex c⟩
    | _ => none

def parseRev : String → Option KeyRev
  | "nil" => some .nilRev | "v1" => some .genericV1 | "v2" => some .linkedV2 | "other" => some .other
  | _ => none

def parseKeyTok (s : String) : Option (Option PlayerKey) :=
  if s = "-" then some none else
  match s.splitOn "," with
  | [r, e, p, g, h] => do
    pure (some ⟨← parseRev r, ← e.toInt?, ← parseHex p, ← parseHex g, ← parseHex h⟩)
  | _ => none

def parsePlayer (uuid name props proto key : String) : Option Player := do
  pure ⟨← parseHex uuid, ← parseHex name, ← parseProps props, ← proto.toInt?, ← parseKeyTok key⟩

def parseMode : String → Option Mode
  | "none" => some .none | "legacy" => some .legacy | "velocity" => some .velocity
  | "bungeeguard" => some .bungeeguard | _ => none

/-- verdict on a payload the implementation produced, for a request that Velocity would read as
    `requested` -/
def judgePayload (secret address : Bytes) (p : Player) (requested : Int) (implHex : String) : String :=
  if !wfInputB address p then "-" else
  match parseHex implHex with
  | none => "viol:payload-unreadable"
  | some d =>
    let want := expected address p
      (velocityFindForwardingVersion requested p.protocol (toVelocityKey p.keyRev))
    match paperParse secret d with
    | .error .short | .error .integrity => "viol:mac"
    | .error _ => "viol:payload-rejected"
    | .ok r =>
      if r = want then "ok"
      else if r.version ≠ want.version then "viol:version-negotiation"
      else "viol:payload-fields"

/-- A payload that the caller still holds must be exactly what `CreateForwardingData` returned for ITS input:
    model output = the model's payload for that input; verdict = the held bytes still authenticate and parse
    to that input's fields (inside the parser's domain), else byte equality with the model's payload. -/
def heldOut (secret addr uuid name props proto key req : String) (impl : String) : String × String :=
  match parseHex secret, parseHex addr, parsePlayer uuid name props proto key, req.toInt? with
  | some secret, some addr, some p, some req =>
    let out := match createForwardingData secret addr p req with
      | .ok d => "ok " ++ toHex d
      | .error _ => "err"
    let verdict :=
      if impl.startsWith "ok " then
        (if wfInputB addr p then
          (if judgePayload secret addr p req (impl.drop 3).toString = "ok" then "ok"
           else "viol:payload-mutated-after-return")
         else if impl = out then "ok" else "viol:payload-mutated-after-return")
      else "viol:payload-mutated-after-return"
    (out, verdict)
  | _, _, _, _ => ("bad-op", "-")

structure DS where
  cfg : Option Cfg := none
  st : HState := {}
  specAnswered : Bool := false   -- an answered forwarding request was seen in the implementation's output
  implConn : Bool := true        -- implementation's `conn=` flag after the previous op
  implRes : String := "-"        -- implementation's `res=` after the previous op

def showRes : Option Result → String
  | none => "-" | some .refusedNoForwarding => "refused" | some .serverDisconnected => "disconnected"
  | some .errOnlineMode => "err-online" | some .errOther => "err-other"

def b01 (b : Bool) : String := if b then "1" else "0"

def showOut (o : Out) (s : HState) : String :=
  let vis := match o with
    | .nothing => "none"
    | .proceed => "proceed"
    | .response id ok d _ => "resp " ++ toString id ++ " " ++ b01 ok ++ " " ++ toHex d
  vis ++ " fwd=" ++ b01 s.forwarded ++ " conn=" ++ b01 s.connected ++ " res=" ++ showRes s.result

def fieldOf (impl : String) (key : String) : String :=
  match (impl.splitOn " ").filter (·.startsWith key) with
  | t :: _ => (t.drop key.length).toString
  | [] => "?"

def parsePkt (c : Case) : Option Pkt :=
  match c.op, c.args with
  | "pm", [ch, id, data, w] => do pure (.pluginMsg (← parseHex ch) (← id.toInt?) (← parseHex data) (w = "1"))
  | "ls", _ => some .loginSuccess
  | "enc", _ => some .encryptionRequest
  | "dc", _ => some .disconnect
  | "sc", [ok] => some (.setCompression (ok = "1"))
  | "oth", _ => some .other
  | _, _ => none

def step' (ds : DS) (c : Case) : DS × String × String :=
  match c.op, c.args with
  | "const", ["proto_1_19_3"] => (ds, toString proto_1_19_3, "-")
  | "const", ["versions"] =>
    (ds, s!"{vDefault} {vWithKey} {vWithKeyV2} {vLazySession} {vMax}", "-")
  | "const", ["channel"] => (ds, toHex ipForwardingChannel, "-")
  | "cfd", [secret, addr, uuid, name, props, proto, key, req] =>
    match parseHex secret, parseHex addr, parsePlayer uuid name props proto key, req.toInt? with
    | some secret, some addr, some p, some req =>
      let out := match createForwardingData secret addr p req with
        | .ok d => "ok " ++ toHex d
        | .error _ => "err"
      let verdict :=
        if c.impl.startsWith "ok " then judgePayload secret addr p req (c.impl.drop 3).toString
        else if wfInputB addr p then "viol:create-failed" else "-"
      (ds, out, verdict)
    | _, _, _, _ => (ds, "bad-op", "-")
  -- the payload for input A, looked at again after other payloads (input B / other goroutines) were built
  | "alias", secret :: addr :: uuid :: name :: props :: proto :: key :: req :: _otherInput =>
    (ds, (heldOut secret addr uuid name props proto key req c.impl).1,
         (heldOut secret addr uuid name props proto key req c.impl).2)
  | "conc", _round :: _idx :: secret :: addr :: uuid :: name :: props :: proto :: key :: req :: _ =>
    (ds, (heldOut secret addr uuid name props proto key req c.impl).1,
         (heldOut secret addr uuid name props proto key req c.impl).2)
  -- config reload with a rotated forwarding secret: every later answer is judged under the NEW secret
  | "secret", [secret] =>
    match ds.cfg, parseHex secret with
    | some cfg, some sec => ({ ds with cfg := some { cfg with secret := sec } }, "-", "-")
    | _, _ => (ds, "bad-op", "-")
  | "reset", [mode, secret, addr, uuid, name, props, proto, key] =>
    match parseMode mode, parseHex secret, parseHex addr, parsePlayer uuid name props proto key with
    | some m, some secret, some addr, some p => ({ cfg := some ⟨m, secret, addr, p⟩ }, "-", "-")
    | _, _, _, _ => ({}, "bad-op", "-")
  | _, _ =>
    match ds.cfg, parsePkt c with
    | some cfg, some pkt =>
      let (s', o) := step cfg ds.st pkt
      let out := showOut o s'
      -- spec verdict on the implementation's output
      let implTok := c.impl.splitOn " "
      let respHex : Option String := match implTok with
        | "resp" :: _ :: "1" :: hex :: _ => some hex
        | _ => none
      let (verdict, answered) : String × Bool := match pkt with
        | .pluginMsg ch _ data w =>
          if cfg.mode = .velocity ∧ ch = ipForwardingChannel then
            -- a successful answer that reached the backend counts as answered, whatever its contents
            let answered := w && respHex.isSome
            if ds.implConn ∧ wfInputB cfg.address cfg.player then
              match respHex with
              | some hex =>
                (judgePayload cfg.secret cfg.address cfg.player (velocityRequested data) hex, answered)
              | none => ("viol:request-not-answered", false)
            else ("-", answered)
          else ("-", false)
        | .loginSuccess =>
          if cfg.mode = .velocity ∧ !ds.specAnswered then
            let refused := !(c.impl.startsWith "proceed") && fieldOf c.impl "conn=" = "0" &&
              (ds.implRes ≠ "-" || fieldOf c.impl "res=" = "refused")
            (if refused then "ok" else "viol:not-refused", false)
          else ("-", false)
        | _ => ("-", false)
      ({ ds with st := s', specAnswered := ds.specAnswered || answered,
                 implConn := fieldOf c.impl "conn=" = "1", implRes := fieldOf c.impl "res=" }, out, verdict)
    | _, _ => (ds, "bad-op", "-")

end Gate.C20

def main : IO Unit := Gate.runDriver ({} : Gate.C20.DS) Gate.C20.step'
