import GateModel.Base.Bytes
import GateModel.C03.Model
import GateModel.C20.Sha256
import GateModel.Gen.C20
/-
C20 — model of
  pkg/edition/java/internal/velocity/data_forwarding.go   (CreateForwardingData, findForwardingVersion)
  pkg/edition/java/proxy/crypto/crypto.go                 (WritePlayerKey)
  pkg/edition/java/proxy/session_backend_login.go         (handleLoginPluginMessage, handleServerLoginSuccess,
                                                           the other HandlePacket cases as far as they touch the
                                                           request result / the connection)
The primitive writers are the C03 model's (`writeVarInt`, `writeBytes`, `writeUUID`, `writeProperties`,
`writeInt 8`, `writeBool`).  Strings are byte strings, UUIDs are 16 raw bytes, `int` is `Int`.
-/
namespace Gate.C20
open Gate Gate.C03

/-! ## constants, regenerated from the source on every run -/
def vDefault : Int := Gate.Gen.C20.defaultForwardingVersion
def vWithKey : Int := Gate.Gen.C20.withKeyForwardingVersion
def vWithKeyV2 : Int := Gate.Gen.C20.withKeyV2ForwardingVersion
def vLazySession : Int := Gate.Gen.C20.lazySessionForwardingVersion
def vMax : Int := Gate.Gen.C20.forwardingMaxVersion
/-- the channel name as bytes (the literal is ASCII — `Props.src_version_constants` checks it — so one
    byte per character is its UTF-8 encoding) -/
def ipForwardingChannel : Bytes := Gate.Gen.C20.ipForwardingChannel.toList.map (fun c => UInt8.ofNat c.toNat)
/-- `version.Minecraft_1_19_3.Protocol` (a Go `var`, read back through the harness on every run) -/
def proto_1_19_3 : Int := 761

/-! ## players and keys -/

/-- what `key.KeyRevision()` can be: a nil interface, one of the two known revisions, anything else -/
inductive KeyRev where
  | nilRev | genericV1 | linkedV2 | other
  deriving DecidableEq, Repr

structure PlayerKey where
  rev    : KeyRev
  expiry : Int      -- ExpiryTemporal().UnixMilli()
  pub    : Bytes    -- SignedPublicKeyBytes()
  sig    : Bytes    -- Signature()
  holder : Bytes    -- SignatureHolder(), 16 bytes; all zero = uuid.Nil
  deriving DecidableEq, Repr

structure Player where
  id       : Bytes            -- 16 bytes
  name     : Bytes
  props    : List Property
  protocol : Int
  key      : Option PlayerKey -- nil interface = none
  deriving DecidableEq, Repr

def uuidNil : Bytes := List.replicate 16 0

/-! ## version negotiation -/

/-- `int(int8(b))` — the request byte read as a *signed* byte (after the fix; this is what Velocity's
    `ByteBuf.readByte` does). -/
def int8OfByte (b : UInt8) : Int := if b.toNat < 128 then (b.toNat : Int) else (b.toNat : Int) - 256

/-- the request body → requested version (handleLoginPluginMessage: `if len(p.Data) == 1 { … }`) -/
def requestedVersion (data : Bytes) : Int :=
  match data with
  | [b] => int8OfByte b
  | _ => vDefault

/-- pre-fix variant: `int(p.Data[0])`, the byte read unsigned (defective; kept for the `…_fails` witness) -/
def requestedVersionDefective (data : Bytes) : Int :=
  match data with
  | [b] => (b.toNat : Int)
  | _ => vDefault

/-- `findForwardingVersion(requested, player)`, statement by statement -/
def findForwardingVersion (requested : Int) (protocol : Int) (key : Option KeyRev) : Int :=
  let requested := min requested vMax
  if requested > vDefault then
    if protocol ≥ proto_1_19_3 then
      if requested ≥ vLazySession then vLazySession else vDefault
    else
      match key with
      | some .genericV1 => vWithKey
      | some .linkedV2 => if requested ≥ vWithKeyV2 then vWithKeyV2 else vDefault
      | _ => vDefault
  else vDefault

def Player.keyRev (p : Player) : Option KeyRev := p.key.map (·.rev)

/-! ## payload -/

/-- `crypto.WritePlayerKey` -/
def writePlayerKey (k : PlayerKey) : Bytes :=
  writeInt 8 k.expiry ++ writeBytes k.pub ++ writeBytes k.sig

/-- the part after the properties: key and signer for versions 2 and 3 -/
def keySection (actual : Int) (key : Option PlayerKey) : Except Err Bytes :=
  if actual ≥ vWithKey ∧ actual < vLazySession then
    match key with
    | none => .error .other           -- "player auth key missing"
    | some k =>
      .ok (writePlayerKey k ++
        (if actual ≥ vWithKeyV2 then
          (if k.holder ≠ uuidNil then writeBool true ++ writeUUID k.holder else writeBool false)
         else []))
  else .ok []

/-- everything that is authenticated -/
def forwardedBody (address : Bytes) (p : Player) (actual : Int) (keyPart : Bytes) : Bytes :=
  writeVarInt actual ++ writeBytes address ++ writeUUID p.id ++ writeBytes p.name ++
    writeProperties p.props ++ keyPart

/-- `CreateForwardingData(hmacSecret, address, player, requestedVersion)` -/
def createForwardingData (secret address : Bytes) (p : Player) (requested : Int) : Except Err Bytes :=
  let actual := findForwardingVersion requested p.protocol p.keyRev
  match keySection actual p.key with
  | .error e => .error e
  | .ok kp =>
    let forwarded := forwardedBody address p actual kp
    .ok (hmacSha256 secret forwarded ++ forwarded)

/-! ## the backend login handler as a state machine

State: what `backendLoginSessionHandler` + its `serverConnection` + `connRequestCxt` carry that the
property talks about.  One `step` = one `HandlePacket` call. -/

inductive Mode where
  | none | legacy | velocity | bungeeguard
  deriving DecidableEq, Repr

/-- the first (and only: `sync.Once`) result delivered to the connection request -/
inductive Result where
  | refusedNoForwarding     -- disconnectResult(velocityIpForwardingFailure, server, safe = true)
  | serverDisconnected      -- result built from a Disconnect packet
  | errOnlineMode           -- ErrServerOnlineMode
  | errOther
  deriving DecidableEq, Repr

structure Cfg where
  mode    : Mode
  secret  : Bytes
  address : Bytes    -- netutil.Host(player.RemoteAddr())
  player  : Player
  deriving Repr

structure HState where
  forwarded : Bool := false          -- informationForwarded
  connected : Bool := true           -- serverConn.connection != nil
  result    : Option Result := none  -- requestCtx.result, first one wins
  proceeded : Bool := false          -- moved on towards PLAY/CONFIG (SetActiveSessionHandler / LoginAcknowledged)
  deriving DecidableEq, Repr

inductive Pkt where
  | pluginMsg (channel : Bytes) (id : Int) (data : Bytes) (writeOk : Bool)
  | loginSuccess
  | encryptionRequest
  | disconnect
  | setCompression (ok : Bool)
  | other
  deriving DecidableEq, Repr

/-- what one `HandlePacket` call makes visible on the backend connection -/
inductive Out where
  | nothing
  | response (id : Int) (success : Bool) (data : Bytes) (delivered : Bool)
  | proceed
  deriving DecidableEq, Repr

def HState.post (s : HState) (r : Result) : HState :=
  match s.result with
  | some _ => s
  | none => { s with result := some r }

def HState.disconnect (s : HState) : HState := { s with connected := false }

def step (c : Cfg) (s : HState) : Pkt → HState × Out
  | .pluginMsg channel id data writeOk =>
    if !s.connected then (s, .nothing)                      -- ensureConnected() failed
    else if c.mode = .velocity ∧ channel = ipForwardingChannel then
      match createForwardingData c.secret c.address c.player (requestedVersion data) with
      | .error _ => (s.disconnect, .nothing)
      | .ok d =>
        if writeOk then ({ s with forwarded := true }, .response id true d true)
        else (s, .response id true d false)
    else
      -- no Forge relay, no event subscriber: answered with success = false
      (s, .response id false [] writeOk)
  | .loginSuccess =>
    if c.mode = .velocity ∧ !s.forwarded then
      ((s.post .refusedNoForwarding).disconnect, .nothing)
    else if !s.connected then (s, .nothing)
    else ({ s with proceeded := true }, .proceed)
  | .encryptionRequest => (s.post .errOnlineMode, .nothing)
  | .disconnect => ((s.post .serverDisconnected).disconnect, .nothing)
  | .setCompression ok =>
    if !s.connected then (s, .nothing)
    else if ok then (s, .nothing) else ((s.post .errOther).disconnect, .nothing)
  | .other => (s, .nothing)

def run (c : Cfg) : HState → List Pkt → HState
  | s, [] => s
  | s, p :: ps => run c (step c s p).1 ps

end Gate.C20
