import GateModel.C20.Model
import GateModel.C20.Spec
/-
C20 — the vocabulary that links the model (gate's side) with the spec (Velocity's / Paper's side):
how a gate value is *expected* to look to the reference consumer.  Used by the theorems (Lemmas/Props)
and by the driver's verdicts.  Core Lean only.
-/
namespace Gate.C20
open Gate Gate.C03 Gate.C20.Spec

/-- a gate property as a Paper backend sees it: an empty signature is written as "absent" -/
def toPaper (p : Property) : PaperProperty :=
  ⟨p.name, p.value, if p.signature = [] then none else some p.signature⟩

def keyData (k : PlayerKey) : KeyData := ⟨k.expiry, k.pub, k.sig⟩


/-- the signer a version-3 consumer ends up with -/
def signerSeen (id : Bytes) (k : PlayerKey) : Bytes := if k.holder ≠ uuidNil then k.holder else id

/-- what the backend must end up with for forwarding version `v` -/
def expected (address : Bytes) (p : Player) (v : Int) : Parsed :=
  ⟨v, address, p.id, p.name, p.props.map toPaper,
   if v = 2 ∨ v = 3 then p.key.map keyData else none,
   if v = 3 then p.key.map (signerSeen p.id) else none⟩

/-- Velocity's key revisions as gate's; gate additionally admits a nil or foreign revision object -/
def embedKey : Option KeyRevision → Option KeyRev
  | none => none
  | some .GENERIC_V1 => some .genericV1
  | some .LINKED_V2 => some .linkedV2

/-- the Velocity-side view of a gate key: nil / foreign revisions count as "no key" -/
def toVelocityKey : Option KeyRev → Option KeyRevision
  | some .genericV1 => some .GENERIC_V1
  | some .linkedV2 => some .LINKED_V2
  | _ => none

/-- executable form of the theorems' domain hypothesis `WfInput` (see `Lemmas.wfInputB_sound`) -/
def wfPropB (p : Property) : Bool :=
  decide (p.name.length ≤ SHORT_MAX) && decide (p.value.length ≤ SHORT_MAX) && decide (p.signature.length ≤ SHORT_MAX)

def wfKeyB (k : PlayerKey) : Bool :=
  decide (-(2 ^ 63 : Nat) ≤ k.expiry) && decide (k.expiry < (2 ^ 63 : Nat)) && decide (k.pub.length ≤ 512) &&
    decide (k.sig.length ≤ 4096) && decide (k.holder.length = 16)

def wfInputB (address : Bytes) (p : Player) : Bool :=
  decide (address.length ≤ SHORT_MAX) && decide (p.id.length = 16) && decide (p.name.length ≤ 16) &&
    p.props.all wfPropB && decide (p.props.length < 2 ^ 31) &&
    (match p.key with | none => true | some k => wfKeyB k)

end Gate.C20
