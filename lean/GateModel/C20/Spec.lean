import GateModel.Base.Bytes
import GateModel.C03.Model
import GateModel.C20.Sha256
/-
C20 — reference side, transcribed by hand (upstream sources are not on this machine):

* Velocity `LoginSessionHandler.handle(LoginPluginMessagePacket)` + `findForwardingVersion`
  (proxy/src/main/java/com/velocitypowered/proxy/connection/backend/LoginSessionHandler.java and
  PlayerDataForwarding): the requested version is `packet.content().readByte()` — a SIGNED byte — when
  the body is exactly one byte, else MODERN_FORWARDING_DEFAULT.
* Paper `com.destroystokyo.paper.proxy.VelocityProxy` (`checkIntegrity`, `readAddress`, `createProfile`,
  `readProperties`, `readForwardedKey`, `readSignerUuidOrElse`) and the caller in
  `ServerLoginPacketListenerImpl.handleCustomQueryPacket`, with `FriendlyByteBuf.readUtf/readVarInt/
  readUUID/readBoolean/readByteArray/readLong`.

Nothing in this file refers to the gate model (only to the shared primitive readers of C03, which are
the vanilla wire format, and to HMAC-SHA256).
-/
namespace Gate.C20.Spec
open Gate Gate.C03

/-! ## Velocity's negotiation -/

inductive KeyRevision where
  | GENERIC_V1 | LINKED_V2
  deriving DecidableEq, Repr

def MODERN_FORWARDING_DEFAULT : Int := 1
def MODERN_FORWARDING_WITH_KEY : Int := 2
def MODERN_FORWARDING_WITH_KEY_V2 : Int := 3
def MODERN_LAZY_SESSION : Int := 4
def MODERN_FORWARDING_MAX_VERSION : Int := MODERN_LAZY_SESSION
/-- ProtocolVersion.MINECRAFT_1_19_3 -/
def MINECRAFT_1_19_3 : Int := 761

/-- Netty `ByteBuf.readByte()`: two's complement signed byte -/
def readByteSigned (b : UInt8) : Int := Int.ofNat b.toNat - (if b.toNat ≥ 128 then 256 else 0)

/-- `if (packet.content().readableBytes() == 1) requested = packet.content().readByte();` -/
def velocityRequested (content : Bytes) : Int :=
  if content.length = 1 then
    match content.head? with
    | some b => readByteSigned b
    | none => MODERN_FORWARDING_DEFAULT
  else MODERN_FORWARDING_DEFAULT

/-- `PlayerDataForwarding.findForwardingVersion(requested, player)`; `key = none` is
    `player.getIdentifiedKey() == null` -/
def velocityFindForwardingVersion (requested : Int) (protocol : Int) (key : Option KeyRevision) : Int :=
  let requested := if requested ≤ MODERN_FORWARDING_MAX_VERSION then requested else MODERN_FORWARDING_MAX_VERSION
  if requested > MODERN_FORWARDING_DEFAULT then
    if protocol ≥ MINECRAFT_1_19_3 then
      (if requested ≥ MODERN_LAZY_SESSION then MODERN_LAZY_SESSION else MODERN_FORWARDING_DEFAULT)
    else
      match key with
      | some .GENERIC_V1 => MODERN_FORWARDING_WITH_KEY
      | some .LINKED_V2 =>
        if requested ≥ MODERN_FORWARDING_WITH_KEY_V2 then MODERN_FORWARDING_WITH_KEY_V2
        else MODERN_FORWARDING_DEFAULT
      | none => MODERN_FORWARDING_DEFAULT
  else MODERN_FORWARDING_DEFAULT

/-! ## Paper's parser -/

/-- `FriendlyByteBuf.readUtf(maxLength)` on byte strings: the encoded length may be at most
    `maxLength * 3`, must not be negative, must be available; the decoded string may have at most
    `maxLength` UTF-16 units — modelled conservatively as at most `maxLength` *bytes* (a byte string
    within this limit is within Paper's). -/
def readUtf (maxLength : Nat) (bs : Bytes) : Rd Bytes :=
  match readVarInt bs with
  | .error e => .error e
  | .ok (len, r) =>
    if len > (maxLength * 3 : Nat) then .error .tooLong
    else if len < 0 then .error .negative
    else match readFull len.toNat r with
      | .error e => .error e
      | .ok (s, r') => if s.length > maxLength then .error .tooLong else .ok (s, r')

/-- `FriendlyByteBuf.readByteArray(maxLength)` -/
def readByteArray (maxLength : Nat) (bs : Bytes) : Rd Bytes :=
  match readVarInt bs with
  | .error e => .error e
  | .ok (len, r) =>
    if len > (maxLength : Nat) then .error .tooLong
    else if len < 0 then .error .negative
    else readFull len.toNat r

/-- a profile property as Paper stores it: the signature is `null` when the flag byte is false -/
structure PaperProperty where
  name : Bytes
  value : Bytes
  signature : Option Bytes
  deriving DecidableEq, Repr

def SHORT_MAX : Nat := 32767

def readPaperProperty (bs : Bytes) : Rd PaperProperty :=
  match readUtf SHORT_MAX bs with
  | .error e => .error e
  | .ok (n, r1) => match readUtf SHORT_MAX r1 with
    | .error e => .error e
    | .ok (v, r2) => match readBool r2 with
      | .error e => .error e
      | .ok (false, r3) => .ok (⟨n, v, none⟩, r3)
      | .ok (true, r3) => match readUtf SHORT_MAX r3 with
        | .error e => .error e
        | .ok (s, r4) => .ok (⟨n, v, some s⟩, r4)

/-- `for (int i = 0; i < properties; i++)`: a non-positive count reads nothing -/
def readPaperProperties (bs : Bytes) : Rd (List PaperProperty) :=
  match readVarInt bs with
  | .error e => .error e
  | .ok (n, r) => readN readPaperProperty n.toNat r

/-- `ProfilePublicKey.Data(buf)`: `readInstant` (a long of epoch millis), `readPublicKey`
    (`readByteArray(512)`), `readByteArray(4096)` -/
structure KeyData where
  expiresAt : Int
  publicKey : Bytes
  signature : Bytes
  deriving DecidableEq, Repr

def readKeyData (bs : Bytes) : Rd KeyData :=
  match readInt 8 bs with
  | .error e => .error e
  | .ok (t, r1) => match readByteArray 512 r1 with
    | .error e => .error e
    | .ok (k, r2) => match readByteArray 4096 r2 with
      | .error e => .error e
      | .ok (s, r3) => .ok (⟨t, k, s⟩, r3)

/-- `readSignerUuidOrElse(buf, orElse)` -/
def readSignerOrElse (orElse : Bytes) (bs : Bytes) : Rd Bytes :=
  match readBool bs with
  | .error e => .error e
  | .ok (false, r) => .ok (orElse, r)
  | .ok (true, r) => readUUID r

structure Parsed where
  version : Int
  address : Bytes
  id      : Bytes
  name    : Bytes
  props   : List PaperProperty
  key     : Option KeyData
  signer  : Option Bytes       -- present for version 3; equals the profile id when no signer was sent
  deriving DecidableEq, Repr

inductive Reject where
  | short       -- fewer than 32 bytes: `buf.readBytes(signature)` throws
  | integrity   -- `checkIntegrity` false: "Unable to verify player details"
  | version     -- "Unsupported forwarding version"
  | malformed (e : Err)
  | trailing    -- bytes left over (Paper ignores them; this parser is strict)
  deriving DecidableEq, Repr

/-- `VelocityProxy.checkIntegrity`: the first 32 bytes must equal HmacSHA256(secret, rest) -/
def checkIntegrity (secret : Bytes) (data : Bytes) : Bool :=
  decide (32 ≤ data.length) && (hmacSha256 secret (data.drop 32) == data.take 32)

/-- after the profile: key material by forwarding version, then nothing may be left -/
def parseTail (version : Int) (address id name : Bytes) (props : List PaperProperty) (r : Bytes) :
    Except Reject Parsed :=
  if version ≥ MODERN_FORWARDING_WITH_KEY_V2 ∧ version < MODERN_LAZY_SESSION then
    match readKeyData r with
    | .error e => .error (.malformed e)
    | .ok (k, r1) => match readSignerOrElse id r1 with
      | .error e => .error (.malformed e)
      | .ok (signer, r2) =>
        if r2 = [] then .ok ⟨version, address, id, name, props, some k, some signer⟩ else .error .trailing
  else if version ≥ MODERN_FORWARDING_WITH_KEY ∧ version < MODERN_LAZY_SESSION then
    match readKeyData r with
    | .error e => .error (.malformed e)
    | .ok (k, r1) =>
      if r1 = [] then .ok ⟨version, address, id, name, props, some k, none⟩ else .error .trailing
  else
    if r = [] then .ok ⟨version, address, id, name, props, none, none⟩ else .error .trailing

/-- the authenticated part: version, `readAddress`, `createProfile` -/
def parseBody (body : Bytes) : Except Reject Parsed :=
  match readVarInt body with
  | .error e => .error (.malformed e)
  | .ok (version, r0) =>
    if version > MODERN_FORWARDING_MAX_VERSION then .error .version
    else match readUtf SHORT_MAX r0 with
      | .error e => .error (.malformed e)
      | .ok (address, r1) => match readUUID r1 with
        | .error e => .error (.malformed e)
        | .ok (id, r2) => match readUtf 16 r2 with
          | .error e => .error (.malformed e)
          | .ok (name, r3) => match readPaperProperties r3 with
            | .error e => .error (.malformed e)
            | .ok (props, r4) => parseTail version address id name props r4

/-- The whole of `handleCustomQueryPacket` for the velocity channel, key handling as in the Paper
    generations that carry it (version 2: key; version 3: key + signer). -/
def paperParse (secret : Bytes) (data : Bytes) : Except Reject Parsed :=
  if data.length < 32 then .error .short
  else if !checkIntegrity secret data then .error .integrity
  else parseBody (data.drop 32)

end Gate.C20.Spec
