import GateModel.C20.Lemmas
/-
C20 — Velocity modern forwarding data is authentic and negotiated like Velocity.

Property theorems only (helpers live in `Lemmas.lean`).  Three clauses:
  A. negotiation  : the forwarding version gate chooses equals Velocity's for EVERY request body, client
                    protocol number and key revision (not only the 256 × 3 × 3 table: the protocol is any integer);
  B. payload      : for every secret, address, profile, key and requested version the payload is accepted by the
                    Paper-style parser under the same secret and parses to exactly what was put in; its first
                    32 bytes are HMAC-SHA256(secret, rest), and the parser accepts nothing else;
  C. refusal      : for every history of backend login packets in velocity mode, login success without a
                    previously answered forwarding request is refused and never proceeds.
-/
namespace Gate.C20.Props
open Gate Gate.C03 Gate.C20 Gate.C20.Spec

/-! ### A. negotiation -/

/-- request body → requested version: gate (`int(int8(p.Data[0]))` iff exactly one byte) = Velocity
    (`readByte()` iff exactly one readable byte) -/
theorem requested_version_eq (data : Bytes) : requestedVersion data = velocityRequested data :=
  requested_eq data

/-- the chosen version equals Velocity's for every requested integer, protocol number and key revision -/
theorem find_version_eq (requested protocol : Int) (k : Option KeyRevision) :
    findForwardingVersion requested protocol (embedKey k)
      = velocityFindForwardingVersion requested protocol k := find_eq requested protocol k

/-- both steps composed: from the bytes of the backend's request to the version answered -/
theorem negotiation_eq (data : Bytes) (protocol : Int) (k : Option KeyRevision) :
    findForwardingVersion (requestedVersion data) protocol (embedKey k)
      = velocityFindForwardingVersion (velocityRequested data) protocol k := by
  rw [requested_eq, find_eq]

/-- a key object whose revision is nil or not one of the two known revisions (cannot exist in Velocity,
    whose revision is an enum) negotiates exactly like "no key" -/
theorem unknown_revision_like_no_key (requested protocol : Int) (r : KeyRev)
    (h : r = .nilRev ∨ r = .other) :
    findForwardingVersion requested protocol (some r) = findForwardingVersion requested protocol none := by
  rcases h with h | h <;> subst h <;> rfl

/-- the answer never exceeds what was asked (for requests ≥ 1) and is always one of the four versions;
    versions 2/3 are only chosen when the matching key revision is present -/
theorem version_range (requested protocol : Int) (key : Option KeyRev) :
    findForwardingVersion requested protocol key = 1 ∨ findForwardingVersion requested protocol key = 4 ∨
    (findForwardingVersion requested protocol key = 2 ∧ key = some .genericV1) ∨
    (findForwardingVersion requested protocol key = 3 ∧ key = some .linkedV2) :=
  find_cases requested protocol key

theorem version_le_requested (requested protocol : Int) (key : Option KeyRev) (h : 1 ≤ requested) :
    findForwardingVersion requested protocol key ≤ requested := by
  unfold findForwardingVersion vDefault vWithKey vWithKeyV2 vLazySession vMax
    Gate.Gen.C20.defaultForwardingVersion Gate.Gen.C20.withKeyForwardingVersion
    Gate.Gen.C20.withKeyV2ForwardingVersion Gate.Gen.C20.lazySessionForwardingVersion
    Gate.Gen.C20.forwardingMaxVersion
  simp only [Int.min_def]
  by_cases h4 : requested ≤ 4
  · simp only [h4, if_true]
    split
    · split
      · split <;> omega
      · split
        · omega
        · split <;> omega
        · omega
    · omega
  · simp only [h4, if_false]
    split
    · split
      · split <;> omega
      · split
        · omega
        · split <;> omega
        · omega
    · omega

/-- The pre-fix code read the request byte UNSIGNED: a backend asking with byte 0x80 got version 4 from
    gate where Velocity answers 1 (the full-strength statement fails for that variant). -/
theorem negotiation_fails_for_unsigned_variant :
    findForwardingVersion (requestedVersionDefective [128]) 761 (embedKey none) = 4 ∧
    velocityFindForwardingVersion (velocityRequested [128]) 761 none = 1 := by
  constructor <;> rfl

/-- …while below 128 the two readings agree (the part of the property the old code did satisfy) -/
theorem negotiation_unsigned_variant_partial (b : UInt8) (h : b.toNat < 128) (protocol : Int)
    (k : Option KeyRevision) :
    findForwardingVersion (requestedVersionDefective [b]) protocol (embedKey k)
      = velocityFindForwardingVersion (velocityRequested [b]) protocol k := by
  have : requestedVersionDefective [b] = requestedVersion [b] := by
    simp [requestedVersionDefective, requestedVersion, int8OfByte, h]
  rw [this]; exact negotiation_eq [b] protocol k

/-- The negotiated version is a function of (requested, protocol, key revision) ONLY: replacing the key's
    expiry instant and signature bytes (in particular: an expired key, any clock) changes neither the
    version nor the layout — the two payloads are the same bytes around the key record. -/
theorem version_independent_of_expiry (requested : Int) (p : Player) (k : PlayerKey) (e' : Int) (s' : Bytes)
    (hk : p.key = some k) :
    findForwardingVersion requested p.protocol ({ p with key := some { k with expiry := e', sig := s' } } : Player).keyRev
      = findForwardingVersion requested p.protocol p.keyRev ∧
    ∀ secret address : Bytes, ∃ (pre post : Bytes) (keyed : Bool),
      createForwardingData secret address p requested =
        .ok (hmacSha256 secret (pre ++ (if keyed then writePlayerKey k else []) ++ post) ++
             (pre ++ (if keyed then writePlayerKey k else []) ++ post)) ∧
      createForwardingData secret address { p with key := some { k with expiry := e', sig := s' } } requested =
        .ok (hmacSha256 secret (pre ++ (if keyed then writePlayerKey { k with expiry := e', sig := s' } else []) ++ post) ++
             (pre ++ (if keyed then writePlayerKey { k with expiry := e', sig := s' } else []) ++ post)) := by
  have hrev : ({ p with key := some { k with expiry := e', sig := s' } } : Player).keyRev = p.keyRev := by
    simp [Player.keyRev, hk]
  refine ⟨by rw [hrev], fun secret address => ?_⟩
  simp only [createForwardingData, hrev, hk]
  generalize findForwardingVersion requested p.protocol p.keyRev = v
  by_cases hv : v ≥ vWithKey ∧ v < vLazySession
  · refine ⟨writeVarInt v ++ writeBytes address ++ writeUUID p.id ++ writeBytes p.name ++ writeProperties p.props,
      (if v ≥ vWithKeyV2 then
        (if k.holder ≠ uuidNil then writeBool true ++ writeUUID k.holder else writeBool false) else []), true, ?_, ?_⟩
    · simp [keySection, hv, forwardedBody, List.append_assoc]
    · simp [keySection, hv, forwardedBody, List.append_assoc]
  · refine ⟨writeVarInt v ++ writeBytes address ++ writeUUID p.id ++ writeBytes p.name ++ writeProperties p.props,
      [], false, ?_, ?_⟩
    · simp [keySection, hv, forwardedBody, List.append_assoc]
    · simp [keySection, hv, forwardedBody, List.append_assoc]

/-! ### B. payload -/

/-- `CreateForwardingData` never fails (the "player auth key missing" branch is unreachable: versions 2
    and 3 are only negotiated when a key is present), and a Paper backend holding the same secret
    verifies the MAC and parses exactly the negotiated version, the address, the UUID, the name, every
    property (empty signature = absent), and for versions 2/3 the key data and (3) the signer —
    consuming every byte. -/
theorem payload_parses (secret address : Bytes) (p : Player) (requested : Int) (h : WfInput address p) :
    ∃ d, createForwardingData secret address p requested = .ok d ∧
      paperParse secret d
        = .ok (expected address p (findForwardingVersion requested p.protocol p.keyRev)) :=
  create_parses secret address p requested h

/-- the first 32 bytes are HMAC-SHA256 under the configured secret of everything after them -/
theorem mac_is_hmac (secret address : Bytes) (p : Player) (requested : Int) (d : Bytes)
    (h : createForwardingData secret address p requested = .ok d) :
    d.take 32 = hmacSha256 secret (d.drop 32) ∧ 32 ≤ d.length ∧ checkIntegrity secret d = true := by
  cases hk : keySection (findForwardingVersion requested p.protocol p.keyRev) p.key with
  | error e => simp [createForwardingData, hk] at h
  | ok kp =>
    simp only [createForwardingData, hk, Except.ok.injEq] at h
    subst h
    have hl := hmac_length secret
      (forwardedBody address p (findForwardingVersion requested p.protocol p.keyRev) kp)
    have h2 := List.drop_left' (l₂ := forwardedBody address p
      (findForwardingVersion requested p.protocol p.keyRev) kp) hl
    have h3 := List.take_left' (l₂ := forwardedBody address p
      (findForwardingVersion requested p.protocol p.keyRev) kp) hl
    refine ⟨by rw [h2, h3], by simp only [List.length_append]; omega, ?_⟩
    unfold checkIntegrity
    rw [h2, h3]; simp [hl]

/-- the parser authenticates: whatever it accepts carries the HMAC of its body under the secret
    (so a payload made under another secret, or altered after the MAC, is rejected unless it happens to
    carry the right HMAC — unforgeability itself is a property of HMAC-SHA256 and is not claimed) -/
theorem parser_accepts_only_authentic (secret data : Bytes) (r : Parsed)
    (h : paperParse secret data = .ok r) :
    32 ≤ data.length ∧ data.take 32 = hmacSha256 secret (data.drop 32) := by
  unfold paperParse at h
  split at h
  · cases h
  · rename_i hlen
    split at h
    · cases h
    · rename_i hci
      unfold checkIntegrity at hci
      simp at hci
      exact ⟨hci.1, hci.2.symm⟩

/-- the digest is 32 bytes for every key and message -/
theorem hmac_is_32_bytes (k m : Bytes) : (hmacSha256 k m).length = 32 := hmac_length k m

/-! ### C. refusal without a forwarding request (all packet histories) -/

/-- In velocity mode, whatever the backend sent before — as long as no forwarding request was answered —
    `ServerLoginSuccess` is refused: nothing proceeds, the backend connection is dropped, and the
    connection request (if still undecided) gets the "did not send a forwarding request" result. -/
theorem refuse_without_request (c : Cfg) (ops : List Pkt) (hm : c.mode = .velocity)
    (hno : ∀ p ∈ ops, ¬ isAnswerable p) :
    let s := run c HState.init ops
    let s' := (step c s .loginSuccess).1
    (step c s .loginSuccess).2 = .nothing ∧ s'.proceeded = false ∧ s'.connected = false ∧
    (s.result = none → s'.result = some .refusedNoForwarding) := by
  intro s s'
  have hinv := inv_run c ops HState.init [] (inv_init c)
  simp only [List.nil_append] at hinv
  have hnf : s.forwarded = false := by
    cases hf : s.forwarded with
    | false => rfl
    | true =>
      obtain ⟨_, q, hq, ha⟩ := hinv.1 hf
      exact absurd ha (hno q hq)
  have hnp : s.proceeded = false := by
    cases hp : s.proceeded with
    | false => rfl
    | true => have := hinv.2 hm hp; rw [hnf] at this; cases this
  have hstep : step c s .loginSuccess = ((s.post .refusedNoForwarding).disconnect, .nothing) := by
    simp [step, hm, hnf]
  refine ⟨by rw [hstep], ?_, ?_, ?_⟩
  · show (step c s .loginSuccess).1.proceeded = false
    rw [hstep]; simpa using hnp
  · show (step c s .loginSuccess).1.connected = false
    rw [hstep]; simp
  · intro hr
    show (step c s .loginSuccess).1.result = some .refusedNoForwarding
    rw [hstep]; simp [HState.post, hr]

/-- conversely, along every history: having proceeded towards PLAY in velocity mode implies that a
    forwarding request on `velocity:player_info` was answered (and delivered) earlier in that history -/
theorem proceeded_only_after_forwarding (c : Cfg) (ops : List Pkt) (hm : c.mode = .velocity)
    (hp : (run c HState.init ops).proceeded = true) : ∃ p ∈ ops, isAnswerable p := by
  have hinv := inv_run c ops HState.init [] (inv_init c)
  simp only [List.nil_append] at hinv
  exact (hinv.1 (hinv.2 hm hp)).2

/-- a forwarding request on a live connection in velocity mode is answered with exactly the payload of
    clause B for the player's address, under the configured secret, for the version the request byte
    negotiates -/
theorem request_answered_with_forwarding_data (c : Cfg) (s : HState) (id : Int) (data : Bytes) (w : Bool)
    (hm : c.mode = .velocity) (hc : s.connected = true) (hw : WfInput c.address c.player) :
    ∃ d, (step c s (.pluginMsg ipForwardingChannel id data w)).2 = .response id true d w ∧
      paperParse c.secret d = .ok (expected c.address c.player
        (velocityFindForwardingVersion (velocityRequested data) c.player.protocol
          (toVelocityKey c.player.keyRev))) := by
  obtain ⟨d, hd, hp⟩ := create_parses c.secret c.address c.player (requestedVersion data) hw
  refine ⟨d, ?_, ?_⟩
  · simp only [step, hc, hm, hd]
    cases w <;> simp
  · rw [hp, ← requested_eq, find_eq']

/-- Histories with configuration reloads: whatever was configured (and answered) before — any sequence of
    (configuration, packet) steps — a forwarding request is answered with a payload that authenticates under
    the secret configured NOW and carries the current configuration's player data; nothing is remembered
    from earlier answers. -/
theorem answer_uses_current_secret (hist : List (Cfg × Pkt)) (c : Cfg) (id : Int) (data : Bytes) (w : Bool)
    (hm : c.mode = .velocity) (hw : WfInput c.address c.player)
    (hc : (hist.foldl (fun s cp => (step cp.1 s cp.2).1) HState.init).connected = true) :
    ∃ d, (step c (hist.foldl (fun s cp => (step cp.1 s cp.2).1) HState.init)
            (.pluginMsg ipForwardingChannel id data w)).2 = .response id true d w ∧
      checkIntegrity c.secret d = true ∧
      createForwardingData c.secret c.address c.player (requestedVersion data) = .ok d := by
  obtain ⟨d, hd, hp⟩ := create_parses c.secret c.address c.player (requestedVersion data) hw
  refine ⟨d, ?_, (mac_is_hmac c.secret c.address c.player _ d hd).2.2, hd⟩
  generalize hist.foldl (fun s cp => (step cp.1 s cp.2).1) HState.init = s at hc ⊢
  simp only [step, hc, hm, hd]
  cases w <;> simp

/-- the first result delivered to the connection request is final -/
theorem result_delivered_once (c : Cfg) (s : HState) (p : Pkt) (r : Result) (h : s.result = some r) :
    (step c s p).1.result = some r := step_result_once c s p r h

/-! ### tie to the source (facts regenerated by `tools/gofacts` on every run) -/

open Gate.Gen.C20 in
/-- the request byte is converted through `int8` (signed), the payload comes from
    `velocity.CreateForwardingData`, and `informationForwarded` is stored only after `mc.WritePacket` -/
theorem src_request_byte_signed_and_flag_after_write :
    "int8" ∈ handleLoginPluginMessageCalls ∧
    handleLoginPluginMessageCalls.idxOf "velocity.CreateForwardingData" < handleLoginPluginMessageCalls.idxOf "mc.WritePacket" ∧
    handleLoginPluginMessageCalls.idxOf "mc.WritePacket" < handleLoginPluginMessageCalls.idxOf "b.informationForwarded.Store" ∧
    handleLoginPluginMessageCalls.idxOf "b.informationForwarded.Store" < handleLoginPluginMessageCalls.length ∧
    (handleLoginPluginMessageCalls.filter (· = "b.informationForwarded.Store")).length = 1 := by decide

open Gate.Gen.C20 in
/-- the refusal (result + disconnect + return) is the first thing `handleServerLoginSuccess` does after
    loading the flag, before any transition towards PLAY/CONFIG -/
theorem src_refusal_precedes_transition :
    handleServerLoginSuccessCalls.take 6 =
      ["b.config", "b.informationForwarded.Load", "disconnectResult", "b.requestCtx.result",
       "b.serverConn.disconnect", "return"] := by decide

open Gate.Gen.C20 in
/-- field order of the payload and MAC construction in `CreateForwardingData` / `WritePlayerKey` -/
theorem src_payload_field_order :
    createForwardingDataCalls.filter (fun c => c ∈ ["protoutil.WriteVarInt", "protoutil.WriteString",
        "protoutil.WriteUUID", "protoutil.WriteProperties", "protoutil.WriteBool", "protoutil.WriteBytes",
        "crypto.WritePlayerKey", "hmac.New", "mac.Write", "mac.Sum", "data.Write", "findForwardingVersion"]) =
      ["findForwardingVersion", "protoutil.WriteVarInt", "protoutil.WriteString", "protoutil.WriteUUID",
       "protoutil.WriteString", "protoutil.WriteProperties", "crypto.WritePlayerKey", "protoutil.WriteBool",
       "protoutil.WriteUUID", "protoutil.WriteBool", "hmac.New", "mac.Write", "mac.Sum", "data.Write",
       "data.Write"] ∧
    writePlayerKeyCalls.filter (fun c => c ∈ ["util.WriteInt64", "util.WriteBytes", "util.WriteString",
        "util.WriteVarInt", "util.WriteUint64", "util.WriteInt32"]) =
      ["util.WriteInt64", "util.WriteBytes", "util.WriteBytes"] := by decide

theorem src_version_constants :
    vDefault = MODERN_FORWARDING_DEFAULT ∧ vWithKey = MODERN_FORWARDING_WITH_KEY ∧
    vWithKeyV2 = MODERN_FORWARDING_WITH_KEY_V2 ∧ vLazySession = MODERN_LAZY_SESSION ∧
    vMax = MODERN_FORWARDING_MAX_VERSION ∧ proto_1_19_3 = MINECRAFT_1_19_3 ∧
    Gate.Gen.C20.ipForwardingChannel = "velocity:player_info" ∧
    Gate.Gen.C20.ipForwardingChannel.toList.all (fun c => c.toNat < 128) = true := by
  refine ⟨rfl, rfl, rfl, rfl, rfl, rfl, by decide, by decide⟩

/-! ### non-vacuity -/

def samplePlayer : Player :=
  { id := List.replicate 16 7, name := [78, 111, 116, 99, 104], protocol := 760,
    props := [⟨[116], [118], []⟩, ⟨[116, 50], [118], [115]⟩],
    key := some ⟨.linkedV2, 1700000000000, [1, 2, 3], [4, 5], List.replicate 16 9⟩ }

example : WfInput [49, 46, 50, 46, 51, 46, 52] samplePlayer := by
  refine ⟨by decide, by decide, by decide, ?_, by decide, ?_⟩
  · intro q hq
    simp only [samplePlayer, List.mem_cons, List.not_mem_nil, or_false] at hq
    rcases hq with rfl | rfl <;> exact ⟨by decide, by decide, by decide⟩
  · intro k hk
    simp only [samplePlayer, Option.some.injEq] at hk
    subst hk
    exact ⟨by decide, by decide, by decide, by decide, by decide⟩

example : findForwardingVersion (requestedVersion [3]) samplePlayer.protocol samplePlayer.keyRev = 3 := by rfl
example : findForwardingVersion (requestedVersion [0x80]) 765 none = 1 := by rfl
example : isAnswerable (.pluginMsg ipForwardingChannel 5 [4] true) := ⟨5, [4], rfl⟩
example : ∀ p ∈ [Pkt.setCompression true, Pkt.pluginMsg ipForwardingChannel 0 [] false, Pkt.other],
    ¬ isAnswerable p := by
  intro p hp
  simp only [List.mem_cons, List.not_mem_nil, or_false] at hp
  rcases hp with rfl | rfl | rfl <;> rintro ⟨id, data, h⟩ <;> simp at h

end Gate.C20.Props
