import GateModel.C03.Lemmas
import GateModel.C20.Link
/-
C20 — helper lemmas: digest length, Paper-reader round trips over the C03 writers, the version
case analysis, and the parse of a forwarded body.
-/
namespace Gate.C20
open Gate Gate.C03 Gate.C20.Spec

/-! ## digest length -/

theorem be4_length (x : UInt32) : (be4 x).length = 4 := beBytes_length 4 _

theorem digest_length (h : H8) : h.digest.length = 32 := by
  simp [H8.digest, be4_length]

theorem sha256_length (m : Bytes) : (sha256 m).length = 32 := digest_length _

theorem hmac_length (k m : Bytes) : (hmacSha256 k m).length = 32 := sha256_length _

/-! ## constants as numerals -/

theorem vDefault_eq : vDefault = 1 := rfl
theorem vWithKey_eq : vWithKey = 2 := rfl
theorem vWithKeyV2_eq : vWithKeyV2 = 3 := rfl
theorem vLazySession_eq : vLazySession = 4 := rfl
theorem vMax_eq : vMax = 4 := rfl

/-! ## Paper readers invert the gate writers -/

theorem readUtf_rt (max : Nat) (s rest : Bytes) (h : s.length ≤ max) (h31 : s.length < 2 ^ 31) :
    readUtf max (writeBytes s ++ rest) = .ok (s, rest) := by
  unfold readUtf writeBytes
  rw [List.append_assoc, readVarInt_writeVarInt _ _ (by omega) (by omega)]
  simp only
  have h0 : ¬ ((s.length : Int) < 0) := by omega
  have h1 : ¬ ((s.length : Int) > ((max * 3 : Nat) : Int)) := by omega
  simp only [h0, h1, if_false, Int.toNat_natCast]
  rw [readFull_append s rest]
  simp only [show ¬ (s.length > max) by omega, if_false]

theorem readByteArray_rt (max : Nat) (s rest : Bytes) (h : s.length ≤ max) (h31 : s.length < 2 ^ 31) :
    readByteArray max (writeBytes s ++ rest) = .ok (s, rest) := by
  unfold readByteArray writeBytes
  rw [List.append_assoc, readVarInt_writeVarInt _ _ (by omega) (by omega)]
  simp only
  have h0 : ¬ ((s.length : Int) < 0) := by omega
  have h1 : ¬ ((s.length : Int) > ((max : Nat) : Int)) := by omega
  simp only [h0, h1, if_false, Int.toNat_natCast]
  exact readFull_append s rest

def wfPaperProp (p : Property) : Prop :=
  p.name.length ≤ SHORT_MAX ∧ p.value.length ≤ SHORT_MAX ∧ p.signature.length ≤ SHORT_MAX

theorem SHORT_MAX_lt : SHORT_MAX < 2 ^ 31 := by decide

theorem readPaperProperty_rt (p : Property) (rest : Bytes) (h : wfPaperProp p) :
    readPaperProperty (writeProperty p ++ rest) = .ok (toPaper p, rest) := by
  obtain ⟨h1, h2, h3⟩ := h
  have hm := SHORT_MAX_lt
  unfold writeProperty readPaperProperty toPaper
  by_cases hs : p.signature.length ≠ 0
  · rw [if_pos hs]
    simp only [List.append_assoc]
    rw [readUtf_rt _ _ _ h1 (by omega)]; simp only
    rw [readUtf_rt _ _ _ h2 (by omega)]; simp only
    rw [readBool_rt]; simp only
    rw [readUtf_rt _ _ _ h3 (by omega)]
    have : p.signature ≠ [] := by intro h; simp [h] at hs
    simp [this]
  · rw [if_neg hs]
    simp only [List.append_assoc]
    rw [readUtf_rt _ _ _ h1 (by omega)]; simp only
    rw [readUtf_rt _ _ _ h2 (by omega)]; simp only
    rw [readBool_rt]; simp only
    have : p.signature = [] := by
      cases hsig : p.signature with
      | nil => rfl
      | cons a t => simp [hsig] at hs
    simp [this]

theorem readN_paper (ps : List Property) (rest : Bytes) (hw : ∀ p ∈ ps, wfPaperProp p) :
    readN readPaperProperty ps.length ((ps.map writeProperty).flatten ++ rest)
      = .ok (ps.map toPaper, rest) := by
  induction ps with
  | nil => simp [readN]
  | cons x t ih =>
    simp only [List.map_cons, List.flatten_cons, List.length_cons, readN, List.append_assoc]
    rw [readPaperProperty_rt x _ (hw x (by simp))]
    simp only
    rw [ih (fun y hy => hw y (by simp [hy]))]

theorem readPaperProperties_rt (ps : List Property) (rest : Bytes) (hw : ∀ p ∈ ps, wfPaperProp p)
    (h31 : ps.length < 2 ^ 31) :
    readPaperProperties (writeProperties ps ++ rest) = .ok (ps.map toPaper, rest) := by
  unfold readPaperProperties writeProperties writeList
  rw [List.append_assoc, readVarInt_writeVarInt _ _ (by omega) (by omega)]
  simp only [Int.toNat_natCast]
  exact readN_paper ps rest hw

/-! ## keys -/

def wfKey (k : PlayerKey) : Prop :=
  -(2 ^ 63 : Nat) ≤ k.expiry ∧ k.expiry < (2 ^ 63 : Nat) ∧ k.pub.length ≤ 512 ∧ k.sig.length ≤ 4096 ∧
    k.holder.length = 16

theorem readKeyData_rt (k : PlayerKey) (rest : Bytes) (h : wfKey k) :
    readKeyData (writePlayerKey k ++ rest) = .ok (keyData k, rest) := by
  obtain ⟨h1, h2, h3, h4, _⟩ := h
  unfold readKeyData writePlayerKey keyData
  simp only [List.append_assoc]
  rw [readInt_rt 8 (by omega) _ _ (by simpa using h1) (by simpa using h2)]; simp only
  rw [readByteArray_rt _ _ _ h3 (by omega)]; simp only
  rw [readByteArray_rt _ _ _ h4 (by omega)]

theorem readSigner_rt (id : Bytes) (k : PlayerKey) (h : k.holder.length = 16) :
    readSignerOrElse id
      (if k.holder ≠ uuidNil then writeBool true ++ writeUUID k.holder else writeBool false)
      = .ok (signerSeen id k, []) := by
  unfold readSignerOrElse signerSeen
  by_cases hh : k.holder ≠ uuidNil
  · rw [if_pos hh, if_pos hh, readBool_rt]; simp only
    have := readUUID_rt k.holder [] h
    simpa using this
  · rw [if_neg hh, if_neg hh]
    have := readBool_rt false []
    simp only [List.append_nil] at this
    rw [this]

/-! ## version case analysis -/

theorem find_cases (req proto : Int) (key : Option KeyRev) :
    findForwardingVersion req proto key = 1 ∨ findForwardingVersion req proto key = 4 ∨
    (findForwardingVersion req proto key = 2 ∧ key = some .genericV1) ∨
    (findForwardingVersion req proto key = 3 ∧ key = some .linkedV2) := by
  unfold findForwardingVersion vDefault vWithKey vWithKeyV2 vLazySession vMax
    Gate.Gen.C20.defaultForwardingVersion Gate.Gen.C20.withKeyForwardingVersion
    Gate.Gen.C20.withKeyV2ForwardingVersion Gate.Gen.C20.lazySessionForwardingVersion
    Gate.Gen.C20.forwardingMaxVersion
  simp only
  by_cases h1 : min req 4 > 1
  · rw [if_pos h1]
    by_cases h2 : proto ≥ proto_1_19_3
    · rw [if_pos h2]
      by_cases h3 : min req 4 ≥ 4
      · rw [if_pos h3]; simp
      · rw [if_neg h3]; simp
    · rw [if_neg h2]
      rcases key with _ | r
      · simp
      · cases r
        · simp
        · simp
        · by_cases h3 : min req 4 ≥ 3
          · simp [h3]
          · simp [h3]
        · simp
  · rw [if_neg h1]; simp

/-! ## the parse of a forwarded payload -/

/-- the domain: what a Paper backend's readers accept (its own string/array limits) -/
structure WfInput (address : Bytes) (p : Player) : Prop where
  addr : address.length ≤ SHORT_MAX
  id : p.id.length = 16
  name : p.name.length ≤ 16
  props : ∀ q ∈ p.props, wfPaperProp q
  nprops : p.props.length < 2 ^ 31
  key : ∀ k, p.key = some k → wfKey k

theorem wfInputB_sound (address : Bytes) (p : Player) (h : wfInputB address p = true) :
    WfInput address p := by
  unfold wfInputB at h
  simp only [Bool.and_eq_true, decide_eq_true_eq, List.all_eq_true] at h
  obtain ⟨⟨⟨⟨⟨h1, h2⟩, h3⟩, h4⟩, h5⟩, h6⟩ := h
  refine ⟨h1, h2, h3, ?_, h5, ?_⟩
  · intro q hq
    have := h4 q hq
    unfold wfPropB at this
    simp only [Bool.and_eq_true, decide_eq_true_eq] at this
    exact ⟨this.1.1, this.1.2, this.2⟩
  · intro k hk
    rw [hk] at h6
    unfold wfKeyB at h6
    simp only [Bool.and_eq_true, decide_eq_true_eq] at h6
    exact ⟨h6.1.1.1.1, h6.1.1.1.2, h6.1.1.2, h6.1.2, h6.2⟩

theorem paperParse_mac (secret body : Bytes) :
    paperParse secret (hmacSha256 secret body ++ body) = parseBody body := by
  have hl := hmac_length secret body
  unfold paperParse checkIntegrity
  have h1 : ¬ ((hmacSha256 secret body ++ body).length < 32) := by
    simp only [List.length_append]; omega
  have h2 : List.drop 32 (hmacSha256 secret body ++ body) = body := List.drop_left' hl
  have h3 : List.take 32 (hmacSha256 secret body ++ body) = hmacSha256 secret body := List.take_left' hl
  rw [if_neg h1, h2, h3]
  simp [hl]

theorem parseBody_forwarded (address : Bytes) (p : Player) (v : Int) (tail : Bytes)
    (hv : wfInt32 v) (hv4 : v ≤ 4) (h : WfInput address p) :
    parseBody (forwardedBody address p v tail)
      = parseTail v address p.id p.name (p.props.map toPaper) tail := by
  have hm := SHORT_MAX_lt
  unfold parseBody forwardedBody
  simp only [List.append_assoc]
  rw [varint_RT v _ hv]; simp only
  have : ¬ (v > MODERN_FORWARDING_MAX_VERSION) := by
    unfold MODERN_FORWARDING_MAX_VERSION MODERN_LAZY_SESSION; omega
  rw [if_neg this]
  rw [readUtf_rt _ _ _ h.addr (by have := h.addr; omega)]; simp only
  rw [readUUID_rt _ _ h.id]; simp only
  rw [readUtf_rt _ _ _ h.name (by have := h.name; omega)]; simp only
  rw [readPaperProperties_rt _ _ h.props h.nprops]

theorem keyRev_some (p : Player) (r : KeyRev) (h : p.keyRev = some r) :
    ∃ k, p.key = some k ∧ k.rev = r := by
  unfold Player.keyRev at h
  cases hk : p.key with
  | none => simp [hk] at h
  | some k => simp [hk] at h; exact ⟨k, rfl, h⟩

theorem wfInt32_small (v : Int) (h0 : 0 ≤ v) (h4 : v ≤ 4) : wfInt32 v := by
  unfold wfInt32; omega

theorem create_parses (secret address : Bytes) (p : Player) (requested : Int) (h : WfInput address p) :
    ∃ d, createForwardingData secret address p requested = .ok d ∧
      paperParse secret d
        = .ok (expected address p (findForwardingVersion requested p.protocol p.keyRev)) := by
  unfold createForwardingData
  rcases find_cases requested p.protocol p.keyRev with hv | hv | ⟨hv, hk⟩ | ⟨hv, hk⟩
  · -- version 1: no key section
    simp only [hv]
    have hks : keySection 1 p.key = .ok [] := by
      unfold keySection; simp [vWithKey_eq]
    rw [hks]
    refine ⟨_, rfl, ?_⟩
    rw [paperParse_mac, parseBody_forwarded _ _ _ _ (wfInt32_small 1 (by omega) (by omega)) (by omega) h]
    simp [parseTail, expected, MODERN_FORWARDING_WITH_KEY_V2, MODERN_FORWARDING_WITH_KEY, MODERN_LAZY_SESSION]
  · -- version 4: lazy session, no key section
    simp only [hv]
    have hks : keySection 4 p.key = .ok [] := by
      unfold keySection; simp [vLazySession_eq]
    rw [hks]
    refine ⟨_, rfl, ?_⟩
    rw [paperParse_mac, parseBody_forwarded _ _ _ _ (wfInt32_small 4 (by omega) (by omega)) (by omega) h]
    simp [parseTail, expected, MODERN_FORWARDING_WITH_KEY_V2, MODERN_FORWARDING_WITH_KEY, MODERN_LAZY_SESSION]
  · -- version 2: key
    obtain ⟨k, hkey, _⟩ := keyRev_some p _ hk
    simp only [hv]
    have hks : keySection 2 p.key = .ok (writePlayerKey k ++ []) := by
      unfold keySection; simp [vWithKey_eq, vLazySession_eq, vWithKeyV2_eq, hkey]
    rw [hks]
    refine ⟨_, rfl, ?_⟩
    rw [paperParse_mac, parseBody_forwarded _ _ _ _ (wfInt32_small 2 (by omega) (by omega)) (by omega) h]
    unfold parseTail
    rw [if_neg (by simp [MODERN_FORWARDING_WITH_KEY_V2]), if_pos (by simp [MODERN_FORWARDING_WITH_KEY, MODERN_LAZY_SESSION])]
    rw [readKeyData_rt k [] (h.key k hkey)]
    simp [expected, hkey]
  · -- version 3: key and signer
    obtain ⟨k, hkey, _⟩ := keyRev_some p _ hk
    simp only [hv]
    have hks : keySection 3 p.key = .ok (writePlayerKey k ++
        (if k.holder ≠ uuidNil then writeBool true ++ writeUUID k.holder else writeBool false)) := by
      unfold keySection; simp [vWithKey_eq, vLazySession_eq, vWithKeyV2_eq, hkey]
    rw [hks]
    refine ⟨_, rfl, ?_⟩
    rw [paperParse_mac, parseBody_forwarded _ _ _ _ (wfInt32_small 3 (by omega) (by omega)) (by omega) h]
    unfold parseTail
    rw [if_pos (by simp [MODERN_FORWARDING_WITH_KEY_V2, MODERN_LAZY_SESSION])]
    rw [readKeyData_rt k _ (h.key k hkey)]
    simp only
    rw [readSigner_rt p.id k (h.key k hkey).2.2.2.2]
    simp [expected, hkey]

/-! ## negotiation: gate's code against the transcription of Velocity's -/

theorem int8OfByte_eq (b : UInt8) : int8OfByte b = readByteSigned b := by
  unfold int8OfByte readByteSigned
  by_cases h : b.toNat < 128
  · rw [if_pos h, if_neg (by omega)]; simp
  · rw [if_neg h, if_pos (by omega)]; simp

theorem requested_eq (data : Bytes) : requestedVersion data = velocityRequested data := by
  unfold requestedVersion velocityRequested
  match data with
  | [] => simp [vDefault_eq, MODERN_FORWARDING_DEFAULT]
  | [b] => simp [int8OfByte_eq]
  | a :: b :: r => simp [vDefault_eq, MODERN_FORWARDING_DEFAULT]

theorem find_eq (requested protocol : Int) (k : Option KeyRevision) :
    findForwardingVersion requested protocol (embedKey k)
      = velocityFindForwardingVersion requested protocol k := by
  unfold findForwardingVersion velocityFindForwardingVersion vDefault vWithKey vWithKeyV2 vLazySession vMax
    Gate.Gen.C20.defaultForwardingVersion Gate.Gen.C20.withKeyForwardingVersion
    Gate.Gen.C20.withKeyV2ForwardingVersion Gate.Gen.C20.lazySessionForwardingVersion
    Gate.Gen.C20.forwardingMaxVersion
    MODERN_FORWARDING_MAX_VERSION MODERN_LAZY_SESSION MODERN_FORWARDING_DEFAULT MODERN_FORWARDING_WITH_KEY
    MODERN_FORWARDING_WITH_KEY_V2 MINECRAFT_1_19_3 proto_1_19_3
  simp only [Int.min_def]
  rcases k with _ | k
  · simp only [embedKey]
  · cases k <;> simp only [embedKey]

theorem find_eq' (requested protocol : Int) (k : Option KeyRev) :
    findForwardingVersion requested protocol k
      = velocityFindForwardingVersion requested protocol (toVelocityKey k) := by
  rcases k with _ | r
  · exact find_eq _ _ none
  · cases r
    · exact find_eq _ _ none
    · exact find_eq _ _ (some .GENERIC_V1)
    · exact find_eq _ _ (some .LINKED_V2)
    · exact find_eq _ _ none

/-! ## the handler: one-step facts and the history invariant -/

def HState.init : HState := {}

/-- a forwarding request that was answered and whose answer reached the backend -/
def isAnswerable (p : Pkt) : Prop := ∃ id data, p = .pluginMsg ipForwardingChannel id data true

@[simp] theorem post_forwarded (s : HState) (r : Result) : (s.post r).forwarded = s.forwarded := by
  unfold HState.post; split <;> rfl
@[simp] theorem post_proceeded (s : HState) (r : Result) : (s.post r).proceeded = s.proceeded := by
  unfold HState.post; split <;> rfl
@[simp] theorem post_connected (s : HState) (r : Result) : (s.post r).connected = s.connected := by
  unfold HState.post; split <;> rfl
@[simp] theorem disconnect_forwarded (s : HState) : s.disconnect.forwarded = s.forwarded := rfl
@[simp] theorem disconnect_proceeded (s : HState) : s.disconnect.proceeded = s.proceeded := rfl
@[simp] theorem disconnect_connected (s : HState) : s.disconnect.connected = false := rfl
@[simp] theorem disconnect_result (s : HState) : s.disconnect.result = s.result := rfl

theorem step_forwarded (c : Cfg) (s : HState) (p : Pkt) (h : (step c s p).1.forwarded = true) :
    s.forwarded = true ∨ (c.mode = .velocity ∧ s.connected = true ∧ isAnswerable p) := by
  cases p with
  | pluginMsg channel id data writeOk =>
    simp only [step] at h
    by_cases hc : s.connected
    · simp only [hc, Bool.not_true, Bool.false_eq_true, if_false] at h
      by_cases hm : c.mode = .velocity ∧ channel = ipForwardingChannel
      · rw [if_pos hm] at h
        cases hcr : createForwardingData c.secret c.address c.player (requestedVersion data) with
        | error e => rw [hcr] at h; left; simpa using h
        | ok d =>
          rw [hcr] at h
          cases writeOk with
          | true => right; exact ⟨hm.1, hc, id, data, by rw [hm.2]⟩
          | false => left; simpa using h
      · rw [if_neg hm] at h; left; exact h
    · simp only [hc, Bool.not_false, if_true] at h; left; exact h
  | loginSuccess =>
    left; simp only [step] at h
    split at h
    · simpa using h
    · split at h <;> simpa using h
  | encryptionRequest => left; simpa [step] using h
  | disconnect => left; simpa [step] using h
  | setCompression ok =>
    left; simp only [step] at h
    split at h
    · exact h
    · split at h
      · exact h
      · simpa using h
  | other => left; simpa [step] using h

/-- `proceeded` is only ever set by a login success that passed the forwarding check -/
theorem step_proceeded (c : Cfg) (s : HState) (p : Pkt) (h : (step c s p).1.proceeded = true) :
    s.proceeded = true ∨ (p = .loginSuccess ∧ (c.mode = .velocity → s.forwarded = true)) := by
  cases p with
  | pluginMsg channel id data writeOk =>
    left; simp only [step] at h
    split at h
    · exact h
    · split at h
      · split at h
        · simpa using h
        · split at h <;> simpa using h
      · exact h
  | loginSuccess =>
    simp only [step] at h
    split at h
    · left; simpa using h
    · rename_i hne
      right; refine ⟨rfl, fun hm => ?_⟩
      cases hf : s.forwarded with
      | true => rfl
      | false => exact absurd ⟨hm, by simp [hf]⟩ hne
  | encryptionRequest => left; simpa [step] using h
  | disconnect => left; simpa [step] using h
  | setCompression ok =>
    left; simp only [step] at h
    split at h
    · exact h
    · split at h
      · exact h
      · simpa using h
  | other => left; simpa [step] using h

/-- `forwarded` is never reset -/
theorem step_forwarded_mono (c : Cfg) (s : HState) (p : Pkt) (h : s.forwarded = true) :
    (step c s p).1.forwarded = true := by
  cases p with
  | pluginMsg channel id data writeOk =>
    simp only [step]
    split
    · exact h
    · split
      · split
        · simpa using h
        · split <;> simp [h]
      · exact h
  | loginSuccess =>
    simp only [step]
    split
    · simpa using h
    · split <;> simpa using h
  | encryptionRequest => simpa [step] using h
  | disconnect => simpa [step] using h
  | setCompression ok =>
    simp only [step]
    split
    · exact h
    · split
      · exact h
      · simpa using h
  | other => simpa [step] using h

/-- history invariant: (1) `forwarded` implies an answered request in the history, (2) in velocity
    mode `proceeded` implies `forwarded` -/
def Inv (c : Cfg) (s : HState) (hist : List Pkt) : Prop :=
  (s.forwarded = true → c.mode = .velocity ∧ ∃ p ∈ hist, isAnswerable p) ∧
  (c.mode = .velocity → s.proceeded = true → s.forwarded = true)

theorem inv_step (c : Cfg) (s : HState) (hist : List Pkt) (p : Pkt) (h : Inv c s hist) :
    Inv c (step c s p).1 (hist ++ [p]) := by
  refine ⟨fun hf => ?_, fun hm hp => ?_⟩
  · rcases step_forwarded c s p hf with h0 | ⟨hm, _, ha⟩
    · obtain ⟨hm, q, hq, ha⟩ := h.1 h0
      exact ⟨hm, q, by simp [hq], ha⟩
    · exact ⟨hm, p, by simp, ha⟩
  · rcases step_proceeded c s p hp with h0 | ⟨_, hfw⟩
    · exact step_forwarded_mono c s p (h.2 hm h0)
    · exact step_forwarded_mono c s p (hfw hm)

theorem inv_run (c : Cfg) (ops : List Pkt) : ∀ (s : HState) (hist : List Pkt), Inv c s hist →
    Inv c (run c s ops) (hist ++ ops) := by
  induction ops with
  | nil => intro s hist h; simpa [run] using h
  | cons p ps ih =>
    intro s hist h
    have := ih (step c s p).1 (hist ++ [p]) (inv_step c s hist p h)
    simpa [run, List.append_assoc] using this

theorem inv_init (c : Cfg) : Inv c HState.init [] := by
  refine ⟨fun h => ?_, fun _ h => ?_⟩ <;> simp [HState.init] at h

/-- a result, once delivered, is never replaced (`sync.Once`) -/
theorem step_result_once (c : Cfg) (s : HState) (p : Pkt) (r : Result) (h : s.result = some r) :
    (step c s p).1.result = some r := by
  have hp : ∀ r', (s.post r').result = some r := by
    intro r'; unfold HState.post; rw [h]; exact h
  cases p with
  | pluginMsg channel id data writeOk =>
    simp only [step]
    split
    · exact h
    · split
      · split
        · simpa using h
        · split <;> simp [h]
      · exact h
  | loginSuccess =>
    simp only [step]
    split
    · simpa using hp _
    · split <;> simpa using h
  | encryptionRequest => simpa [step] using hp _
  | disconnect => simpa [step] using hp _
  | setCompression ok =>
    simp only [step]
    split
    · exact h
    · split
      · exact h
      · simpa using hp _
  | other => simpa [step] using h

end Gate.C20
