import GateModel.Base.Line
import GateModel.C13.Model
/-
C13 driver.  Case line:  `run <thr0> <thr1> … / <pick,pick,…>\t<observation>`  (see harness/c13/main.go)
The model (repaired variant = the code with fixes/C13-completion-once.diff) replays the picks with
`Model.pick` and prints the same observation.  The verdict is the executable spec evaluated on the
IMPLEMENTATION's observation:
  viol:completion-twice        callback invoked more than once (one loginEventFired call)
  viol:completion-before-fire  callback invoked although the event has not fired
  viol:completion-missing      terminal, fired, nothing outstanding, no cleanup/clear, no premature answer, but not invoked
  viol:id-reused               two login plugin messages written to the client under the same id (ids are never reused:
                               Props.ids_never_reused) — a late answer would reach the wrong consumer
  viol:consumer-twice          one registration's consumer invoked twice
  viol:wrong-consumer          a consumer got a reply the client did not send for the id its message was sent under
  viol:wrong-reply             a consumer got a reply no response of the program carries
  viol:relay-mismatch          backend answers ≠ relay consumer invocations (id, success, body, order)
  viol:hang / viol:panic
-/
namespace Gate.C13
open Gate

partial def parseCons (s : String) : Option Consumer :=
  match s.toList with
  | 'p' :: r => (String.ofList r).toNat?.map (.plain · false)
  | 'f' :: r => (String.ofList r).toNat?.map (.plain · true)
  | 'r' :: r => (String.ofList r).toInt?.map (.relay · false)
  | 'e' :: r => (String.ofList r).toInt?.map (.relay · true)
  | 'c' :: r =>
    let t := r.takeWhile (· != '.')
    let rest := (r.dropWhile (· != '.')).drop 1
    do let n ← (String.ofList t).toNat?
       let nx ← parseCons (String.ofList rest)
       pure (.chain n nx)
  | _ => none

def Consumer.enc : Consumer → String
  | .plain t false => "p" ++ toString t
  | .plain t true => "f" ++ toString t
  | .relay b false => "r" ++ toString b
  | .relay b true => "e" ++ toString b
  | .chain t n => "c" ++ toString t ++ "." ++ n.enc

/-- the contents of the LoginPluginMessage sent to the client for a registration (harness convention;
    relayToClient replaces empty backend data by one zero byte) -/
def Consumer.contents : Consumer → Bytes
  | .relay _ true => [0]
  | c => c.enc.toUTF8.toList

def parseCall (s : String) : Option Call :=
  match s.toList with
  | 'S' :: r => (parseCons (String.ofList r)).map .send
  | 'R' :: r =>
    match (String.ofList r).splitOn ":" with
    | [i, o, d] => do
      let id ← i.toInt?
      let data ← parseHex d
      pure (.respond id (o == "1") data)
    | _ => none
  | ['F'] => some .fire
  | ['X'] => some .clear
  | ['Z'] => some .cleanup
  | 'B' :: _ => some .badSend
  | _ => none

def parseThread (s : String) : Option (List Call) :=
  if s = "_" then some [] else (s.splitOn ",").mapM parseCall

def parsePicks (s : String) : Option (List Nat) :=
  if s = "-" then some [] else (s.splitOn ",").mapM String.toNat?

def showList (xs : List String) : String := if xs.isEmpty then "-" else ",".intercalate xs
def showReply : Reply → String
  | none => "nil"
  | some b => toHex b
def b01 (b : Bool) : String := if b then "1" else "0"

def insertSorted (x : Int) : List Int → List Int
  | [] => [x]
  | y :: ys => if x ≤ y then x :: y :: ys else y :: insertSorted x ys
def sortInts (xs : List Int) : List Int := xs.foldr insertSorted []

def observe (sys : Sys) : String :=
  let s := sys.st
  let cl := s.clientOut.map fun id =>
    toString id ++ ":" ++ (match s.registered.lookup id with | some c => toHex c.contents | none => "?")
  let cons := s.consLog.map fun (_, c, r) => c.enc ++ ":" ++ showReply r
  let be := s.backendOut.map fun (_, bid, r) => toString bid ++ ":" ++ b01 r.isSome ++ ":" ++ toHex (r.getD [])
  let fin := (sys.ts.filter (·.isEmpty)).length
  s!"cl={showList cl} cons={showList cons} be={showList be} done={s.completions} out={showList ((sortInts (s.outstanding.map (·.1))).map toString)} q={showList (s.queue.map toString)} fired={b01 s.fired} cb={b01 s.onAll} fin={fin}"

/-! ### the spec on the implementation's observation -/

def field (obs : String) (name : String) : String :=
  match (obs.splitOn " ").find? (·.startsWith (name ++ "=")) with
  | some f => (f.drop (name.length + 1)).toString
  | none => ""
def items (v : String) : List String := if v = "-" || v = "" then [] else v.splitOn ","

def hasDup : List String → Bool
  | [] => false
  | x :: xs => xs.contains x || hasDup xs

def responds (prog : Program) : List (Int × Reply) :=
  prog.flatten.filterMap fun | .respond id ok d => some (id, replyOf ok d) | _ => none

def verdict (prog : Program) (msys : Sys) (impl : String) : String :=
  if impl = "hang" then "viol:hang" else if impl = "panic" then "viol:panic" else
  let done := (field impl "done").toNat?.getD 0
  let fired := field impl "fired" == "1"
  let cons := (items (field impl "cons")).map fun e => match e.splitOn ":" with | [a, b] => (a, b) | _ => (e, "?")
  let cl := (items (field impl "cl")).map fun e => match e.splitOn ":" with | [a, b] => (a.toInt?.getD 0, b) | _ => (0, "?")
  let be := items (field impl "be")
  let rs := responds prog
  if prog.fires ≤ 1 && done > 1 then "viol:completion-twice"
  else if done ≥ 1 && !fired then "viol:completion-before-fire"
  else if hasDup (cl.map (fun e => toString e.1)) then "viol:id-reused"
  else if hasDup (cons.map (·.1)) then "viol:consumer-twice"
  else
    let bad := cons.filterMap fun (enc, reply) =>
      match parseCons enc with
      | none => some "viol:wrong-consumer"
      | some c =>
        -- empty-data relays all carry the same one-byte contents: their id cannot be read off the client log
        let ids := match c with | .relay _ true => [] | _ => (cl.filter (·.2 == toHex c.contents)).map (·.1)
        match ids with
        | [id] => if rs.any (fun (i, r) => i == id && showReply r == reply) then none else some "viol:wrong-consumer"
        | _ => if rs.any (fun (_, r) => showReply r == reply) then none else some "viol:wrong-reply"
    match bad with
    | b :: _ => b
    | [] =>
      let want := cons.filterMap fun (enc, reply) =>
        match parseCons enc with
        | some (.relay bid _) =>
          some (toString bid ++ ":" ++ (if reply == "nil" then "0:-" else "1:" ++ reply))
        | _ => none
      if want != be then "viol:relay-mismatch"
      else if msys.terminal && prog.fires == 1 && fired && field impl "out" == "-" && !msys.st.cleaned
              && !msys.st.premature && done != 1 then "viol:completion-missing"
      else "ok"

def step' (c : Case) : String × String :=
  match c.op with
  | "run" =>
    let thr := c.args.takeWhile (· != "/")
    let rest := (c.args.dropWhile (· != "/")).drop 1
    match thr.mapM parseThread, rest with
    | some prog, [p] =>
      match parsePicks p with
      | some picks =>
        let sys := picks.foldl (pick .repaired) (initSys prog)
        (observe sys, verdict prog sys c.impl)
      | none => ("bad-op", "-")
    | _, _ => ("bad-op", "-")
  | _ => ("bad-op", "-")

end Gate.C13

def main : IO Unit := Gate.runPureDriver Gate.C13.step'
