import GateModel.C13.Ids
import GateModel.C13.Members
import GateModel.C13.Live
/- C13: the invariants hold initially and along every schedule. -/
set_option linter.unusedSimpArgs false
namespace Gate.C13

theorem wsum_calls_zero (f : Act → Nat) (hf : ∀ c : Call, f c.act = 0) (l : List Call) :
    wsum f (l.map Call.act) = 0 := by
  induction l with
  | nil => rfl
  | cons c cs ih => simp [hf, ih]

theorem cnt_init_zero (f : Act → Nat) (hf : ∀ c : Call, f c.act = 0) (prog : Program) :
    cnt f (initSys prog).ts = 0 := by
  simp only [initSys, cnt]
  induction prog with
  | nil => rfl
  | cons l ls ih =>
    simp only [List.map_cons, List.sum_cons, wsum_calls_zero f hf l, Nat.zero_add]
    exact ih

theorem cnt_fF_init (prog : Program) : cnt fF (initSys prog).ts = prog.fires := by
  simp only [initSys, cnt, Program.fires]
  induction prog with
  | nil => rfl
  | cons l ls ih =>
    simp only [List.map_cons, List.sum_cons, List.flatten_cons, List.filter_append, List.length_append]
    rw [ih]
    congr 1
    induction l with
    | nil => rfl
    | cons c cs ihc =>
      cases c <;> simp [Call.act, fF, List.filter_cons, ihc] <;> omega

theorem tok_init (prog : Program) (h : prog.fires ≤ 1) : TokInv (initSys prog) := by
  have hK := cnt_init_zero fK (by intro c; cases c <;> rfl) prog
  have hF := cnt_fF_init prog
  refine ⟨?_, ?_⟩
  · rw [hF]; simp [initSys, b2n]; exact h
  · rw [hF, hK]; simp [initSys, b2n]; exact h

theorem id_init (prog : Program) : IdInv (initSys prog) := by
  intro n
  have hR := cnt_init_zero (fReg n) (by intro c; cases c <;> rfl) prog
  have hC := cnt_init_zero (fCons n) (by intro c; cases c <;> rfl) prog
  rw [hR, hC]
  simp [initSys, keys, hkeys]

theorem mem_flatten_init {prog : Program} {a : Act} (h : a ∈ (initSys prog).ts.flatten) :
    ∃ c : Call, c ∈ prog.flatten ∧ a = c.act := by
  simp only [initSys, List.mem_flatten, List.mem_map] at h
  obtain ⟨l, ⟨l0, hl0, rfl⟩, ha⟩ := h
  simp only [List.mem_map] at ha
  obtain ⟨c, hc, rfl⟩ := ha
  exact ⟨c, by simp only [List.mem_flatten]; exact ⟨l0, hl0, hc⟩, rfl⟩

theorem mem_init (prog : Program) : MemInv prog (initSys prog) := by
  refine ⟨by intro e he; simp [initSys] at he, ?_, by intro h hh; simp [initSys] at hh,
    by intro e he; simp [initSys] at he, by simp [initSys], ?_⟩
  · intro id c r h
    obtain ⟨cl, _, hc⟩ := mem_flatten_init h
    cases cl <;> simp [Call.act] at hc
  · intro id ok data h
    obtain ⟨cl, hm, hc⟩ := mem_flatten_init h
    cases cl <;> simp [Call.act] at hc
    obtain ⟨rfl, rfl, rfl⟩ := hc
    exact hm

theorem live_init (prog : Program) : LiveInv (initSys prog) := by
  have hK := cnt_init_zero fK (by intro c; cases c <;> rfl) prog
  refine ⟨by intro _ n hn; simp [initSys, keys] at hn, by intro _ _ n hn; simp [initSys] at hn, ?_,
    by intro h; simp [initSys] at h⟩
  intro h; rw [hK] at h; simp [initSys] at h

/-! ### along every schedule -/

theorem id_exec (v : Variant) (prog : Program) (sched : List Nat) : IdInv (exec v (initSys prog) sched) :=
  exec_inv v IdInv (fun _ _ _ _ h hget => id_step v h hget) sched _ (id_init prog)

theorem mem_exec (v : Variant) (prog : Program) (sched : List Nat) : MemInv prog (exec v (initSys prog) sched) :=
  exec_inv v (MemInv prog) (fun _ _ _ _ h hget => mem_step v prog h hget) sched _ (mem_init prog)

theorem tok_exec (prog : Program) (h : prog.fires ≤ 1) (sched : List Nat) :
    TokInv (exec .repaired (initSys prog) sched) :=
  exec_inv .repaired TokInv (fun _ _ _ _ h hget => tok_step h hget) sched _ (tok_init prog h)

theorem live_exec (prog : Program) (h : prog.fires ≤ 1) (sched : List Nat) :
    TokInv (exec .repaired (initSys prog) sched) ∧ LiveInv (exec .repaired (initSys prog) sched) :=
  exec_inv .repaired (fun s => TokInv s ∧ LiveInv s)
    (fun _ _ _ _ h hget => ⟨tok_step h.1 hget, live_step h.1 h.2 hget⟩) sched _ ⟨tok_init prog h, live_init prog⟩

/-- two entries of a key-unique list with the same key are equal -/
theorem eq_of_count_le_one {α : Type} (l : List (Int × α)) (h : ∀ n, (l.map (·.1)).count n ≤ 1)
    {a b : Int × α} (ha : a ∈ l) (hb : b ∈ l) (hab : a.1 = b.1) : a = b := by
  induction l with
  | nil => simp at ha
  | cons x xs ih =>
    have hx : ∀ n, (xs.map (·.1)).count n ≤ 1 := by
      intro n; have := h n; simp only [List.map_cons, List.count_cons] at this; omega
    have hnot : ∀ y ∈ xs, y.1 ≠ x.1 := by
      intro y hy hyx
      have := h x.1
      simp only [List.map_cons, List.count_cons] at this
      have hpos : 0 < (xs.map (·.1)).count x.1 := by
        rw [List.count_pos_iff]; simp only [List.mem_map]; exact ⟨y, hy, hyx⟩
      simp at this; omega
    simp only [List.mem_cons] at ha hb
    rcases ha with rfl | ha <;> rcases hb with rfl | hb
    · rfl
    · exact absurd hab.symm (hnot _ hb)
    · exact absurd hab (hnot _ ha)
    · exact ih hx ha hb

end Gate.C13
