import GateModel.C13.Lemmas
/- C13: Go-map lemmas for the outstanding-response map. -/
set_option linter.unusedSimpArgs false
namespace Gate.C13

def keys (m : List (Int × Consumer)) : List Int := m.map (·.1)

theorem count_keys_mapDel (m : List (Int × Consumer)) (id n : Int) :
    (keys (mapDel m id)).count n = if n = id then 0 else (keys m).count n := by
  induction m with
  | nil => simp [keys, mapDel]
  | cons e es ih =>
    obtain ⟨k, c⟩ := e
    simp only [keys, mapDel] at ih ⊢
    by_cases he : k = id
    · subst he
      by_cases hn : n = k
      · subst hn; simp [List.filter_cons] at ih ⊢; exact ih
      · have hkn : ¬ k = n := fun h => hn h.symm
        simp [List.filter_cons, hn, List.count_cons, hkn] at ih ⊢; exact ih
    · by_cases hn : n = id
      · subst hn
        have hkn : ¬ k = n := he
        simp [List.filter_cons, he, List.count_cons] at ih ⊢; simp [ih, hkn]
      · simp [List.filter_cons, he, List.count_cons, hn] at ih ⊢; simp [ih]

theorem count_keys_mapPut (m : List (Int × Consumer)) (id n : Int) (c : Consumer) :
    (keys (mapPut m id c)).count n = if n = id then 1 else (keys m).count n := by
  have := count_keys_mapDel m id n
  simp only [keys, mapDel] at this
  simp only [keys, mapPut, List.map_cons, List.count_cons, this]
  by_cases hn : n = id
  · subst hn; simp
  · have : ¬ id = n := fun h => hn h.symm
    simp [hn, this]

theorem lookup_some_count {m : List (Int × Consumer)} {id : Int} {c : Consumer} (h : m.lookup id = some c) :
    0 < (keys m).count id := by
  induction m with
  | nil => simp at h
  | cons e es ih =>
    obtain ⟨k, v⟩ := e
    simp only [List.lookup_cons] at h
    by_cases hk : id = k
    · simp [keys, hk]
    · have : (id == k) = false := by simp [hk]
      rw [this] at h
      have := ih h
      simp only [keys, List.map_cons, List.count_cons] at this ⊢
      omega

theorem lookup_some_mem {m : List (Int × Consumer)} {id : Int} {c : Consumer} (h : m.lookup id = some c) :
    (id, c) ∈ m := by
  induction m with
  | nil => simp at h
  | cons e es ih =>
    obtain ⟨k, v⟩ := e
    simp only [List.lookup_cons] at h
    by_cases hk : id = k
    · have : (id == k) = true := by simp [hk]
      rw [this] at h; simp at h; simp [hk, h]
    · have : (id == k) = false := by simp [hk]
      rw [this] at h
      simp [ih h]

theorem lookup_none_not_mem {m : List (Int × Consumer)} {id : Int} (h : m.lookup id = none) : id ∉ keys m := by
  induction m with
  | nil => simp [keys]
  | cons e es ih =>
    obtain ⟨k, v⟩ := e
    simp only [List.lookup_cons] at h
    by_cases hk : id = k
    · have : (id == k) = true := by simp [hk]
      rw [this] at h; simp at h
    · have : (id == k) = false := by simp [hk]
      rw [this] at h
      have := ih h
      simp only [keys, List.map_cons, List.mem_cons] at this ⊢
      intro hh; rcases hh with hh | hh
      · exact hk hh
      · exact this hh

theorem mem_keys_of_count {m : List (Int × Consumer)} {n : Int} : 0 < (keys m).count n ↔ n ∈ keys m := by
  simp [List.count_pos_iff]

end Gate.C13
