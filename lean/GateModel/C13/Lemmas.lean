import GateModel.C13.Model
/-
C13 helper lemmas: counting actions over all work stacks, the generic invariant rule for `exec`,
and the invariants used by Props.
-/
namespace Gate.C13

/-! ### counting over work stacks -/

def wsum (f : Act → Nat) (l : List Act) : Nat := (l.map f).sum
def cnt (f : Act → Nat) (ts : List (List Act)) : Nat := (ts.map (wsum f)).sum

@[simp] theorem wsum_nil (f) : wsum f [] = 0 := rfl
@[simp] theorem wsum_cons (f a l) : wsum f (a :: l) = f a + wsum f l := by simp [wsum]
@[simp] theorem wsum_append (f l m) : wsum f (l ++ m) = wsum f l + wsum f m := by simp [wsum]

theorem cnt_set (f : Act → Nat) : ∀ (ts : List (List Act)) (t : Nat) (old new : List Act),
    ts[t]? = some old → cnt f (ts.set t new) + wsum f old = cnt f ts + wsum f new
  | [], t, _, _, h => by simp at h
  | x :: xs, 0, old, new, h => by
    simp at h; subst h; simp [cnt]; omega
  | x :: xs, t + 1, old, new, h => by
    have ih := cnt_set f xs t old new (by simpa using h)
    simp [cnt] at ih ⊢; omega

theorem cnt_step (f : Act → Nat) {ts : List (List Act)} {t : Nat} {a : Act} {rest : List Act} (new : List Act)
    (h : ts[t]? = some (a :: rest)) :
    cnt f (ts.set t (new ++ rest)) + f a = cnt f ts + wsum f new := by
  have := cnt_set f ts t (a :: rest) (new ++ rest) h
  simp at this; omega

theorem cnt_zero_of_all_empty (f : Act → Nat) : ∀ (ts : List (List Act)), ts.all (·.isEmpty) = true → cnt f ts = 0
  | [], _ => rfl
  | x :: xs, h => by
    simp at h
    have := cnt_zero_of_all_empty f xs (by simpa using h.2)
    simp [cnt] at this ⊢
    simp [h.1, this]

theorem mem_flatten_set {ts : List (List Act)} {t : Nat} {a : Act} {rest new : List Act}
    (h : ts[t]? = some (a :: rest)) {x : Act} (hx : x ∈ (ts.set t (new ++ rest)).flatten) :
    x ∈ new ∨ x ∈ ts.flatten := by
  induction ts generalizing t with
  | nil => simp at h
  | cons y ys ih =>
    cases t with
    | zero =>
      simp at h; subst h
      simp at hx ⊢
      rcases hx with hx | hx | hx <;> simp [hx]
    | succ t =>
      simp at h hx ⊢
      rcases hx with hx | hx
      · simp [hx]
      · have := ih h (by simpa using hx)
        rcases this with h1 | h1
        · simp [h1]
        · have h2 : ∃ l, l ∈ ys ∧ x ∈ l := by simpa using h1
          simp [h2]

theorem mem_flatten_of_get {ts : List (List Act)} {t : Nat} {l : List Act} (h : ts[t]? = some l)
    {x : Act} (hx : x ∈ l) : x ∈ ts.flatten := by
  simp only [List.mem_flatten]
  exact ⟨l, List.mem_of_getElem? h, hx⟩

/-! ### the invariant rule -/

/-- the system after goroutine `t` executed action `a` (its stack was `a :: rest`) -/
def after (v : Variant) (sys : Sys) (t : Nat) (a : Act) (rest : List Act) : Sys :=
  { st := (step v sys.st a).1, ts := sys.ts.set t ((step v sys.st a).2 ++ rest) }

theorem stepSys_eq (v : Variant) (sys : Sys) (t : Nat) :
    stepSys v sys t = sys ∨ ∃ a rest, sys.ts[t]? = some (a :: rest) ∧ stepSys v sys t = after v sys t a rest := by
  unfold stepSys
  split
  · next a rest h => exact Or.inr ⟨a, rest, h, rfl⟩
  · exact Or.inl rfl

theorem exec_inv (v : Variant) (P : Sys → Prop)
    (hstep : ∀ sys t a rest, P sys → sys.ts[t]? = some (a :: rest) → P (after v sys t a rest))
    (sched : List Nat) : ∀ sys, P sys → P (exec v sys sched) := by
  induction sched with
  | nil => intro sys h; exact h
  | cons t tl ih =>
    intro sys h
    show P (exec v (stepSys v sys t) tl)
    apply ih
    rcases stepSys_eq v sys t with e | ⟨a, rest, hget, e⟩
    · rw [e]; exact h
    · rw [e]; exact hstep sys t a rest h hget

theorem exec_append (v : Variant) (sys : Sys) (s1 s2 : List Nat) :
    exec v sys (s1 ++ s2) = exec v (exec v sys s1) s2 := by
  simp [exec, List.foldl_append]

/-! ### equations of `step` at its branching actions -/

theorem after_eq {v : Variant} {sys : Sys} {t : Nat} {a : Act} {rest : List Act} {s' : State} {new : List Act}
    (h : step v sys.st a = (s', new)) : after v sys t a rest = ⟨s', sys.ts.set t (new ++ rest)⟩ := by
  simp [after, h]

theorem step_respLookup_none {v : Variant} {s : State} {id : Int} {ok : Bool} {data : Bytes}
    (h : s.outstanding.lookup id = none) : step v s (.respLookup id ok data) = (s, []) := by
  simp [step, h]

theorem step_respLookup_some {v : Variant} {s : State} {id : Int} {ok : Bool} {data : Bytes} {c : Consumer}
    (h : s.outstanding.lookup id = some c) :
    step v s (.respLookup id ok data) =
      ({ s with outstanding := mapDel s.outstanding id
                hits := s.hits ++ [(id, c, replyOf ok data)]
                premature := s.premature || !s.fired },
       [.respConsume id c (replyOf ok data), .respCheck]) := by
  simp [step, h]

theorem step_respCheck_neg {v : Variant} {s : State} (h : ¬ (s.outstanding.isEmpty && s.onAll) = true) :
    step v s .respCheck = (s, []) := by
  simp only [step, h]; rfl

theorem step_respCheck_repaired {s : State} (h : (s.outstanding.isEmpty && s.onAll) = true) :
    step .repaired s .respCheck = ({ s with onAll := false }, [.complete]) := by
  simp only [step, h]; rfl

theorem step_respCheck_defective {s : State} (h : (s.outstanding.isEmpty && s.onAll) = true) :
    step .defective s .respCheck = (s, [.complete]) := by
  simp only [step, h]; rfl

theorem wsum_map_clientWrite (f : Act → Nat) (hf : ∀ id, f (.clientWrite id) = 0) (q : List Int) :
    wsum f (q.map .clientWrite) = 0 := by
  induction q with
  | nil => rfl
  | cons x xs ih => simp [hf, ih]

end Gate.C13
