import GateModel.C13.MapLemmas
/- C13: uniqueness of message ids across the places a message can be (pending registration, outstanding map,
   hit by a response = pending consumer call or consumer log). -/
set_option linter.unusedSimpArgs false
namespace Gate.C13

def fReg (n : Int) : Act → Nat | .sendReg id _ => if id = n then 1 else 0 | _ => 0
def fCons (n : Int) : Act → Nat | .respConsume id _ _ => if id = n then 1 else 0 | _ => 0
def hkeys (m : List (Int × Consumer × Reply)) : List Int := m.map (·.1)

@[simp] theorem count_keys_snoc (m : List (Int × Consumer)) (e : Int × Consumer) (n : Int) :
    (keys (m ++ [e])).count n = (keys m).count n + (if e.1 = n then 1 else 0) := by
  simp [keys, List.count_append, List.count_cons]
@[simp] theorem count_hkeys_snoc (m : List (Int × Consumer × Reply)) (e : Int × Consumer × Reply) (n : Int) :
    (hkeys (m ++ [e])).count n = (hkeys m).count n + (if e.1 = n then 1 else 0) := by
  simp [hkeys, List.count_append, List.count_cons]

def IdInv (sys : Sys) : Prop := ∀ n : Int,
  (keys sys.st.outstanding).count n + cnt (fReg n) sys.ts + (hkeys sys.st.hits).count n ≤ 1 ∧
  (keys sys.st.registered).count n + cnt (fReg n) sys.ts ≤ 1 ∧
  (hkeys sys.st.hits).count n = cnt (fCons n) sys.ts + (hkeys sys.st.consLog).count n ∧
  (sys.st.seq < n → (keys sys.st.outstanding).count n + cnt (fReg n) sys.ts + (hkeys sys.st.hits).count n
      + (keys sys.st.registered).count n = 0)

theorem id_step (v : Variant) {sys : Sys} {t a rest} (hI : IdInv sys) (hget : sys.ts[t]? = some (a :: rest)) :
    IdInv (after v sys t a rest) := by
  intro n
  obtain ⟨h1, h2, h3, h4⟩ := hI n
  cases a with
  | sendInc c =>
    rw [after_eq (show step v sys.st (.sendInc c) = _ from rfl)]
    have hR := cnt_step (fReg n) [Act.sendReg (sys.st.seq + 1) c] hget
    have hC := cnt_step (fCons n) [Act.sendReg (sys.st.seq + 1) c] hget
    simp only [fReg, fCons, wsum_cons, wsum_nil] at hR hC ⊢
    by_cases hn : sys.st.seq + 1 = n
    · subst hn
      have h0 := h4 (by omega)
      simp only [↓reduceIte] at hR
      refine ⟨by omega, by omega, by omega, fun hlt => ?_⟩
      omega
    · simp only [hn, ↓reduceIte] at hR
      (refine ⟨by omega, by omega, by omega, fun hlt => ?_⟩; have := h4 (by omega); omega)
  | sendReg id c =>
    rw [after_eq (show step v sys.st (.sendReg id c) = _ from rfl)]
    have hR := cnt_step (fReg n) (if sys.st.fired = true then [Act.clientWrite id] else []) hget
    have hC := cnt_step (fCons n) (if sys.st.fired = true then [Act.clientWrite id] else []) hget
    have hnew : wsum (fReg n) (if sys.st.fired = true then [Act.clientWrite id] else []) = 0 := by
      split <;> simp [fReg]
    have hnewC : wsum (fCons n) (if sys.st.fired = true then [Act.clientWrite id] else []) = 0 := by
      split <;> simp [fCons]
    rw [hnew] at hR; rw [hnewC] at hC
    simp only [fReg, fCons] at hR hC
    simp only [count_keys_mapPut, count_keys_snoc]
    by_cases hn : id = n
    · subst hn
      simp only [↓reduceIte] at hR ⊢
      (refine ⟨by omega, by omega, by omega, fun hlt => ?_⟩; have := h4 (by omega); omega)
    · have hn' : ¬ n = id := fun h => hn h.symm
      simp only [hn, hn', ↓reduceIte] at hR ⊢
      (refine ⟨by omega, by omega, by omega, fun hlt => ?_⟩; have := h4 (by omega); omega)
  | respLookup id ok data =>
    cases hl : List.lookup id sys.st.outstanding with
    | none =>
      rw [after_eq (step_respLookup_none hl)]
      have hR := cnt_step (fReg n) [] hget
      have hC := cnt_step (fCons n) [] hget
      simp [fReg, fCons] at hR hC ⊢
      (refine ⟨by omega, by omega, by omega, fun hlt => ?_⟩; have := h4 (by omega); omega)
    | some c =>
      rw [after_eq (step_respLookup_some hl)]
      have hR := cnt_step (fReg n) [Act.respConsume id c (replyOf ok data), Act.respCheck] hget
      have hC := cnt_step (fCons n) [Act.respConsume id c (replyOf ok data), Act.respCheck] hget
      have hpos := lookup_some_count hl
      simp only [fReg, fCons, wsum_cons, wsum_nil] at hR hC ⊢
      simp only [count_keys_mapDel, count_hkeys_snoc]
      by_cases hn : id = n
      · have hn' : n = id := hn.symm
        subst hn'
        simp only [↓reduceIte] at hC ⊢
        (refine ⟨by omega, by omega, by omega, fun hlt => ?_⟩; have := h4 (by omega); omega)
      · have hn' : ¬ n = id := fun h => hn h.symm
        simp only [hn, hn', ↓reduceIte] at hC ⊢
        (refine ⟨by omega, by omega, by omega, fun hlt => ?_⟩; have := h4 (by omega); omega)
  | respConsume id c r =>
    cases c with
    | plain tag fl =>
      rw [after_eq (show step v sys.st (.respConsume id (.plain tag fl) r) = _ from rfl)]
      have hR := cnt_step (fReg n) [] hget
      have hC := cnt_step (fCons n) [] hget
      simp only [fReg, fCons, wsum_cons, wsum_nil, count_hkeys_snoc] at hR hC ⊢
      by_cases hn : id = n
      · subst hn
        simp only [↓reduceIte] at hC ⊢
        (refine ⟨by omega, by omega, by omega, fun hlt => ?_⟩; have := h4 (by omega); omega)
      · simp only [hn, ↓reduceIte] at hC ⊢
        (refine ⟨by omega, by omega, by omega, fun hlt => ?_⟩; have := h4 (by omega); omega)
    | relay bid e =>
      rw [after_eq (show step v sys.st (.respConsume id (.relay bid e) r) = _ from rfl)]
      have hR := cnt_step (fReg n) [] hget
      have hC := cnt_step (fCons n) [] hget
      simp only [fReg, fCons, wsum_cons, wsum_nil, count_hkeys_snoc] at hR hC ⊢
      by_cases hn : id = n
      · subst hn
        simp only [↓reduceIte] at hC ⊢
        (refine ⟨by omega, by omega, by omega, fun hlt => ?_⟩; have := h4 (by omega); omega)
      · simp only [hn, ↓reduceIte] at hC ⊢
        (refine ⟨by omega, by omega, by omega, fun hlt => ?_⟩; have := h4 (by omega); omega)
    | chain tag next =>
      rw [after_eq (show step v sys.st (.respConsume id (.chain tag next) r) = _ from rfl)]
      have hR := cnt_step (fReg n) [Act.sendInc next] hget
      have hC := cnt_step (fCons n) [Act.sendInc next] hget
      simp only [fReg, fCons, wsum_cons, wsum_nil, count_hkeys_snoc] at hR hC ⊢
      by_cases hn : id = n
      · subst hn
        simp only [↓reduceIte] at hC ⊢
        (refine ⟨by omega, by omega, by omega, fun hlt => ?_⟩; have := h4 (by omega); omega)
      · simp only [hn, ↓reduceIte] at hC ⊢
        (refine ⟨by omega, by omega, by omega, fun hlt => ?_⟩; have := h4 (by omega); omega)
  | respCheck =>
    by_cases hc : (sys.st.outstanding.isEmpty && sys.st.onAll) = true
    · have hR := cnt_step (fReg n) [Act.complete] hget
      have hC := cnt_step (fCons n) [Act.complete] hget
      cases v
      · rw [after_eq (step_respCheck_repaired hc)]
        simp [fReg, fCons] at hR hC ⊢
        (refine ⟨by omega, by omega, by omega, fun hlt => ?_⟩; have := h4 (by omega); omega)
      · rw [after_eq (step_respCheck_defective hc)]
        simp [fReg, fCons] at hR hC ⊢
        (refine ⟨by omega, by omega, by omega, fun hlt => ?_⟩; have := h4 (by omega); omega)
    · rw [after_eq (step_respCheck_neg hc)]
      have hR := cnt_step (fReg n) [] hget
      have hC := cnt_step (fCons n) [] hget
      simp [fReg, fCons] at hR hC ⊢
      (refine ⟨by omega, by omega, by omega, fun hlt => ?_⟩; have := h4 (by omega); omega)
  | fireLock =>
    rw [after_eq (show step v sys.st .fireLock = _ from rfl)]
    have hR := cnt_step (fReg n) (if sys.st.queue.isEmpty = true then [Act.complete] else sys.st.queue.map .clientWrite) hget
    have hC := cnt_step (fCons n) (if sys.st.queue.isEmpty = true then [Act.complete] else sys.st.queue.map .clientWrite) hget
    have e1 : wsum (fReg n) (if sys.st.queue.isEmpty = true then [Act.complete] else sys.st.queue.map .clientWrite) = 0 := by
      split
      · simp [fReg]
      · exact wsum_map_clientWrite _ (fun _ => rfl) _
    have e2 : wsum (fCons n) (if sys.st.queue.isEmpty = true then [Act.complete] else sys.st.queue.map .clientWrite) = 0 := by
      split
      · simp [fCons]
      · exact wsum_map_clientWrite _ (fun _ => rfl) _
    rw [e1] at hR; rw [e2] at hC
    simp [fReg, fCons] at hR hC ⊢
    (refine ⟨by omega, by omega, by omega, fun hlt => ?_⟩; have := h4 (by omega); omega)
  | cleanup =>
    rw [after_eq (show step v sys.st .cleanup = _ from rfl)]
    have hR := cnt_step (fReg n) [] hget
    have hC := cnt_step (fCons n) [] hget
    have hk : (keys ([] : List (Int × Consumer))).count n = 0 := rfl
    simp only [fReg, fCons, wsum_nil, hk] at hR hC ⊢
    (refine ⟨by omega, by omega, by omega, fun hlt => ?_⟩; have := h4 (by omega); omega)
  | clientWrite id =>
    rw [after_eq (show step v sys.st (.clientWrite id) = _ from rfl)]
    have hR := cnt_step (fReg n) [] hget
    have hC := cnt_step (fCons n) [] hget
    simp [fReg, fCons] at hR hC ⊢
    (refine ⟨by omega, by omega, by omega, fun hlt => ?_⟩; have := h4 (by omega); omega)
  | complete =>
    rw [after_eq (show step v sys.st (.complete) = _ from rfl)]
    have hR := cnt_step (fReg n) [] hget
    have hC := cnt_step (fCons n) [] hget
    simp [fReg, fCons] at hR hC ⊢
    (refine ⟨by omega, by omega, by omega, fun hlt => ?_⟩; have := h4 (by omega); omega)
  | clear =>
    rw [after_eq (show step v sys.st (.clear) = _ from rfl)]
    have hR := cnt_step (fReg n) [] hget
    have hC := cnt_step (fCons n) [] hget
    simp [fReg, fCons] at hR hC ⊢
    (refine ⟨by omega, by omega, by omega, fun hlt => ?_⟩; have := h4 (by omega); omega)
  | badSend =>
    rw [after_eq (show step v sys.st (.badSend) = _ from rfl)]
    have hR := cnt_step (fReg n) [] hget
    have hC := cnt_step (fCons n) [] hget
    simp [fReg, fCons] at hR hC ⊢
    (refine ⟨by omega, by omega, by omega, fun hlt => ?_⟩; have := h4 (by omega); omega)

end Gate.C13
