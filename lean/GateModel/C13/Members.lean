import GateModel.C13.MapLemmas
/- C13: where entries come from — outstanding ⊆ registered, pending consumer calls / consumer log ⊆ hits,
   hits ⊆ registered × replies offered by the program, backend writes = relay entries of the consumer log. -/
set_option linter.unusedSimpArgs false
namespace Gate.C13

def relayOut : Int × Consumer × Reply → Option (Int × Int × Reply)
  | (id, .relay bid _, r) => some (id, bid, r)
  | _ => none

theorem mem_mapDel {m : List (Int × Consumer)} {id : Int} {e} (h : e ∈ mapDel m id) : e ∈ m := by
  simp [mapDel] at h; exact h.1
theorem mem_mapPut {m : List (Int × Consumer)} {id : Int} {c e} (h : e ∈ mapPut m id c) : e = (id, c) ∨ e ∈ m := by
  simp [mapPut] at h; rcases h with h | h
  · exact Or.inl h
  · exact Or.inr h.1

structure MemInv (prog : Program) (sys : Sys) : Prop where
  out_reg : ∀ e ∈ sys.st.outstanding, e ∈ sys.st.registered
  pend_hit : ∀ id c r, Act.respConsume id c r ∈ sys.ts.flatten → (id, c, r) ∈ sys.st.hits
  hit_reg : ∀ h ∈ sys.st.hits, (h.1, h.2.1) ∈ sys.st.registered ∧ prog.offers h.1 h.2.2
  log_hit : ∀ e ∈ sys.st.consLog, e ∈ sys.st.hits
  backend : sys.st.backendOut = sys.st.consLog.filterMap relayOut
  pend_resp : ∀ id ok data, Act.respLookup id ok data ∈ sys.ts.flatten → Call.respond id ok data ∈ prog.flatten

theorem mem_step (v : Variant) (prog : Program) {sys : Sys} {t a rest} (hI : MemInv prog sys)
    (hget : sys.ts[t]? = some (a :: rest)) : MemInv prog (after v sys t a rest) := by
  have hin : a ∈ sys.ts.flatten := mem_flatten_of_get hget (by simp)
  -- every action of the new stacks is a follow-up or was already there
  have hflat : ∀ {new : List Act} {x : Act}, x ∈ (sys.ts.set t (new ++ rest)).flatten → x ∈ new ∨ x ∈ sys.ts.flatten :=
    fun hx => mem_flatten_set hget hx
  cases a with
  | sendInc c =>
    rw [after_eq (show step v sys.st (.sendInc c) = _ from rfl)]
    refine ⟨hI.out_reg, ?_, hI.hit_reg, hI.log_hit, hI.backend, ?_⟩
    · intro id c r hx; rcases hflat hx with h | h
      · simp at h
      · exact hI.pend_hit _ _ _ h
    · intro id ok data hx; rcases hflat hx with h | h
      · simp at h
      · exact hI.pend_resp _ _ _ h
  | sendReg id c =>
    rw [after_eq (show step v sys.st (.sendReg id c) = _ from rfl)]
    refine ⟨?_, ?_, ?_, hI.log_hit, hI.backend, ?_⟩
    · intro e he; rcases mem_mapPut he with h | h
      · simp [h]
      · simp [hI.out_reg e h]
    · intro id c r hx; rcases hflat hx with h | h
      · split at h <;> simp at h
      · exact hI.pend_hit _ _ _ h
    · intro h hh; have := hI.hit_reg h hh; exact ⟨by simp [this.1], this.2⟩
    · intro id ok data hx; rcases hflat hx with h | h
      · split at h <;> simp at h
      · exact hI.pend_resp _ _ _ h
  | clientWrite id =>
    rw [after_eq (show step v sys.st (.clientWrite id) = _ from rfl)]
    refine ⟨hI.out_reg, ?_, hI.hit_reg, hI.log_hit, hI.backend, ?_⟩
    · intro id c r hx; rcases hflat hx with h | h
      · simp at h
      · exact hI.pend_hit _ _ _ h
    · intro id ok data hx; rcases hflat hx with h | h
      · simp at h
      · exact hI.pend_resp _ _ _ h
  | respLookup id ok data =>
    cases hl : List.lookup id sys.st.outstanding with
    | none =>
      rw [after_eq (step_respLookup_none hl)]
      refine ⟨hI.out_reg, ?_, hI.hit_reg, hI.log_hit, hI.backend, ?_⟩
      · intro id c r hx; rcases hflat hx with h | h
        · simp at h
        · exact hI.pend_hit _ _ _ h
      · intro id ok data hx; rcases hflat hx with h | h
        · simp at h
        · exact hI.pend_resp _ _ _ h
    | some c =>
      rw [after_eq (step_respLookup_some hl)]
      have hreg := hI.out_reg _ (lookup_some_mem hl)
      have hoff : prog.offers id (replyOf ok data) := ⟨ok, data, hI.pend_resp _ _ _ hin, rfl⟩
      refine ⟨?_, ?_, ?_, ?_, hI.backend, ?_⟩
      · intro e he; exact hI.out_reg e (mem_mapDel he)
      · intro id' c' r' hx; rcases hflat hx with h | h
        · simp at h; simp [h]
        · simp [hI.pend_hit _ _ _ h]
      · intro h hh; simp at hh; rcases hh with hh | hh
        · exact hI.hit_reg h hh
        · subst hh; exact ⟨hreg, hoff⟩
      · intro e he; simp [hI.log_hit e he]
      · intro id' ok' data' hx; rcases hflat hx with h | h
        · simp at h
        · exact hI.pend_resp _ _ _ h
  | respConsume id c r =>
    have hhit := hI.pend_hit _ _ _ hin
    cases c with
    | plain tag fl =>
      rw [after_eq (show step v sys.st (.respConsume id (.plain tag fl) r) = _ from rfl)]
      refine ⟨hI.out_reg, ?_, hI.hit_reg, ?_, ?_, ?_⟩
      · intro id c r hx; rcases hflat hx with h | h
        · simp at h
        · exact hI.pend_hit _ _ _ h
      · intro e he; simp at he; rcases he with he | he
        · exact hI.log_hit e he
        · subst he; exact hhit
      · simp [List.filterMap_append, relayOut, hI.backend]
      · intro id ok data hx; rcases hflat hx with h | h
        · simp at h
        · exact hI.pend_resp _ _ _ h
    | relay bid e =>
      rw [after_eq (show step v sys.st (.respConsume id (.relay bid e) r) = _ from rfl)]
      refine ⟨hI.out_reg, ?_, hI.hit_reg, ?_, ?_, ?_⟩
      · intro id c r hx; rcases hflat hx with h | h
        · simp at h
        · exact hI.pend_hit _ _ _ h
      · intro e he; simp at he; rcases he with he | he
        · exact hI.log_hit e he
        · subst he; exact hhit
      · simp [List.filterMap_append, relayOut, hI.backend]
      · intro id ok data hx; rcases hflat hx with h | h
        · simp at h
        · exact hI.pend_resp _ _ _ h
    | chain tag next =>
      rw [after_eq (show step v sys.st (.respConsume id (.chain tag next) r) = _ from rfl)]
      refine ⟨hI.out_reg, ?_, hI.hit_reg, ?_, ?_, ?_⟩
      · intro id c r hx; rcases hflat hx with h | h
        · simp at h
        · exact hI.pend_hit _ _ _ h
      · intro e he; simp at he; rcases he with he | he
        · exact hI.log_hit e he
        · subst he; exact hhit
      · simp [List.filterMap_append, relayOut, hI.backend]
      · intro id ok data hx; rcases hflat hx with h | h
        · simp at h
        · exact hI.pend_resp _ _ _ h
  | respCheck =>
    by_cases hc : (sys.st.outstanding.isEmpty && sys.st.onAll) = true
    · cases v
      · rw [after_eq (step_respCheck_repaired hc)]
        refine ⟨hI.out_reg, ?_, hI.hit_reg, hI.log_hit, hI.backend, ?_⟩
        · intro id c r hx; rcases hflat hx with h | h
          · simp at h
          · exact hI.pend_hit _ _ _ h
        · intro id ok data hx; rcases hflat hx with h | h
          · simp at h
          · exact hI.pend_resp _ _ _ h
      · rw [after_eq (step_respCheck_defective hc)]
        refine ⟨hI.out_reg, ?_, hI.hit_reg, hI.log_hit, hI.backend, ?_⟩
        · intro id c r hx; rcases hflat hx with h | h
          · simp at h
          · exact hI.pend_hit _ _ _ h
        · intro id ok data hx; rcases hflat hx with h | h
          · simp at h
          · exact hI.pend_resp _ _ _ h
    · rw [after_eq (step_respCheck_neg hc)]
      refine ⟨hI.out_reg, ?_, hI.hit_reg, hI.log_hit, hI.backend, ?_⟩
      · intro id c r hx; rcases hflat hx with h | h
        · simp at h
        · exact hI.pend_hit _ _ _ h
      · intro id ok data hx; rcases hflat hx with h | h
        · simp at h
        · exact hI.pend_resp _ _ _ h
  | complete =>
    rw [after_eq (show step v sys.st .complete = _ from rfl)]
    refine ⟨hI.out_reg, ?_, hI.hit_reg, hI.log_hit, hI.backend, ?_⟩
    · intro id c r hx; rcases hflat hx with h | h
      · simp at h
      · exact hI.pend_hit _ _ _ h
    · intro id ok data hx; rcases hflat hx with h | h
      · simp at h
      · exact hI.pend_resp _ _ _ h
  | fireLock =>
    rw [after_eq (show step v sys.st .fireLock = _ from rfl)]
    refine ⟨hI.out_reg, ?_, hI.hit_reg, hI.log_hit, hI.backend, ?_⟩
    · intro id c r hx; rcases hflat hx with h | h
      · split at h <;> simp at h
      · exact hI.pend_hit _ _ _ h
    · intro id ok data hx; rcases hflat hx with h | h
      · split at h <;> simp at h
      · exact hI.pend_resp _ _ _ h
  | clear =>
    rw [after_eq (show step v sys.st .clear = _ from rfl)]
    refine ⟨hI.out_reg, ?_, hI.hit_reg, hI.log_hit, hI.backend, ?_⟩
    · intro id c r hx; rcases hflat hx with h | h
      · simp at h
      · exact hI.pend_hit _ _ _ h
    · intro id ok data hx; rcases hflat hx with h | h
      · simp at h
      · exact hI.pend_resp _ _ _ h
  | cleanup =>
    rw [after_eq (show step v sys.st .cleanup = _ from rfl)]
    refine ⟨by intro e he; simp at he, ?_, hI.hit_reg, hI.log_hit, hI.backend, ?_⟩
    · intro id c r hx; rcases hflat hx with h | h
      · simp at h
      · exact hI.pend_hit _ _ _ h
    · intro id ok data hx; rcases hflat hx with h | h
      · simp at h
      · exact hI.pend_resp _ _ _ h
  | badSend =>
    rw [after_eq (show step v sys.st .badSend = _ from rfl)]
    refine ⟨hI.out_reg, ?_, hI.hit_reg, hI.log_hit, hI.backend, ?_⟩
    · intro id c r hx; rcases hflat hx with h | h
      · simp at h
      · exact hI.pend_hit _ _ _ h
    · intro id ok data hx; rcases hflat hx with h | h
      · simp at h
      · exact hI.pend_resp _ _ _ h

end Gate.C13
