import GateModel.Base.Bytes
/-
C13 model: `loginInboundConn` (pkg/edition/java/proxy/login_inbound.go) with the Forge relay consumer
(forge_login_relay.go), as an interleaving machine.

A *thread* is a work stack of atomic actions (`Act`).  One action = one critical section of
`l.mu` or one external call made WITHOUT the lock (consumer call, completion callback, packet write) —
the lock regions are tied to the source by the regenerated call sequences (Props, `shape_*`).
A Go call is the first action of its expansion; `step` returns the follow-up actions that the same
goroutine executes next (they are pushed on the front of its stack).

  SendLoginPluginMessage(c)      sendInc c ─▸ sendReg id c ─▸ [clientWrite id]        (write only if fired was observed)
  handleLoginPluginResponse      respLookup id ok data ─▸ respConsume id c r ─▸ respCheck ─▸ [complete]
  loginEventFired(cb)            fireLock ─▸ complete | clientWrite m₁ … clientWrite mₖ
  clearOnAllMessagesHandled      clear
  cleanup                        cleanup
  rejected SendLoginPluginMessage (nil identifier / empty contents / nil consumer)   badSend

`Variant.defective` is the code before fixes/C13-completion-once.diff: the completion callback stayed
installed after it was taken, and `loginEventFired` installed it even when it ran it itself.
-/
namespace Gate.C13

abbrev Reply := Option Bytes

/-- What a registered `MessageConsumer` does when invoked. -/
inductive Consumer where
  | plain (tag : Nat) (fails : Bool := false)  -- records the reply; `fails`: OnMessageResponse returns an error (joined into
                                            -- handleLoginPluginResponse's return value, changes nothing else)
  | relay (bid : Int) (emptyData : Bool)    -- forgeRelayConsumer{backendMsgID = bid}: LoginPluginResponse{bid, reply} to the backend
  | chain (tag : Nat) (next : Consumer)     -- records the reply, then calls SendLoginPluginMessage(next)
  deriving DecidableEq, Repr, Inhabited

inductive Variant where
  | repaired | defective
  deriving DecidableEq, Repr

inductive Act where
  | sendInc (c : Consumer)
  | sendReg (id : Int) (c : Consumer)
  | clientWrite (id : Int)
  | respLookup (id : Int) (ok : Bool) (data : Bytes)
  | respConsume (id : Int) (c : Consumer) (r : Reply)
  | respCheck
  | complete
  | fireLock
  | clear
  | cleanup
  | badSend
  deriving DecidableEq, Repr, Inhabited

structure State where
  -- fields of loginInboundConn
  seq         : Int := 0                              -- sequenceCounter
  outstanding : List (Int × Consumer) := []           -- outstandingResponses (a Go map: keys unique)
  queue       : List Int := []                        -- loginMessagesToSend
  fired       : Bool := false                        -- isLoginEventFired
  onAll       : Bool := false                        -- onAllMessagesHandled != nil
  -- observable outputs
  clientOut   : List Int := []                        -- LoginPluginMessage ids written to the client, in order
  consLog     : List (Int × Consumer × Reply) := []   -- consumer invocations, in order
  backendOut  : List (Int × Int × Reply) := []        -- LoginPluginResponse{bid, reply} written to the backend (with the proxy id it answers)
  completions : Nat := 0                             -- invocations of the completion callback
  -- ghost history
  registered  : List (Int × Consumer) := []           -- (id, consumer) as stored by SendLoginPluginMessage
  hits        : List (Int × Consumer × Reply) := []   -- successful lookups (id, consumer found, reply carried by the response)
  cleaned     : Bool := false                        -- clearOnAllMessagesHandled / cleanup ran
  premature   : Bool := false                        -- a response hit an id before the login event fired (its message was never sent)
  deriving Repr, Inhabited

/-- Go `m[id] = c` -/
def mapPut (m : List (Int × Consumer)) (id : Int) (c : Consumer) : List (Int × Consumer) :=
  (id, c) :: m.filter (fun e => e.1 != id)
/-- Go `delete(m, id)` -/
def mapDel (m : List (Int × Consumer)) (id : Int) : List (Int × Consumer) :=
  m.filter (fun e => e.1 != id)

def replyOf (ok : Bool) (data : Bytes) : Reply := if ok then some data else none

/-- One atomic action: new shared state and the follow-up actions of the same goroutine. -/
def step (v : Variant) (s : State) : Act → State × List Act
  | .sendInc c => ({ s with seq := s.seq + 1 }, [.sendReg (s.seq + 1) c])
  | .sendReg id c =>
      ({ s with outstanding := mapPut s.outstanding id c
                registered := s.registered ++ [(id, c)]
                queue := if s.fired then s.queue else s.queue ++ [id] },
       if s.fired then [.clientWrite id] else [])
  | .clientWrite id => ({ s with clientOut := s.clientOut ++ [id] }, [])
  | .respLookup id ok data =>
      match s.outstanding.lookup id with
      | none => (s, [])
      | some c =>
        ({ s with outstanding := mapDel s.outstanding id
                  hits := s.hits ++ [(id, c, replyOf ok data)]
                  premature := s.premature || !s.fired },
         [.respConsume id c (replyOf ok data), .respCheck])
  | .respConsume id c r =>
      match c with
      | .plain _ _ => ({ s with consLog := s.consLog ++ [(id, c, r)] }, [])
      | .relay bid _ => ({ s with consLog := s.consLog ++ [(id, c, r)]
                                  backendOut := s.backendOut ++ [(id, bid, r)] }, [])
      | .chain _ next => ({ s with consLog := s.consLog ++ [(id, c, r)] }, [.sendInc next])
  | .respCheck =>
      if s.outstanding.isEmpty && s.onAll then
        (match v with
          | .repaired => { s with onAll := false }     -- the callback is taken: it runs at most once
          | .defective => s,
         [.complete])
      else (s, [])
  | .complete => ({ s with completions := s.completions + 1 }, [])
  | .fireLock =>
      ({ s with fired := true
                onAll := match v with
                  | .repaired => if s.queue.isEmpty then s.onAll else true   -- installed only if it is not run right away
                  | .defective => true
                queue := [] },
       if s.queue.isEmpty then [.complete] else s.queue.map .clientWrite)
  | .clear => ({ s with onAll := false, cleaned := true }, [])
  | .cleanup => ({ s with queue := [], outstanding := [], onAll := false, cleaned := true }, [])
  | .badSend => (s, [])

/-- Shared state + one work stack per goroutine. -/
structure Sys where
  st : State := {}
  ts : List (List Act) := []
  deriving Repr, Inhabited

/-- Goroutine `t` executes its next atomic action (no-op if it has none). -/
def stepSys (v : Variant) (sys : Sys) (t : Nat) : Sys :=
  match sys.ts[t]? with
  | some (a :: rest) =>
    let r := step v sys.st a
    { st := r.1, ts := sys.ts.set t (r.2 ++ rest) }
  | _ => sys

/-- Run a schedule (any list of goroutine indices is a schedule). -/
def exec (v : Variant) (sys : Sys) (sched : List Nat) : Sys := sched.foldl (stepSys v) sys

def Sys.terminal (sys : Sys) : Bool := sys.ts.all (·.isEmpty)

/-- The Go-level calls a goroutine can make on a `loginInboundConn`. -/
inductive Call where
  | send (c : Consumer)                            -- SendLoginPluginMessage / relayToClient
  | respond (id : Int) (ok : Bool) (data : Bytes)   -- handleLoginPluginResponse(LoginPluginResponse{id, ok, data})
  | fire                                           -- loginEventFired(completion)
  | clear                                          -- clearOnAllMessagesHandled
  | cleanup                                        -- cleanup (disconnect)
  | badSend                                        -- SendLoginPluginMessage rejected by its argument checks
  deriving DecidableEq, Repr, Inhabited

def Call.act : Call → Act
  | .send c => .sendInc c
  | .respond id ok data => .respLookup id ok data
  | .fire => .fireLock
  | .clear => .clear
  | .cleanup => .cleanup
  | .badSend => .badSend

abbrev Program := List (List Call)

/-- Initial system for a program: goroutine `t` will make the calls `prog[t]` in order. -/
def initSys (prog : Program) : Sys := { st := {}, ts := prog.map (·.map Call.act) }

/-- number of `loginEventFired` calls in the program (the real handler makes one: `assertState`) -/
def Program.fires (prog : Program) : Nat := (prog.flatten.filter (· == .fire)).length

/-- replies the client offers for id `n`: the `respond` calls of the program -/
def Program.offers (prog : Program) (id : Int) (r : Reply) : Prop :=
  ∃ ok data, Call.respond id ok data ∈ prog.flatten ∧ r = replyOf ok data

/-! ### gate-level scheduling used by the correspondence
The harness can stop a goroutine of the real code only where it calls out of `loginInboundConn`:
packet writes, consumer calls and the completion callback.  A *pick* lets goroutine `t` pass the
gate it waits at and run to its next gate. -/

def gated : Act → Bool
  | .clientWrite _ | .respConsume .. | .complete => true
  | _ => false

def runFree (v : Variant) : Nat → Sys → Nat → Sys
  | 0, sys, _ => sys
  | fuel + 1, sys, t =>
    match sys.ts[t]? with
    | some (a :: _) => if gated a then sys else runFree v fuel (stepSys v sys t) t
    | _ => sys

def pick (v : Variant) (sys : Sys) (t : Nat) : Sys :=
  match sys.ts[t]? with
  | some (a :: _) => runFree v 10000 (if gated a then stepSys v sys t else sys) t
  | _ => sys

end Gate.C13
