import GateModel.C13.Tokens
import GateModel.C13.MapLemmas
/- C13: queue/outstanding relation before the login event fired, "completion implies fired", and the progress
   invariant behind exactly-once completion (repaired variant). -/
set_option linter.unusedSimpArgs false
namespace Gate.C13

theorem keys_mapPut (m : List (Int × Consumer)) (id : Int) (c : Consumer) (n : Int) :
    n ∈ keys (mapPut m id c) ↔ n = id ∨ n ∈ keys m := by
  rw [← mem_keys_of_count, ← mem_keys_of_count, count_keys_mapPut]
  by_cases h : n = id <;> simp [h]
theorem keys_mapDel (m : List (Int × Consumer)) (id : Int) (n : Int) :
    n ∈ keys (mapDel m id) ↔ n ≠ id ∧ n ∈ keys m := by
  rw [← mem_keys_of_count, ← mem_keys_of_count, count_keys_mapDel]
  by_cases h : n = id <;> simp [h]

/-- queue/outstanding relation before the login event fired, "completion implies fired",
    and the progress invariant behind exactly-once completion. -/
structure LiveInv (sys : Sys) : Prop where
  out_q : sys.st.fired = false → ∀ id ∈ keys sys.st.outstanding, id ∈ sys.st.queue
  q_out : sys.st.fired = false → sys.st.premature = false → ∀ id ∈ sys.st.queue, id ∈ keys sys.st.outstanding
  fired_of : (sys.st.onAll = true ∨ 0 < cnt fK sys.ts ∨ 0 < sys.st.completions) → sys.st.fired = true
  progress : sys.st.fired = true → sys.st.cleaned = false → sys.st.premature = false →
    (1 ≤ cnt fK sys.ts + sys.st.completions) ∨
    (sys.st.onAll = true ∧ (sys.st.outstanding ≠ [] ∨ 0 < cnt fM sys.ts))

theorem live_step {sys : Sys} {t a rest} (hT : TokInv sys) (hI : LiveInv sys)
    (hget : sys.ts[t]? = some (a :: rest)) : LiveInv (after .repaired sys t a rest) := by
  obtain ⟨hT1, hT2⟩ := hT
  cases a with
  | sendInc c =>
    rw [after_eq (show step .repaired sys.st (.sendInc c) = _ from rfl)]
    have hK := cnt_step fK [Act.sendReg (sys.st.seq + 1) c] hget
    have hM := cnt_step fM [Act.sendReg (sys.st.seq + 1) c] hget
    simp only [fK, fM, wsum_cons, wsum_nil, Nat.add_zero, Nat.zero_add] at hK hM
    refine ⟨hI.out_q, hI.q_out, ?_, ?_⟩
    · simp only [hK]; exact hI.fired_of
    · simp only [hK, hM]; exact hI.progress
  | sendReg id c =>
    rw [after_eq (show step .repaired sys.st (.sendReg id c) = _ from rfl)]
    have hK := cnt_step fK (if sys.st.fired = true then [Act.clientWrite id] else []) hget
    have hM := cnt_step fM (if sys.st.fired = true then [Act.clientWrite id] else []) hget
    have e1 : wsum fK (if sys.st.fired = true then [Act.clientWrite id] else []) = 0 := by split <;> simp [fK]
    have e2 : wsum fM (if sys.st.fired = true then [Act.clientWrite id] else []) = 0 := by split <;> simp [fM]
    rw [e1] at hK; rw [e2] at hM
    simp only [fK, fM, wsum_cons, wsum_nil, Nat.add_zero, Nat.zero_add] at hK hM
    refine ⟨?_, ?_, ?_, ?_⟩
    · intro hf n hn
      have hf' : sys.st.fired = false := hf
      simp only [hf'] at hn ⊢
      rcases (keys_mapPut _ _ _ _).1 hn with h | h
      · simp [h]
      · simp [hI.out_q hf n h]
    · intro hf hp n hn
      have hf' : sys.st.fired = false := hf
      simp only [hf'] at hn ⊢
      simp at hn
      rw [keys_mapPut]
      rcases hn with h | h
      · exact Or.inr (hI.q_out hf hp n h)
      · exact Or.inl h
    · simp only [hK]; exact hI.fired_of
    · intro hf hc hp
      simp only [hK, hM]
      rcases hI.progress hf hc hp with h | h
      · exact Or.inl h
      · exact Or.inr ⟨h.1, Or.inl (by simp [mapPut])⟩
  | clientWrite id =>
    rw [after_eq (show step .repaired sys.st (.clientWrite id) = _ from rfl)]
    have hK := cnt_step fK [] hget
    have hM := cnt_step fM [] hget
    simp only [fK, fM, wsum_cons, wsum_nil, Nat.add_zero, Nat.zero_add] at hK hM
    refine ⟨hI.out_q, hI.q_out, ?_, ?_⟩
    · simp only [hK]; exact hI.fired_of
    · simp only [hK, hM]; exact hI.progress
  | respLookup id ok data =>
    cases hl : List.lookup id sys.st.outstanding with
    | none =>
      rw [after_eq (step_respLookup_none hl)]
      have hK := cnt_step fK [] hget
      have hM := cnt_step fM [] hget
      simp only [fK, fM, wsum_cons, wsum_nil, Nat.add_zero, Nat.zero_add] at hK hM
      refine ⟨hI.out_q, hI.q_out, ?_, ?_⟩
      · simp only [hK]; exact hI.fired_of
      · simp only [hK, hM]; exact hI.progress
    | some c =>
      rw [after_eq (step_respLookup_some hl)]
      have hK := cnt_step fK [Act.respConsume id c (replyOf ok data), Act.respCheck] hget
      have hM := cnt_step fM [Act.respConsume id c (replyOf ok data), Act.respCheck] hget
      simp only [fK, fM, wsum_cons, wsum_nil, Nat.add_zero, Nat.zero_add] at hK hM
      refine ⟨?_, ?_, ?_, ?_⟩
      · intro hf n hn
        exact hI.out_q hf n ((keys_mapDel _ _ _).1 hn).2
      · intro hf hp; simp [show sys.st.fired = false from hf] at hp
      · simp only [hK]; exact hI.fired_of
      · intro hf hc hp
        have hf' : sys.st.fired = true := hf
        simp [hf'] at hp
        rcases hI.progress hf hc hp with h | h
        · exact Or.inl (by first | omega | (dsimp only; omega))
        · exact Or.inr ⟨h.1, Or.inr (by first | omega | (dsimp only; omega))⟩
  | respConsume id c r =>
    cases c with
    | plain tag fl =>
      rw [after_eq (show step .repaired sys.st (.respConsume id (.plain tag fl) r) = _ from rfl)]
      have hK := cnt_step fK [] hget
      have hM := cnt_step fM [] hget
      simp only [fK, fM, wsum_cons, wsum_nil, Nat.add_zero, Nat.zero_add] at hK hM
      refine ⟨hI.out_q, hI.q_out, ?_, ?_⟩
      · simp only [hK]; exact hI.fired_of
      · simp only [hK, hM]; exact hI.progress
    | relay bid e =>
      rw [after_eq (show step .repaired sys.st (.respConsume id (.relay bid e) r) = _ from rfl)]
      have hK := cnt_step fK [] hget
      have hM := cnt_step fM [] hget
      simp only [fK, fM, wsum_cons, wsum_nil, Nat.add_zero, Nat.zero_add] at hK hM
      refine ⟨hI.out_q, hI.q_out, ?_, ?_⟩
      · simp only [hK]; exact hI.fired_of
      · simp only [hK, hM]; exact hI.progress
    | chain tag next =>
      rw [after_eq (show step .repaired sys.st (.respConsume id (.chain tag next) r) = _ from rfl)]
      have hK := cnt_step fK [Act.sendInc next] hget
      have hM := cnt_step fM [Act.sendInc next] hget
      simp only [fK, fM, wsum_cons, wsum_nil, Nat.add_zero, Nat.zero_add] at hK hM
      refine ⟨hI.out_q, hI.q_out, ?_, ?_⟩
      · simp only [hK]; exact hI.fired_of
      · simp only [hK, hM]; exact hI.progress
  | respCheck =>
    by_cases hc : (sys.st.outstanding.isEmpty && sys.st.onAll) = true
    · rw [after_eq (step_respCheck_repaired hc)]
      have hK := cnt_step fK [Act.complete] hget
      have hM := cnt_step fM [Act.complete] hget
      simp only [fK, fM, wsum_cons, wsum_nil, Nat.add_zero, Nat.zero_add] at hK hM
      simp at hc
      refine ⟨hI.out_q, hI.q_out, ?_, ?_⟩
      · intro _; exact hI.fired_of (Or.inl hc.2)
      · intro _ _ _; exact Or.inl (by first | omega | (dsimp only; omega))
    · rw [after_eq (step_respCheck_neg hc)]
      have hK := cnt_step fK [] hget
      have hM := cnt_step fM [] hget
      simp only [fK, fM, wsum_cons, wsum_nil, Nat.add_zero, Nat.zero_add] at hK hM
      refine ⟨hI.out_q, hI.q_out, ?_, ?_⟩
      · simp only [hK]; exact hI.fired_of
      · intro hf hcl hp
        rcases hI.progress hf hcl hp with h | h
        · exact Or.inl (by first | omega | (dsimp only; omega))
        · refine Or.inr ⟨h.1, Or.inl ?_⟩
          intro he
          have he' : sys.st.outstanding = [] := he
          apply hc; simp [he', h.1]
  | complete =>
    rw [after_eq (show step .repaired sys.st .complete = _ from rfl)]
    have hK := cnt_step fK [] hget
    have hM := cnt_step fM [] hget
    simp only [fK, fM, wsum_cons, wsum_nil, Nat.add_zero, Nat.zero_add] at hK hM
    have hf := hI.fired_of (Or.inr (Or.inl (by first | omega | (dsimp only; omega))))
    refine ⟨hI.out_q, hI.q_out, fun _ => hf, ?_⟩
    intro _ _ _; exact Or.inl (by simp; omega)
  | fireLock =>
    rw [after_eq (show step .repaired sys.st .fireLock = _ from rfl)]
    have hF := cnt_step fF (if sys.st.queue.isEmpty = true then [Act.complete] else sys.st.queue.map .clientWrite) hget
    have hK := cnt_step fK (if sys.st.queue.isEmpty = true then [Act.complete] else sys.st.queue.map .clientWrite) hget
    have hM := cnt_step fM (if sys.st.queue.isEmpty = true then [Act.complete] else sys.st.queue.map .clientWrite) hget
    have eF : wsum fF (if sys.st.queue.isEmpty = true then [Act.complete] else sys.st.queue.map .clientWrite) = 0 := by
      split
      · simp [fF]
      · exact wsum_map_clientWrite _ (fun _ => rfl) _
    have hnf : sys.st.fired = false := by
      cases hf : sys.st.fired
      · rfl
      · simp only [hf, b2n_true] at hT1
        rw [eF] at hF; simp only [fF] at hF; omega
    refine ⟨by intro h; simp at h, by intro h; simp at h, fun _ => rfl, ?_⟩
    intro _ hcl hp
    by_cases hq : sys.st.queue.isEmpty = true
    · simp only [hq, ↓reduceIte] at hK ⊢
      simp only [fK, wsum_cons, wsum_nil] at hK
      exact Or.inl (by first | omega | (dsimp only; omega))
    · refine Or.inr ⟨by simp [hq], Or.inl ?_⟩
      have hp' : sys.st.premature = false := hp
      cases hqq : sys.st.queue with
      | nil => simp [hqq] at hq
      | cons x xs =>
        have := hI.q_out hnf hp' x (by simp [hqq])
        intro he
        have he' : sys.st.outstanding = [] := he
        simp [keys, he'] at this
  | clear =>
    rw [after_eq (show step .repaired sys.st .clear = _ from rfl)]
    have hK := cnt_step fK [] hget
    simp only [fK, wsum_cons, wsum_nil, Nat.add_zero, Nat.zero_add] at hK
    refine ⟨hI.out_q, hI.q_out, ?_, by intro _ h; simp at h⟩
    intro h
    have h' : 0 < cnt fK (sys.ts.set t ([] ++ rest)) ∨ 0 < sys.st.completions := by simpa using h
    rw [hK] at h'; exact hI.fired_of (Or.inr h')
  | cleanup =>
    rw [after_eq (show step .repaired sys.st .cleanup = _ from rfl)]
    have hK := cnt_step fK [] hget
    simp only [fK, wsum_cons, wsum_nil, Nat.add_zero, Nat.zero_add] at hK
    refine ⟨by intro _ n hn; simp [keys] at hn, by intro _ _ n hn; simp at hn, ?_, by intro _ h; simp at h⟩
    intro h
    have h' : 0 < cnt fK (sys.ts.set t ([] ++ rest)) ∨ 0 < sys.st.completions := by simpa using h
    rw [hK] at h'; exact hI.fired_of (Or.inr h')
  | badSend =>
    rw [after_eq (show step .repaired sys.st .badSend = _ from rfl)]
    have hK := cnt_step fK [] hget
    have hM := cnt_step fM [] hget
    simp only [fK, fM, wsum_cons, wsum_nil, Nat.add_zero, Nat.zero_add] at hK hM
    refine ⟨hI.out_q, hI.q_out, ?_, ?_⟩
    · simp only [hK]; exact hI.fired_of
    · simp only [hK, hM]; exact hI.progress

end Gate.C13
