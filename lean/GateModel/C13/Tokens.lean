import GateModel.C13.Lemmas
/- C13: the completion token — at most one of {pending loginEventFired, installed callback, pending callback invocation, done}. -/
namespace Gate.C13

def fF : Act → Nat | .fireLock => 1 | _ => 0
def fK : Act → Nat | .complete => 1 | _ => 0
def fM : Act → Nat | .respCheck => 1 | _ => 0
def b2n (b : Bool) : Nat := if b then 1 else 0
@[simp] theorem b2n_true : b2n true = 1 := rfl
@[simp] theorem b2n_false : b2n false = 0 := rfl

def TokInv (sys : Sys) : Prop :=
  cnt fF sys.ts + b2n sys.st.fired ≤ 1 ∧
  cnt fF sys.ts + b2n sys.st.onAll + cnt fK sys.ts + sys.st.completions ≤ 1

theorem tok_step {sys : Sys} {t a rest} (hI : TokInv sys) (hget : sys.ts[t]? = some (a :: rest)) :
    TokInv (after .repaired sys t a rest) := by
  obtain ⟨h1, h2⟩ := hI
  have hF := cnt_step fF (step .repaired sys.st a).2 hget
  have hK := cnt_step fK (step .repaired sys.st a).2 hget
  unfold TokInv after
  cases a with
  | respLookup id ok data =>
    simp only [step] at hF hK ⊢
    split <;> simp_all [fF, fK] <;> omega
  | respCheck =>
    simp only [step] at hF hK ⊢
    split <;> simp_all [fF, fK] <;> omega
  | respConsume id c r =>
    cases c <;> simp_all [step, fF, fK] <;> omega
  | fireLock =>
    simp only [step] at hF hK ⊢
    by_cases hq : sys.st.queue.isEmpty
    · simp_all [fF, fK]; omega
    · simp [hq] at hF hK ⊢
      rw [wsum_map_clientWrite fF (fun _ => rfl)] at hF
      rw [wsum_map_clientWrite fK (fun _ => rfl)] at hK
      simp [fF, fK] at hF hK
      cases hf : sys.st.fired <;> cases ho : sys.st.onAll <;> simp_all <;> omega
  | sendReg id c =>
    simp only [step] at hF hK ⊢
    cases hf : sys.st.fired <;> simp_all [fF, fK] <;> omega
  | _ => simp_all [step, fF, fK] <;> omega
end Gate.C13
