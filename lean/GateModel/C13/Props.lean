import GateModel.C13.Init
import GateModel.Gen.C13
/-
C13 — Login plugin messages are answered exactly once by the matching consumer.

System: any number of goroutines, each any list of calls on one `loginInboundConn`
(`SendLoginPluginMessage` with a plain / chained / Forge-relay consumer, `handleLoginPluginResponse` with any
id / success flag / body, `loginEventFired`, `clearOnAllMessagesHandled`, `cleanup`, rejected sends).
Every theorem quantifies over EVERY program and EVERY schedule (`sched : List Nat`, any interleaving of
the goroutines' atomic actions: one action per critical section of `l.mu` or per call-out without the lock).

  * ids are never reused; the consumer of a message is invoked at most once, it is the consumer stored
    for that id, and the reply it gets is one the client sent for that id (`consumer_*`, `only_matching_*`);
  * a response whose id is not outstanding changes nothing (`unknown_ignored*`);
  * Forge relay: every LoginPluginResponse written to the backend answers one relayed message, at most once,
    with the backend's id and the client's reply; in a terminal state every answered relayed message has
    been answered to the backend (`relay_*`);
  * completion (the code after fixes/C13-completion-once.diff = `Variant.repaired`, at most one
    `loginEventFired` call): invoked at most once, only after the event fired, decided in a critical
    section in which the outstanding map is empty, and exactly once in a terminal state with the
    event fired, nothing outstanding, no cleanup/clear and no answer that preceded its message
    (`completion_*`); `completion_at_most_once_defective_fails*` are kernel-checked witnesses for the code
    before the fix;
  * source-shape facts regenerated from login_inbound.go / forge_login_relay.go / the session handlers
    (`shape_*`): call-outs happen outside `l.mu`, map and queue accesses inside.
-/
namespace Gate.C13.Props
open Gate.C13

/-! ### consumers: at most once, the matching one, with the client's reply for that id -/

/-- no message id is handed to a consumer twice — for all programs, schedules and both variants -/
theorem consumer_at_most_once (v : Variant) (prog : Program) (sched : List Nat) (n : Int) :
    ((exec v (initSys prog) sched).st.consLog.map (·.1)).count n ≤ 1 := by
  have h := id_exec v prog sched n
  simp only [hkeys] at h
  omega

/-- ids are never reused: at most one `(id, consumer)` is ever stored per id -/
theorem ids_never_reused (v : Variant) (prog : Program) (sched : List Nat) (n : Int) :
    ((exec v (initSys prog) sched).st.registered.map (·.1)).count n ≤ 1 := by
  have h := id_exec v prog sched n
  simp only [keys] at h
  omega

/-- an invoked consumer is the one stored for that id, and its reply is one the client sent for that id -/
theorem only_matching_consumer (v : Variant) (prog : Program) (sched : List Nat) (id : Int) (c : Consumer) (r : Reply)
    (h : (id, c, r) ∈ (exec v (initSys prog) sched).st.consLog) :
    (id, c) ∈ (exec v (initSys prog) sched).st.registered ∧ prog.offers id r := by
  have hm := mem_exec v prog sched
  exact hm.hit_reg _ (hm.log_hit _ h)

/-- …and no other consumer can have been stored under that id -/
theorem matching_consumer_unique (v : Variant) (prog : Program) (sched : List Nat) (id : Int) (c c' : Consumer)
    (h : (id, c) ∈ (exec v (initSys prog) sched).st.registered)
    (h' : (id, c') ∈ (exec v (initSys prog) sched).st.registered) : c = c' := by
  have := eq_of_count_le_one _ (ids_never_reused v prog sched) h h' rfl
  exact (Prod.mk.inj this).2

/-- a response with an id that is not outstanding: no state change, no follow-up action -/
theorem unknown_ignored (v : Variant) (s : State) (id : Int) (ok : Bool) (data : Bytes)
    (h : id ∉ keys s.outstanding) : step v s (.respLookup id ok data) = (s, []) := by
  apply step_respLookup_none
  cases hl : s.outstanding.lookup id with
  | none => rfl
  | some c => exact absurd (mem_keys_of_count.1 (lookup_some_count hl)) h

/-- after a response for `id` was looked up, `id` is not outstanding (so a duplicate is ignored) -/
theorem answered_id_not_outstanding (v : Variant) (s : State) (id : Int) (ok : Bool) (data : Bytes) :
    id ∉ keys (step v s (.respLookup id ok data)).1.outstanding := by
  cases hl : s.outstanding.lookup id with
  | none => rw [step_respLookup_none hl]; exact lookup_none_not_mem hl
  | some c =>
    rw [step_respLookup_some hl]
    intro hk
    exact ((keys_mapDel _ _ _).1 hk).1 rfl

/-! ### Forge relay -/

/-- the backend sees exactly the relay consumers' invocations, in order -/
theorem relay_backend_is_consumer_log (v : Variant) (prog : Program) (sched : List Nat) :
    (exec v (initSys prog) sched).st.backendOut = (exec v (initSys prog) sched).st.consLog.filterMap relayOut :=
  (mem_exec v prog sched).backend

theorem mem_backend_iff (v : Variant) (prog : Program) (sched : List Nat) (id bid : Int) (r : Reply) :
    (id, bid, r) ∈ (exec v (initSys prog) sched).st.backendOut ↔
      ∃ e, (id, Consumer.relay bid e, r) ∈ (exec v (initSys prog) sched).st.consLog := by
  rw [relay_backend_is_consumer_log]
  simp only [List.mem_filterMap]
  constructor
  · rintro ⟨⟨id', c', r'⟩, hm, hr⟩
    cases c' with
    | relay b e => simp [relayOut] at hr; obtain ⟨rfl, rfl, rfl⟩ := hr; exact ⟨e, hm⟩
    | plain t fl => simp [relayOut] at hr
    | chain t n => simp [relayOut] at hr
  · rintro ⟨e, hm⟩; exact ⟨_, hm, rfl⟩

/-- a relayed message is answered to the backend at most once -/
theorem relay_at_most_once (v : Variant) (prog : Program) (sched : List Nat) (n : Int) :
    ((exec v (initSys prog) sched).st.backendOut.map (·.1)).count n ≤ 1 := by
  have h := consumer_at_most_once v prog sched n
  rw [relay_backend_is_consumer_log]
  refine Nat.le_trans ?_ h
  generalize (exec v (initSys prog) sched).st.consLog = l
  induction l with
  | nil => simp
  | cons x xs ih =>
    obtain ⟨id, c, r⟩ := x
    cases c <;> simp [List.filterMap_cons, relayOut, List.count_cons] <;> omega

/-- every answer to the backend carries the backend's own id of a message that was relayed under the
    proxy id it answers, and the reply the client sent for that proxy id -/
theorem relay_answer_matches (v : Variant) (prog : Program) (sched : List Nat) (id bid : Int) (r : Reply)
    (h : (id, bid, r) ∈ (exec v (initSys prog) sched).st.backendOut) :
    (∃ e, (id, Consumer.relay bid e) ∈ (exec v (initSys prog) sched).st.registered) ∧ prog.offers id r := by
  obtain ⟨e, he⟩ := (mem_backend_iff v prog sched id bid r).1 h
  have := only_matching_consumer v prog sched id _ r he
  exact ⟨⟨e, this.1⟩, this.2⟩

/-- in a terminal state every hit has been consumed -/
theorem terminal_hits_consumed (v : Variant) (prog : Program) (sched : List Nat)
    (hterm : (exec v (initSys prog) sched).terminal = true) (h : Int × Consumer × Reply)
    (hh : h ∈ (exec v (initSys prog) sched).st.hits) : h ∈ (exec v (initSys prog) sched).st.consLog := by
  have hid := id_exec v prog sched
  have hm := mem_exec v prog sched
  have hz := cnt_zero_of_all_empty (fCons h.1) _ hterm
  obtain ⟨h1, _, h3, _⟩ := hid h.1
  rw [hz] at h3
  have hpos : 0 < (hkeys (exec v (initSys prog) sched).st.hits).count h.1 := by
    rw [List.count_pos_iff]; simp only [hkeys, List.mem_map]; exact ⟨h, hh, rfl⟩
  have hpos' : 0 < (hkeys (exec v (initSys prog) sched).st.consLog).count h.1 := by omega
  rw [List.count_pos_iff] at hpos'
  simp only [hkeys, List.mem_map] at hpos'
  obtain ⟨e, he, hek⟩ := hpos'
  have huniq : ∀ n, ((exec v (initSys prog) sched).st.hits.map (·.1)).count n ≤ 1 := by
    intro n; have := (hid n).1; simp only [hkeys] at this; omega
  have := eq_of_count_le_one _ huniq (hm.log_hit e he) hh hek
  rw [← this]; exact he

/-- exactly once: when all goroutines have finished, every relayed message the client answered has
    been answered to the backend (with the backend id and that reply) — and by `relay_at_most_once` only once -/
theorem relay_exactly_once (v : Variant) (prog : Program) (sched : List Nat)
    (hterm : (exec v (initSys prog) sched).terminal = true) (id bid : Int) (e : Bool) (r : Reply)
    (hh : (id, Consumer.relay bid e, r) ∈ (exec v (initSys prog) sched).st.hits) :
    (id, bid, r) ∈ (exec v (initSys prog) sched).st.backendOut :=
  (mem_backend_iff v prog sched id bid r).2 ⟨e, terminal_hits_consumed v prog sched hterm _ hh⟩

/-! ### completion -/

/-- the completion callback is invoked at most once -/
theorem completion_at_most_once (prog : Program) (h1 : prog.fires ≤ 1) (sched : List Nat) :
    (exec .repaired (initSys prog) sched).st.completions ≤ 1 := by
  have := (tok_exec prog h1 sched).2
  omega

/-- …and only after the pre-login event fired -/
theorem completion_only_after_fired (prog : Program) (h1 : prog.fires ≤ 1) (sched : List Nat)
    (h : 0 < (exec .repaired (initSys prog) sched).st.completions) :
    (exec .repaired (initSys prog) sched).st.fired = true :=
  (live_exec prog h1 sched).2.fired_of (Or.inr (Or.inr h))

/-- the decision to complete is taken in a critical section after which the event has fired and no
    message is outstanding: whenever an action of a reachable state schedules the callback -/
theorem completion_decided_when_all_answered (prog : Program) (h1 : prog.fires ≤ 1) (sched : List Nat)
    (t : Nat) (a : Act) (rest : List Act)
    (hget : (exec .repaired (initSys prog) sched).ts[t]? = some (a :: rest))
    (hc : Act.complete ∈ (step .repaired (exec .repaired (initSys prog) sched).st a).2) :
    (step .repaired (exec .repaired (initSys prog) sched).st a).1.fired = true ∧
    (step .repaired (exec .repaired (initSys prog) sched).st a).1.outstanding = [] := by
  obtain ⟨hT, hL⟩ := live_exec prog h1 sched
  generalize exec .repaired (initSys prog) sched = sys at *
  cases a with
  | sendInc c => simp [step] at hc
  | sendReg id c => simp only [step] at hc; split at hc <;> simp at hc
  | clientWrite id => simp [step] at hc
  | respLookup id ok data =>
    cases hl : List.lookup id sys.st.outstanding with
    | none => rw [step_respLookup_none hl] at hc; simp at hc
    | some c => rw [step_respLookup_some hl] at hc; simp at hc
  | respConsume id c r => cases c <;> simp [step] at hc
  | respCheck =>
    by_cases hcond : (sys.st.outstanding.isEmpty && sys.st.onAll) = true
    · rw [step_respCheck_repaired hcond]
      simp at hcond
      exact ⟨hL.fired_of (Or.inl hcond.2), by simpa using hcond.1⟩
    · rw [step_respCheck_neg hcond] at hc; simp at hc
  | complete => simp [step] at hc
  | fireLock =>
    have hF := cnt_step fF (if sys.st.queue.isEmpty = true then [Act.complete] else sys.st.queue.map .clientWrite) hget
    have eF : wsum fF (if sys.st.queue.isEmpty = true then [Act.complete] else sys.st.queue.map .clientWrite) = 0 := by
      split
      · simp [fF]
      · exact wsum_map_clientWrite _ (fun _ => rfl) _
    have hnf : sys.st.fired = false := by
      cases hf : sys.st.fired
      · rfl
      · have := hT.1; simp only [hf, b2n_true] at this
        rw [eF] at hF; simp only [fF] at hF; omega
    by_cases hq : sys.st.queue.isEmpty = true
    · refine ⟨rfl, ?_⟩
      show sys.st.outstanding = []
      cases ho : sys.st.outstanding with
      | nil => rfl
      | cons e es =>
        have := hL.out_q hnf e.1 (by simp [keys, ho])
        simp at hq; simp [hq] at this
    · simp only [step, hq] at hc
      simp at hc
  | clear => simp [step] at hc
  | cleanup => simp [step] at hc
  | badSend => simp [step] at hc

/-- exactly once: when all goroutines have finished, the event fired, every message was answered, the
    connection was not cleaned up / the callback not cleared, and no answer preceded its message, the
    completion callback has run exactly once -/
theorem completion_exactly_once (prog : Program) (h1 : prog.fires ≤ 1) (sched : List Nat)
    (hterm : (exec .repaired (initSys prog) sched).terminal = true)
    (hf : (exec .repaired (initSys prog) sched).st.fired = true)
    (ho : (exec .repaired (initSys prog) sched).st.outstanding = [])
    (hc : (exec .repaired (initSys prog) sched).st.cleaned = false)
    (hp : (exec .repaired (initSys prog) sched).st.premature = false) :
    (exec .repaired (initSys prog) sched).st.completions = 1 := by
  obtain ⟨hT, hL⟩ := live_exec prog h1 sched
  have hK := cnt_zero_of_all_empty fK _ hterm
  have hM := cnt_zero_of_all_empty fM _ hterm
  have := hT.2
  rcases hL.progress hf hc hp with h | ⟨_, h | h⟩
  · omega
  · exact absurd ho h
  · omega

/-- the code before the fix: `loginEventFired; SendLoginPluginMessage; handleLoginPluginResponse(1)` on one
    goroutine runs the completion callback twice -/
theorem completion_at_most_once_defective_fails :
    ∃ (prog : Program) (sched : List Nat), prog.fires ≤ 1 ∧
      (exec .defective (initSys prog) sched).st.completions = 2 :=
  ⟨[[.fire, .send (.plain 1), .respond 1 true [0xaa]]], [0, 0, 0, 0, 0, 0, 0, 0, 0], by decide, by decide⟩

/-- …and so does a send that slips between `loginEventFired`'s critical section and its callback call -/
theorem completion_at_most_once_defective_fails_race :
    ∃ (prog : Program) (sched : List Nat), prog.fires ≤ 1 ∧
      (exec .defective (initSys prog) sched).st.completions = 2 ∧
      (exec .defective (initSys prog) (sched.take 3)).st.outstanding ≠ [] ∧
      (exec .defective (initSys prog) (sched.take 4)).st.completions = 1 :=
  ⟨[[.fire], [.send (.plain 1)], [.respond 1 true [0xaa]]], [0, 1, 1, 0, 1, 2, 2, 2, 2],
    by decide, by decide, by decide, by decide⟩

/-- the same programs under the repaired code (non-vacuity of the hypotheses of the theorems above) -/
example : let prog : Program := [[.fire, .send (.plain 1), .respond 1 true [0xaa]]]
    prog.fires ≤ 1 ∧ (exec .repaired (initSys prog) [0, 0, 0, 0, 0, 0, 0, 0, 0]).st.completions = 1 := by decide
example : let prog : Program := [[.send (.plain 1), .send (.relay 7 false), .fire], [.respond 2 true [1], .respond 1 false []]]
    let s := exec .repaired (initSys prog) [0, 0, 0, 0, 0, 0, 0, 1, 1, 1, 1, 1, 1, 1, 1]
    prog.fires ≤ 1 ∧ s.terminal = true ∧ s.st.fired = true ∧ s.st.outstanding = [] ∧ s.st.cleaned = false ∧
    s.st.premature = false ∧ s.st.completions = 1 ∧ s.st.backendOut = [(2, 7, some [1])] := by decide

/-! ### the gate-level picks of the correspondence are schedules -/

theorem runFree_is_exec (v : Variant) (fuel : Nat) (sys : Sys) (t : Nat) :
    ∃ sched, runFree v fuel sys t = exec v sys sched := by
  induction fuel generalizing sys with
  | zero => exact ⟨[], rfl⟩
  | succ n ih =>
    unfold runFree
    split
    · split
      · exact ⟨[], rfl⟩
      · obtain ⟨s, hs⟩ := ih (stepSys v sys t)
        exact ⟨t :: s, by rw [hs]; rfl⟩
    · exact ⟨[], rfl⟩

theorem pick_is_exec (v : Variant) (sys : Sys) (t : Nat) : ∃ sched, pick v sys t = exec v sys sched := by
  unfold pick
  split
  · split
    · obtain ⟨s, hs⟩ := runFree_is_exec v 10000 (stepSys v sys t) t
      exact ⟨t :: s, by rw [hs]; rfl⟩
    · exact runFree_is_exec v 10000 sys t
  · exact ⟨[], rfl⟩

/-! ### source shape (regenerated from /repo on every run) -/

structure Scan where
  held : Bool := false
  pendingUnlock : Bool := false
  out : List (String × Bool) := []

/-- flat lock-depth scan of a call sequence: `(call, lock held?)` for every call other than lock/unlock.
    `Unlock` directly followed by `return` is an early-exit branch and does not end the region for the
    code after it. -/
def lockScan (lock unlock : String) (calls : List String) : List (String × Bool) :=
  (calls.foldl (fun (s : Scan) c =>
    let s := if s.pendingUnlock then
        (if c = "return" then { s with pendingUnlock := false } else { s with held := false, pendingUnlock := false })
      else s
    if c = lock then { s with held := true }
    else if c = unlock then { s with pendingUnlock := true }
    else { s with out := s.out ++ [(c, s.held)] }) {}).out

def heldAt (lock unlock : String) (calls : List String) (name : String) : List Bool :=
  ((lockScan lock unlock calls).filter (·.1 = name)).map (·.2)

open Gate.Gen.C13 in
/-- handleLoginPluginResponse: map access inside `l.mu`, consumer and completion callback outside, two critical sections -/
theorem shape_respond :
    heldAt "l.mu.Lock" "l.mu.Unlock" respondCalls "delete" = [true] ∧
    heldAt "l.mu.Lock" "l.mu.Unlock" respondCalls "consumer.OnMessageResponse" = [false, false] ∧
    heldAt "l.mu.Lock" "l.mu.Unlock" respondCalls "onAllMessagesHandled" = [false] ∧
    (respondCalls.filter (· = "l.mu.Lock")).length = 2 := by decide

open Gate.Gen.C13 in
/-- SendLoginPluginMessage: id from the atomic counter, queue access inside `l.mu`, packet write outside -/
theorem shape_send :
    heldAt "l.mu.Lock" "l.mu.Unlock" sendCalls "l.sequenceCounter.Inc" = [false] ∧
    heldAt "l.mu.Lock" "l.mu.Unlock" sendCalls "l.loginMessagesToSend.PushBack" = [true] ∧
    heldAt "l.mu.Lock" "l.mu.Unlock" sendCalls "l.delegate.WritePacket" = [false] ∧
    (sendCalls.filter (· = "l.mu.Lock")).length = 1 := by decide

open Gate.Gen.C13 in
/-- loginEventFired: queue drained inside `l.mu`; callback and packet writes outside; one critical section -/
theorem shape_fired :
    heldAt "l.mu.Lock" "l.mu.Unlock" firedCalls "l.loginMessagesToSend.PopFront" = [true] ∧
    heldAt "l.mu.Lock" "l.mu.Unlock" firedCalls "onAllMessagesHandled" = [false] ∧
    heldAt "l.mu.Lock" "l.mu.Unlock" firedCalls "l.delegate.BufferPacket" = [false] ∧
    heldAt "l.mu.Lock" "l.mu.Unlock" firedCalls "l.delegate.Flush" = [false] ∧
    (firedCalls.filter (· = "l.mu.Lock")).length = 1 := by decide

open Gate.Gen.C13 in
theorem shape_clear_cleanup :
    clearCalls = ["l.mu.Lock", "l.mu.Unlock"] ∧
    heldAt "l.mu.Lock" "l.mu.Unlock" cleanupCalls "l.loginMessagesToSend.Clear" = [true] := by decide

open Gate.Gen.C13 in
/-- relay: the consumer writes one LoginPluginResponse to the backend, outside the relay's own lock;
    relayToClient registers through SendLoginPluginMessage; the backend login handler relays through it -/
theorem shape_relay :
    heldAt "c.relay.mu.Lock" "c.relay.mu.Unlock" relayConsumerCalls "c.backendConn.WritePacket" = [false] ∧
    "packet.LoginPluginResponse" ∈ relayConsumerLits ∧
    "r.clientLogin.SendLoginPluginMessage" ∈ relayToClientCalls ∧
    "relay.relayToClient" ∈ backendPluginCalls := by decide

open Gate.Gen.C13 in
/-- both login-phase session handlers hand LoginPluginResponse packets to handleLoginPluginResponse -/
theorem shape_dispatch :
    "*packet.LoginPluginResponse" ∈ initialCases ∧ "*packet.LoginPluginResponse" ∈ authCases ∧
    "l.inbound.handleLoginPluginResponse" ∈ initialDispatchCalls ∧
    "a.inbound.handleLoginPluginResponse" ∈ authDispatchCalls := by decide

open Gate.Gen.C13 in
/-- when the Forge relay takes over, the auth handler only drops the completion callback
    (clearOnAllMessagesHandled); it does not clean the inbound up (which would drop outstanding consumers) -/
theorem shape_relay_takeover :
    "a.inbound.clearOnAllMessagesHandled" ∈ relayTakeoverCalls ∧ "a.inbound.cleanup" ∉ relayTakeoverCalls ∧
    cleanupCalls = ["l.mu.Lock", "l.loginMessagesToSend.Clear", "l.mu.Unlock"] := by decide

end Gate.C13.Props
