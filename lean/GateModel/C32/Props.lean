import GateModel.C32.Lemmas
import GateModel.C32.FlightKey
/-
C32 — Lite ping cache never serves status from before a reload.

Every theorem about the cache quantifies over ANY list of requests (keys, TTLs, with or without the fast-path
`get`) and EVERY schedule `run : List Label` accepted by `exec`: all interleavings of the requests' atomic
sections with `reset`, clock `tick`s and loader completions (`store l ok`: the backend fetch of flight `l`
returns after an arbitrary delay, successfully or not).

`loads` is the log of loader invocations (= backend status fetches) in the order they were started; a result
`v : Res` names the invocation `v.lid` that produced it.
-/
namespace Gate.C32.Props
open Gate.C32

/-! ### no status from before a reset -/

/-- **Freshness, trace form.**  Take any reachable moment (`pre`), a reset at that moment, and any continuation.
    A request that had not started before the reset is never answered with a result whose backend fetch was
    started before the reset: the fetch is not among the `mid.loads.length` fetches started so far. -/
theorem no_stale_after_reset (reqs : List (Key × Int × Bool)) (pre post : List Label) (mid s : Sys)
    (h1 : exec (init reqs) pre = some mid) (h2 : exec mid (Label.reset :: post) = some s)
    (r : Nat) (q : Req) (hq : mid.reqs[r]? = some q) (hidle : q.pc = .idle)
    (v : Res) (ha : answer s r = some v) : mid.loads.length ≤ v.lid := by
  have imid := exec_inv (inv_init reqs) h1
  simp only [exec] at h2
  cases hs : step mid .reset with
  | none => rw [hs] at h2; cases h2
  | some s1 =>
    rw [hs] at h2
    have hs' := hs
    simp only [step, Option.some.injEq] at hs'
    have hlate : Late (mid.gen + 1) r s1 := by
      subst hs'
      refine ⟨Nat.le_refl _, ?_⟩
      intro q' hq'
      simp only at hq'
      rw [hq] at hq'; cases hq'; exact Or.inl hidle
    have hl := exec_late hlate h2
    have is := exec_inv (step_inv imid hs) h2
    obtain ⟨_, ext1, he1⟩ := exec_mono h2
    have hloads : s.loads = mid.loads ++ ext1 := by rw [he1, ← hs']
    unfold answer at ha
    split at ha
    · rename_i q' hq'
      split at ha
      · rename_i v' hpc
        cases ha
        obtain ⟨info, hinfo, _, hstart⟩ := (is.reqs q' (List.mem_of_getElem? hq')).ans v hpc
        rcases hl.2 q' hq' with hid | hge
        · rw [hid] at hpc; cases hpc
        · rcases Nat.lt_or_ge v.lid mid.loads.length with hlt | hge'
          · rw [hloads, List.getElem?_append_left hlt] at hinfo
            have := imid.epochs _ _ hinfo
            omega
          · exact hge'
      · cases ha
    · cases ha

/-- **Freshness, generation form.**  In every reachable state, an answered request got a result whose
    backend fetch was started for exactly the request's key (backend, protocol, route generation) and at a
    cache generation (= number of resets so far) not smaller than the one at the request's first action. -/
theorem answer_fresh_and_for_own_key (reqs : List (Key × Int × Bool)) (run : List Label) (s : Sys)
    (h : exec (init reqs) run = some s) (r : Nat) (q : Req) (hq : s.reqs[r]? = some q) (v : Res)
    (ha : q.pc = .answered v) :
    ∃ info, s.loads[v.lid]? = some info ∧ info.key = q.key ∧ q.startGen ≤ info.epoch ∧ info.epoch ≤ s.gen := by
  have is := exec_inv (inv_init reqs) h
  obtain ⟨info, h1, h2, h3⟩ := (is.reqs q (List.mem_of_getElem? hq)).ans v ha
  exact ⟨info, h1, h2, h3, is.epochs _ _ h1⟩

/-- **The cache key is the raw triple** (backend, client protocol, route generation): two requests whose keys differ in
    any component — in particular two client protocol numbers, whether or not a version table knows them — are never
    answered from the same backend fetch, in any schedule.  (A key component is an arbitrary `Int`/`Nat`/byte string: the
    model has no lookup that could merge two of them.) -/
theorem different_keys_never_share_a_fetch (reqs : List (Key × Int × Bool)) (run : List Label) (s : Sys)
    (h : exec (init reqs) run = some s) (r1 r2 : Nat) (q1 q2 : Req) (h1 : s.reqs[r1]? = some q1) (h2 : s.reqs[r2]? = some q2)
    (v1 v2 : Res) (a1 : q1.pc = .answered v1) (a2 : q2.pc = .answered v2) (hk : q1.key ≠ q2.key) : v1.lid ≠ v2.lid := by
  obtain ⟨i1, hl1, hk1, _⟩ := answer_fresh_and_for_own_key reqs run s h r1 q1 h1 v1 a1
  obtain ⟨i2, hl2, hk2, _⟩ := answer_fresh_and_for_own_key reqs run s h r2 q2 h2 v2 a2
  intro he
  rw [he, hl2] at hl1
  cases hl1
  exact hk (hk1.symm.trans hk2)

/-- in particular for the client protocol -/
theorem different_protocols_never_share_a_fetch (reqs : List (Key × Int × Bool)) (run : List Label) (s : Sys)
    (h : exec (init reqs) run = some s) (r1 r2 : Nat) (q1 q2 : Req) (h1 : s.reqs[r1]? = some q1) (h2 : s.reqs[r2]? = some q2)
    (v1 v2 : Res) (a1 : q1.pc = .answered v1) (a2 : q2.pc = .answered v2) (hp : q1.key.protocol ≠ q2.key.protocol) :
    v1.lid ≠ v2.lid :=
  different_keys_never_share_a_fetch reqs run s h r1 r2 q1 q2 h1 h2 v1 v2 a1 a2 (fun e => hp (by rw [e]))

/-- a cache lookup returns only an entry stored under exactly the asked key -/
theorem lookup_is_exact (c : List Entry) (k : Key) (e : Entry) (h : lookup c k = some e) : e.key = k :=
  (lookup_some h).2

/-- two unlisted protocol numbers (777, 778) to the same backend within the TTL: two fetches, each client its own -/
example :
    let ka : Key := ⟨[97], 777, 0⟩
    let kb : Key := ⟨[97], 778, 0⟩
    (match exec (init [(ka, 10, true), (kb, 10, true), (ka, 10, true)])
        [.get 0, .check 0, .join 0, .recheck 0, .store 0 true, .finish 0,
         .get 1, .check 1, .join 1, .recheck 1, .store 1 true, .finish 1, .get 2] with
      | some s => (answer s 0, answer s 1, answer s 2) == (some ⟨0, true⟩, some ⟨1, true⟩, some ⟨0, true⟩) && s.loads.length == 2
      | none => false) = true := by decide

/-- the request's key is the one it was created with: answers are per (backend, protocol, route generation) -/
theorem key_is_static (reqs : List (Key × Int × Bool)) (run : List Label) (s : Sys)
    (h : exec (init reqs) run = some s) (r : Nat) :
    (s.reqs[r]?).map (·.key) = (reqs[r]?).map (·.1) := by
  rw [exec_key h r]
  simp only [init, List.getElem?_map]
  cases reqs[r]? with
  | none => rfl
  | some x => obtain ⟨k, t, f⟩ := x; rfl

/-- the generation counts the resets -/
theorem generation_counts_resets (s s' : Sys) (run : List Label) (h : exec s run = some s') :
    s'.gen = s.gen + (run.filter (· = Label.reset)).length := by
  induction run generalizing s with
  | nil => simp only [exec, Option.some.injEq] at h; subst h; simp
  | cons l ls ih =>
    simp only [exec] at h
    cases hs : step s l with
    | none => rw [hs] at h; cases h
    | some s1 =>
      rw [hs] at h
      rw [ih s1 h]
      by_cases hl : l = .reset
      · subst hl
        simp only [step, Option.some.injEq] at hs
        subst hs
        simp; omega
      · rw [(step_shape hs).2.2.2 hl]
        simp [hl]

/-- every cached entry of a reachable state was fetched under the CURRENT cache generation, for its key -/
theorem cached_entries_current (reqs : List (Key × Int × Bool)) (run : List Label) (s : Sys)
    (h : exec (init reqs) run = some s) (e : Entry) (he : e ∈ s.cache) :
    ∃ info, s.loads[e.res.lid]? = some info ∧ info.key = e.key ∧ info.epoch = s.gen := by
  have is := exec_inv (inv_init reqs) h
  obtain ⟨info, h1, h2, h3⟩ := (is.cache e he).1
  exact ⟨info, h1, h2, Nat.le_antisymm (is.epochs _ _ h1) h3⟩

/-- a reset empties the cache and advances the generation; it is always enabled -/
theorem reset_clears (s : Sys) : ∃ s', step s .reset = some s' ∧ s'.cache = [] ∧ s'.gen = s.gen + 1 :=
  ⟨_, rfl, rfl, rfl⟩

/-- a fetch begun under an older cache generation is never stored -/
theorem old_generation_not_stored (s s' : Sys) (l : Nat) (ok : Bool) (f : Flight)
    (hf : s.flights.find? (fun f => f.leader = l) = some f) (hold : f.gen ≠ s.gen)
    (h : step s (.store l ok) = some s') : s'.cache = s.cache := by
  simp only [step, hf] at h
  split at h
  · cases h; simp [hold]
  · cases h

/-- … and a fetch of the current generation is stored with the flight's TTL, stamped with ttlcache's clock -/
theorem current_generation_stored (s s' : Sys) (l : Nat) (ok : Bool) (f : Flight) (lid : Nat)
    (hf : s.flights.find? (fun f => f.leader = l) = some f) (hpc : f.pc = .loading lid) (hcur : f.gen = s.gen)
    (h : step s (.store l ok) = some s') : lookup s'.cache f.key = some ⟨f.key, ⟨lid, ok⟩, f.ttl, s.wall⟩ := by
  simp only [step, hf, hpc] at h
  cases h
  simp [hcur, cacheSet, lookup]

/-! ### at most one flight / backend fetch per (cache generation, key) -/

/-- in every reachable state two flights with the same (generation, key) are the same flight -/
theorem at_most_one_flight_per_generation_and_key (reqs : List (Key × Int × Bool)) (run : List Label) (s : Sys)
    (h : exec (init reqs) run = some s) (f1 f2 : Flight) (h1 : f1 ∈ s.flights) (h2 : f2 ∈ s.flights)
    (hg : f1.gen = f2.gen) (hk : f1.key = f2.key) : f1 = f2 :=
  flights_unique (exec_inv (inv_init reqs) h).nodup h1 h2 hg hk

/-- hence at most one backend fetch is running per (generation, key): two running loaders of the same
    (generation, key) are the same invocation -/
theorem at_most_one_fetch_per_generation_and_key (reqs : List (Key × Int × Bool)) (run : List Label) (s : Sys)
    (h : exec (init reqs) run = some s) (f1 f2 : Flight) (h1 : f1 ∈ s.flights) (h2 : f2 ∈ s.flights)
    (l1 l2 : Nat) (hl1 : f1.pc = .loading l1) (hl2 : f2.pc = .loading l2)
    (hg : f1.gen = f2.gen) (hk : f1.key = f2.key) : l1 = l2 := by
  have := at_most_one_flight_per_generation_and_key reqs run s h f1 f2 h1 h2 hg hk
  subst this
  rw [hl1] at hl2; cases hl2; rfl

/-- per KEY: among the fetches of the current cache generation — the only ones whose result can still be stored or
    reach a request that starts now — at most one is running.  (Fetches begun before a reset may still be running
    beside it: their results go only to the requests that were already waiting for them; see the example below.) -/
theorem at_most_one_current_fetch_per_key (reqs : List (Key × Int × Bool)) (run : List Label) (s : Sys)
    (h : exec (init reqs) run = some s) (f1 f2 : Flight) (h1 : f1 ∈ s.flights) (h2 : f2 ∈ s.flights)
    (l1 l2 : Nat) (hl1 : f1.pc = .loading l1) (hl2 : f2.pc = .loading l2)
    (hc1 : f1.gen = s.gen) (hc2 : f2.gen = s.gen) (hk : f1.key = f2.key) : l1 = l2 :=
  at_most_one_fetch_per_generation_and_key reqs run s h f1 f2 h1 h2 l1 l2 hl1 hl2 (hc1.trans hc2.symm) hk


/-- a loader is called only from a flight's re-check, and only when the flight is of an older generation (its
    result will be discarded) or the cache holds no live entry for the key -/
theorem fetch_only_on_miss (s s' : Sys) (l : Label) (h : step s l = some s') (hnew : s'.loads.length ≠ s.loads.length) :
    ∃ ld f, l = .recheck ld ∧ s.flights.find? (fun f => f.leader = ld) = some f ∧ f.pc = .created ∧
      s'.loads = s.loads ++ [⟨f.key, s.gen, f.leader⟩] ∧
      (f.gen ≠ s.gen ∨ (getLocked s f.key).1 = none) := by
  cases l with
  | recheck ld =>
    simp only [step] at h
    split at h
    · rename_i f hf
      split at h
      · rename_i hpc
        split at h
        · split at h
          · cases h; exact absurd rfl hnew
          · rename_i c hg
            cases h
            exact ⟨ld, f, rfl, hf, hpc, rfl, Or.inr (by rw [hg])⟩
        · rename_i hne
          cases h
          exact ⟨ld, f, rfl, hf, hpc, rfl, Or.inl hne⟩
      · cases h
    · cases h
  | get r =>
    exfalso; simp only [step] at h
    split at h
    · split at h
      · split at h <;> cases h <;> exact hnew rfl
      · cases h
    · cases h
  | check r =>
    exfalso; simp only [step] at h
    split at h
    · split at h
      · split at h <;> cases h <;> exact hnew rfl
      · cases h
    · cases h
  | join r =>
    exfalso; simp only [step] at h
    split at h
    · split at h
      · split at h <;> cases h <;> exact hnew rfl
      · cases h
    · cases h
  | store ld ok =>
    exfalso; simp only [step] at h
    split at h
    · split at h
      · cases h; exact hnew rfl
      · cases h
    · cases h
  | finish ld =>
    exfalso; simp only [step] at h
    split at h
    · split at h
      · cases h; exact hnew rfl
      · cases h
    · cases h
  | reset => exfalso; simp only [step] at h; cases h; exact hnew rfl
  | tick a b => exfalso; simp only [step] at h; cases h; exact hnew rfl

/-- the string handed to the flight group identifies (cache generation, key) uniquely — so "one flight per flight-key
    string" (singleflight's guarantee) IS "one flight per (generation, key)" (the model's flight table) -/
theorem flight_key_identifies_generation_and_key (g g' : Nat) (k k' : Key) (h : flightKey g k = flightKey g' k') :
    g = g' ∧ k = k' :=
  flightKey_injective g g' k k' h

/-- Across a reset an old fetch and a new fetch for the SAME key can overlap (the flight key contains the
    cache generation).  This is what `no_stale_after_reset` requires: the old fetch cannot be cancelled and its
    result must not reach the new request.  "At most one per key" therefore holds per cache generation. -/
example :
    let k : Key := ⟨[97], 765, 0⟩
    (match exec (init [(k, 10, false), (k, 10, false)])
        [.check 0, .join 0, .recheck 0, .reset, .check 1, .join 1, .recheck 1] with
      | some s => s.flights.map (fun f => (f.gen, f.pc)) == [(0, .loading 0), (1, .loading 1)]
      | none => false) = true := by decide

/-! ### TTL -/

/-- whatever `getLocked` serves is a stored entry for that key which is not expired on either clock:
    both ttlcache's clock and the injected clock are before stamp + TTL (no expiry when TTL ≤ 0) -/
theorem ttl_respected (s : Sys) (k : Key) (v : Res) (c : List Entry) (h : getLocked s k = (some v, c)) :
    ∃ e ∈ s.cache, e.key = k ∧ e.res = v ∧
      (e.ttl ≤ 0 ∨ (s.wall ≤ e.storedAt + e.ttl.toNat ∧ s.inj < e.storedAt + e.ttl.toNat)) := by
  obtain ⟨_, e, hm, hk, hr, hl⟩ := getLocked_hit h
  refine ⟨e, hm, hk, hr, ?_⟩
  unfold Entry.live Entry.expiresAt at hl
  by_cases ht : e.ttl > 0
  · right
    rw [if_pos ht] at hl
    simp only [Bool.and_eq_true, Bool.not_eq_true', decide_eq_false_iff_not] at hl
    omega
  · left; omega

/-- conversely an unexpired entry IS served (the cache is effective for the whole TTL), leaving the cache as it is -/
theorem served_while_live (s : Sys) (k : Key) (e : Entry) (he : lookup s.cache k = some e)
    (hl : e.ttl ≤ 0 ∨ (s.wall ≤ e.storedAt + e.ttl.toNat ∧ s.inj < e.storedAt + e.ttl.toNat)) :
    getLocked s k = (some e.res, s.cache) := by
  apply getLocked_of_live he
  unfold Entry.live Entry.expiresAt
  by_cases ht : e.ttl > 0
  · rw [if_pos ht]
    simp only [Bool.and_eq_true, Bool.not_eq_true', decide_eq_false_iff_not]
    omega
  · rw [if_neg ht]

/-- the fast path answers only from such an entry -/
theorem get_answer_is_live_entry (s s' : Sys) (r : Nat) (v : Res) (h : step s (.get r) = some s')
    (ha : answer s' r = some v) :
    ∃ q e, s.reqs[r]? = some q ∧ e ∈ s.cache ∧ e.key = q.key ∧ e.res = v ∧
      (e.ttl ≤ 0 ∨ (s.wall ≤ e.storedAt + e.ttl.toNat ∧ s.inj < e.storedAt + e.ttl.toNat)) := by
  simp only [step] at h
  split at h
  · rename_i q hq
    have hlt : r < s.reqs.length := by
      rcases Nat.lt_or_ge r s.reqs.length with h | h
      · exact h
      · rw [List.getElem?_eq_none h] at hq; cases hq
    split at h
    · split at h
      · rename_i v' c hg
        cases h
        simp only [answer, List.getElem?_set, if_true, hlt] at ha
        cases ha
        obtain ⟨e, hm, hk, hr, hl⟩ := ttl_respected s q.key v c hg
        exact ⟨q, e, hq, hm, hk, hr, hl⟩
      · cases h
        simp only [answer, List.getElem?_set, if_true, hlt] at ha
        cases ha
    · cases h
  · cases h

/-- stamps are never in the future of ttlcache's clock, so `wall - storedAt` is the entry's age -/
theorem stamp_not_in_future (reqs : List (Key × Int × Bool)) (run : List Label) (s : Sys)
    (h : exec (init reqs) run = some s) (e : Entry) (he : e ∈ s.cache) : e.storedAt ≤ s.wall :=
  ((exec_inv (inv_init reqs) h).cache e he).2

/-! ### fallback only when every backend failed -/

/-- the configured fallback status is returned iff EVERY candidate backend failed (and a fallback exists) -/
theorem fallback_only_if_all_failed {α σ : Type} (status : α → Option σ) (cands : List α) (fb : Option σ) (f : σ) :
    resolve status cands fb = .fallback f ↔ (∀ a ∈ cands, status a = none) ∧ fb = some f := by
  unfold resolve
  cases ht : (tryBackends status cands).1 with
  | some p =>
    obtain ⟨a, b⟩ := p
    simp only [reduceCtorEq, false_iff, not_and]
    intro hall
    rw [(tryBackends_none status cands).2 hall] at ht; cases ht
  | none =>
    have := (tryBackends_none status cands).1 ht
    cases fb with
    | none => simp
    | some g =>
      simp only [Outcome.fallback.injEq, Option.some.injEq]
      exact ⟨fun h => ⟨this, h⟩, fun h => h.2⟩

/-- a backend's status is returned iff it is the status of the FIRST candidate that succeeds -/
theorem backend_status_is_first_success {α σ : Type} (status : α → Option σ) (cands : List α) (fb : Option σ) (st : σ) :
    resolve status cands fb = .backend st ↔
      ∃ pre a post, cands = pre ++ a :: post ∧ (∀ x ∈ pre, status x = none) ∧ status a = some st := by
  unfold resolve
  cases ht : (tryBackends status cands).1 with
  | some p =>
    obtain ⟨a, b⟩ := p
    obtain ⟨pre, post, hl, hpre, hfa⟩ := (tryBackends_some status cands a b).1 ht
    simp only [Outcome.backend.injEq]
    constructor
    · rintro rfl; exact ⟨pre, a, post, hl, hpre, hfa⟩
    · rintro ⟨pre', a', post', hl', hpre', hfa'⟩
      have := (tryBackends_some status cands a' st).2 ⟨pre', post', hl', hpre', hfa'⟩
      rw [ht] at this; cases this; rfl
  | none =>
    have hall := (tryBackends_none status cands).1 ht
    constructor
    · intro h; cases fb <;> cases h
    · rintro ⟨pre, a, post, hl, _, hfa⟩
      rw [hall a (by rw [hl]; simp)] at hfa; cases hfa

/-- an error is returned iff every candidate failed and there is no fallback -/
theorem error_iff_all_failed_no_fallback {α σ : Type} (status : α → Option σ) (cands : List α) (fb : Option σ) :
    resolve status cands fb = .error ↔ (∀ a ∈ cands, status a = none) ∧ fb = none := by
  unfold resolve
  cases ht : (tryBackends status cands).1 with
  | some p =>
    obtain ⟨a, b⟩ := p
    simp only [reduceCtorEq, false_iff, not_and]
    intro hall
    rw [(tryBackends_none status cands).2 hall] at ht; cases ht
  | none =>
    have := (tryBackends_none status cands).1 ht
    cases fb with
    | none => simp only [and_true, true_iff]; exact this
    | some g => simp

/-- no backend is tried after the first success; all are tried when none succeeds -/
theorem attempts_stop_at_first_success {α β : Type} (f : α → Option β) (pre post : List α) (a : α) (b : β)
    (hpre : ∀ x ∈ pre, f x = none) (hfa : f a = some b) : (tryBackends f (pre ++ a :: post)).2 = pre.length + 1 :=
  tryBackends_attempts f pre post a b hpre hfa

theorem all_tried_when_none_succeeds {α β : Type} (f : α → Option β) (l : List α) (h : ∀ x ∈ l, f x = none) :
    (tryBackends f l).2 = l.length :=
  tryBackends_attempts_all f l h

/-! ### … whatever the KIND of failure (refused, timed out, closed, cancelled, cached) -/

/-- the outcome does not depend on how the failed attempts failed: only on which candidates succeed -/
theorem outcome_independent_of_failure_class {α σ : Type} (status : α → Attempt σ) (cands : List α) (fb : Option σ) :
    resolveE neverStop status cands fb = resolve (fun a => (status a).toOption) cands fb := by
  unfold resolveE resolve
  rw [tryBackendsE_neverStop]

/-- fallback iff every candidate failed — for every assignment of failure classes -/
theorem fallback_only_if_all_failed_any_class {α σ : Type} (status : α → Attempt σ) (cands : List α) (fb : Option σ) (f : σ) :
    resolveE neverStop status cands fb = .fallback f ↔ (∀ a ∈ cands, ∃ c, status a = .fail c) ∧ fb = some f := by
  rw [outcome_independent_of_failure_class, fallback_only_if_all_failed]
  constructor
  · rintro ⟨h, hf⟩
    refine ⟨fun a ha => ?_, hf⟩
    have := h a ha
    cases hs : status a with
    | ok b => rw [hs] at this; cases this
    | fail c => exact ⟨c, rfl⟩
  · rintro ⟨h, hf⟩
    refine ⟨fun a ha => ?_, hf⟩
    obtain ⟨c, hc⟩ := h a ha
    rw [hc]; rfl

/-- a healthy candidate behind ANY kind of failed candidates is asked and its status is returned -/
theorem healthy_backend_behind_failures_is_used {α σ : Type} (status : α → Attempt σ) (pre post : List α) (a : α) (st : σ)
    (fb : Option σ) (hpre : ∀ x ∈ pre, ∃ c, status x = .fail c) (ha : status a = .ok st) :
    resolveE neverStop status (pre ++ a :: post) fb = .backend st ∧
    (tryBackendsE neverStop status (pre ++ a :: post)).2 = pre.length + 1 := by
  rw [outcome_independent_of_failure_class, tryBackendsE_neverStop]
  have hp : ∀ x ∈ pre, (fun a => (status a).toOption) x = none := by
    intro x hx; obtain ⟨c, hc⟩ := hpre x hx; simp [hc, Attempt.toOption]
  have hs : (fun a => (status a).toOption) a = some st := by simp [ha, Attempt.toOption]
  exact ⟨(backend_status_is_first_success _ _ fb st).2 ⟨pre, a, post, rfl, hp, hs⟩,
    tryBackends_attempts _ pre post a st hp hs⟩

/-- the dimension matters: a variant that stops walking after a timeout-class failure ("the pinging client has gone
    away") serves the fallback although a healthy backend is configured behind a backend whose dial timed out -/
theorem stop_on_timeout_variant_fails :
    ¬ (∀ (status : Nat → Attempt String) (cands : List Nat) (fb : Option String) (f : String),
        resolveE (fun c => c == .timeout) status cands fb = .fallback f → ∀ a ∈ cands, ∃ c, status a = .fail c) := by
  intro h
  have := h (fun a => if a = 0 then .fail .timeout else .ok "up") [0, 1] (some "fb") "fb" (by decide) 1 (by simp)
  obtain ⟨c, hc⟩ := this
  simp at hc

example : resolveE neverStop (fun (a : Nat) => if a = 0 then Attempt.fail .timeout else .ok "up") [0, 1] (some "fb") = .backend "up" := by
  decide
example : resolveE neverStop (fun (a : Nat) => if a = 0 then Attempt.fail .canceled else .fail .refused) [0, 1] (some "fb") = .fallback "fb" := by
  decide

/-! ### non-vacuity: concrete schedules -/

def k1 : Key := ⟨[97], 765, 0⟩
def twoReqs : List (Key × Int × Bool) := [(k1, 10, true), (k1, 10, true), (k1, 10, true)]

/-- request 0 fetches (loader 0), the cache is reset while the fetch is in flight, request 1 starts after the
    reset: it does NOT join the old flight, fetches again (loader 1) and is answered with loader 1's result;
    request 0 still gets its own (old) result; the old result is not stored: request 2 hits loader 1's entry -/
example : (match exec (init twoReqs)
      [.get 0, .check 0, .join 0, .recheck 0, .reset, .get 1, .check 1, .join 1, .recheck 1,
       .store 0 true, .finish 0, .store 1 true, .finish 1, .get 2] with
    | some s => (answer s 0, answer s 1, answer s 2) == (some ⟨0, true⟩, some ⟨1, true⟩, some ⟨1, true⟩)
                && s.gen == 1 && s.loads.map (·.epoch) == [0, 1]
    | none => false) = true := by decide

/-- without a reset the second request joins the flight and both are answered by ONE fetch; a third request
    after the TTL has passed on both clocks misses -/
example : (match exec (init twoReqs)
      [.get 0, .check 0, .join 0, .recheck 0, .get 1, .check 1, .join 1, .store 0 true, .finish 0,
       .tick 10 10, .get 2] with
    | some s => (answer s 0, answer s 1, answer s 2) == (some ⟨0, true⟩, some ⟨0, true⟩, none)
                && s.loads.length == 1 && s.cache.isEmpty
    | none => false) = true := by decide

/-- the history searched for by the harness's concurrent probe (`race held`): a load is in flight, a reset runs
    concurrently, the load finishes with the value fetched before the reset.  Whichever way the load's store and the
    reset's critical section are ordered, a request that starts afterwards misses on the fast path and its own load
    fetches again (loader 1), while the old request still gets the old result. -/
theorem inflight_load_across_reset_is_not_served (ok storeFirst : Bool) :
    (match exec (init [(k1, 10, false), (k1, 10, true)])
        ([.check 0, .join 0, .recheck 0] ++ (if storeFirst then [.store 0 ok, .reset] else [.reset, .store 0 ok]) ++
         [.finish 0, .get 1, .check 1, .join 1, .recheck 1, .store 1 true, .finish 1]) with
     | some s => answer s 0 == some ⟨0, ok⟩ && answer s 1 == some ⟨1, true⟩ && s.loads.length == 2
     | none => false) = true := by
  cases ok <;> cases storeFirst <;> decide

/-- the hypotheses of `no_stale_after_reset` are satisfiable with an answered late request -/
example : (match exec (init twoReqs) [.get 0, .check 0, .join 0, .recheck 0] with
    | some mid =>
      (match exec mid [.reset, .get 1, .check 1, .join 1, .recheck 1, .store 1 false, .finish 1] with
       | some s => (mid.reqs[1]?.map (·.pc)) == some .idle && answer s 1 == some ⟨1, false⟩ && mid.loads.length == 1
       | none => false)
    | none => false) = true := by decide

example : resolve (fun (a : Nat) => if a = 2 then some "s2" else none) [0, 1, 2, 3] (some "fb") = .backend "s2" := by decide
example : resolve (fun (_ : Nat) => (none : Option String)) [0, 1] (some "fb") = .fallback "fb" := by decide
example : resolve (fun (_ : Nat) => (none : Option String)) [0, 1] none = .error := by decide

/-! ### tie to the source: call sequences regenerated from forward.go -/

open Gate.Gen.C32 in
/-- `load`: first check in one critical section; flight key built (format with four fields) before `DoChan`;
    inside the flight function the loader runs with `c.mu` NOT held, `Set` and every `getLocked` run with it held -/
theorem load_shape :
    loadCalls.take 3 = ["c.mu.Lock", "c.getLocked", "c.mu.Unlock"] ∧
    before loadCalls "fmt.Sprintf" "func:{" = true ∧ has loadCalls "c.group.DoChan" = true ∧
    allHeld loadCalls "load" false = true ∧ allHeld loadCalls "c.cache.Set" true = true ∧
    allHeld loadCalls "c.getLocked" true = true ∧ allHeld loadCalls "c.group.DoChan" false = true ∧
    count loadCalls "load" = 1 ∧ count loadCalls "c.cache.Set" = 1 ∧ count loadCalls "c.getLocked" = 2 ∧
    before loadCalls "load" "c.cache.Set" = true ∧
    loadStrs = ["%d:%d:%s:%d"] := by decide

open Gate.Gen.C32 in
/-- `reset` deletes everything inside ONE critical section; `get` is `getLocked` under the lock;
    `ResetPingCache` resets the ping cache; the cache is built without touch-on-hit (a hit does not extend the TTL) -/
theorem reset_get_shape :
    resetCalls = ["c.mu.Lock", "c.cache.DeleteAll", "c.mu.Unlock"] ∧
    getCalls = ["c.mu.Lock", "defer:c.mu.Unlock", "c.getLocked", "return"] ∧
    has resetPingCacheCalls "pingCache.reset" = true ∧
    has newCacheCalls "ttlcache.WithDisableTouchOnHit[]" = true ∧
    getLockedCalls = ["c.cache.Get", "return", "item.ExpiresAt", "expiresAt.IsZero", "c.now", "c.now().Before",
                      "c.cache.Delete", "return", "item.Value", "return"] := by decide

open Gate.Gen.C32 in
/-- `tryBackends` is the loop `next … try`; the fallback is consulted after `tryBackends`; the status path reads
    the cache (`get`) before `load`, and `load` is given the route's TTL -/
theorem resolve_shape :
    tryBackendsCalls = ["next", "return", "try", "errs.V", "errs.V().Info", "return"] ∧
    before resolveGenCalls "tryBackends" "handleFallbackResponse" = true ∧
    count resolveGenCalls "handleFallbackResponse" = 1 ∧
    before resolveCalls "pingCache.get" "pingCache.load" = true ∧
    before resolveCalls "route.GetCachePingTTL" "pingCache.load" = true ∧
    has fallbackCalls "route.Fallback.Response" = true := by decide

end Gate.C32.Props
