import GateModel.Base.Line
import GateModel.C32.Model
/-
C32 driver.  Two kinds of scenarios (see harness/c32/main.go):

A. schedules replayed step by step on a real pingStatusCache (injected clock, deterministic flight group):
  new <keys> <reqs>       keys = `hex,proto,routeGen;…`   reqs = `keyIdx,ttl,fast;…`     (starts a scenario)
  get r | check r | join r | recheck l | store l ok | finish l | reset | tick dInj     one Label each
  texp k d                set the injected clock to (expiry of the entry of key k) + d   (boundary scenarios only)
  output of a step:  `<what happened> | g=<generation> c=<keyIdx>=L<lid>:<ok>:<ttl>:<hasExpiry>,…`
     get: `hit L3:1` / `miss`      check: `hit L3:1` / `park <hex of the flight key string>`
     join: `created` / `joined`    recheck: `load L4` / `hit L3:1`     store: `ret L4:0`
     finish: `ans 0=L4:0,2=L4:0`   reset, tick, texp: `ok`             label not enabled in the model: `disabled`

B. sequential histories through the public path (ResolveStatusResponseWithGeneration, ResetPingCache, real
   singleflight, real clock) with loopback status backends; the model runs each request's labels to completion:
  pnew <nb> | mode i 0/1 | preset | sleep ms | ping <routeGen> <proto> <ttlms> <fallback 0/1> <i,j,k>
     candidates 0..nb-1 are listeners that accept (up: answer, down: close at once); candidate nb is a black hole (the dial
     runs into dialTimeout: a context.DeadlineExceeded-class error), candidate nb+1 a closed port (connection refused)
     output of ping: `backend <i> <n> @<proto>` (status of backend i, its n-th accepted connection overall, produced for a
     handshake with protocol number <proto>, which the backend echoes) / `fallback` /
     `error`, followed by ` | f=<connections accepted so far>`

R. really concurrent probes of reset vs. in-flight load (search for a failing history; harness `partRace`):
  race held <round> <variant>     history: load of A started (loader parked) · a reader parked inside c.mu · loader released
                                  with the OLD value · reset() called concurrently · reader released · reset() and load
                                  returned · get(A) · load(A) with a loader returning NEW
     output: `<get> <load>` = `miss new` in BOTH linearisations of the model (store before / after reset's section)
  race stress <round> <n>         n loads of distinct keys race with one reset(); output `stale=<k>`: keys that afterwards
                                  hold a value whose loader started before reset() was called (model: 0)

Verdict = the property evaluated on the IMPLEMENTATION's output by a monitor that never looks at the model:
  viol:stale-after-reset     an answer's fetch was started before a reset that precedes the request's first action
  viol:wrong-key             an answer / a stored entry was fetched for another key
  viol:stale-entry-stored    the cache holds an entry fetched under an older cache generation
  viol:double-flight         a second fetch started while one of the same (cache generation, key) is running
  viol:ttl-exceeded          a cache hit at or after stamp + TTL
  viol:unknown-result        an answer that no fetch produced
  viol:fallback-while-backend-up / viol:not-first-backend / viol:no-fallback / viol:fallback-unconfigured
-/
namespace Gate.C32
open Gate

/-! ### small parsers -/

def dropS (s : String) (n : Nat) : String := String.ofList (s.toList.drop n)

def parseKey (s : String) : Option Key :=
  match s.splitOn "," with
  | [h, p, g] => do pure ⟨← parseHex h, ← p.toInt?, ← g.toNat?⟩
  | _ => none

def parseReq (keys : List Key) (s : String) : Option (Key × Int × Bool) :=
  match s.splitOn "," with
  | [k, t, f] => do pure (← keys[← k.toNat?]?, ← t.toInt?, f = "1")
  | _ => none

def parseReqIdx (s : String) : Option (Nat × Int) :=
  match s.splitOn "," with
  | [k, t, _] => do pure (← k.toNat?, ← t.toInt?)
  | _ => none

/-- `L3:1` -/
def parseL (s : String) : Option Res :=
  match s.splitOn ":" with
  | [l, o] => if l.startsWith "L" then (dropS l 1).toNat?.map (fun n => ⟨n, o = "1"⟩) else none
  | [l] => if l.startsWith "L" then (dropS l 1).toNat?.map (fun n => ⟨n, true⟩) else none
  | _ => none

def showRes (v : Res) : String := s!"L{v.lid}:{if v.ok then 1 else 0}"

def keyIdx (keys : List Key) (k : Key) : Nat := keys.findIdx (· == k)

/-! ### part A: model output -/

def digest (keys : List Key) (s : Sys) : String :=
  let ents := (List.range keys.length).filterMap fun i =>
    match keys[i]? with
    | some k => (match lookup s.cache k with
      | some e => (match e.expiresAt with
        | some x => if x < s.wall then none else some s!"{i}={showRes e.res}:{e.ttl}:1"
        | none => some s!"{i}={showRes e.res}:{e.ttl}:0")
      | none => none)
    | none => none
  s!"g={s.gen} c={if ents.isEmpty then "-" else ",".intercalate ents}"

def flightOf (s : Sys) (l : Nat) : Option Flight := s.flights.find? (fun f => f.leader = l)

def labelOut (s s' : Sys) : Label → String
  | .get r => match answer s' r with | some v => "hit " ++ showRes v | none => "miss"
  | .check r => match s'.reqs[r]? with
    | some q => (match q.pc with
      | .answered v => "hit " ++ showRes v
      | .checked g => "park " ++ toHex (flightKey g q.key)
      | _ => "?")
    | none => "?"
  | .join _ => if s'.flights.length > s.flights.length then "created" else "joined"
  | .recheck l => match flightOf s' l with
    | some f => (match f.pc with | .loading lid => s!"load L{lid}" | .done v => "hit " ++ showRes v | _ => "?")
    | none => "?"
  | .store l _ => match flightOf s' l with
    | some f => (match f.pc with | .done v => "ret " ++ showRes v | _ => "?")
    | none => "?"
  | .finish _ =>
    let news := (List.range s'.reqs.length).filterMap fun r =>
      match answer s r, answer s' r with
      | none, some v => some s!"{r}={showRes v}"
      | _, _ => none
    "ans " ++ (if news.isEmpty then "-" else ",".intercalate news)
  | .reset => "ok"
  | .tick _ _ => "ok"

/-! ### part A: monitor over the implementation's outputs -/

structure LInfo where
  lid : Nat
  kidx : Nat
  epoch : Nat          -- resets seen when the fetch started
  fgen : Nat           -- resets seen when its leader did `check`
  running : Bool
  storedInj : Option Nat
  ttl : Int

structure Mon where
  resets : Nat := 0
  inj : Nat := 0
  reqKey : List Nat := []
  reqTtl : List Int := []
  reqStart : List (Option Nat) := []
  reqCheck : List (Option Nat) := []
  loads : List LInfo := []
  pastExpiry : Option Nat := none    -- texp put the clock at/after the expiry of this key's entry

def Mon.start (m : Mon) (r : Nat) : Mon :=
  match m.reqStart[r]? with
  | some none => { m with reqStart := m.reqStart.set r (some m.resets) }
  | _ => m

def Mon.load (m : Mon) (lid : Nat) : Option LInfo := m.loads.find? (·.lid = lid)

/-- judge an answer `v` delivered to request `r`; `fromCache`: it was a cache hit (TTL applies) -/
def Mon.judgeAnswer (m : Mon) (r : Nat) (v : Res) (fromCache : Bool) : Option String :=
  match m.load v.lid, m.reqKey[r]?, m.reqStart[r]? with
  | some li, some k, some (some st) =>
    if li.kidx ≠ k then some "wrong-key"
    else if li.epoch < st then some "stale-after-reset"
    else if fromCache && (m.pastExpiry == some k) then some "ttl-exceeded"
    else if fromCache then
      (match li.storedInj with
       | some t => if li.ttl > 0 ∧ m.pastExpiry.isNone ∧ t + li.ttl.toNat ≤ m.inj then some "ttl-exceeded" else none
       | none => none)
    else none
  | none, _, _ => some "unknown-result"
  | _, _, _ => some "bad-request"

def parseEntries (c : String) : List (Nat × Res) :=
  if c = "-" then [] else
  (c.splitOn ",").filterMap fun e => match e.splitOn "=" with
    | [k, rest] => do
      let ki ← k.toNat?
      match rest.splitOn ":" with
      | l :: o :: _ => do pure (ki, ← parseL (l ++ ":" ++ o))
      | _ => none
    | _ => none

def Mon.judgeDigest (m : Mon) (dg : String) : Option String :=
  let c := ((dg.splitOn " ").findSome? fun kv => if kv.startsWith "c=" then some (dropS kv 2) else none).getD "-"
  (parseEntries c).findSome? fun (ki, v) =>
    match m.load v.lid with
    | some li => if li.kidx ≠ ki then some "wrong-key" else if li.epoch ≠ m.resets then some "stale-entry-stored" else none
    | none => some "unknown-result"

def firstViol (xs : List (Option String)) : Option String := xs.findSome? id

/-- monitor step for a part-A line: new monitor and verdict -/
def monStep (m : Mon) (op : String) (args : List String) (impl : String) : Mon × String :=
  let (what, dg) := match impl.splitOn " | " with
    | [a, b] => (a, b)
    | [a] => (a, "")
    | _ => ("", "")
  let w := what.splitOn " "
  let fin (m : Mon) (vs : List (Option String)) (judged : Bool) : Mon × String :=
    match firstViol (vs ++ [m.judgeDigest dg]) with
    | some sig => (m, "viol:" ++ sig)
    | none => (m, if judged || (dg.splitOn "c=").getLast? != some "-" then "ok" else "-")
  match op, args.map String.toNat? with
  | "get", [some r] =>
    let m := m.start r
    (match w with
     | ["hit", l] => (match parseL l with
        | some v => fin m [m.judgeAnswer r v true] true
        | none => (m, "viol:unparsable"))
     | _ => fin m [] false)
  | "check", [some r] =>
    let m := m.start r
    let m := { m with reqCheck := m.reqCheck.set r (some m.resets) }
    (match w with
     | ["hit", l] => (match parseL l with
        | some v => fin m [m.judgeAnswer r v true] true
        | none => (m, "viol:unparsable"))
     | _ => fin m [] false)
  | "recheck", [some l] =>
    (match w with
     | ["load", ls] => (match parseL ls, m.reqKey[l]?, m.reqCheck[l]?, m.reqTtl[l]? with
        | some v, some k, some (some fg), some ttl =>
          let dbl := m.loads.any (fun li => li.running && li.kidx = k && li.fgen = fg)
          let m' := { m with loads := m.loads ++ [⟨v.lid, k, m.resets, fg, true, none, ttl⟩] }
          fin m' [if dbl then some "double-flight" else none] true
        | _, _, _, _ => (m, "viol:unparsable"))
     | _ => fin m [] false)
  | "store", [some _, some _] =>
    (match w with
     | ["ret", ls] => (match parseL ls with
        | some v =>
          let m' := { m with loads := m.loads.map (fun li => if li.lid = v.lid then { li with running := false, storedInj := some m.inj } else li) }
          fin m' [] false
        | none => (m, "viol:unparsable"))
     | _ => fin m [] false)
  | "finish", [some _] =>
    (match w with
     | ["ans", a] =>
       let pairs := if a = "-" then [] else (a.splitOn ",").filterMap fun e => match e.splitOn "=" with
         | [r, l] => do pure (← r.toNat?, ← parseL l)
         | _ => none
       fin m (pairs.map fun (r, v) => m.judgeAnswer r v false) (!pairs.isEmpty)
     | _ => fin m [] false)
  | "reset", [] => fin { m with resets := m.resets + 1 } [] false
  | "tick", [some d] => fin { m with inj := m.inj + d } [] false
  | _, _ => fin m [] false

/-! ### part B: sequential public path -/

structure PubSt where
  modes : List Bool := []          -- backend up?
  fetches : Nat := 0               -- connections accepted by the fake backends so far
  lidFetch : List (Nat × Nat) := []  -- model: lid ↦ fetch number
  -- monitor
  resets : Nat := 0
  contUp : List Bool := []         -- up continuously since the last reset
  seen : Nat := 0                  -- implementation's f= after the previous op
  frec : List (Nat × Nat × Int × Nat × Nat × Int) := []   -- fetch number, resets at that time, ttl of the fetching ping, ms slept since, its route generation, its protocol

def backendKey (i : Nat) (proto : Int) (rg : Nat) : Key := ⟨[UInt8.ofNat i], proto, rg⟩

def runLabels (s : Sys) (ls : List Label) : Sys := ls.foldl (fun s l => (step s l).getD s) s

/-- one status request for backend `i` run to completion; returns the system, the result, the new fetch count -/
def seqRequest (s : Sys) (p : PubSt) (i : Nat) (proto : Int) (rg : Nat) (ttl : Int) : Sys × Option Res × PubSt :=
  let up := p.modes[i]?.getD false
  -- backends beyond the `nb` listeners of `pnew nb` never accept a connection (index nb: the dial runs into its
  -- timeout; index nb+1: the dial is refused): always failing, and invisible to the accept counter
  let acc := if i < p.modes.length then 1 else 0
  if ttl ≤ 0 then   -- cache disabled: direct fetch
    (s, if up then some ⟨1000000 + p.fetches + 1, true⟩ else none, { p with fetches := p.fetches + acc })
  else
    let r := s.reqs.length
    let s := { s with reqs := s.reqs ++ [mkReq (backendKey i proto rg) ttl true] }
    let s := runLabels s [.get r]
    match answer s r with
    | some v => (s, if v.ok then some v else none, p)
    | none =>
      let s := runLabels s [.check r]
      match answer s r with
      | some v => (s, if v.ok then some v else none, p)
      | none =>
        let s := runLabels s [.join r, .recheck r]
        let (s, p) := match flightOf s r with
          | some f => (match f.pc with
            | .loading lid => (runLabels s [.store r up], { p with fetches := p.fetches + acc, lidFetch := p.lidFetch ++ [(lid, p.fetches + 1)] })
            | _ => (s, p))
          | none => (s, p)
        let s := runLabels s [.finish r]
        match answer s r with
        | some v => (s, if v.ok then some v else none, p)
        | none => (s, none, p)

def fetchNo (p : PubSt) (v : Res) : Nat :=
  if v.lid ≥ 1000000 then v.lid - 1000000 else ((p.lidFetch.find? (·.1 = v.lid)).map (·.2)).getD 0

/-- the protocol the backend was pinged with when it produced `v`: the key of the fetch (own protocol when uncached) -/
def fetchProto (s : Sys) (proto : Int) (v : Res) : Int :=
  if v.lid ≥ 1000000 then proto else ((s.loads[v.lid]?).map (·.key.protocol)).getD proto

def seqPing (s : Sys) (p : PubSt) (proto : Int) (rg : Nat) (ttl : Int) : List Nat → Sys × PubSt × Option (Nat × Nat × Int)
  | [] => (s, p, none)
  | i :: rest =>
    let (s, res, p) := seqRequest s p i proto rg ttl
    match res with
    | some v => (s, p, some (i, fetchNo p v, fetchProto s proto v))
    | none => seqPing s p proto rg ttl rest

/-! ### part R: the two linearisations of the held-probe history -/

def raceKey : Key := ⟨[65], 765, 0⟩

/-- the probe's history with the in-flight load's store before (`true`) or after (`false`) reset's critical section;
    result: what `get` and the following `load` return to requests that start after the reset -/
def raceHeldModel (storeFirst ok : Bool) : String :=
  let s0 := init [(raceKey, 10, false), (raceKey, 10, true), (raceKey, 10, false)]
  let mid : List Label := if storeFirst then [.store 0 ok, .reset] else [.reset, .store 0 ok]
  let s := runLabels s0 ([.check 0, .join 0, .recheck 0] ++ mid ++ [.finish 0, .get 1])
  let g := match answer s 1 with | some v => (if v.lid = 0 then "hit:old" else "hit:new") | none => "miss"
  let s := runLabels s [.check 2, .join 2, .recheck 2, .store 2 true, .finish 2]
  let l := match answer s 2 with | some v => (if v.lid = 0 then "old" else "new") | none => "none"
  g ++ " " ++ l

def raceCase (args : List String) (impl : String) : String × String :=
  match args with
  | ["held", _, v] =>
    let ok := (v.toNat?.getD 0) % 2 = 0
    let a := raceHeldModel true ok
    let b := raceHeldModel false ok
    let out := if a = b then a else "model-ambiguous"
    let verdict :=
      if impl = out then "ok"
      else if (impl.splitOn "old").length > 1 then "viol:stale-after-reset"
      else if impl = "hang" ∨ impl = "panic" then "viol:" ++ impl
      else "viol:unexpected-output"
    (out, verdict)
  | ["stress", _, _] =>
    let verdict :=
      if impl = "stale=0" then "ok"
      else if impl.startsWith "stale=" then "viol:stale-after-reset"
      else if impl = "hang" ∨ impl = "panic" then "viol:" ++ impl
      else "viol:unexpected-output"
    ("stale=0", verdict)
  | _ => ("bad-case", "-")

/-! ### the driver -/

structure DState where
  sys : Sys := { reqs := [] }
  keys : List Key := []
  mon : Mon := {}
  pub : PubSt := {}

def parseLabel (op : String) (args : List String) : Option Label :=
  match op, args.map String.toNat? with
  | "get", [some r] => some (.get r)
  | "check", [some r] => some (.check r)
  | "join", [some r] => some (.join r)
  | "recheck", [some l] => some (.recheck l)
  | "store", [some l, some ok] => some (.store l (ok = 1))
  | "finish", [some l] => some (.finish l)
  | "reset", [] => some .reset
  | "tick", [some d] => some (.tick 0 d)
  | _, _ => none

def pubVerdict (p : PubSt) (cands : List Nat) (fb : Bool) (ttl : Int) (rg : Nat) (proto : Int) (impl : String) : PubSt × String :=
  let (what, rest) := match impl.splitOn " | " with
    | [a, b] => (a, b)
    | _ => (impl, "")
  let f := ((rest.splitOn " ").findSome? fun kv => if kv.startsWith "f=" then (dropS kv 2).toNat? else none).getD p.seen
  -- fetches made during this op
  let newRecs := (List.range (f - p.seen)).map fun j => (p.seen + j + 1, p.resets, ttl, 0, rg, proto)
  let p := { p with frec := p.frec ++ newRecs }
  let prevSeen := p.seen
  let p := { p with seen := f }
  let upCont (i : Nat) : Bool := p.contUp[i]?.getD false
  let v : String :=
    match what.splitOn " " with
    | ["backend", is, ns, ps] =>
      (match is.toNat?, ns.toNat? with
       | some i, some n =>
         if !cands.contains i then "viol:wrong-key"
         -- the backend echoes the protocol number of the handshake it was pinged with: it must be THIS client's
         else if ps ≠ "@" ++ toString proto then "viol:wrong-key"
         else match p.frec.find? (·.1 = n) with
           | none => "viol:unknown-result"
           | some (_, ep, t, slept, frg, fproto) =>
             if frg ≠ rg ∨ fproto ≠ proto then "viol:wrong-key"
             else if ep < p.resets then "viol:stale-after-reset"
             else if n ≤ prevSeen ∧ t > 0 ∧ t.toNat ≤ slept then "viol:ttl-exceeded"
             else if (cands.takeWhile (· != i)).any upCont then "viol:not-first-backend"
             else "ok"
       | _, _ => "viol:unparsable")
    | ["fallback"] =>
      if cands.any upCont then "viol:fallback-while-backend-up" else if !fb then "viol:fallback-unconfigured" else "ok"
    | ["error"] =>
      if cands.any upCont then "viol:fallback-while-backend-up" else if fb then "viol:no-fallback" else "ok"
    | _ => "viol:unexpected-output"
  (p, v)

def dstep (d : DState) (c : Case) : DState × String × String :=
  match c.op, c.args with
  | "new", [ks, rs] =>
    (match (ks.splitOn ";").mapM parseKey with
     | some keys =>
       (match (rs.splitOn ";").mapM (parseReq keys), (rs.splitOn ";").mapM parseReqIdx with
        | some reqs, some idx =>
          let n := reqs.length
          ({ d with sys := init reqs, keys := keys,
                    mon := { reqKey := idx.map (·.1), reqTtl := idx.map (·.2), reqStart := List.replicate n none,
                             reqCheck := List.replicate n none } }, "ok", "-")
        | _, _ => (d, "bad-case", "-"))
     | none => (d, "bad-case", "-"))
  | "texp", [ks, ds] =>
    (match ks.toNat?, ds.toInt? with
     | some k, some dlt =>
       (match d.keys[k]?.bind (lookup d.sys.cache ·) |>.bind (·.expiresAt) with
        | some x =>
          let s' := { d.sys with inj := (Int.ofNat x + dlt).toNat }
          let m := { d.mon with pastExpiry := if dlt ≥ 0 then some k else none, inj := s'.inj }
          ({ d with sys := s', mon := m }, "ok | " ++ digest d.keys s', "-")
        | none => (d, "disabled", "-"))
     | _, _ => (d, "bad-case", "-"))
  | "race", args => let (m, v) := raceCase args c.impl; (d, m, v)
  | "pnew", [nb] =>
    (match nb.toNat? with
     | some n => ({ d with sys := { reqs := [] }, pub := { modes := List.replicate n true, contUp := List.replicate n true } }, "ok", "-")
     | none => (d, "bad-case", "-"))
  | "mode", [is, us] =>
    (match is.toNat? with
     | some i =>
       let up := us = "1"
       let p := d.pub
       ({ d with pub := { p with modes := p.modes.set i up, contUp := if up then p.contUp else p.contUp.set i false } }, "ok", "-")
     | none => (d, "bad-case", "-"))
  | "preset", [] =>
    let p := d.pub
    ({ d with sys := runLabels d.sys [.reset], pub := { p with resets := p.resets + 1, contUp := p.modes } }, "ok", "-")
  | "sleep", [ms] =>
    (match ms.toNat? with
     | some n =>
       let p := d.pub
       ({ d with sys := runLabels d.sys [.tick n n], pub := { p with frec := p.frec.map fun (a, b, t, sl, g, pr) => (a, b, t, sl + n, g, pr) } }, "ok", "-")
     | none => (d, "bad-case", "-"))
  | "ping", [rgs, ps, ts, fbs, cs] =>
    (match rgs.toNat?, ps.toInt?, ts.toInt?, (cs.splitOn ",").mapM String.toNat? with
     | some rg, some proto, some ttl, some cands =>
       let fb := fbs = "1"
       let (s, p, res) := seqPing d.sys d.pub proto rg ttl cands
       let out := (match res with
         | some (i, n, fp) => s!"backend {i} {n} @{fp}"
         | none => if fb then "fallback" else "error") ++ s!" | f={p.fetches}"
       let (p, v) := pubVerdict p cands fb ttl rg proto c.impl
       ({ d with sys := s, pub := p }, out, v)
     | _, _, _, _ => (d, "bad-case", "-"))
  | op, args =>
    match parseLabel op args with
    | some l =>
      let (m, v) := monStep d.mon op args c.impl
      (match step d.sys l with
       | some s' => ({ d with sys := s', mon := m }, labelOut d.sys s' l ++ " | " ++ digest d.keys s', v)
       | none => ({ d with mon := m }, "disabled", v))
    | none => (d, "bad-op", "-")

end Gate.C32

def main : IO Unit := Gate.runDriver ({} : Gate.C32.DState) Gate.C32.dstep
