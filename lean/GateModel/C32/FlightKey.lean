import GateModel.C32.Model
import Std.Data.String.ToNat
import Std.Data.String.ToInt
/-
C32 — the flight key string `fmt.Sprintf("%d:%d:%s:%d", generation, routeGeneration, backendAddr, protocol)` determines
(generation, key): the two leading fields and the trailing field are decimal numerals without a colon, so the string
splits uniquely at its first two colons and its last colon, whatever bytes the backend address contains.
-/
namespace Gate.C32
open Gate

def enc (c : Char) : UInt8 := UInt8.ofNat c.toNat

theorem digit_range {c : Char} (h : c.isDigit = true) : 48 ≤ c.toNat ∧ c.toNat ≤ 57 := by
  unfold Char.isDigit at h
  simp only [Bool.and_eq_true, decide_eq_true_eq, ge_iff_le, UInt32.le_iff_toNat_le] at h
  exact ⟨h.1, h.2⟩

theorem enc_toNat {c : Char} (h : c.toNat < 256) : (enc c).toNat = c.toNat := by
  unfold enc
  rw [UInt8.toNat_ofNat']
  omega

theorem enc_inj_small {a b : Char} (ha : a.toNat < 256) (hb : b.toNat < 256) (h : enc a = enc b) : a = b := by
  have := congrArg UInt8.toNat h
  rw [enc_toNat ha, enc_toNat hb] at this
  apply Char.ext
  apply UInt32.toNat_inj.1
  exact this

theorem map_enc_inj : ∀ (l1 l2 : List Char), (∀ c ∈ l1, c.toNat < 256) → (∀ c ∈ l2, c.toNat < 256) →
    l1.map enc = l2.map enc → l1 = l2
  | [], [], _, _, _ => rfl
  | [], _ :: _, _, _, h => by simp at h
  | _ :: _, [], _, _, h => by simp at h
  | a :: l1, b :: l2, h1, h2, h => by
    simp only [List.map_cons, List.cons.injEq] at h
    have hab := enc_inj_small (h1 a (by simp)) (h2 b (by simp)) h.1
    have := map_enc_inj l1 l2 (fun c hc => h1 c (by simp [hc])) (fun c hc => h2 c (by simp [hc])) h.2
    rw [hab, this]

theorem natDigits_eq (n : Nat) : natDigits n = (Nat.toDigits 10 n).map enc := by
  unfold natDigits
  rw [Nat.toString_eq_repr, Nat.toList_repr]
  rfl

theorem toDigits_small (n : Nat) : ∀ c ∈ Nat.toDigits 10 n, 48 ≤ c.toNat ∧ c.toNat ≤ 57 :=
  fun _ hc => digit_range (Nat.isDigit_of_mem_toDigits (by decide) (by decide) hc)

theorem natDigits_no_colon (n : Nat) : (58 : UInt8) ∉ natDigits n := by
  rw [natDigits_eq]
  intro h
  obtain ⟨c, hc, he⟩ := List.mem_map.1 h
  have hr := toDigits_small n c hc
  have := congrArg UInt8.toNat he
  rw [enc_toNat (by omega)] at this
  simp at this
  omega

theorem natDigits_inj {m n : Nat} (h : natDigits m = natDigits n) : m = n := by
  rw [natDigits_eq, natDigits_eq] at h
  have := map_enc_inj _ _ (fun c hc => by have := toDigits_small m c hc; omega)
    (fun c hc => by have := toDigits_small n c hc; omega) h
  apply Nat.repr_injective
  rw [Nat.repr_eq_ofList_toDigits, Nat.repr_eq_ofList_toDigits, this]

theorem intChars (i : Int) : ∀ c ∈ (toString i).toList, c.toNat < 256 ∧ c.toNat ≠ 58 := by
  intro c hc
  rw [Int.toString_eq_repr, Int.repr_eq_if] at hc
  split at hc
  · rw [Nat.toList_repr] at hc
    have := toDigits_small _ c hc
    omega
  · rw [String.toList_append, Nat.toList_repr] at hc
    rcases List.mem_append.1 hc with h | h
    · simp at h; subst h; decide
    · have := toDigits_small _ c h
      omega

theorem intDigits_no_colon (i : Int) : (58 : UInt8) ∉ intDigits i := by
  unfold intDigits
  intro h
  obtain ⟨c, hc, he⟩ := List.mem_map.1 h
  have hr := intChars i c hc
  have := congrArg UInt8.toNat he
  change (enc c).toNat = _ at this
  rw [enc_toNat hr.1] at this
  simp at this
  exact hr.2 this

theorem intDigits_inj {a b : Int} (h : intDigits a = intDigits b) : a = b := by
  unfold intDigits at h
  have := map_enc_inj _ _ (fun c hc => (intChars a c hc).1) (fun c hc => (intChars b c hc).1) h
  apply Int.repr_injective
  rw [← Int.toString_eq_repr, ← Int.toString_eq_repr]
  exact String.toList_inj.1 this

/-- split at the first colon -/
theorem split_first : ∀ (a a' x x' : Bytes), (58 : UInt8) ∉ a → (58 : UInt8) ∉ a' →
    a ++ 58 :: x = a' ++ 58 :: x' → a = a' ∧ x = x'
  | [], [], _, _, _, _, h => by simpa using h
  | [], b :: a', _, _, _, h2, h => by
    simp only [List.nil_append, List.cons_append, List.cons.injEq] at h
    exact absurd (by rw [← h.1]; simp) h2
  | b :: a, [], _, _, h1, _, h => by
    simp only [List.nil_append, List.cons_append, List.cons.injEq] at h
    exact absurd (by rw [h.1]; simp) h1
  | b :: a, b' :: a', x, x', h1, h2, h => by
    simp only [List.cons_append, List.cons.injEq] at h
    have := split_first a a' x x' (fun hm => h1 (by simp [hm])) (fun hm => h2 (by simp [hm])) h.2
    exact ⟨by rw [h.1, this.1], this.2⟩

/-- split at the last colon -/
theorem split_last (x x' c c' : Bytes) (h1 : (58 : UInt8) ∉ c) (h2 : (58 : UInt8) ∉ c')
    (h : x ++ 58 :: c = x' ++ 58 :: c') : x = x' ∧ c = c' := by
  have hr := congrArg List.reverse h
  simp only [List.reverse_append, List.reverse_cons, List.append_assoc, List.singleton_append] at hr
  have := split_first c.reverse c'.reverse x.reverse x'.reverse (by simpa using h1) (by simpa using h2) hr
  exact ⟨List.reverse_inj.1 this.2, List.reverse_inj.1 this.1⟩

theorem flightKey_injective (g g' : Nat) (k k' : Key) (h : flightKey g k = flightKey g' k') : g = g' ∧ k = k' := by
  unfold flightKey at h
  simp only [List.append_assoc, List.singleton_append] at h
  obtain ⟨h1, h⟩ := split_first _ _ _ _ (natDigits_no_colon g) (natDigits_no_colon g') h
  obtain ⟨h2, h⟩ := split_first _ _ _ _ (natDigits_no_colon _) (natDigits_no_colon _) h
  obtain ⟨h3, h4⟩ := split_last _ _ _ _ (intDigits_no_colon _) (intDigits_no_colon _) h
  refine ⟨natDigits_inj h1, ?_⟩
  cases k; cases k'
  simp only [Key.mk.injEq]
  exact ⟨h3, intDigits_inj h4, natDigits_inj h2⟩
end Gate.C32
