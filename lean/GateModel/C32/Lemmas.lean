import GateModel.C32.Model
/-
C32 — the invariant of the ping-cache machine and its preservation by every label.
-/
namespace Gate.C32

/-- loader invocation `lid` exists, was made for key `k`, at a cache generation ≥ `lo` -/
def LoadOK (loads : List LoadInfo) (lid : Nat) (k : Key) (lo : Nat) : Prop :=
  ∃ info, loads[lid]? = some info ∧ info.key = k ∧ lo ≤ info.epoch

theorem LoadOK.mono {loads lid k lo lo'} (h : LoadOK loads lid k lo) (hl : lo' ≤ lo) : LoadOK loads lid k lo' := by
  obtain ⟨i, h1, h2, h3⟩ := h
  exact ⟨i, h1, h2, Nat.le_trans hl h3⟩

theorem LoadOK.append {loads lid k lo} (h : LoadOK loads lid k lo) (ext : List LoadInfo) :
    LoadOK (loads ++ ext) lid k lo := by
  obtain ⟨i, h1, h2, h3⟩ := h
  refine ⟨i, ?_, h2, h3⟩
  have hlt : lid < loads.length := by
    rcases Nat.lt_or_ge lid loads.length with h | h
    · exact h
    · rw [List.getElem?_eq_none h] at h1; cases h1
  rw [List.getElem?_append_left hlt]; exact h1

theorem LoadOK.new (loads : List LoadInfo) (k : Key) (g ld : Nat) :
    LoadOK (loads ++ [⟨k, g, ld⟩]) loads.length k g :=
  ⟨⟨k, g, ld⟩, by simp, rfl, Nat.le_refl _⟩

structure ReqOK (loads : List LoadInfo) (gen : Nat) (q : Req) : Prop where
  chk : ∀ g, q.pc = .checked g ∨ q.pc = .waiting g → q.startGen ≤ g ∧ g ≤ gen
  ans : ∀ v, q.pc = .answered v → LoadOK loads v.lid q.key q.startGen
  mis : q.pc = .missed → q.startGen ≤ gen

structure FlightOK (loads : List LoadInfo) (gen : Nat) (f : Flight) : Prop where
  le : f.gen ≤ gen
  loading : ∀ lid, f.pc = .loading lid → LoadOK loads lid f.key f.gen
  done : ∀ v, f.pc = .done v → LoadOK loads v.lid f.key f.gen

structure Inv (s : Sys) : Prop where
  epochs : ∀ (i : Nat) (info : LoadInfo), s.loads[i]? = some info → info.epoch ≤ s.gen
  cache : ∀ e ∈ s.cache, LoadOK s.loads e.res.lid e.key s.gen ∧ e.storedAt ≤ s.wall
  flights : ∀ f ∈ s.flights, FlightOK s.loads s.gen f
  reqs : ∀ q ∈ s.reqs, ReqOK s.loads s.gen q
  nodup : s.flights.Pairwise (fun a b => ¬ (a.gen = b.gen ∧ a.key = b.key))

theorem ReqOK.mono {loads gen q} (h : ReqOK loads gen q) (ext : List LoadInfo) {gen'} (hg : gen ≤ gen') :
    ReqOK (loads ++ ext) gen' q :=
  ⟨fun g hg' => ⟨(h.chk g hg').1, Nat.le_trans (h.chk g hg').2 hg⟩, fun v hv => (h.ans v hv).append ext,
   fun hm => Nat.le_trans (h.mis hm) hg⟩

theorem FlightOK.mono {loads gen f} (h : FlightOK loads gen f) (ext : List LoadInfo) {gen'} (hg : gen ≤ gen') :
    FlightOK (loads ++ ext) gen' f :=
  ⟨Nat.le_trans h.le hg, fun l hl => (h.loading l hl).append ext, fun v hv => (h.done v hv).append ext⟩

theorem inv_init (reqs : List (Key × Int × Bool)) : Inv (init reqs) := by
  refine ⟨?_, ?_, ?_, ?_, ?_⟩
  · intro i info h; simp [init] at h
  · intro e he; simp [init] at he
  · intro f hf; simp [init] at hf
  · intro q hq
    simp only [init, List.mem_map] at hq
    obtain ⟨⟨k, t, f⟩, _, rfl⟩ := hq
    refine ⟨?_, ?_, ?_⟩ <;> simp [mkReq]
  · simp [init]

/-! ### getLocked -/

theorem lookup_some {c : List Entry} {k : Key} {e : Entry} (h : lookup c k = some e) : e ∈ c ∧ e.key = k := by
  unfold lookup at h
  exact ⟨List.mem_of_find?_eq_some h, by simpa using List.find?_some h⟩

theorem getLocked_sub (s : Sys) (k : Key) : ∀ e ∈ (getLocked s k).2, e ∈ s.cache := by
  unfold getLocked
  split
  · simp
  · split
    · simp
    · split
      · simp
      · split
        · intro e he; exact (List.mem_filter.1 he).1
        · simp

theorem getLocked_hit {s : Sys} {k : Key} {v : Res} {c : List Entry} (h : getLocked s k = (some v, c)) :
    c = s.cache ∧ ∃ e ∈ s.cache, e.key = k ∧ e.res = v ∧ e.live s.wall s.inj = true := by
  unfold getLocked at h
  split at h
  · cases h
  · rename_i e he
    obtain ⟨hm, hk⟩ := lookup_some he
    split at h
    · rename_i hx
      cases h
      exact ⟨rfl, e, hm, hk, rfl, by simp [Entry.live, hx]⟩
    · rename_i x hx
      split at h
      · cases h
      · split at h
        · cases h
        · rename_i h1 h2
          cases h
          exact ⟨rfl, e, hm, hk, rfl, by simp [Entry.live, hx, h1, h2]⟩

/-- the converse: a live entry for the key is served -/
theorem getLocked_of_live {s : Sys} {k : Key} {e : Entry} (he : lookup s.cache k = some e)
    (hl : e.live s.wall s.inj = true) : getLocked s k = (some e.res, s.cache) := by
  unfold getLocked
  rw [he]
  simp only
  unfold Entry.live at hl
  split
  · rfl
  · rename_i x hx
    rw [hx] at hl
    simp only [Bool.and_eq_true, Bool.not_eq_true', decide_eq_false_iff_not] at hl
    rw [if_neg hl.1, if_neg hl.2]

/-! ### flights helpers -/

theorem mem_setFlight {fl : List Flight} {f : Flight} {pc : FPc} {x : Flight} (h : x ∈ setFlight fl f pc) :
    x ∈ fl ∨ (f ∈ fl ∧ x = { f with pc := pc }) := by
  unfold setFlight at h
  obtain ⟨y, hy, rfl⟩ := List.mem_map.1 h
  by_cases hyf : y = f
  · right; rw [if_pos hyf]; exact ⟨hyf ▸ hy, rfl⟩
  · left; rw [if_neg hyf]; exact hy

theorem pairwise_setFlight {fl : List Flight} {f : Flight} {pc : FPc}
    (h : fl.Pairwise (fun a b => ¬ (a.gen = b.gen ∧ a.key = b.key))) :
    (setFlight fl f pc).Pairwise (fun a b => ¬ (a.gen = b.gen ∧ a.key = b.key)) := by
  unfold setFlight
  rw [List.pairwise_map]
  refine h.imp ?_
  intro a b hab
  by_cases ha : a = f <;> by_cases hb : b = f
  · rw [if_pos ha, if_pos hb]; subst ha; subst hb; exact hab
  · rw [if_pos ha, if_neg hb]; subst ha; exact hab
  · rw [if_neg ha, if_pos hb]; subst hb; exact hab
  · rw [if_neg ha, if_neg hb]; exact hab

theorem find_leader {fl : List Flight} {l : Nat} {f : Flight} (h : fl.find? (fun f => f.leader = l) = some f) : f ∈ fl :=
  List.mem_of_find?_eq_some h

/-! ### preservation -/

theorem reqs_set {s : Sys} {r : Nat} {q' : Req} {loads gen}
    (hall : ∀ q ∈ s.reqs, ReqOK loads gen q) (hq' : ReqOK loads gen q') :
    ∀ q ∈ s.reqs.set r q', ReqOK loads gen q := by
  intro q hq
  rcases List.mem_or_eq_of_mem_set hq with h | h
  · exact hall q h
  · exact h ▸ hq'

/-- a step that only shrinks the cache and replaces one request -/
theorem inv_cache_req {s : Sys} (hi : Inv s) (c : List Entry) (hc : ∀ e ∈ c, e ∈ s.cache) (r : Nat) (q' : Req)
    (hq' : ReqOK s.loads s.gen q') : Inv { s with cache := c, reqs := s.reqs.set r q' } :=
  ⟨hi.epochs, fun e he => hi.cache e (hc e he), hi.flights, reqs_set hi.reqs hq', hi.nodup⟩

theorem step_get_inv {s s' : Sys} {r : Nat} (hi : Inv s) (h : step s (.get r) = some s') : Inv s' := by
  simp only [step] at h
  split at h
  · rename_i q hq
    have hqm : q ∈ s.reqs := List.mem_of_getElem? hq
    split at h
    · split at h
      · rename_i v c hg
        cases h
        obtain ⟨hc, e, hem, hek, her, _⟩ := getLocked_hit hg
        refine inv_cache_req hi c (by rw [hc]; exact fun _ h => h) r _ ⟨?_, ?_, ?_⟩
        · intro g hg'; simp at hg'
        · intro v' hv'
          simp only [RPc.answered.injEq] at hv'
          subst hv'
          have := (hi.cache e hem).1
          rw [hek, her] at this
          exact this
        · intro hm; cases hm
      · rename_i c hg
        cases h
        have hsub := getLocked_sub s q.key
        rw [hg] at hsub
        refine inv_cache_req hi c hsub r _ ⟨?_, ?_, ?_⟩
        · intro g hg'; simp at hg'
        · intro v hv; cases hv
        · intro _; exact Nat.le_refl _
    · cases h
  · cases h

theorem step_check_inv {s s' : Sys} {r : Nat} (hi : Inv s) (h : step s (.check r) = some s') : Inv s' := by
  simp only [step] at h
  split at h
  · rename_i q hq
    have hqm : q ∈ s.reqs := List.mem_of_getElem? hq
    have hsg : (if q.pc = .idle then s.gen else q.startGen) ≤ s.gen := by
      split
      · exact Nat.le_refl _
      · rename_i hne
        have hok := hi.reqs q hqm
        cases hpc : q.pc with
        | idle => exact absurd hpc hne
        | missed => exact hok.mis hpc
        | checked g => have := hok.chk g (Or.inl hpc); omega
        | waiting g => have := hok.chk g (Or.inr hpc); omega
        | answered v =>
          obtain ⟨info, h1, _, h3⟩ := hok.ans v hpc
          exact Nat.le_trans h3 (hi.epochs _ _ h1)
    split at h
    · split at h
      · rename_i v c hg
        cases h
        obtain ⟨hc, e, hem, hek, her, _⟩ := getLocked_hit hg
        refine inv_cache_req hi c (by rw [hc]; exact fun _ h => h) r _ ⟨?_, ?_, ?_⟩
        · intro g hg'; simp at hg'
        · intro v' hv'
          simp only [RPc.answered.injEq] at hv'
          subst hv'
          have := (hi.cache e hem).1
          rw [hek, her] at this
          exact this.mono hsg
        · intro hm; cases hm
      · rename_i c hg
        cases h
        have hsub := getLocked_sub s q.key
        rw [hg] at hsub
        refine inv_cache_req hi c hsub r _ ⟨?_, ?_, ?_⟩
        · intro g hg'
          simp only [RPc.checked.injEq, reduceCtorEq, or_false] at hg'
          subst hg'
          exact ⟨hsg, Nat.le_refl _⟩
        · intro v hv; cases hv
        · intro hm; cases hm
    · cases h
  · cases h

theorem step_join_inv {s s' : Sys} {r : Nat} (hi : Inv s) (h : step s (.join r) = some s') : Inv s' := by
  simp only [step] at h
  split at h
  · rename_i q hq
    have hqm : q ∈ s.reqs := List.mem_of_getElem? hq
    have hok := hi.reqs q hqm
    split at h
    · rename_i g hpc
      have hg := hok.chk g (Or.inl hpc)
      have hq' : ReqOK s.loads s.gen { q with pc := .waiting g } := by
        refine ⟨?_, ?_, ?_⟩
        · intro g' hg'
          simp only [reduceCtorEq, RPc.waiting.injEq, false_or] at hg'
          subst hg'; exact hg
        · intro v hv; cases hv
        · intro hm; cases hm
      split at h
      · cases h
        exact ⟨hi.epochs, hi.cache, hi.flights, reqs_set hi.reqs hq', hi.nodup⟩
      · rename_i hany
        cases h
        refine ⟨hi.epochs, hi.cache, ?_, reqs_set hi.reqs hq', ?_⟩
        · intro f hf
          rcases List.mem_append.1 hf with h1 | h1
          · exact hi.flights f h1
          · simp only [List.mem_singleton] at h1
            subst h1
            exact ⟨hg.2, fun l hl => (by cases hl), fun v hv => (by cases hv)⟩
        · rw [List.pairwise_append]
          refine ⟨hi.nodup, by simp, ?_⟩
          intro a ha b hb
          simp only [List.mem_singleton] at hb
          subst hb
          intro ⟨h1, h2⟩
          apply hany
          simp only [List.any_eq_true, decide_eq_true_eq]
          exact ⟨a, ha, by simpa using h1, by simpa using h2⟩
    · cases h
  · cases h

theorem startLoader_inv {s : Sys} (hi : Inv s) {f : Flight} (hf : f ∈ s.flights) (c : List Entry)
    (hc : ∀ e ∈ c, e ∈ s.cache) : Inv (startLoader s f c) := by
  have hfo := hi.flights f hf
  refine ⟨?_, ?_, ?_, ?_, ?_⟩
  · intro i info h
    simp only [startLoader] at h ⊢
    rcases Nat.lt_or_ge i s.loads.length with hlt | hge
    · rw [List.getElem?_append_left hlt] at h; exact hi.epochs i info h
    · rw [List.getElem?_append_right hge] at h
      by_cases h0 : i - s.loads.length = 0
      · rw [h0] at h; simp at h; subst h; exact Nat.le_refl _
      · have : 1 ≤ i - s.loads.length := Nat.pos_of_ne_zero h0
        rw [List.getElem?_eq_none (by simpa using this)] at h; cases h
  · intro e he
    have := hi.cache e (hc e he)
    exact ⟨this.1.append _, this.2⟩
  · intro x hx
    simp only [startLoader] at hx ⊢
    rcases mem_setFlight hx with h1 | ⟨_, h1⟩
    · exact (hi.flights x h1).mono _ (Nat.le_refl _)
    · subst h1
      refine ⟨hfo.le, ?_, ?_⟩
      · intro lid hl
        simp only [FPc.loading.injEq] at hl
        subst hl
        exact (LoadOK.new s.loads f.key s.gen f.leader).mono hfo.le
      · intro v hv; cases hv
  · intro q hq
    exact (hi.reqs q hq).mono _ (Nat.le_refl _)
  · exact pairwise_setFlight hi.nodup

theorem step_recheck_inv {s s' : Sys} {l : Nat} (hi : Inv s) (h : step s (.recheck l) = some s') : Inv s' := by
  simp only [step] at h
  split at h
  · rename_i f hf
    have hfm := find_leader hf
    have hfo := hi.flights f hfm
    split at h
    · split at h
      · rename_i hgen
        split at h
        · rename_i v c hg
          cases h
          obtain ⟨hc, e, hem, hek, her, _⟩ := getLocked_hit hg
          refine ⟨hi.epochs, by rw [hc]; exact hi.cache, ?_, hi.reqs, pairwise_setFlight hi.nodup⟩
          intro x hx
          rcases mem_setFlight hx with h1 | ⟨_, h1⟩
          · exact hi.flights x h1
          · subst h1
            refine ⟨hfo.le, fun lid hl => (by cases hl), ?_⟩
            intro v' hv'
            simp only [FPc.done.injEq] at hv'
            subst hv'
            have := (hi.cache e hem).1
            rw [hek, her] at this
            exact this.mono (by simp [hgen])
        · rename_i c hg
          cases h
          have hsub := getLocked_sub s f.key
          rw [hg] at hsub
          exact startLoader_inv hi hfm c hsub
      · cases h
        exact startLoader_inv hi hfm s.cache (fun _ h => h)
    · cases h
  · cases h

theorem step_store_inv {s s' : Sys} {l : Nat} {ok : Bool} (hi : Inv s) (h : step s (.store l ok) = some s') : Inv s' := by
  simp only [step] at h
  split at h
  · rename_i f hf
    have hfm := find_leader hf
    have hfo := hi.flights f hfm
    split at h
    · rename_i lid hpc
      cases h
      have hld := hfo.loading lid hpc
      refine ⟨hi.epochs, ?_, ?_, hi.reqs, pairwise_setFlight hi.nodup⟩
      · intro e he
        split at he
        · rename_i hgen
          unfold cacheSet at he
          rcases List.mem_cons.1 he with h1 | h1
          · subst h1
            exact ⟨by simpa [hgen] using hld, Nat.le_refl _⟩
          · exact hi.cache e (List.mem_filter.1 h1).1
        · exact hi.cache e he
      · intro x hx
        rcases mem_setFlight hx with h1 | ⟨_, h1⟩
        · exact hi.flights x h1
        · subst h1
          refine ⟨hfo.le, fun lid hl => (by cases hl), ?_⟩
          intro v' hv'
          simp only [FPc.done.injEq] at hv'
          subst hv'
          exact hld
    · cases h
  · cases h

theorem step_finish_inv {s s' : Sys} {l : Nat} (hi : Inv s) (h : step s (.finish l) = some s') : Inv s' := by
  simp only [step] at h
  split at h
  · rename_i f hf
    have hfm := find_leader hf
    have hfo := hi.flights f hfm
    split at h
    · rename_i v hpc
      cases h
      have hld := hfo.done v hpc
      refine ⟨hi.epochs, hi.cache, ?_, ?_, hi.nodup.filter _⟩
      · intro x hx; exact hi.flights x (List.mem_filter.1 hx).1
      · intro q hq
        obtain ⟨q0, hq0, rfl⟩ := List.mem_map.1 hq
        have hok := hi.reqs q0 hq0
        split
        · rename_i hw
          refine ⟨?_, ?_, ?_⟩
          · intro g hg; simp at hg
          · intro v' hv'
            simp only [RPc.answered.injEq] at hv'
            subst hv'
            have := hok.chk f.gen (Or.inr hw.1)
            simp only
            rw [hw.2]
            exact hld.mono this.1
          · intro hm; cases hm
        · exact hok
    · cases h
  · cases h

theorem step_reset_inv {s s' : Sys} (hi : Inv s) (h : step s .reset = some s') : Inv s' := by
  simp only [step] at h
  cases h
  refine ⟨fun i info h => Nat.le_succ_of_le (hi.epochs i info h), ?_, ?_, ?_, hi.nodup⟩
  · intro e he; cases he
  · intro f hf
    have := (hi.flights f hf).mono [] (Nat.le_succ s.gen)
    simpa using this
  · intro q hq
    have := (hi.reqs q hq).mono [] (Nat.le_succ s.gen)
    simpa using this

theorem step_tick_inv {s s' : Sys} {dw di : Nat} (hi : Inv s) (h : step s (.tick dw di) = some s') : Inv s' := by
  simp only [step] at h
  cases h
  exact ⟨hi.epochs, fun e he => ⟨(hi.cache e he).1, Nat.le_trans (hi.cache e he).2 (Nat.le_add_right _ _)⟩,
    hi.flights, hi.reqs, hi.nodup⟩

theorem step_inv {s s' : Sys} {l : Label} (hi : Inv s) (h : step s l = some s') : Inv s' := by
  cases l with
  | get r => exact step_get_inv hi h
  | check r => exact step_check_inv hi h
  | join r => exact step_join_inv hi h
  | recheck l => exact step_recheck_inv hi h
  | store l ok => exact step_store_inv hi h
  | finish l => exact step_finish_inv hi h
  | reset => exact step_reset_inv hi h
  | tick dw di => exact step_tick_inv hi h

theorem exec_inv {s s' : Sys} {run : List Label} (hi : Inv s) (h : exec s run = some s') : Inv s' := by
  induction run generalizing s with
  | nil => simp only [exec, Option.some.injEq] at h; exact h ▸ hi
  | cons l ls ih =>
    simp only [exec] at h
    cases hs : step s l with
    | none => rw [hs] at h; cases h
    | some s1 => rw [hs] at h; exact ih (step_inv hi hs) h

theorem exec_append {s : Sys} {a b : List Label} : exec s (a ++ b) = (exec s a).bind (fun s' => exec s' b) := by
  induction a generalizing s with
  | nil => simp [exec]
  | cons l ls ih =>
    simp only [List.cons_append, exec]
    cases step s l with
    | none => rfl
    | some s1 => simpa using ih

/-! ### how a step changes the request list, the generation and the load log -/

/-- shape of the change a step makes to the requests -/
inductive ReqChange (s s' : Sys) : Prop where
  | same (h : s'.reqs = s.reqs)
  | one (r : Nat) (q q' : Req) (hq : s.reqs[r]? = some q) (hs : s'.reqs = s.reqs.set r q')
      (hkey : q'.key = q.key) (hpc : q'.pc ≠ .idle)
      (hstart : q'.startGen = if q.pc = .idle then s.gen else q.startGen)
  | deliver (g : Nat) (k : Key) (v : Res)
      (hs : s'.reqs = s.reqs.map (fun q => if q.pc = .waiting g ∧ q.key = k then { q with pc := .answered v } else q))

theorem step_shape {s s' : Sys} {l : Label} (h : step s l = some s') :
    ReqChange s s' ∧ s.gen ≤ s'.gen ∧ (∃ ext, s'.loads = s.loads ++ ext) ∧ (l ≠ .reset → s'.gen = s.gen) := by
  cases l with
  | get r =>
    simp only [step] at h
    split at h
    · rename_i q hq
      split at h
      · rename_i hc
        split at h <;> cases h <;>
          exact ⟨.one r q _ hq rfl rfl (by simp) (by simp [hc.1]), Nat.le_refl _, ⟨[], by simp⟩, fun _ => rfl⟩
      · cases h
    · cases h
  | check r =>
    simp only [step] at h
    split at h
    · rename_i q hq
      split at h
      · split at h <;> cases h <;>
          exact ⟨.one r q _ hq rfl rfl (by simp) rfl, Nat.le_refl _, ⟨[], by simp⟩, fun _ => rfl⟩
      · cases h
    · cases h
  | join r =>
    simp only [step] at h
    split at h
    · rename_i q hq
      split at h
      · rename_i g hpc
        split at h <;> cases h <;>
          exact ⟨.one r q _ hq rfl rfl (by simp) (by simp [hpc]), Nat.le_refl _, ⟨[], by simp⟩, fun _ => rfl⟩
      · cases h
    · cases h
  | recheck l =>
    simp only [step] at h
    split at h
    · split at h
      · split at h
        · split at h <;> cases h
          · exact ⟨.same rfl, Nat.le_refl _, ⟨[], by simp⟩, fun _ => rfl⟩
          · exact ⟨.same rfl, Nat.le_refl _, ⟨_, rfl⟩, fun _ => rfl⟩
        · cases h
          exact ⟨.same rfl, Nat.le_refl _, ⟨_, rfl⟩, fun _ => rfl⟩
      · cases h
    · cases h
  | store l ok =>
    simp only [step] at h
    split at h
    · split at h
      · cases h; exact ⟨.same rfl, Nat.le_refl _, ⟨[], by simp⟩, fun _ => rfl⟩
      · cases h
    · cases h
  | finish l =>
    simp only [step] at h
    split at h
    · rename_i f _
      split at h
      · rename_i v _
        cases h; exact ⟨.deliver f.gen f.key v rfl, Nat.le_refl _, ⟨[], by simp⟩, fun _ => rfl⟩
      · cases h
    · cases h
  | reset =>
    simp only [step] at h
    cases h; exact ⟨.same rfl, Nat.le_succ _, ⟨[], by simp⟩, fun h => absurd rfl h⟩
  | tick dw di =>
    simp only [step] at h
    cases h; exact ⟨.same rfl, Nat.le_refl _, ⟨[], by simp⟩, fun _ => rfl⟩

theorem exec_mono {s s' : Sys} {run : List Label} (h : exec s run = some s') :
    s.gen ≤ s'.gen ∧ ∃ ext, s'.loads = s.loads ++ ext := by
  induction run generalizing s with
  | nil => simp only [exec, Option.some.injEq] at h; subst h; exact ⟨Nat.le_refl _, [], by simp⟩
  | cons l ls ih =>
    simp only [exec] at h
    cases hs : step s l with
    | none => rw [hs] at h; cases h
    | some s1 =>
      rw [hs] at h
      obtain ⟨_, h1, ⟨e1, he1⟩, _⟩ := step_shape hs
      obtain ⟨h2, e2, he2⟩ := ih h
      exact ⟨Nat.le_trans h1 h2, e1 ++ e2, by rw [he2, he1, List.append_assoc]⟩

/-- request `r` either has not started or started at a cache generation ≥ `G` -/
def Late (G r : Nat) (s : Sys) : Prop :=
  G ≤ s.gen ∧ ∀ q, s.reqs[r]? = some q → q.pc = .idle ∨ G ≤ q.startGen

theorem step_late {G r : Nat} {s s' : Sys} {l : Label} (hl : Late G r s) (h : step s l = some s') : Late G r s' := by
  obtain ⟨hc, hg, _, _⟩ := step_shape h
  refine ⟨Nat.le_trans hl.1 hg, ?_⟩
  intro q' hq'
  cases hc with
  | same hs => rw [hs] at hq'; exact hl.2 q' hq'
  | one r0 q0 q1 hq0 hs hkey hpc hstart =>
    rw [hs, List.getElem?_set] at hq'
    by_cases hr : r0 = r
    · rw [if_pos hr] at hq'
      split at hq'
      · cases hq'
        right
        rw [hstart]
        split
        · exact hl.1
        · rename_i hne
          subst hr
          rcases hl.2 q0 hq0 with h1 | h1
          · exact absurd h1 hne
          · exact h1
      · cases hq'
    · rw [if_neg hr] at hq'; exact hl.2 q' hq'
  | deliver g k v hs =>
    rw [hs, List.getElem?_map] at hq'
    cases hq0 : s.reqs[r]? with
    | none => rw [hq0] at hq'; cases hq'
    | some q0 =>
      rw [hq0] at hq'
      simp only [Option.map_some, Option.some.injEq] at hq'
      subst hq'
      split
      · rename_i hw
        rcases hl.2 q0 hq0 with h1 | h1
        · rw [h1] at hw; cases hw.1
        · right; exact h1
      · exact hl.2 q0 hq0

theorem exec_late {G r : Nat} {s s' : Sys} {run : List Label} (hl : Late G r s) (h : exec s run = some s') :
    Late G r s' := by
  induction run generalizing s with
  | nil => simp only [exec, Option.some.injEq] at h; exact h ▸ hl
  | cons l ls ih =>
    simp only [exec] at h
    cases hs : step s l with
    | none => rw [hs] at h; cases h
    | some s1 => rw [hs] at h; exact ih (step_late hl hs) h

/-- a request's key never changes -/
theorem step_key {s s' : Sys} {l : Label} (h : step s l = some s') (r : Nat) :
    (s'.reqs[r]?).map (·.key) = (s.reqs[r]?).map (·.key) := by
  obtain ⟨hc, _⟩ := step_shape h
  cases hc with
  | same hs => rw [hs]
  | one r0 q0 q1 hq0 hs hkey hpc hstart =>
    rw [hs, List.getElem?_set]
    by_cases hr : r0 = r
    · subst hr
      have hlt : r0 < s.reqs.length := by
        rcases Nat.lt_or_ge r0 s.reqs.length with h | h
        · exact h
        · rw [List.getElem?_eq_none h] at hq0; cases hq0
      rw [if_pos rfl, if_pos hlt, hq0]; simp [hkey]
    · rw [if_neg hr]
  | deliver g k v hs =>
    rw [hs, List.getElem?_map]
    cases s.reqs[r]? with
    | none => rfl
    | some q0 =>
      simp only [Option.map_some, Option.some.injEq]
      split <;> rfl

theorem exec_key {s s' : Sys} {run : List Label} (h : exec s run = some s') (r : Nat) :
    (s'.reqs[r]?).map (·.key) = (s.reqs[r]?).map (·.key) := by
  induction run generalizing s with
  | nil => simp only [exec, Option.some.injEq] at h; rw [h]
  | cons l ls ih =>
    simp only [exec] at h
    cases hs : step s l with
    | none => rw [hs] at h; cases h
    | some s1 => rw [hs] at h; rw [ih h, step_key hs]

/-- no two flights of a list without (gen,key)-duplicates share (gen,key) unless they are the same flight -/
theorem flights_unique {fl : List Flight} (h : fl.Pairwise (fun a b => ¬ (a.gen = b.gen ∧ a.key = b.key)))
    {f1 f2 : Flight} (h1 : f1 ∈ fl) (h2 : f2 ∈ fl) (hg : f1.gen = f2.gen) (hk : f1.key = f2.key) : f1 = f2 := by
  induction fl with
  | nil => cases h1
  | cons a t ih =>
    rw [List.pairwise_cons] at h
    rcases List.mem_cons.1 h1 with e1 | m1 <;> rcases List.mem_cons.1 h2 with e2 | m2
    · rw [e1, e2]
    · subst e1; exact absurd ⟨hg, hk⟩ (h.1 f2 m2)
    · subst e2; exact absurd ⟨hg.symm, hk.symm⟩ (h.1 f1 m1)
    · exact ih h.2 m1 m2

/-! ### tryBackends -/

theorem tryBackends_none {α β : Type} (f : α → Option β) (l : List α) :
    (tryBackends f l).1 = none ↔ ∀ a ∈ l, f a = none := by
  induction l with
  | nil => simp [tryBackends]
  | cons a t ih =>
    simp only [tryBackends]
    cases ha : f a with
    | some b => simp [ha]
    | none => simp [ha, ih]

theorem tryBackends_some {α β : Type} (f : α → Option β) (l : List α) (a : α) (b : β) :
    (tryBackends f l).1 = some (a, b) ↔
      ∃ pre post, l = pre ++ a :: post ∧ (∀ x ∈ pre, f x = none) ∧ f a = some b := by
  induction l with
  | nil => simp [tryBackends]
  | cons x t ih =>
    simp only [tryBackends]
    cases hx : f x with
    | some y =>
      simp only [Option.some.injEq, Prod.mk.injEq]
      constructor
      · rintro ⟨rfl, rfl⟩; exact ⟨[], t, rfl, by simp, hx⟩
      · rintro ⟨pre, post, hl, hpre, hfa⟩
        cases pre with
        | nil => simp only [List.nil_append, List.cons.injEq] at hl; obtain ⟨rfl, _⟩ := hl; rw [hx] at hfa; cases hfa; exact ⟨rfl, rfl⟩
        | cons p ps =>
          simp only [List.cons_append, List.cons.injEq] at hl
          obtain ⟨rfl, _⟩ := hl
          have := hpre x (by simp); rw [hx] at this; cases this
    | none =>
      simp only
      rw [ih]
      constructor
      · rintro ⟨pre, post, rfl, hpre, hfa⟩
        exact ⟨x :: pre, post, rfl, by intro y hy; rcases List.mem_cons.1 hy with rfl | h; exact hx; exact hpre y h, hfa⟩
      · rintro ⟨pre, post, hl, hpre, hfa⟩
        cases pre with
        | nil => simp only [List.nil_append, List.cons.injEq] at hl; obtain ⟨rfl, _⟩ := hl; rw [hx] at hfa; cases hfa
        | cons p ps =>
          simp only [List.cons_append, List.cons.injEq] at hl
          obtain ⟨rfl, rfl⟩ := hl
          exact ⟨ps, post, rfl, fun y hy => hpre y (by simp [hy]), hfa⟩

theorem tryBackends_attempts {α β : Type} (f : α → Option β) (pre post : List α) (a : α) (b : β)
    (hpre : ∀ x ∈ pre, f x = none) (hfa : f a = some b) : (tryBackends f (pre ++ a :: post)).2 = pre.length + 1 := by
  induction pre with
  | nil => simp [tryBackends, hfa]
  | cons p ps ih =>
    simp only [List.cons_append, tryBackends, hpre p (by simp)]
    rw [ih (fun x hx => hpre x (by simp [hx]))]
    simp

theorem tryBackends_attempts_all {α β : Type} (f : α → Option β) (l : List α) (h : ∀ x ∈ l, f x = none) :
    (tryBackends f l).2 = l.length := by
  induction l with
  | nil => simp [tryBackends]
  | cons p ps ih =>
    simp only [tryBackends, h p (by simp)]
    rw [ih (fun x hx => h x (by simp [hx]))]
    simp

/-! ### classified attempts: the walk ignores the class of a failure -/

theorem tryBackendsE_neverStop {α β : Type} (f : α → Attempt β) (l : List α) :
    tryBackendsE neverStop f l = tryBackends (fun a => (f a).toOption) l := by
  induction l with
  | nil => rfl
  | cons a t ih =>
    simp only [tryBackendsE, tryBackends]
    cases f a with
    | ok b => simp [Attempt.toOption]
    | fail c => simp [Attempt.toOption, neverStop, ih]

end Gate.C32
