import GateModel.Base.Bytes
import GateModel.Gen.C32
/-
C32 — model of the Lite ping status cache (`pkg/edition/java/lite/forward.go`): `pingStatusCache`
(`get`, `getLocked`, `load`, `reset`), the flight group it is built with (x/sync/singleflight `DoChan`),
the ttlcache it stores into, and `tryBackends` + `handleFallbackResponse`.

Go:

    get(key):   c.mu.Lock(); r := getLocked(key); c.mu.Unlock(); return r                       -- Label.get
    getLocked:  item := c.cache.Get(key)             -- ttlcache: nil when absent or expired by ITS clock (time.Now)
                if item == nil → nil
                if !expiresAt.IsZero() && !c.now().Before(expiresAt) { c.cache.Delete(key); nil }  -- injected clock
                return item.Value()
    load(key, ttl, loader):
        c.mu.Lock(); generation := c.generation; hit := getLocked(key); c.mu.Unlock(); hit? return -- Label.check
        flightKey := Sprintf("%d:%d:%s:%d", generation, key.routeGeneration, key.backendAddr, key.protocol)
        result := <-c.group.DoChan(flightKey, fn)                                                  -- Label.join
        fn:  c.mu.Lock(); if generation == c.generation { hit := getLocked(key); hit? return hit }; c.mu.Unlock()
             loaded := loader()                                                                    -- Label.recheck (up to the call)
             c.mu.Lock(); if generation == c.generation { c.cache.Set(key, loaded, ttl) }; c.mu.Unlock()
             return loaded                                                                         -- Label.store (from the return of loader)
    singleflight.DoChan(k, fn): a call for k in the map → append the caller's channel (join);
             else new call, `go doCall`: run fn, then under g.mu delete k and send the result to every channel -- Label.finish
    reset():    c.mu.Lock(); c.generation++; c.cache.DeleteAll(); c.mu.Unlock()                    -- Label.reset
    ttlcache:   Set stamps expiresAt = time.Now()+ttl when ttl > 0, no expiry otherwise (0 = default = none, -1 = NoTTL);
                Get hides an item with expiresAt < time.Now().

Every label is one critical section of `c.mu` (or of singleflight's `g.mu`).  The loader's return is a local
step of the flight's goroutine (it touches no shared state), so it is merged with the critical section that
follows it (`store`): the time between `recheck` (loader call) and `store` is the loader's latency, its
success/failure is the label's input.  A system is a list of requests (threads); a schedule is ANY list of
labels whose steps are enabled: resets, clock ticks and loader completions are inputs of the schedule.

Two clocks, as in the code: `wall` (ttlcache's `time.Now`: stamps and hides) and `inj` (the injected `now`:
deletes).  In production both are `time.Now`.

Ghost state (never read by the code paths): `loads` (one record per loader invocation: for which key, the
cache generation at the moment it was called), `startGen` of a request (cache generation at its first
critical section), `storedAt` of an entry.
-/
namespace Gate.C32
open Gate

structure Key where
  backend : Bytes      -- bytes of the backend address string
  protocol : Int
  routeGen : Nat
  deriving DecidableEq, Repr

/-- a status result: which loader invocation produced it, and whether it is a status or an error
    (both are cached by the code) -/
structure Res where
  lid : Nat
  ok : Bool
  deriving DecidableEq, Repr

structure Entry where
  key : Key
  res : Res
  ttl : Int
  storedAt : Nat       -- ttlcache's clock at Set
  deriving DecidableEq, Repr

/-- `item.expiresAt`: zero time (none) unless ttl > 0 -/
def Entry.expiresAt (e : Entry) : Option Nat :=
  if e.ttl > 0 then some (e.storedAt + e.ttl.toNat) else none

inductive RPc where
  | idle                 -- not started
  | missed               -- fast-path `get` returned nil
  | checked (g : Nat)    -- first critical section of `load` missed; captured generation g
  | waiting (g : Nat)    -- blocked on the channel returned by DoChan for flight (g, key)
  | answered (r : Res)
  deriving DecidableEq, Repr

/-- a status request for `key` through a route with ping TTL `ttl`; `fast`: resolveStatusResponse's
    `pingCache.get` before `pingCache.load` -/
structure Req where
  key : Key
  ttl : Int
  fast : Bool
  pc : RPc := .idle
  startGen : Nat := 0    -- ghost
  deriving DecidableEq, Repr

inductive FPc where
  | created              -- registered in the flight group, fn not yet run
  | loading (lid : Nat)  -- fn called the loader (invocation lid)
  | done (r : Res)       -- fn returned r; result not yet delivered
  deriving DecidableEq, Repr

/-- a singleflight call; `gen`, `key`, `ttl` are the LEADER's captured values (fn is the leader's closure) -/
structure Flight where
  leader : Nat
  gen : Nat
  key : Key
  ttl : Int
  pc : FPc
  deriving DecidableEq, Repr

structure LoadInfo where
  key : Key
  epoch : Nat    -- cache generation when the loader was called
  leader : Nat
  deriving DecidableEq, Repr

structure Sys where
  reqs : List Req
  gen : Nat := 0
  wall : Nat := 0
  inj : Nat := 0
  cache : List Entry := []
  flights : List Flight := []
  loads : List LoadInfo := []
  deriving Repr

inductive Label where
  | get (r : Nat)
  | check (r : Nat)
  | join (r : Nat)
  | recheck (leader : Nat)
  | store (leader : Nat) (ok : Bool)
  | finish (leader : Nat)
  | reset
  | tick (dWall dInj : Nat)
  deriving DecidableEq, Repr

def lookup (c : List Entry) (k : Key) : Option Entry := c.find? (fun e => e.key = k)

/-- is the entry served at clocks (wall, inj)? -/
def Entry.live (e : Entry) (wall inj : Nat) : Bool :=
  match e.expiresAt with
  | none => true
  | some x => !(x < wall) && !(x ≤ inj)

/-- `getLocked`: result and the cache afterwards -/
def getLocked (s : Sys) (k : Key) : Option Res × List Entry :=
  match lookup s.cache k with
  | none => (none, s.cache)
  | some e =>
    match e.expiresAt with
    | none => (some e.res, s.cache)
    | some x =>
      if x < s.wall then (none, s.cache)                                   -- hidden by ttlcache.Get
      else if x ≤ s.inj then (none, s.cache.filter (fun e => e.key ≠ k))   -- deleted by getLocked
      else (some e.res, s.cache)

/-- `c.cache.Set(key, v, ttl)` -/
def cacheSet (c : List Entry) (k : Key) (v : Res) (ttl : Int) (wall : Nat) : List Entry :=
  ⟨k, v, ttl, wall⟩ :: c.filter (fun e => e.key ≠ k)

def setFlight (fl : List Flight) (f : Flight) (pc : FPc) : List Flight :=
  fl.map (fun x => if x = f then { f with pc := pc } else x)

def startLoader (s : Sys) (f : Flight) (c : List Entry) : Sys :=
  { s with cache := c, flights := setFlight s.flights f (.loading s.loads.length),
           loads := s.loads ++ [⟨f.key, s.gen, f.leader⟩] }

def step (s : Sys) : Label → Option Sys
  | .get r =>
    match s.reqs[r]? with
    | some q =>
      if q.pc = .idle ∧ q.fast = true then
        match getLocked s q.key with
        | (some v, c) => some { s with cache := c, reqs := s.reqs.set r { q with pc := .answered v, startGen := s.gen } }
        | (none, c) => some { s with cache := c, reqs := s.reqs.set r { q with pc := .missed, startGen := s.gen } }
      else none
    | none => none
  | .check r =>
    match s.reqs[r]? with
    | some q =>
      if (q.pc = .idle ∧ q.fast = false) ∨ q.pc = .missed then
        let sg := if q.pc = .idle then s.gen else q.startGen
        match getLocked s q.key with
        | (some v, c) => some { s with cache := c, reqs := s.reqs.set r { q with pc := .answered v, startGen := sg } }
        | (none, c) => some { s with cache := c, reqs := s.reqs.set r { q with pc := .checked s.gen, startGen := sg } }
      else none
    | none => none
  | .join r =>
    match s.reqs[r]? with
    | some q =>
      match q.pc with
      | .checked g =>
        let reqs' := s.reqs.set r { q with pc := .waiting g }
        if s.flights.any (fun f => f.gen = g ∧ f.key = q.key) then some { s with reqs := reqs' }
        else some { s with reqs := reqs', flights := s.flights ++ [⟨r, g, q.key, q.ttl, .created⟩] }
      | _ => none
    | none => none
  | .recheck l =>
    match s.flights.find? (fun f => f.leader = l) with
    | some f =>
      if f.pc = .created then
        if f.gen = s.gen then
          match getLocked s f.key with
          | (some v, c) => some { s with cache := c, flights := setFlight s.flights f (.done v) }
          | (none, c) => some (startLoader s f c)
        else some (startLoader s f s.cache)
      else none
    | none => none
  | .store l ok =>
    match s.flights.find? (fun f => f.leader = l) with
    | some f =>
      match f.pc with
      | .loading lid =>
        let v : Res := ⟨lid, ok⟩
        some { s with cache := if f.gen = s.gen then cacheSet s.cache f.key v f.ttl s.wall else s.cache,
                      flights := setFlight s.flights f (.done v) }
      | _ => none
    | none => none
  | .finish l =>
    match s.flights.find? (fun f => f.leader = l) with
    | some f =>
      match f.pc with
      | .done v =>
        some { s with flights := s.flights.filter (fun x => x ≠ f),
                      reqs := s.reqs.map (fun q => if q.pc = .waiting f.gen ∧ q.key = f.key then { q with pc := .answered v } else q) }
      | _ => none
    | none => none
  | .reset => some { s with gen := s.gen + 1, cache := [] }
  | .tick dw di => some { s with wall := s.wall + dw, inj := s.inj + di }

def exec (s : Sys) : List Label → Option Sys
  | [] => some s
  | l :: ls => (step s l).bind (fun s' => exec s' ls)

/-- initial system: the requests (all idle), empty cache, generation 0 -/
def mkReq (key : Key) (ttl : Int) (fast : Bool) : Req := { key := key, ttl := ttl, fast := fast }
def init (reqs : List (Key × Int × Bool)) : Sys := { reqs := reqs.map (fun (k, t, f) => mkReq k t f) }

def answer (s : Sys) (r : Nat) : Option Res :=
  match s.reqs[r]? with
  | some q => (match q.pc with | .answered v => some v | _ => none)
  | none => none

/-! ### the flight key string -/

def natDigits (n : Nat) : Bytes := (toString n).toList.map (fun c => UInt8.ofNat c.toNat)
def intDigits (i : Int) : Bytes := (toString i).toList.map (fun c => UInt8.ofNat c.toNat)
/-- `fmt.Sprintf("%d:%d:%s:%d", generation, key.routeGeneration, key.backendAddr, key.protocol)` -/
def flightKey (g : Nat) (k : Key) : Bytes :=
  natDigits g ++ [58] ++ natDigits k.routeGen ++ [58] ++ k.backend ++ [58] ++ intDigits k.protocol

/-! ### tryBackends and the fallback (ResolveStatusResponseWithGeneration) -/

/-- `tryBackends`: candidates in the order `next()` yields them; the first whose attempt succeeds wins.
    Returns the winner and the number of attempts made. -/
def tryBackends {α β : Type} (try_ : α → Option β) : List α → Option (α × β) × Nat
  | [] => (none, 0)
  | a :: rest =>
    match try_ a with
    | some b => (some (a, b), 1)
    | none => let (r, n) := tryBackends try_ rest; (r, n + 1)

inductive Outcome (σ : Type) where
  | backend (s : σ)     -- a backend's status
  | fallback (s : σ)    -- the route's configured fallback status
  | error
  deriving DecidableEq, Repr

/-- `ResolveStatusResponseWithGeneration` after `findRoute`: `fallback` = what `handleFallbackResponse`
    yields when it is consulted (none: no fallback configured, or it could not be rendered) -/
def resolve {α σ : Type} (status : α → Option σ) (cands : List α) (fallback : Option σ) : Outcome σ :=
  match (tryBackends status cands).1 with
  | some (_, s) => .backend s
  | none => match fallback with
    | some f => .fallback f
    | none => .error

/-! ### the class of a failed attempt

`resolveStatusResponse` fails in different ways: the dial is refused, the dial runs into `dialTimeout` (an error that
`errors.Is(…, context.DeadlineExceeded)`), the backend closes or sends garbage, the client's context is cancelled, or a
failure cached earlier is replayed.  `tryBackends` looks at none of this: `if err != nil { …; continue }`. -/

inductive ErrClass where
  | refused      -- connection refused
  | timeout      -- dial / context deadline exceeded
  | eof          -- connection closed or undecodable answer
  | canceled     -- the pinging client's context is done
  | other
  deriving DecidableEq, Repr

inductive Attempt (β : Type) where
  | ok (b : β)
  | fail (c : ErrClass)
  deriving Repr

def Attempt.toOption {β : Type} : Attempt β → Option β
  | .ok b => some b
  | .fail _ => none

/-- `tryBackends` over classified attempts.  `stop` is NOT in the code (it is constantly false there): it describes the
    family of variants that give up walking the candidates after a failure of some class. -/
def tryBackendsE {α β : Type} (stop : ErrClass → Bool) (try_ : α → Attempt β) : List α → Option (α × β) × Nat
  | [] => (none, 0)
  | a :: rest =>
    match try_ a with
    | .ok b => (some (a, b), 1)
    | .fail c => if stop c then (none, 1) else let (r, n) := tryBackendsE stop try_ rest; (r, n + 1)

/-- the code: no failure class ends the walk -/
def neverStop : ErrClass → Bool := fun _ => false

def resolveE {α σ : Type} (stop : ErrClass → Bool) (status : α → Attempt σ) (cands : List α) (fallback : Option σ) :
    Outcome σ :=
  match (tryBackendsE stop status cands).1 with
  | some (_, s) => .backend s
  | none => match fallback with
    | some f => .fallback f
    | none => .error

/-! ### facts over `calls` lists of tools/gofacts -/

/-- is `c.mu` held when the n-th call of the flat list is made (flat scan: Lock sets, Unlock clears) -/
def heldBefore (calls : List String) (n : Nat) : Bool :=
  (calls.take n).foldl (fun h c => if c = "c.mu.Lock" then true else if c = "c.mu.Unlock" ∨ c = "defer:c.mu.Unlock" then
      (if c = "defer:c.mu.Unlock" then h else false) else h) false

/-- every occurrence of `x` in the list happens with `c.mu` held / not held -/
def allHeld (calls : List String) (x : String) (want : Bool) : Bool :=
  (List.range calls.length).all (fun i => calls[i]? != some x || heldBefore calls i == want)

def has (calls : List String) (x : String) : Bool := calls.contains x
def count (calls : List String) (x : String) : Nat := (calls.filter (· == x)).length
def idxOf (calls : List String) (x : String) : Nat := calls.findIdx (· == x)
def before (calls : List String) (a b : String) : Bool :=
  has calls a && has calls b && idxOf calls a < idxOf calls b

end Gate.C32
