import GateModel.C19.Lemmas
/-
C19 — the JSON text gate writes for a property list is read back exactly by the reference reader
(for every list of valid-UTF-8 strings), and contains no NUL.
-/
namespace Gate.C19
open Gate Gate.C19.Spec

/-! ## single reader steps -/

theorem read_quote (f : Nat) (rest : Bytes) : readStrBody (f + 1) (34 :: rest) = some ([], rest) := by
  rw [readStrBody.eq_def]; simp

theorem read_plain (b : UInt8) (h20 : 0x20 ≤ b.toNat) (h34 : b ≠ 34) (h92 : b ≠ 92) (f : Nat)
    (tail s rest : Bytes) (h : readStrBody f tail = some (s, rest)) :
    readStrBody (f + 1) (b :: tail) = some (b :: s, rest) := by
  rw [readStrBody.eq_def]
  have : ¬ (b.toNat < 0x20) := by omega
  simp [h34, h92, h, this]

theorem read_simple (e c : UInt8) (hne : e ≠ 117) (hec : unescape1 e = some c)
    (f : Nat) (tail s rest : Bytes) (h : readStrBody f tail = some (s, rest)) :
    readStrBody (f + 1) (92 :: e :: tail) = some (c :: s, rest) := by
  rw [readStrBody.eq_def]
  simp [hne, hec, h]

theorem read_u (hs : Bytes) (cp : Nat) (tail : Bytes) (u : Bytes)
    (e1 : hex4 (hs ++ tail) = some (cp, tail)) (eu : utf8Encode cp = some u)
    (f : Nat) (s rest : Bytes) (h : readStrBody f tail = some (s, rest)) :
    readStrBody (f + 1) (92 :: 117 :: (hs ++ tail)) = some (u ++ s, rest) := by
  rw [readStrBody.eq_def]
  simp [e1, eu, h]

/-- a block of bytes ≥ 0x80 is copied verbatim -/
theorem read_high (blk : Bytes) (hb : ∀ x ∈ blk, 0x80 ≤ x.toNat) (f : Nat) (tail s rest : Bytes)
    (h : readStrBody f tail = some (s, rest)) :
    readStrBody (f + blk.length) (blk ++ tail) = some (blk ++ s, rest) := by
  induction blk with
  | nil => simpa using h
  | cons x xs ih =>
    have hx : 0x80 ≤ x.toNat := hb x (by simp)
    have h34 : x ≠ 34 := by intro hh; subst hh; simp at hx
    have h92 : x ≠ 92 := by intro hh; subst hh; simp at hx
    have := ih (fun y hy => hb y (by simp [hy]))
    simp only [List.length_cons, List.cons_append]
    rw [show f + (xs.length + 1) = (f + xs.length) + 1 by omega]
    exact read_plain x (by omega) h34 h92 _ _ _ _ this

/-! ## one ASCII byte -/

theorem hex4_esc (b : UInt8) (tail : Bytes) :
    hex4 ([48, 48, hexLower (b.toNat / 16), hexLower (b.toNat % 16)] ++ tail) = some (b.toNat, tail) := by
  have h1 : b.toNat / 16 < 16 := by have := b.toNat_lt; omega
  have h2 : b.toNat % 16 < 16 := by omega
  have h0 : hexVal 48 = some 0 := by decide
  simp only [List.cons_append, List.nil_append, hex4, h0, hexVal_hexLower _ h1, hexVal_hexLower _ h2]
  congr 2
  omega

theorem utf8Encode_ascii (b : UInt8) (hb : b.toNat < 0x80) : utf8Encode b.toNat = some [b] := by
  unfold utf8Encode
  rw [if_pos hb]
  simp

theorem read_esc_ascii (b : UInt8) (hb : b.toNat < 0x80) (f : Nat) (tail s rest : Bytes)
    (h : readStrBody f tail = some (s, rest)) :
    readStrBody (f + 1) (jsonEscAscii b ++ tail) = some (b :: s, rest) := by
  unfold jsonEscAscii
  by_cases c1 : b = 92 ∨ b = 34
  · rw [if_pos c1]
    rcases c1 with rfl | rfl
    · exact read_simple 92 92 (by decide) (by decide) f tail s rest h
    · exact read_simple 34 34 (by decide) (by decide) f tail s rest h
  rw [if_neg c1]
  by_cases c2 : b = 8
  · subst c2; exact read_simple 98 8 (by decide) (by decide) f tail s rest h
  rw [if_neg c2]
  by_cases c3 : b = 12
  · subst c3; exact read_simple 102 12 (by decide) (by decide) f tail s rest h
  rw [if_neg c3]
  by_cases c4 : b = 10
  · subst c4; exact read_simple 110 10 (by decide) (by decide) f tail s rest h
  rw [if_neg c4]
  by_cases c5 : b = 13
  · subst c5; exact read_simple 114 13 (by decide) (by decide) f tail s rest h
  rw [if_neg c5]
  by_cases c6 : b = 9
  · subst c6; exact read_simple 116 9 (by decide) (by decide) f tail s rest h
  rw [if_neg c6]
  by_cases c7 : b.toNat < 0x20 ∨ b = 60 ∨ b = 62 ∨ b = 38
  · rw [if_pos c7]
    have := read_u [48, 48, hexLower (b.toNat / 16), hexLower (b.toNat % 16)] b.toNat tail [b]
      (hex4_esc b tail) (utf8Encode_ascii b hb) f s rest h
    simpa using this
  · rw [if_neg c7]
    simp only [not_or] at c1 c7
    exact read_plain b (by omega) c1.2 c1.1 f tail s rest h

/-! ## U+2028 / U+2029 -/

theorem utf8Lead_shape (x size lo hi : Nat) (h : utf8Lead x = some (size, lo, hi)) :
    0x80 ≤ lo ∧ hi ≤ 0xBF ∧
    ((size = 2 ∧ 0xC2 ≤ x ∧ x ≤ 0xDF) ∨ (size = 3 ∧ 0xE0 ≤ x ∧ x ≤ 0xEF ∧ (x = 0xE0 → 0xA0 ≤ lo)) ∨
     (size = 4 ∧ 0xF0 ≤ x ∧ x ≤ 0xF4 ∧ (x = 0xF0 → 0x90 ≤ lo))) := by
  unfold utf8Lead at h
  repeat' split at h
  all_goals first
    | (simp only [Option.some.injEq, Prod.mk.injEq] at h; omega)
    | (simp at h)

theorem len_two {α} (l : List α) (h : l.length = 2) : ∃ a b, l = [a, b] := by
  match l, h with
  | [a, b], _ => exact ⟨a, b, rfl⟩

theorem len_three {α} (l : List α) (h : l.length = 3) : ∃ a b c, l = [a, b, c] := by
  match l, h with
  | [a, b, c], _ => exact ⟨a, b, c, rfl⟩

theorem u8_eq_of_toNat (a : UInt8) (n : Nat) (h : a.toNat = n) (hn : n < 256) : a = UInt8.ofNat n := by
  apply UInt8.toNat_inj.mp
  rw [h]; simp [Nat.mod_eq_of_lt hn]

/-- U+2028 / U+2029 can only have been decoded from their three-byte encodings -/
theorem decodeRune_2028 (b : UInt8) (r : Bytes) (c size : Nat) (h : decodeRune (b :: r) = some (c, size))
    (hc : c = 0x2028 ∨ c = 0x2029) :
    size = 3 ∧ b :: r.take (size - 1) = [0xE2, 0x80, UInt8.ofNat (0x80 + c % 64)] := by
  unfold decodeRune at h
  simp only at h
  split at h
  · simp at h
  · rename_i sz lo hi hl
    obtain ⟨hlo, hhi, hshape⟩ := utf8Lead_shape _ _ _ _ hl
    split at h
    · rename_i hcond
      obtain ⟨hlen, hok⟩ := hcond
      simp only [Option.some.injEq, Prod.mk.injEq] at h
      obtain ⟨hval, rfl⟩ := h
      rcases hshape with ⟨rfl, h1, h2⟩ | ⟨rfl, h1, h2, h3⟩ | ⟨rfl, h1, h2, h3⟩
      · -- two bytes: too small
        simp only [show (2 : Nat) - 1 = 1 from rfl] at hlen hok hval
        obtain ⟨c1, hcs⟩ := List.length_eq_one_iff.mp hlen
        rw [hcs] at hok hval
        simp only [contOk, Bool.and_eq_true, decide_eq_true_eq, List.all_nil, Bool.and_true] at hok
        simp only [List.foldl_cons, List.foldl_nil, if_true] at hval
        omega
      · simp only [show (3 : Nat) - 1 = 2 from rfl] at hlen hok hval ⊢
        obtain ⟨c1, c2, hcs⟩ := len_two _ hlen
        rw [hcs] at hok hval ⊢
        simp only [contOk, Bool.and_eq_true, decide_eq_true_eq, List.all_cons, List.all_nil, Bool.and_true] at hok
        simp only [List.foldl_cons, List.foldl_nil, show ¬ ((3 : Nat) = 2) by decide, if_false, if_true] at hval
        have hb : b.toNat = 0xE2 := by omega
        have h1' : c1.toNat = 0x80 := by omega
        have h2' : c2.toNat = 0x80 + c % 64 := by omega
        refine ⟨trivial, ?_⟩
        rw [u8_eq_of_toNat b _ hb (by omega), u8_eq_of_toNat c1 _ h1' (by omega),
          u8_eq_of_toNat c2 _ h2' (by omega)]
        rfl
      · simp only [show (4 : Nat) - 1 = 3 from rfl] at hlen hok hval
        obtain ⟨c1, c2, c3, hcs⟩ := len_three _ hlen
        rw [hcs] at hok hval
        simp only [contOk, Bool.and_eq_true, decide_eq_true_eq, List.all_cons, List.all_nil, Bool.and_true] at hok
        simp only [List.foldl_cons, List.foldl_nil, show ¬ ((4 : Nat) = 2) by decide,
          show ¬ ((4 : Nat) = 3) by decide, if_false] at hval
        omega
    · simp at h

theorem hex4_202x (c : Nat) (hc : c = 0x2028 ∨ c = 0x2029) (tail : Bytes) :
    hex4 ([50, 48, 50, hexLower (c % 16)] ++ tail) = some (c, tail) := by
  rcases hc with rfl | rfl <;> rfl

theorem utf8Encode_202x (c : Nat) (hc : c = 0x2028 ∨ c = 0x2029) :
    utf8Encode c = some [0xE2, 0x80, UInt8.ofNat (0x80 + c % 64)] := by
  rcases hc with rfl | rfl <;> rfl

/-! ## a whole string -/

theorem jsonEscAscii_length_pos (b : UInt8) : 1 ≤ (jsonEscAscii b).length := by
  unfold jsonEscAscii
  repeat' split
  all_goals simp

theorem jsonStr_read (n : Nat) : ∀ (s : Bytes), s.length ≤ n → validUtf8 n s = true →
    ∀ (f : Nat) (rest : Bytes), (jsonStrBody n s).length + 1 ≤ f →
      readStrBody f (jsonStrBody n s ++ 34 :: rest) = some (s, rest) := by
  induction n with
  | zero =>
    intro s hs _ f rest hf
    have : s = [] := List.eq_nil_of_length_eq_zero (by omega)
    subst this
    obtain ⟨f', rfl⟩ : ∃ f', f = f' + 1 := ⟨f - 1, by omega⟩
    simpa [jsonStrBody] using read_quote f' rest
  | succ n ih =>
    intro s hs hv f rest hf
    cases s with
    | nil =>
      obtain ⟨f', rfl⟩ : ∃ f', f = f' + 1 := ⟨f - 1, by omega⟩
      simpa [jsonStrBody] using read_quote f' rest
    | cons b r =>
      have hr : r.length ≤ n := by simp only [List.length_cons] at hs; omega
      by_cases hb : b.toNat < 0x80
      · have hj : jsonStrBody (n + 1) (b :: r) = jsonEscAscii b ++ jsonStrBody n r := by
          simp [jsonStrBody, hb]
        have hv' : validUtf8 n r = true := by simpa [validUtf8, hb] using hv
        rw [hj] at hf ⊢
        have hpos := jsonEscAscii_length_pos b
        obtain ⟨f', rfl⟩ : ∃ f', f = f' + 1 := ⟨f - 1, by omega⟩
        have hrec := ih r hr hv' f' rest (by simp only [List.length_append] at hf; omega)
        rw [List.append_assoc]
        exact read_esc_ascii b hb f' _ r rest hrec
      · cases hd : decodeRune (b :: r) with
        | none => simp [validUtf8, hb, hd] at hv
        | some p =>
          obtain ⟨c, size⟩ := p
          obtain ⟨hb80, hs2, hs4, hlen, hhigh⟩ := decodeRune_high b r c size hd
          have hv' : validUtf8 n (r.drop (size - 1)) = true := by simpa [validUtf8, hb, hd] using hv
          have hr' : (r.drop (size - 1)).length ≤ n := by simp only [List.length_drop]; omega
          have hsplit : r.take (size - 1) ++ r.drop (size - 1) = r := List.take_append_drop _ _
          by_cases h28 : c = 0x2028 ∨ c = 0x2029
          · have hj : jsonStrBody (n + 1) (b :: r) =
                [92, 117, 50, 48, 50, hexLower (c % 16)] ++ jsonStrBody n (r.drop (size - 1)) := by
              simp [jsonStrBody, hb, hd, h28]
            rw [hj] at hf ⊢
            obtain ⟨f', rfl⟩ : ∃ f', f = f' + 1 := ⟨f - 1, by omega⟩
            have hrec := ih _ hr' hv' f' rest (by
              simp only [List.length_append, List.length_cons, List.length_nil] at hf; omega)
            have := read_u [50, 48, 50, hexLower (c % 16)] c _ _
              (hex4_202x c h28 _) (utf8Encode_202x c h28) f' _ rest hrec
            obtain ⟨_, hbytes⟩ := decodeRune_2028 b r c size hd h28
            rw [← hbytes] at this
            simp only [List.cons_append, List.nil_append, List.append_assoc] at this ⊢
            rw [hsplit] at this
            exact this
          · have htake : (b :: r).take size = b :: r.take (size - 1) := by
              obtain ⟨k, rfl⟩ : ∃ k, size = k + 1 := ⟨size - 1, by omega⟩
              simp
            have hj : jsonStrBody (n + 1) (b :: r) =
                (b :: r.take (size - 1)) ++ jsonStrBody n (r.drop (size - 1)) := by
              simp only [jsonStrBody, hb, if_false, hd, h28, htake]
            rw [hj] at hf ⊢
            have hblk : ∀ x ∈ b :: r.take (size - 1), 0x80 ≤ x.toNat := by
              intro x hx
              simp only [List.mem_cons] at hx
              rcases hx with rfl | hx
              · exact hb80
              · exact hhigh x hx
            have hbl : (b :: r.take (size - 1)).length = size := by
              simp only [List.length_cons, hlen]; omega
            obtain ⟨f0, rfl⟩ : ∃ f0, f = f0 + (b :: r.take (size - 1)).length := ⟨f - size, by
              simp only [List.length_append] at hf; rw [hbl]; rw [hbl] at hf; omega⟩
            have hrec := ih _ hr' hv' f0 rest (by
              simp only [List.length_append] at hf; omega)
            have := read_high _ hblk f0 _ _ rest hrec
            rw [List.append_assoc]
            rw [this]
            simp only [List.cons_append, hsplit]

/-! ## strings, members, objects, arrays -/

def validStr (s : Bytes) : Prop := validUtf8 s.length s = true

theorem skipWs_nonws (b : UInt8) (r : Bytes) (h : isWs b = false) : skipWs (b :: r) = b :: r := by
  simp [skipWs, List.dropWhile, h]

theorem readString_json (s rest : Bytes) (hv : validStr s) :
    readString (jsonString s ++ rest) = some (s, rest) := by
  unfold readString jsonString
  simp only [List.cons_append, List.nil_append, List.append_assoc]
  rw [skipWs_nonws 34 _ (by decide)]
  simp only
  exact jsonStr_read s.length s (Nat.le_refl _) hv _ rest (by simp only [List.length_append, List.length_cons]; omega)

theorem readMembers_last (f : Nat) (k v rest : Bytes) (hk : validStr k) (hv : validStr v) :
    readMembers (f + 1) (jsonString k ++ 58 :: (jsonString v ++ 125 :: rest)) = some ([(k, v)], rest) := by
  rw [readMembers, readString_json k _ hk]
  simp only
  rw [skipWs_nonws 58 _ (by decide)]
  simp only
  rw [readString_json v _ hv]
  simp only
  rw [skipWs_nonws 125 _ (by decide)]
  split
  · rename_i heq; simp at heq
  · rename_i heq; simp only [List.cons.injEq, true_and] at heq; rw [heq]
  · rename_i h1 h2; exact absurd rfl (h2 rest)

theorem readMembers_cons (f : Nat) (k v tail rest : Bytes) (ms : List (Bytes × Bytes))
    (hk : validStr k) (hv : validStr v) (h : readMembers f tail = some (ms, rest)) :
    readMembers (f + 1) (jsonString k ++ 58 :: (jsonString v ++ 44 :: tail)) = some ((k, v) :: ms, rest) := by
  rw [readMembers, readString_json k _ hk]
  simp only
  rw [skipWs_nonws 58 _ (by decide)]
  simp only
  rw [readString_json v _ hv]
  simp only
  rw [skipWs_nonws 44 _ (by decide)]
  split
  · rename_i heq; simp only [List.cons.injEq, true_and] at heq; rw [← heq, h]
  · rename_i heq; simp at heq
  · rename_i h1 h2; exact absurd rfl (h1 tail)

def kName : Bytes := str "name"
def kValue : Bytes := str "value"
def kSig : Bytes := str "signature"

theorem validStr_keys : validStr kName ∧ validStr kValue ∧ validStr kSig := by
  refine ⟨?_, ?_, ?_⟩ <;> (unfold validStr; decide)

/-- the text of one property, spelled with the key strings as JSON strings -/
theorem jsonProperty_eq (p : Property) :
    jsonProperty p = 123 :: (jsonString kName ++ 58 :: (jsonString p.name ++ 44 ::
      (jsonString kValue ++ 58 :: (jsonString p.value ++
        (if p.signature.isEmpty then [125]
         else 44 :: (jsonString kSig ++ 58 :: (jsonString p.signature ++ [125]))))))) := by
  have e1 : str "{\"name\":" = 123 :: (jsonString kName ++ [58]) := by decide
  have e2 : str ",\"value\":" = 44 :: (jsonString kValue ++ [58]) := by decide
  have e3 : str ",\"signature\":" = 44 :: (jsonString kSig ++ [58]) := by decide
  have e4 : str "}" = [125] := by decide
  unfold jsonProperty
  rw [e1, e2, e3, e4]
  split <;> simp [List.append_assoc]

theorem validStr_fuel (s : Bytes) (h : validUtf8 s.length s = true) : validStr s := h

theorem jsonString_cons (s : Bytes) : ∃ t, jsonString s = 34 :: t ∧ 1 ≤ t.length := by
  refine ⟨jsonStrBody s.length s ++ [34], by simp [jsonString], by simp⟩

theorem jsonString_length (s : Bytes) : 2 ≤ (jsonString s).length := by
  simp [jsonString]

theorem readObject_of_members (body rest : Bytes) (ms : List (Bytes × Bytes)) (t : Bytes)
    (hb : body = 34 :: t) (h : readMembers body.length body = some (ms, rest)) :
    readObject (123 :: body) = some (ms, rest) := by
  unfold readObject
  rw [skipWs_nonws 123 _ (by decide)]
  simp only
  rw [hb, skipWs_nonws 34 _ (by decide)]
  rw [hb] at h
  exact h

theorem readObject_property (p : Property) (rest : Bytes) (hp : propOk p = true) :
    readObject (jsonProperty p ++ rest) =
      some ((kName, p.name) :: (kValue, p.value) ::
        (if p.signature.isEmpty then [] else [(kSig, p.signature)]), rest) := by
  simp only [propOk, Bool.and_eq_true] at hp
  obtain ⟨⟨hn, hv⟩, hs⟩ := hp
  obtain ⟨k1, k2, k3⟩ := validStr_keys
  obtain ⟨t, ht, _⟩ := jsonString_cons kName
  rw [jsonProperty_eq]
  have l1 := jsonString_length kName
  have l2 := jsonString_length p.name
  have l3 := jsonString_length kValue
  have l4 := jsonString_length p.value
  have l5 := jsonString_length kSig
  have l6 := jsonString_length p.signature
  cases hse : p.signature.isEmpty with
  | true =>
    simp only [if_true, List.cons_append, List.append_assoc, List.nil_append]
    apply readObject_of_members _ rest _ (t ++ 58 :: (jsonString p.name ++ 44 ::
      (jsonString kValue ++ 58 :: (jsonString p.value ++ 125 :: rest)))) (by rw [ht]; rfl)
    obtain ⟨g, hg⟩ : ∃ g, (jsonString kName ++ 58 :: (jsonString p.name ++ 44 ::
        (jsonString kValue ++ 58 :: (jsonString p.value ++ 125 :: rest)))).length = g + 2 :=
      ⟨(jsonString kName ++ 58 :: (jsonString p.name ++ 44 ::
        (jsonString kValue ++ 58 :: (jsonString p.value ++ 125 :: rest)))).length - 2, by
        simp only [List.length_append, List.length_cons]; omega⟩
    rw [hg]
    exact readMembers_cons (g + 1) kName p.name _ rest _ k1 hn
      (readMembers_last g kValue p.value rest k2 hv)
  | false =>
    simp only [Bool.false_eq_true, if_false, List.cons_append, List.append_assoc, List.nil_append]
    apply readObject_of_members _ rest _ (t ++ 58 :: (jsonString p.name ++ 44 ::
      (jsonString kValue ++ 58 :: (jsonString p.value ++ 44 ::
        (jsonString kSig ++ 58 :: (jsonString p.signature ++ 125 :: rest)))))) (by rw [ht]; rfl)
    obtain ⟨g, hg⟩ : ∃ g, (jsonString kName ++ 58 :: (jsonString p.name ++ 44 ::
        (jsonString kValue ++ 58 :: (jsonString p.value ++ 44 ::
          (jsonString kSig ++ 58 :: (jsonString p.signature ++ 125 :: rest)))))).length = g + 3 :=
      ⟨(jsonString kName ++ 58 :: (jsonString p.name ++ 44 ::
        (jsonString kValue ++ 58 :: (jsonString p.value ++ 44 ::
          (jsonString kSig ++ 58 :: (jsonString p.signature ++ 125 :: rest)))))).length - 3, by
        simp only [List.length_append, List.length_cons]; omega⟩
    rw [hg]
    exact readMembers_cons (g + 2) kName p.name _ rest _ k1 hn
      (readMembers_cons (g + 1) kValue p.value _ rest _ k2 hv
        (readMembers_last g kSig p.signature rest k3 hs))

theorem toProperty_members (p : Property) :
    toProperty ((kName, p.name) :: (kValue, p.value) ::
      (if p.signature.isEmpty then [] else [(kSig, p.signature)])) = some p := by
  have n1 : (kName = str "name") = True := by simp [kName]
  have n2 : (kValue = str "name") = False := by simp only [eq_iff_iff, iff_false]; decide
  have n3 : (kValue = str "value") = True := by simp [kValue]
  have n4 : (kName = str "value") = False := by simp only [eq_iff_iff, iff_false]; decide
  have n5 : (kName = str "signature") = False := by simp only [eq_iff_iff, iff_false]; decide
  have n6 : (kValue = str "signature") = False := by simp only [eq_iff_iff, iff_false]; decide
  have n7 : (kSig = str "signature") = True := by simp [kSig]
  cases hse : p.signature.isEmpty with
  | true =>
    have : p.signature = [] := List.isEmpty_iff.mp hse
    simp only [toProperty, lookup, List.find?, n1, n2, n3, n4, n5, n6, decide_true, decide_false, if_true,
      Option.map_some, Option.map_none, Option.getD_none]
    cases p; simp_all
  | false =>
    simp only [toProperty, lookup, List.find?, n1, n2, n3, n4, n5, n6, n7, decide_true, decide_false,
      Bool.false_eq_true, if_false, Option.map_some, Option.getD_some]

theorem jsonProperty_length (p : Property) : 1 ≤ (jsonProperty p).length := by
  rw [jsonProperty_eq]; simp

/-- a non-empty array body -/
theorem readElems_list (ps : List Property) (hne : ps ≠ []) (hp : ∀ p ∈ ps, propOk p = true) :
    ∀ (f : Nat) (rest : Bytes), ps.length ≤ f →
      readElems f (joinComma (ps.map jsonProperty) ++ 93 :: rest) = some (ps, rest) := by
  induction ps with
  | nil => exact absurd rfl hne
  | cons p t ih =>
    intro f rest hf
    obtain ⟨f', rfl⟩ : ∃ f', f = f' + 1 := ⟨f - 1, by simp only [List.length_cons] at hf; omega⟩
    cases t with
    | nil =>
      simp only [List.map_cons, List.map_nil, joinComma]
      rw [readElems, readObject_property p _ (hp p (by simp))]
      simp only [toProperty_members]
      rw [skipWs_nonws 93 _ (by decide)]
      split
      · rename_i heq; simp at heq
      · rename_i heq; simp only [List.cons.injEq, true_and] at heq; rw [heq]
      · rename_i h1 h2; exact absurd rfl (h2 rest)
    | cons q t' =>
      have hrec := ih (by simp) (fun x hx => hp x (by simp [hx])) f' rest
        (by simp only [List.length_cons] at hf ⊢; omega)
      simp only [List.map_cons, joinComma, List.append_assoc, List.cons_append, List.nil_append] at hrec ⊢
      rw [readElems, readObject_property p _ (hp p (by simp))]
      simp only [toProperty_members]
      rw [skipWs_nonws 44 _ (by decide)]
      split
      · rename_i heq; simp only [List.cons.injEq, true_and] at heq; rw [← heq, hrec]
      · rename_i heq; simp at heq
      · rename_i h1 h2; exact absurd rfl (h1 _)

theorem joinComma_length (xs : List Bytes) (h : ∀ x ∈ xs, 1 ≤ x.length) : xs.length ≤ (joinComma xs).length + 1 := by
  induction xs with
  | nil => simp
  | cons x t ih =>
    cases t with
    | nil => simp [joinComma]
    | cons y t' =>
      have := ih (fun z hz => h z (by simp [hz]))
      have hx := h x (by simp)
      simp only [joinComma, List.length_append, List.length_cons, List.length_nil] at this ⊢
      omega

theorem joinComma_head (p : Property) (t : List Property) :
    ∃ u, joinComma ((p :: t).map jsonProperty) = 123 :: u := by
  cases t with
  | nil => exact ⟨_, by simp only [List.map_cons, List.map_nil, joinComma]; rw [jsonProperty_eq]⟩
  | cons q t' => exact ⟨_, by simp only [List.map_cons, joinComma]; rw [jsonProperty_eq p]; rfl⟩

/-- the reference reader recovers exactly the list gate serialised (`null` for a nil list) -/
theorem readProperties_json (isNil : Bool) (ps : List Property) (hp : ∀ p ∈ ps, propOk p = true) :
    readProperties (jsonProps isNil ps) = some (if ps.isEmpty ∧ isNil then none else some ps) := by
  cases ps with
  | nil =>
    cases isNil <;> rfl
  | cons p t =>
    obtain ⟨u, hu⟩ := joinComma_head p t
    have hlen : (p :: t).length ≤ (joinComma ((p :: t).map jsonProperty)).length + 1 := by
      have := joinComma_length ((p :: t).map jsonProperty) (by
        intro x hx
        simp only [List.mem_map] at hx
        obtain ⟨q, _, rfl⟩ := hx
        exact jsonProperty_length q)
      simpa using this
    have hj : jsonProps isNil (p :: t) = 91 :: (joinComma ((p :: t).map jsonProperty) ++ [93]) := by
      simp [jsonProps]
    rw [hj]
    unfold readProperties
    simp only
    rw [skipWs_nonws 91 _ (by decide)]
    have hnn : (91 :: (joinComma ((p :: t).map jsonProperty) ++ [93]) = str "null") = False := by
      simp only [eq_iff_iff, iff_false]
      intro h
      have : (91 : UInt8) = 110 := by
        have h0 := congrArg List.head? h
        simpa [str] using h0
      exact absurd this (by decide)
    simp only [hnn, if_false]
    rw [hu]
    simp only [List.cons_append]
    rw [skipWs_nonws 123 _ (by decide)]
    split
    · rename_i heq; simp at heq
    · rw [← List.cons_append, ← hu]
      rw [readElems_list (p :: t) (by simp) hp _ [] (by
        simp only [List.length_append, List.length_cons, List.length_nil]; omega)]
      simp [skipWs]

/-! ## no NUL in the JSON text -/

theorem jsonEscAscii_no_nul (b : UInt8) : NUL ∉ jsonEscAscii b := by
  have h1 : b.toNat / 16 < 16 := by have := b.toNat_lt; omega
  have h2 : b.toNat % 16 < 16 := by omega
  have n1 := hexLower_ne_nul _ h1
  have n2 := hexLower_ne_nul _ h2
  intro h
  unfold jsonEscAscii at h
  by_cases c1 : b = 92 ∨ b = 34
  · rw [if_pos c1] at h
    rcases c1 with rfl | rfl <;> simp [NUL] at h
  rw [if_neg c1] at h
  by_cases c2 : b = 8
  · rw [if_pos c2] at h; simp [NUL] at h
  rw [if_neg c2] at h
  by_cases c3 : b = 12
  · rw [if_pos c3] at h; simp [NUL] at h
  rw [if_neg c3] at h
  by_cases c4 : b = 10
  · rw [if_pos c4] at h; simp [NUL] at h
  rw [if_neg c4] at h
  by_cases c5 : b = 13
  · rw [if_pos c5] at h; simp [NUL] at h
  rw [if_neg c5] at h
  by_cases c6 : b = 9
  · rw [if_pos c6] at h; simp [NUL] at h
  rw [if_neg c6] at h
  by_cases c7 : b.toNat < 0x20 ∨ b = 60 ∨ b = 62 ∨ b = 38
  · rw [if_pos c7] at h
    simp only [List.mem_cons, List.not_mem_nil, or_false] at h
    rcases h with h | h | h | h | h | h
    · exact absurd h (by decide)
    · exact absurd h (by decide)
    · exact absurd h (by decide)
    · exact absurd h (by decide)
    · exact n1 h.symm
    · exact n2 h.symm
  · rw [if_neg c7] at h
    simp only [List.mem_cons, List.not_mem_nil, or_false] at h
    simp only [not_or] at c7
    have : b.toNat = 0 := by rw [← h]; rfl
    omega

theorem jsonStrBody_no_nul (n : Nat) : ∀ s : Bytes, NUL ∉ jsonStrBody n s := by
  induction n with
  | zero => intro s; simp [jsonStrBody]
  | succ n ih =>
    intro s
    cases s with
    | nil => simp [jsonStrBody]
    | cons b r =>
      by_cases hb : b.toNat < 0x80
      · simp only [jsonStrBody, hb, if_true, List.mem_append, not_or]
        exact ⟨jsonEscAscii_no_nul b, ih r⟩
      · cases hd : decodeRune (b :: r) with
        | none =>
          simp only [jsonStrBody, hb, if_false, hd, List.mem_append, not_or]
          exact ⟨by decide, ih r⟩
        | some p =>
          obtain ⟨c, size⟩ := p
          obtain ⟨hb80, hs2, hs4, hlen, hhigh⟩ := decodeRune_high b r c size hd
          by_cases h28 : c = 0x2028 ∨ c = 0x2029
          · simp only [jsonStrBody, hb, if_false, hd, h28, if_true, List.mem_append, not_or]
            refine ⟨?_, ih _⟩
            have hx : c % 16 < 16 := by omega
            have := hexLower_ne_nul _ hx
            simp only [List.mem_cons, List.not_mem_nil, or_false]
            intro h
            rcases h with h | h | h | h | h | h
            · exact absurd h (by decide)
            · exact absurd h (by decide)
            · exact absurd h (by decide)
            · exact absurd h (by decide)
            · exact absurd h (by decide)
            · exact this h.symm
          · have htake : (b :: r).take size = b :: r.take (size - 1) := by
              obtain ⟨k, rfl⟩ : ∃ k, size = k + 1 := ⟨size - 1, by omega⟩
              simp
            simp only [jsonStrBody, hb, if_false, hd, h28, htake, List.mem_append, not_or]
            refine ⟨?_, ih _⟩
            intro h
            simp only [List.mem_cons] at h
            rcases h with h | h
            · have : b.toNat = 0 := by rw [← h]; rfl
              omega
            · have := hhigh _ h
              simp [NUL] at this

theorem str_lits_no_nul : NUL ∉ str "{\"name\":" ∧ NUL ∉ str ",\"value\":" ∧ NUL ∉ str ",\"signature\":" ∧
    NUL ∉ str "}" ∧ NUL ∉ str "null" := by decide

theorem jsonString_no_nul (s : Bytes) : NUL ∉ jsonString s := by
  unfold jsonString
  simp only [List.mem_append, List.mem_cons, List.not_mem_nil, or_false, not_or]
  exact ⟨⟨by decide, jsonStrBody_no_nul _ s⟩, by decide⟩

theorem jsonProperty_no_nul (p : Property) : NUL ∉ jsonProperty p := by
  obtain ⟨l1, l2, l3, l4, _⟩ := str_lits_no_nul
  unfold jsonProperty
  simp only [List.mem_append, not_or]
  refine ⟨⟨⟨⟨⟨l1, jsonString_no_nul _⟩, l2⟩, jsonString_no_nul _⟩, ?_⟩, l4⟩
  split
  · simp
  · simp only [List.mem_append, not_or]; exact ⟨l3, jsonString_no_nul _⟩

theorem joinComma_no_nul (xs : List Bytes) (h : ∀ x ∈ xs, NUL ∉ x) : NUL ∉ joinComma xs := by
  induction xs with
  | nil => simp [joinComma]
  | cons x t ih =>
    cases t with
    | nil => simpa [joinComma] using h x (by simp)
    | cons y t' =>
      simp only [joinComma, List.mem_append, List.mem_cons, List.not_mem_nil, or_false, not_or]
      exact ⟨⟨h x (by simp), by decide⟩, ih (fun z hz => h z (by simp [hz]))⟩

theorem jsonProps_no_nul (isNil : Bool) (ps : List Property) : NUL ∉ jsonProps isNil ps := by
  unfold jsonProps
  split
  · exact str_lits_no_nul.2.2.2.2
  · simp only [List.mem_append, List.mem_cons, List.not_mem_nil, or_false, not_or]
    refine ⟨⟨by decide, joinComma_no_nul _ ?_⟩, by decide⟩
    intro x hx
    simp only [List.mem_map] at hx
    obtain ⟨q, _, rfl⟩ := hx
    exact jsonProperty_no_nul q

theorem jsonProps_ne_nil (isNil : Bool) (ps : List Property) : jsonProps isNil ps ≠ [] := by
  unfold jsonProps
  split
  · decide
  · simp

/-! ## the BungeeCord backend's view of a forwarding address -/

theorem dropTrailingEmpty_four (a b c d : Bytes) (hd : d ≠ []) : dropTrailingEmpty [a, b, c, d] = [a, b, c, d] := by
  unfold dropTrailingEmpty
  simp [List.dropWhile, hd]

theorem bungeeParse_address (srv ip id : Bytes) (isNil : Bool) (ps : List Property)
    (h1 : NUL ∉ srv) (h2 : NUL ∉ ip) (hid : id.length = 16) (hp : ∀ p ∈ ps, propOk p = true) :
    bungeeParse (srv ++ [0] ++ ip ++ [0] ++ undashed id ++ [0] ++ jsonProps isNil ps)
      = some ⟨srv, ip, id, if ps.isEmpty ∧ isNil then none else some ps⟩ := by
  unfold bungeeParse javaSplitNul
  rw [split_four srv ip (undashed id) (jsonProps isNil ps) h1 h2 (undashed_no_nul id) (jsonProps_no_nul isNil ps),
    dropTrailingEmpty_four _ _ _ _ (jsonProps_ne_nil isNil ps)]
  have hl : (undashed id).length = 32 := by rw [undashed_length, hid]
  simp only [hl, if_true, unhex_undashed, readProperties_json isNil ps hp]

end Gate.C19
