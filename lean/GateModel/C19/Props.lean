import GateModel.C19.JsonRT
/-
C19 — Backend handshake keeps the player's host first and forwarding data well-formed.

Property theorems only (helpers: `Lemmas.lean`, `JsonRT.lean`).
  A. Without legacy/BungeeGuard forwarding the address sent to the backend has the player's virtual host
     as its first NUL-separated part — for every virtual host (any bytes), connection type, Forge marker
     and every address hook that keeps the first part of what it is given — hence `ClearVirtualHost`
     (what a downstream gate routes on) sees the same host.
  B. With legacy/BungeeGuard forwarding the address is exactly backend address, player IP, undashed UUID
     and the JSON property list (+ BungeeForge extraData, + token last), NUL-separated, and the
     BungeeCord backend's parser recovers exactly those values.
-/
namespace Gate.C19.Props
open Gate Gate.C19 Gate.C19.Spec

/-! ### A. the host stays first -/

/-- No hook contract needed: whatever the hooks return, the Forge marker handling appends a NUL-led
    marker (legacy Forge), re-attaches a NUL-led token to the base host (modern Forge) or does nothing —
    the first NUL-separated part of the result is the first part of the hook chain's result. -/
theorem marker_never_displaces_first_part (e : Env) (vHost r : Bytes) (hnf : usedForwarding e = false)
    (h : handshakeAddr e vHost = .ok r) :
    ∃ v2, afterHook2 e vHost = .ok v2 ∧ beforeNul r = beforeNul v2 :=
  handshakeAddr_no_forwarding e vHost r hnf h

/-- every connection type, every virtual host, hooks that keep the first part: the backend sees the
    player's virtual host first -/
theorem host_first (e : Env) (r : Bytes) (hnf : usedForwarding e = false) (hk : HooksKeepFirst e)
    (h : serverAddress e = .ok r) : beforeNul r = beforeNul (playerVHost e) := by
  obtain ⟨v2, h2, hr⟩ := handshakeAddr_no_forwarding e (playerVHost e) r hnf h
  rw [hr, afterHook2_first e (playerVHost e) v2 hnf hk h2]

/-- without hooks the address always exists and starts with the player's virtual host -/
theorem host_first_no_hooks (e : Env) (h1 : e.hook1Seen = none) (h2 : e.hook2 = none)
    (hm : e.mode ≠ .legacy ∧ e.mode ≠ .bungeeguard) :
    ∃ r, serverAddress e = .ok r ∧ beforeNul r = beforeNul (playerVHost e) := by
  have hnf : usedForwarding e = false := by simp [usedForwarding, h1, hm.1, hm.2]
  have hk : HooksKeepFirst e :=
    ⟨fun f hf => (by rw [h1] at hf; cases hf), fun g hg => (by rw [h2] at hg; cases hg)⟩
  have hok : ∃ r, serverAddress e = .ok r := by
    unfold serverAddress handshakeAddr afterHook2
    simp [hnf, h2]
  obtain ⟨r, hr⟩ := hok
  exact ⟨r, hr, host_first e r hnf hk hr⟩

/-- the chained-proxy statement: a downstream gate computing `ClearVirtualHost` on the handshake address
    gets what it would get from the player's virtual host itself -/
theorem clear_virtual_host_preserved (e : Env) (r : Bytes) (hnf : usedForwarding e = false)
    (hk : HooksKeepFirst e) (h : serverAddress e = .ok r) :
    clearVirtualHost r = clearVirtualHost (playerVHost e) :=
  clearVirtualHost_congr _ _ (host_first e r hnf hk h)

/-- glue: the virtual host the handshake handler stores is `<client's address>:<port>`; for a client
    address without `:`, `[`, `]` (any other bytes, NUL parts and Forge markers included) `netutil.Host`
    returns it unchanged, so the first part the backend sees is the first part the client sent -/
theorem host_first_of_client_address (e : Env) (sa port r : Bytes)
    (hv : e.vhostAddr = sa ++ COLON :: port) (hsa : sa ≠ [])
    (c1 : COLON ∉ sa) (c2 : LBR ∉ sa) (c3 : RBR ∉ sa) (p1 : COLON ∉ port) (p2 : LBR ∉ port) (p3 : RBR ∉ port)
    (hnf : usedForwarding e = false) (hk : HooksKeepFirst e) (h : serverAddress e = .ok r) :
    beforeNul r = beforeNul sa ∧ clearVirtualHost r = clearVirtualHost sa := by
  have hp : playerVHost e = sa := by
    unfold playerVHost
    rw [hv, hostOf_host_port sa port c1 c2 c3 p1 p2 p3]
    simp [hsa]
  have := host_first e r hnf hk h
  rw [hp] at this
  exact ⟨this, clearVirtualHost_congr _ _ this⟩

/-- the only way to get no address is a failing `BackendHandshakeAddresser` -/
theorem failure_only_from_backend_addresser (e : Env) (h : serverAddress e = .error ()) :
    ∃ g, e.hook2 = some g ∧ usedForwarding e = false := by
  unfold serverAddress handshakeAddr at h
  cases hu : usedForwarding e with
  | true => simp [hu] at h
  | false =>
    cases hg : e.hook2 with
    | some g => exact ⟨g, rfl, rfl⟩
    | none => simp [hu, afterHook2, hg] at h

/-- the contract is necessary: a hook that ignores what it is given replaces the host (this is why the
    statement without the contract is not claimed) -/
theorem host_first_fails_for_contract_breaking_hook :
    let e : Env := { mode := .none, bgSecret := [], serverAddr := str "10.0.0.1:25566", remoteAddr := str "1.2.3.4:5",
                     id := List.replicate 16 0, props := [], propsNil := true, connType := .vanilla,
                     vhostAddr := str "play.example.org:25565", hook1 := some (fun _ => str "lobby"), hook2 := none }
    serverAddress e = .ok (str "lobby") ∧ beforeNul (str "lobby") ≠ beforeNul (playerVHost e) := by
  refine ⟨rfl, by decide⟩

/-- Outside the domain of `host_first_of_client_address`: a `]` (or `[`) in a later NUL part of the client's
    address, with no `:` anywhere, makes `netutil.Host` fail ("unexpected ']' in address"); the virtual host
    then counts as empty and `startHandshake` sends the BACKEND's own host — the player's host is lost
    (known finding `host-replaced-on-bracket`). -/
theorem host_first_fails_on_bracket_in_later_part :
    let e : Env := { mode := .none, bgSecret := [], serverAddr := str "10.0.0.1:25566", remoteAddr := str "1.2.3.4:5",
                     id := List.replicate 16 0, props := [], propsNil := true, connType := .vanilla,
                     vhostAddr := str "play.example.org" ++ [0] ++ str "a]b:25565", hook1 := none, hook2 := none }
    serverAddress e = .ok (str "10.0.0.1") ∧
    beforeNul (str "10.0.0.1") ≠ beforeNul (str "play.example.org" ++ [0] ++ str "a]b") := by
  refine ⟨rfl, by decide⟩

/-! ### B. legacy / BungeeGuard forwarding -/

/-- legacy mode (no `HandshakeAddresser` on the server): exactly four NUL-joined fields, no Forge marker
    appended, the `BackendHandshakeAddresser` not consulted -/
theorem legacy_address_shape (e : Env) (h1 : e.hook1Seen = none) (hm : e.mode = .legacy) :
    serverAddress e = .ok (e.serverAddr ++ [0] ++ hostOf e.remoteAddr ++ [0] ++ undashed e.id ++ [0] ++
      jsonProps (e.propsNil && e.props.isEmpty && (forwardedProps e false).isEmpty) (forwardedProps e false)) := by
  simp [serverAddress, handshakeAddr, usedForwarding, afterHook1, forwardedOrHost, h1, hm,
    createLegacyForwardingAddress, forwardingAddress]

theorem bungeeguard_address_shape (e : Env) (h1 : e.hook1Seen = none) (hm : e.mode = .bungeeguard) :
    serverAddress e = .ok (e.serverAddr ++ [0] ++ hostOf e.remoteAddr ++ [0] ++ undashed e.id ++ [0] ++
      jsonProps (e.propsNil && e.props.isEmpty && (forwardedProps e true).isEmpty) (forwardedProps e true)) := by
  simp [serverAddress, handshakeAddr, usedForwarding, afterHook1, forwardedOrHost, h1, hm,
    createBungeeGuardForwardingAddress, forwardingAddress]

/-- the property list that is forwarded: the profile's properties in order, then BungeeForge's `extraData`
    (Forge clients only), then — BungeeGuard — the token, last -/
theorem forwarded_props_order (e : Env) (withToken : Bool) :
    e.props <+: forwardedProps e withToken ∧
    (withToken = true → (forwardedProps e withToken).getLast? = some ⟨tokenName, e.bgSecret, []⟩) ∧
    (e.connType = .legacyForge → ⟨extraDataName, [1, 70, 77, 76, 0], []⟩ ∈ forwardedProps e withToken) := by
  refine ⟨?_, ?_, ?_⟩
  · unfold forwardedProps; rw [List.append_assoc]; exact List.prefix_append _ _
  · intro h; subst h; simp [forwardedProps]
  · intro h
    have : forgeExtraData e = [1, 70, 77, 76, 0] := by simp [forgeExtraData, h]
    simp [forwardedProps, this]

/-- In both forwarding formats a BungeeCord-protocol backend splits the address into exactly four parts and
    recovers exactly the backend address, the player's IP text, the UUID and the property list (a nil list
    is sent as JSON `null`, which the backend reads as "no properties") — for every property list whose
    strings are valid UTF-8 (JSON text cannot carry other byte strings) and NUL-free address texts. -/
theorem forwarding_address_parsed_by_backend (e : Env) (withToken : Bool)
    (hs : NUL ∉ e.serverAddr) (hi : NUL ∉ hostOf e.remoteAddr) (hid : e.id.length = 16)
    (hp : ∀ p ∈ forwardedProps e withToken, propOk p = true) :
    splitOn1 NUL (forwardingAddress e withToken) =
      [e.serverAddr, hostOf e.remoteAddr, undashed e.id,
       jsonProps (e.propsNil && e.props.isEmpty && (forwardedProps e withToken).isEmpty) (forwardedProps e withToken)] ∧
    bungeeParse (forwardingAddress e withToken) =
      some ⟨e.serverAddr, hostOf e.remoteAddr, e.id,
        if (forwardedProps e withToken).isEmpty ∧ e.propsNil then none else some (forwardedProps e withToken)⟩ := by
  refine ⟨?_, ?_⟩
  · unfold forwardingAddress
    exact split_four _ _ _ _ hs hi (undashed_no_nul _) (jsonProps_no_nul _ _)
  · unfold forwardingAddress
    simp only
    rw [bungeeParse_address _ _ _ _ _ hs hi hid hp]
    congr 2
    cases hE : (forwardedProps e withToken).isEmpty <;> cases hN : e.propsNil <;> simp
    -- a nil flag matters only for an empty list; then `props` is empty as well
    have : e.props = [] := by
      have := List.isEmpty_iff.mp hE
      unfold forwardedProps at this
      simp only [List.append_eq_nil_iff] at this
      exact this.1.1
    simp [this]

/-! ### the ServerInfo wrapper (`newViaServerInfo`, stored by `Proxy.Register` for Via-routed backends) -/

/-- A Via-wrapped registration behaves, for the handshake address, exactly like the same server without a
    `HandshakeAddresser`: the wrapper is not a hook, for every input. -/
theorem via_wrapped_like_unhooked (e : Env) (hv : e.viaWrapped = true) :
    serverAddress e = serverAddress { e with hook1 := none, viaWrapped := false } := by
  cases e
  simp only at hv
  subst hv
  rfl

/-- hence the wrapper never switches the forwarding format off: a wrapped backend in legacy / BungeeGuard
    mode is sent the full forwarding address, whether or not the wrapped ServerInfo has a hook of its own -/
theorem via_wrapped_keeps_forwarding (e : Env) (hv : e.viaWrapped = true)
    (hm : e.mode = .legacy ∨ e.mode = .bungeeguard) :
    usedForwarding e = true ∧
    serverAddress e = .ok (forwardingAddress e (decide (e.mode = .bungeeguard))) := by
  have h1 : e.hook1Seen = none := by simp [Env.hook1Seen, hv]
  rcases hm with hm | hm
  · simp [serverAddress, handshakeAddr, usedForwarding, afterHook1, forwardedOrHost, h1, hm,
      createLegacyForwardingAddress]
  · simp [serverAddress, handshakeAddr, usedForwarding, afterHook1, forwardedOrHost, h1, hm,
      createBungeeGuardForwardingAddress]

/-- The defective variant (a wrapper that itself implements `HandshakeAddresser` by delegating, returning the
    default address when the wrapped ServerInfo has no hook) is "a hook that is always present": modelled as
    `hook1 := some id`, it sends the bare virtual host where the forwarding address is due. -/
theorem via_wrapper_as_hook_fails :
    let e : Env := { mode := .legacy, bgSecret := [], serverAddr := str "10.0.0.1:25566", remoteAddr := str "1.2.3.4:5",
                     id := List.replicate 16 0, props := [], propsNil := false, connType := .vanilla,
                     vhostAddr := str "play.example.org:25565", hook1 := some (fun v => v), hook2 := none }
    serverAddress e = .ok (str "play.example.org") ∧ bungeeParse (str "play.example.org") = none ∧
    serverAddress { e with viaWrapped := true } = .ok (forwardingAddress e false) := by
  refine ⟨rfl, by decide, rfl⟩

/-- the JSON part never contains a raw NUL (so the four-way split is unambiguous), whatever the properties -/
theorem json_part_has_no_nul (isNil : Bool) (ps : List Property) : NUL ∉ jsonProps isNil ps :=
  jsonProps_no_nul isNil ps

/-- the reference reader reads the JSON text back exactly -/
theorem json_part_read_back (isNil : Bool) (ps : List Property) (hp : ∀ p ∈ ps, propOk p = true) :
    readProperties (jsonProps isNil ps) = some (if ps.isEmpty ∧ isNil then none else some ps) :=
  readProperties_json isNil ps hp

/-! ### tie to the source (facts regenerated by `tools/gofacts` on every run) -/

open Gate.Gen.C19 in
/-- order of the steps in `handshakeAddr`: forwarding formats, `HandshakeAddr` hook, backend addresser on
    the base host, then the Forge marker with `ModernToken` last -/
theorem src_handshakeAddr_order :
    handshakeAddrCalls.filter (fun c => c ∈ ["s.createLegacyForwardingAddress", "s.createBungeeGuardForwardingAddress",
        "ha.HandshakeAddr", "backendHandshakeBaseHost", "backendAddresser.BackendHandshakeAddr", "modernforge.ModernToken"]) =
      ["s.createLegacyForwardingAddress", "s.createBungeeGuardForwardingAddress", "ha.HandshakeAddr",
       "backendHandshakeBaseHost", "backendAddresser.BackendHandshakeAddr", "backendHandshakeBaseHost",
       "modernforge.ModernToken"] := by decide

open Gate.Gen.C19 in
theorem src_forwarding_builders :
    legacyCalls.filter (fun c => c ∈ ["netutil.Host", "s.server.ServerInfo().Addr().String", "s.player.profile.ID.Undashed",
        "s.forgeExtraDataProperty", "append", "json.Marshal"]) =
      ["netutil.Host", "s.server.ServerInfo().Addr().String", "s.player.profile.ID.Undashed",
       "s.forgeExtraDataProperty", "append", "json.Marshal"] ∧
    bungeeGuardCalls.filter (fun c => c ∈ ["netutil.Host", "s.server.ServerInfo().Addr().String", "s.player.profile.ID.Undashed",
        "s.forgeExtraDataProperty", "append", "json.Marshal"]) =
      ["netutil.Host", "s.server.ServerInfo().Addr().String", "s.player.profile.ID.Undashed",
       "s.forgeExtraDataProperty", "append", "append", "json.Marshal"] ∧
    (legacyCalls.filter (· = "b.WriteString")).length = 7 ∧
    (bungeeGuardCalls.filter (· = "b.WriteString")).length = 7 := by decide

open Gate.Gen.C19 in
theorem src_constants_and_helpers :
    handshakeHostnameToken = "\x00FML\x00" ∧ modernForgeToken = "FORGE" ∧ liteForgeSeparator = "\x00" ∧
    tcpShieldRealIPSeparator = "///" ∧
    clearVirtualHostCalls = ["strings.Split", "strings.Split", "strings.Trim", "return"] ∧
    baseHostCalls = ["strings.SplitN", "return", "return"] ∧
    "net.SplitHostPort" ∈ splitHostPortCalls ∧ "strconv.Atoi" ∈ modernTokenCalls ∧
    startHandshakeCalls.idxOf "s.handshakeAddr" < startHandshakeCalls.idxOf "serverMc.BufferPacket" := by decide

/-! ### non-vacuity -/

def sampleEnv : Env :=
  { mode := .none, bgSecret := str "tok", serverAddr := str "10.0.0.1:25566", remoteAddr := str "192.0.2.7:40000",
    id := List.replicate 16 0xab, props := [⟨str "textures", str "e30=", str "c2ln"⟩], propsNil := false,
    connType := .modernForge, vhostAddr := str "play.example.org" ++ [0] ++ str "FML3" ++ [0] ++ str ":25565",
    hook1 := none, hook2 := some (fun b => .ok (b ++ [0] ++ str "floodgate")) }

example : usedForwarding sampleEnv = false := by decide
example : HooksKeepFirst sampleEnv := by
  refine ⟨fun f hf => by simp [sampleEnv, Env.hook1Seen] at hf, fun g hg => ?_⟩
  simp only [sampleEnv, Option.some.injEq] at hg
  subst hg
  intro b v hv
  simp only [Except.ok.injEq] at hv
  subst hv
  rw [List.append_assoc]
  exact beforeNul_append_nul b _
-- (for a modern-Forge player the NUL parts a backend addresser appends are cut again: base host + token)
example : serverAddress sampleEnv = .ok (str "play.example.org" ++ [0] ++ str "FML3" ++ [0]) := by rfl
example : serverAddress { sampleEnv with connType := .legacyForge } =
    .ok (str "play.example.org" ++ [0] ++ str "floodgate" ++ [0] ++ str "FML" ++ [0]) := by rfl
example : ∀ p ∈ forwardedProps { sampleEnv with mode := .bungeeguard } true, propOk p = true := by decide
example : NUL ∉ sampleEnv.serverAddr ∧ NUL ∉ hostOf sampleEnv.remoteAddr ∧ sampleEnv.id.length = 16 := by decide

end Gate.C19.Props
