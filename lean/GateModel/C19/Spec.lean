import GateModel.C19.Model
/-
C19 — reference consumer: how a BungeeCord-protocol backend (Spigot/Paper `HandshakeListener`,
`bungeecord: true`) takes the forwarded handshake address apart, transcribed by hand:

    String[] split = packet.hostName.split("\00");
    if (split.length == 3 || split.length == 4) {
        packet.hostName = split[0];
        address         = split[1];
        spoofedUUID     = UUIDTypeAdapter.fromString(split[2]);   // 32 hex digits
        if (split.length == 4) spoofedProfile = gson.fromJson(split[3], Property[].class);
    } else → "If you wish to use IP forwarding, please enable it in your BungeeCord config as well!"

`String.split` drops trailing empty strings.  The JSON reader below is a strict reader for exactly the
documents that can occur in that position (`null`, or an array of flat objects whose values are strings):
everything it accepts a lenient Gson accepts with the same result.  Uses only the byte helpers of the
model file (no address-construction code).
-/
namespace Gate.C19.Spec
open Gate Gate.C19

/-- Java `String.split(sep)`: like `strings.Split`, then trailing empty strings are removed -/
def dropTrailingEmpty (ps : List Bytes) : List Bytes :=
  (ps.reverse.dropWhile (· = [])).reverse

def javaSplitNul (s : Bytes) : List Bytes := dropTrailingEmpty (splitOn1 NUL s)

/-! ## a small JSON reader -/

def isWs (b : UInt8) : Bool := b = 32 || b = 9 || b = 10 || b = 13

def skipWs (s : Bytes) : Bytes := s.dropWhile isWs

def hexVal (b : UInt8) : Option Nat :=
  if 48 ≤ b ∧ b ≤ 57 then some (b.toNat - 48)
  else if 97 ≤ b ∧ b ≤ 102 then some (b.toNat - 87)
  else if 65 ≤ b ∧ b ≤ 70 then some (b.toNat - 55)
  else none

/-- UTF-8 of a BMP code point that is not a surrogate -/
def utf8Encode (c : Nat) : Option Bytes :=
  if c < 0x80 then some [UInt8.ofNat c]
  else if c < 0x800 then some [UInt8.ofNat (0xC0 + c / 64), UInt8.ofNat (0x80 + c % 64)]
  else if 0xD800 ≤ c ∧ c ≤ 0xDFFF then none
  else if c < 0x10000 then
    some [UInt8.ofNat (0xE0 + c / 4096), UInt8.ofNat (0x80 + c / 64 % 64), UInt8.ofNat (0x80 + c % 64)]
  else none

/-- the one-character escapes `\" \\ \/ \b \f \n \r \t` -/
def unescape1 (e : UInt8) : Option UInt8 :=
  if e = 34 then some 34 else if e = 92 then some 92 else if e = 47 then some 47
  else if e = 98 then some 8 else if e = 102 then some 12 else if e = 110 then some 10
  else if e = 114 then some 13 else if e = 116 then some 9 else none

/-- four hex digits → code unit -/
def hex4 : Bytes → Option (Nat × Bytes)
  | h1 :: h2 :: h3 :: h4 :: r =>
    match hexVal h1, hexVal h2, hexVal h3, hexVal h4 with
    | some a, some b, some c, some d => some (((a * 16 + b) * 16 + c) * 16 + d, r)
    | _, _, _, _ => none
  | _ => none

/-- the characters of a JSON string after the opening quote, up to and including the closing quote;
    fuel = input length -/
def readStrBody : Nat → Bytes → Option (Bytes × Bytes)
  | 0, _ => none
  | _ + 1, [] => none
  | fuel + 1, b :: r =>
    if b = 34 then some ([], r)
    else if b = 92 then
      match r with
      | [] => none
      | e :: r' =>
        if e = 117 then
          match hex4 r' with
          | none => none
          | some (cp, r'') =>
            match utf8Encode cp, readStrBody fuel r'' with
            | some u, some (s, rest) => some (u ++ s, rest)
            | _, _ => none
        else
          match unescape1 e, readStrBody fuel r' with
          | some c, some (s, rest) => some (c :: s, rest)
          | _, _ => none
    else if b.toNat < 0x20 then none
    else match readStrBody fuel r with
      | some (s, rest) => some (b :: s, rest)
      | none => none

def readString (s : Bytes) : Option (Bytes × Bytes) :=
  match skipWs s with
  | 34 :: r => readStrBody r.length r
  | _ => none

/-- members of an object after `{`: `"key":"value"` pairs separated by commas, closed by `}` -/
def readMembers : Nat → Bytes → Option (List (Bytes × Bytes) × Bytes)
  | 0, _ => none
  | fuel + 1, s =>
    match readString s with
    | none => none
    | some (k, r1) =>
      match skipWs r1 with
      | 58 :: r2 =>
        match readString r2 with
        | none => none
        | some (v, r3) =>
          match skipWs r3 with
          | 44 :: r4 =>
            match readMembers fuel r4 with
            | some (ms, rest) => some ((k, v) :: ms, rest)
            | none => none
          | 125 :: r4 => some ([(k, v)], r4)
          | _ => none
      | _ => none

def readObject (s : Bytes) : Option (List (Bytes × Bytes) × Bytes) :=
  match skipWs s with
  | 123 :: r =>
    match skipWs r with
    | 125 :: r' => some ([], r')
    | _ => readMembers r.length r
  | _ => none

def lookup (k : Bytes) (ms : List (Bytes × Bytes)) : Option Bytes :=
  (ms.find? (·.1 = k)).map (·.2)

/-- Gson binding to `Property(name, value, signature)`: missing members are null; here name and value
    are required, a missing signature is "no signature" (represented, as in gate, by the empty string) -/
def toProperty (ms : List (Bytes × Bytes)) : Option Property :=
  match lookup (str "name") ms, lookup (str "value") ms with
  | some n, some v => some ⟨n, v, (lookup (str "signature") ms).getD []⟩
  | _, _ => none

def readElems : Nat → Bytes → Option (List Property × Bytes)
  | 0, _ => none
  | fuel + 1, s =>
    match readObject s with
    | none => none
    | some (ms, r1) =>
      match toProperty ms with
      | none => none
      | some p =>
        match skipWs r1 with
        | 44 :: r2 =>
          match readElems fuel r2 with
          | some (ps, rest) => some (p :: ps, rest)
          | none => none
        | 93 :: r2 => some ([p], r2)
        | _ => none

/-- `gson.fromJson(text, Property[].class)`: `null` → no array; otherwise the array -/
def readProperties (s : Bytes) : Option (Option (List Property)) :=
  let s := skipWs s
  if s = str "null" then some none
  else match s with
    | 91 :: r =>
      match skipWs r with
      | 93 :: r' => if skipWs r' = [] then some (some []) else none
      | _ => match readElems r.length r with
        | some (ps, rest) => if skipWs rest = [] then some (some ps) else none
        | none => none
    | _ => none

/-! ## which byte strings JSON text can carry -/

/-- Go's notion of valid UTF-8 on the whole string (every non-ASCII position decodes) -/
def validUtf8 : Nat → Bytes → Bool
  | 0, s => s.isEmpty
  | _ + 1, [] => true
  | fuel + 1, b :: r =>
    if b.toNat < 0x80 then validUtf8 fuel r
    else match decodeRune (b :: r) with
      | none => false
      | some (_, size) => validUtf8 fuel (r.drop (size - 1))

def propOk (p : Property) : Bool :=
  validUtf8 p.name.length p.name && validUtf8 p.value.length p.value && validUtf8 p.signature.length p.signature

/-! ## the handshake listener -/

def unhexPairs : Bytes → Option Bytes
  | [] => some []
  | a :: b :: r =>
    match hexVal a, hexVal b, unhexPairs r with
    | some x, some y, some t => some (UInt8.ofNat (x * 16 + y) :: t)
    | _, _, _ => none
  | _ => none

structure Forwarded where
  host  : Bytes
  ip    : Bytes
  uuid  : Bytes                        -- 16 bytes
  props : Option (List Property)       -- `none`: three parts, or JSON `null`
  deriving DecidableEq, Repr

def bungeeParse (hostName : Bytes) : Option Forwarded :=
  match javaSplitNul hostName with
  | [h, ip, u] =>
    if u.length = 32 then (unhexPairs u).map fun id => ⟨h, ip, id, none⟩ else none
  | [h, ip, u, js] =>
    if u.length = 32 then
      match unhexPairs u, readProperties js with
      | some id, some ps => some ⟨h, ip, id, ps⟩
      | _, _ => none
    else none
  | _ => none

end Gate.C19.Spec
