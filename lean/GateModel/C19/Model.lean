import GateModel.Base.Bytes
import GateModel.Gen.C19
/-
C19 — model of
  pkg/edition/java/proxy/server.go      handshakeAddr, backendHandshakeBaseHost, createLegacyForwardingAddress,
                                        createBungeeGuardForwardingAddress, forgeExtraDataProperty, and the
                                        "Set handshake ServerAddress" block of startHandshake
  pkg/edition/java/forge/modernforge    ModernToken
  pkg/edition/java/lite/util.go         ClearVirtualHost
  pkg/util/netutil                      Host / splitHostPort (incl. net.SplitHostPort, transcribed exactly)
  encoding/json                         Marshal of []profile.Property (string escaping transcribed exactly)

Go strings are byte strings (`Bytes`).  Address hooks are arbitrary functions.
-/
namespace Gate.C19
open Gate

/-! ## byte-string helpers (strings.Split / HasPrefix / Index on a single-byte or short separator) -/

def NUL : UInt8 := 0

/-- `strings.Split(s, sep)` for a one-byte separator: always at least one part -/
def splitOn1 (sep : UInt8) : Bytes → List Bytes
  | [] => [[]]
  | b :: r =>
    if b = sep then [] :: splitOn1 sep r
    else match splitOn1 sep r with
      | [] => [[b]]          -- unreachable: the result is never empty
      | p :: ps => (b :: p) :: ps

/-- `strings.SplitN(s, "\x00", 2)[0]` = `strings.Split(s, "\x00")[0]`: everything before the first NUL -/
def beforeNul (s : Bytes) : Bytes := s.takeWhile (· ≠ NUL)

def hasPrefix (p s : Bytes) : Bool := p.isPrefixOf s

/-- `strings.Index(s, sep) ≥ 0` -/
def containsSub (sep : Bytes) : Bytes → Bool
  | [] => sep.isEmpty
  | b :: r => sep.isPrefixOf (b :: r) || containsSub sep r

/-- `strings.Split(s, sep)[0]` for an arbitrary non-empty separator: everything before its first occurrence -/
def beforeSub (sep : Bytes) : Bytes → Bytes
  | [] => []
  | b :: r => if sep.isPrefixOf (b :: r) then [] else b :: beforeSub sep r

def str (s : String) : Bytes := s.toList.map (fun c => UInt8.ofNat c.toNat)   -- ASCII literals only

/-! ## net.SplitHostPort and netutil.Host -/

inductive SplitErr where
  | missingPort | tooManyColons | other
  deriving DecidableEq, Repr

def COLON : UInt8 := 58
def LBR : UInt8 := 91
def RBR : UInt8 := 93

/-- `strings.LastIndexByte(s, c)`, if any -/
def lastIndexOf (c : UInt8) : Bytes → Option Nat
  | [] => none
  | b :: r =>
    match lastIndexOf c r with
    | some i => some (i + 1)
    | none => if b = c then some 0 else none

def indexOf? (c : UInt8) (s : Bytes) : Option Nat :=
  let i := s.idxOf c
  if i < s.length then some i else none

/-- `net.SplitHostPort(hostport)`: host part, or the error class (port text is not needed here) -/
def splitHostPort (hp : Bytes) : Except SplitErr (Bytes × Bytes) :=
  match lastIndexOf COLON hp with
  | none => .error .missingPort
  | some i =>
    if hp.head? = some LBR then
      match indexOf? RBR hp with
      | none => .error .other                                  -- missing ']' in address
      | some e =>
        if e + 1 = hp.length then .error .missingPort
        else if e + 1 = i then
          let host := (hp.take e).drop 1
          if (hp.drop 1).contains LBR then .error .other       -- unexpected '['
          else if (hp.drop (e + 1)).contains RBR then .error .other   -- unexpected ']'
          else .ok (host, hp.drop (i + 1))
        else if hp.getD (e + 1) 0 = COLON then .error .tooManyColons
        else .error .missingPort
    else
      let host := hp.take i
      if host.contains COLON then .error .tooManyColons
      else if hp.contains LBR then .error .other
      else if hp.contains RBR then .error .other
      else .ok (host, hp.drop (i + 1))

/-- `netutil.HostStr(addr)` = first result of gate's `splitHostPort`: on "missing port" / "too many colons"
    the whole input is the host; on any other parse error the host is empty; a non-numeric port does not
    matter for the host. -/
def hostOf (addr : Bytes) : Bytes :=
  match splitHostPort addr with
  | .ok (h, _) => h
  | .error .missingPort => addr
  | .error .tooManyColons => addr
  | .error .other => []

/-! ## lite.ClearVirtualHost -/

def trimDots (s : Bytes) : Bytes := ((s.dropWhile (· = 46)).reverse.dropWhile (· = 46)).reverse

/-- `tcpShieldRealIPSeparator`, regenerated from lite/util.go on every run -/
def realIPSeparator : Bytes := str Gate.Gen.C19.tcpShieldRealIPSeparator

def clearVirtualHost (name : Bytes) : Bytes :=
  trimDots (beforeSub realIPSeparator (beforeNul name))

/-! ## strconv.Atoi / Itoa as used by ModernToken -/

def isDigit (b : UInt8) : Bool := 48 ≤ b && b ≤ 57

inductive UintParse where
  | syntax            -- a non-digit was met before any overflow
  | range             -- the value left uint64 (reported at the digit where it happens, before later characters are looked at)
  | val (n : Nat)

/-- the digit loop of `strconv.ParseUint(s, 10, 64)` -/
def parseUintLoop : Bytes → Nat → UintParse
  | [], n => .val n
  | c :: r, n =>
    if !isDigit c then .syntax
    else if n ≥ 1844674407370955162 then .range                 -- cutoff = MaxUint64/10 + 1
    else
      let n1 := n * 10 + (c.toNat - 48)
      if n1 > 18446744073709551615 then .range else parseUintLoop r n1

/-- `n, _ := strconv.Atoi(s)`: 0 on a syntax error, the clamped value on a range error -/
def atoiOrZero (s : Bytes) : Int :=
  let (neg, ds) := match s with
    | 43 :: r => (false, r)
    | 45 :: r => (true, r)
    | _ => (false, s)
  if ds.isEmpty then 0
  else match parseUintLoop ds 0 with
    | .syntax => 0
    | .range => if neg then -(2 ^ 63 : Int) else (2 ^ 63 - 1 : Int)
    | .val v =>
      if neg then (if v > 2 ^ 63 then -(2 ^ 63 : Int) else -(v : Int))
      else (if v > 2 ^ 63 - 1 then (2 ^ 63 - 1 : Int) else (v : Int))

def natDigits : Nat → Nat → Bytes
  | 0, _ => []
  | fuel + 1, n => if n < 10 then [UInt8.ofNat (48 + n)] else natDigits fuel (n / 10) ++ [UInt8.ofNat (48 + n % 10)]

def itoa (i : Int) : Bytes :=
  if i < 0 then 45 :: natDigits 20 i.natAbs else natDigits 20 i.natAbs

/-! ## Forge tokens -/

def FML2 : Bytes := str "FML2"
def FML3 : Bytes := str "FML3"
/-- `modernforge.Token`, regenerated from the source on every run -/
def FORGE : Bytes := str Gate.Gen.C19.modernForgeToken
/-- `forge.HandshakeHostnameToken` ("\x00FML\x00"), regenerated from the source on every run -/
def legacyForgeToken : Bytes := str Gate.Gen.C19.handshakeHostnameToken

/-- the loop of `ModernToken` over the NUL-separated parts -/
def modernTokenLoop : List Bytes → Int → Except Bytes Int
  | [], nat => .ok nat
  | pt :: rest, nat =>
    if hasPrefix FML2 pt || hasPrefix FML3 pt then .error ([0] ++ pt ++ [0])   -- early return
    else if hasPrefix FORGE pt then
      modernTokenLoop rest (if pt.length > FORGE.length then atoiOrZero (pt.drop FORGE.length) else nat)
    else modernTokenLoop rest nat

/-- `modernforge.ModernToken(hostName)` -/
def modernToken (hostName : Bytes) : Bytes :=
  let nat : Except Bytes Int :=
    if hostName.contains NUL then modernTokenLoop (splitOn1 NUL hostName) 0 else .ok 0
  match nat with
  | .error tok => tok
  | .ok n => if n = 0 then [0] ++ FORGE else [0] ++ FORGE ++ itoa n

inductive ConnType where
  | undetermined | undetermined17 | vanilla | legacyForge | modernForge
  deriving DecidableEq, Repr

/-- `backendHandshakeBaseHost(vHost, connType)` -/
def backendHandshakeBaseHost (vHost : Bytes) (t : ConnType) : Bytes :=
  if t = .legacyForge ∨ t = .modernForge then beforeNul vHost else vHost

/-! ## encoding/json of []profile.Property -/

structure Property where
  name : Bytes
  value : Bytes
  signature : Bytes
  deriving DecidableEq, Repr

def hexLower (n : Nat) : UInt8 := if n < 10 then UInt8.ofNat (48 + n) else UInt8.ofNat (87 + n)

/-- Go's `first` table of unicode/utf8 for a leading byte ≥ 0x80: `(size, lo, hi)` where `lo..hi` is the
    accepted range of the FIRST continuation byte (the others must be 0x80..0xBF); `none` = invalid leader -/
def utf8Lead (x : Nat) : Option (Nat × Nat × Nat) :=
  if 0xC2 ≤ x ∧ x ≤ 0xDF then some (2, 0x80, 0xBF)
  else if x = 0xE0 then some (3, 0xA0, 0xBF)
  else if x = 0xED then some (3, 0x80, 0x9F)
  else if 0xE1 ≤ x ∧ x ≤ 0xEF then some (3, 0x80, 0xBF)
  else if x = 0xF0 then some (4, 0x90, 0xBF)
  else if x = 0xF4 then some (4, 0x80, 0x8F)
  else if 0xF1 ≤ x ∧ x ≤ 0xF3 then some (4, 0x80, 0xBF)
  else none

/-- continuation bytes acceptable after a leader with first-continuation range `lo..hi` -/
def contOk (lo hi : Nat) : Bytes → Bool
  | [] => false
  | c1 :: t => decide (lo ≤ c1.toNat) && decide (c1.toNat ≤ hi) &&
      t.all fun c => decide (0x80 ≤ c.toNat) && decide (c.toNat ≤ 0xBF)

/-- `utf8.DecodeRuneInString` on the head of `s` (head ≥ 0x80): `some (codepoint, size)` for a well-formed
    sequence, `none` for `(RuneError, 1)` -/
def decodeRune (s : Bytes) : Option (Nat × Nat) :=
  match s with
  | [] => none
  | b0 :: rest =>
    match utf8Lead b0.toNat with
    | none => none
    | some (size, lo, hi) =>
      let cs := rest.take (size - 1)
      if cs.length = size - 1 ∧ contOk lo hi cs then
        let lead := if size = 2 then 0xC0 else if size = 3 then 0xE0 else 0xF0
        some (cs.foldl (fun acc c => acc * 64 + (c.toNat - 0x80)) (b0.toNat - lead), size)
      else none

/-- one ASCII byte as `appendString(…, escapeHTML = true)` writes it -/
def jsonEscAscii (b : UInt8) : Bytes :=
  if b = 92 ∨ b = 34 then [92, b]
  else if b = 8 then [92, 98] else if b = 12 then [92, 102] else if b = 10 then [92, 110]
  else if b = 13 then [92, 114] else if b = 9 then [92, 116]
  else if b.toNat < 0x20 ∨ b = 60 ∨ b = 62 ∨ b = 38 then
    [92, 117, 48, 48, hexLower (b.toNat / 16), hexLower (b.toNat % 16)]
  else [b]

/-- the body of a JSON string, fuel = input length -/
def jsonStrBody : Nat → Bytes → Bytes
  | 0, _ => []
  | _ + 1, [] => []
  | fuel + 1, b :: r =>
    if b.toNat < 0x80 then jsonEscAscii b ++ jsonStrBody fuel r
    else match decodeRune (b :: r) with
      | none => str "\\ufffd" ++ jsonStrBody fuel r
      | some (c, size) =>
        if c = 0x2028 ∨ c = 0x2029 then
          [92, 117, 50, 48, 50, hexLower (c % 16)] ++ jsonStrBody fuel (r.drop (size - 1))
        else (b :: r).take size ++ jsonStrBody fuel (r.drop (size - 1))

def jsonString (s : Bytes) : Bytes := [34] ++ jsonStrBody s.length s ++ [34]

/-- `{"name":…,"value":…,"signature":…}` — `signature` has `omitempty` -/
def jsonProperty (p : Property) : Bytes :=
  str "{\"name\":" ++ jsonString p.name ++ str ",\"value\":" ++ jsonString p.value ++
    (if p.signature.isEmpty then [] else str ",\"signature\":" ++ jsonString p.signature) ++ str "}"

def joinComma : List Bytes → Bytes
  | [] => []
  | [x] => x
  | x :: xs => x ++ [44] ++ joinComma xs

/-- `json.Marshal(properties)`: a nil slice is `null` -/
def jsonProps (isNil : Bool) (ps : List Property) : Bytes :=
  if ps.isEmpty ∧ isNil then str "null" else [91] ++ joinComma (ps.map jsonProperty) ++ [93]

/-! ## the address -/

inductive Mode where
  | none | legacy | velocity | bungeeguard
  deriving DecidableEq, Repr

/-- everything `handshakeAddr` reads -/
structure Env where
  mode        : Mode
  bgSecret    : Bytes            -- Forwarding.BungeeGuardSecret
  serverAddr  : Bytes            -- server.ServerInfo().Addr().String()
  remoteAddr  : Bytes            -- player.RemoteAddr().String()
  id          : Bytes            -- profile.ID, 16 bytes
  props       : List Property    -- profile.Properties
  propsNil    : Bool             -- … is a nil slice
  connType    : ConnType         -- player.Type()
  vhostAddr   : Bytes            -- player.virtualHost.String()
  hook1       : Option (Bytes → Bytes)               -- HandshakeAddresser implemented by the registered ServerInfo
  hook2       : Option (Bytes → Except Unit Bytes)   -- Proxy's BackendHandshakeAddresser
  /-- the ServerInfo was registered while Via routes the backend: `Proxy.Register` stores
      `newViaServerInfo(info)`, a wrapper that embeds the ServerInfo INTERFACE (only `Name`/`Addr` are promoted) -/
  viaWrapped  : Bool := false

def undashed (id : Bytes) : Bytes := id.flatMap fun b => [hexLower (b.toNat / 16), hexLower (b.toNat % 16)]

/-- `forgeExtraDataProperty()` -/
def forgeExtraData (e : Env) : Bytes :=
  match e.connType with
  | .modernForge =>
    match (splitOn1 NUL (hostOf e.vhostAddr)).find? (fun pt => hasPrefix FML2 pt || hasPrefix FML3 pt || hasPrefix FORGE pt) with
    | some pt => 1 :: pt
    | none => []
  | .legacyForge => [1, 70, 77, 76, 0]
  | _ => []

def extraDataName : Bytes := str "extraData"
def tokenName : Bytes := str "bungeeguard-token"

/-- the property list both forwarding formats serialise (`withToken` = BungeeGuard) -/
def forwardedProps (e : Env) (withToken : Bool) : List Property :=
  e.props ++ (if forgeExtraData e = [] then [] else [⟨extraDataName, forgeExtraData e, []⟩]) ++
    (if withToken then [⟨tokenName, e.bgSecret, []⟩] else [])

def forwardingAddress (e : Env) (withToken : Bool) : Bytes :=
  let ps := forwardedProps e withToken
  -- the slice stays nil only if nothing was appended to a nil slice
  let isNil := e.propsNil && e.props.isEmpty && ps.isEmpty
  e.serverAddr ++ [0] ++ hostOf e.remoteAddr ++ [0] ++ undashed e.id ++ [0] ++ jsonProps isNil ps

def createLegacyForwardingAddress (e : Env) : Bytes := forwardingAddress e false
def createBungeeGuardForwardingAddress (e : Env) : Bytes := forwardingAddress e true

/-- the `HandshakeAddresser` that the type assertions `ServerInfo().(HandshakeAddresser)` /
    `Server().(HandshakeAddresser)` in `handshakeAddr` find: the Via wrapper does not implement it (and the
    concrete `*registeredServer` never does), so a wrapped server's own hook is invisible -/
def Env.hook1Seen (e : Env) : Option (Bytes → Bytes) := if e.viaWrapped then none else e.hook1

/-- `usedForwarding`: no `HandshakeAddresser` on the server and legacy / bungeeguard mode -/
def usedForwarding (e : Env) : Bool :=
  e.hook1Seen.isNone && (decide (e.mode = .legacy) || decide (e.mode = .bungeeguard))

/-- `vHost` after the `switch s.config().Forwarding.Mode` -/
def forwardedOrHost (e : Env) (vHost : Bytes) : Bytes :=
  if usedForwarding e then
    (if e.mode = .legacy then createLegacyForwardingAddress e else createBungeeGuardForwardingAddress e)
  else vHost

/-- … after `if ha != nil { vHost = ha.HandshakeAddr(vHost, player) }` (this is also `forgeTokenSource`) -/
def afterHook1 (e : Env) (vHost : Bytes) : Bytes :=
  match e.hook1Seen with
  | some f => f (forwardedOrHost e vHost)
  | none => forwardedOrHost e vHost

/-- … after the proxy-wide `BackendHandshakeAddresser`, which is given the base host -/
def afterHook2 (e : Env) (vHost : Bytes) : Except Unit Bytes :=
  match e.hook2 with
  | some g => g (backendHandshakeBaseHost (afterHook1 e vHost) e.connType)
  | none => .ok (afterHook1 e vHost)

/-- the Forge marker handling at the end of `handshakeAddr` -/
def withForgeMarker (e : Env) (v2 forgeTokenSource : Bytes) : Bytes :=
  if e.connType = .legacyForge then v2 ++ legacyForgeToken
  else if e.connType = .modernForge then
    backendHandshakeBaseHost v2 .modernForge ++ modernToken forgeTokenSource
  else v2

/-- `(s *serverConnection) handshakeAddr(vHost, player)`; `.error ()` = the backend addresser failed -/
def handshakeAddr (e : Env) (vHost : Bytes) : Except Unit Bytes :=
  if usedForwarding e then .ok (afterHook1 e vHost)
  else match afterHook2 e vHost with
    | .error () => .error ()
    | .ok v2 => .ok (withForgeMarker e v2 (afterHook1 e vHost))

/-- the virtual host `startHandshake` starts from -/
def playerVHost (e : Env) : Bytes :=
  let h := hostOf e.vhostAddr
  if h = [] then hostOf e.serverAddr else h

/-- `Handshake.ServerAddress` as `startHandshake` computes it -/
def serverAddress (e : Env) : Except Unit Bytes := handshakeAddr e (playerVHost e)

end Gate.C19
