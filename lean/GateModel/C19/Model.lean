import GateModel.Base.Bytes
/-
C19 — model of
  pkg/edition/java/proxy/server.go      handshakeAddr, backendHandshakeBaseHost, createLegacyForwardingAddress,
                                        createBungeeGuardForwardingAddress, forgeExtraDataProperty, and the
                                        "Set handshake ServerAddress" block of startHandshake
  pkg/edition/java/forge/modernforge    ModernToken
  pkg/edition/java/lite/util.go         ClearVirtualHost
  pkg/util/netutil                      Host / splitHostPort (incl. net.SplitHostPort, transcribed exactly)
  encoding/json                         Marshal of []profile.Property (string escaping transcribed exactly)

Go strings are byte strings (`Bytes`).  Address hooks are arbitrary functions.
-/
namespace Gate.C19
open Gate

/-! ## byte-string helpers (strings.Split / HasPrefix / Index on a single-byte or short separator) -/

def NUL : UInt8 := 0

/-- `strings.Split(s, sep)` for a one-byte separator: always at least one part -/
def splitOn1 (sep : UInt8) : Bytes → List Bytes
  | [] => [[]]
  | b :: r =>
    if b = sep then [] :: splitOn1 sep r
    else match splitOn1 sep r with
      | [] => [[b]]          -- unreachable: the result is never empty
      | p :: ps => (b :: p) :: ps

/-- `strings.SplitN(s, "\x00", 2)[0]` = `strings.Split(s, "\x00")[0]`: everything before the first NUL -/
def beforeNul (s : Bytes) : Bytes := s.takeWhile (· ≠ NUL)

def hasPrefix (p s : Bytes) : Bool := p.isPrefixOf s

/-- `strings.Index(s, sep) ≥ 0` -/
def containsSub (sep : Bytes) : Bytes → Bool
  | [] => sep.isEmpty
  | b :: r => sep.isPrefixOf (b :: r) || containsSub sep r

/-- `strings.Split(s, sep)[0]` for an arbitrary non-empty separator: everything before its first occurrence -/
def beforeSub (sep : Bytes) : Bytes → Bytes
  | [] => []
  | b :: r => if sep.isPrefixOf (b :: r) then [] else b :: beforeSub sep r

def str (s : String) : Bytes := s.toList.map (fun c => UInt8.ofNat c.toNat)   -- ASCII literals only

/-! ## net.SplitHostPort and netutil.Host -/

inductive SplitErr where
  | missingPort | tooManyColons | other
  deriving DecidableEq, Repr

def COLON : UInt8 := 58
def LBR : UInt8 := 91
def RBR : UInt8 := 93

/-- index of the last `c`, if any -/
def lastIndexOf (c : UInt8) (s : Bytes) : Option Nat :=
  (s.zipIdx.foldl (fun acc (p : UInt8 × Nat) => if p.1 = c then some p.2 else acc) none)

def indexOf? (c : UInt8) (s : Bytes) : Option Nat :=
  let i := s.idxOf c
  if i < s.length then some i else none

/-- `net.SplitHostPort(hostport)`: host part, or the error class (port text is not needed here) -/
def splitHostPort (hp : Bytes) : Except SplitErr (Bytes × Bytes) :=
  match lastIndexOf COLON hp with
  | none => .error .missingPort
  | some i =>
    if hp.head? = some LBR then
      match indexOf? RBR hp with
      | none => .error .other                                  -- missing ']' in address
      | some e =>
        if e + 1 = hp.length then .error .missingPort
        else if e + 1 = i then
          let host := (hp.take e).drop 1
          if (hp.drop 1).contains LBR then .error .other       -- unexpected '['
          else if (hp.drop (e + 1)).contains RBR then .error .other   -- unexpected ']'
          else .ok (host, hp.drop (i + 1))
        else if hp.getD (e + 1) 0 = COLON then .error .tooManyColons
        else .error .missingPort
    else
      let host := hp.take i
      if host.contains COLON then .error .tooManyColons
      else if hp.contains LBR then .error .other
      else if hp.contains RBR then .error .other
      else .ok (host, hp.drop (i + 1))

/-- `netutil.HostStr(addr)` = first result of gate's `splitHostPort`: on "missing port" / "too many colons"
    the whole input is the host; on any other parse error the host is empty; a non-numeric port does not
    matter for the host. -/
def hostOf (addr : Bytes) : Bytes :=
  match splitHostPort addr with
  | .ok (h, _) => h
  | .error .missingPort => addr
  | .error .tooManyColons => addr
  | .error .other => []

/-! ## lite.ClearVirtualHost -/

def trimDots (s : Bytes) : Bytes := ((s.dropWhile (· = 46)).reverse.dropWhile (· = 46)).reverse

def clearVirtualHost (name : Bytes) : Bytes :=
  trimDots (beforeSub (str "///") (beforeNul name))

/-! ## strconv.Atoi / Itoa as used by ModernToken -/

def isDigit (b : UInt8) : Bool := 48 ≤ b && b ≤ 57

def digitsVal (ds : Bytes) : Nat := ds.foldl (fun acc d => acc * 10 + (d.toNat - 48)) 0

/-- `n, _ := strconv.Atoi(s)`: 0 on a syntax error, the clamped value on a range error -/
def atoiOrZero (s : Bytes) : Int :=
  let (neg, ds) := match s with
    | 43 :: r => (false, r)
    | 45 :: r => (true, r)
    | _ => (false, s)
  if ds.isEmpty || !ds.all isDigit then 0
  else
    let v := digitsVal ds
    if neg then (if v > 2 ^ 63 then -(2 ^ 63 : Int) else -(v : Int))
    else (if v > 2 ^ 63 - 1 then (2 ^ 63 - 1 : Int) else (v : Int))

def natDigits : Nat → Nat → Bytes
  | 0, _ => []
  | fuel + 1, n => if n < 10 then [UInt8.ofNat (48 + n)] else natDigits fuel (n / 10) ++ [UInt8.ofNat (48 + n % 10)]

def itoa (i : Int) : Bytes :=
  if i < 0 then 45 :: natDigits 20 i.natAbs else natDigits 20 i.natAbs

/-! ## Forge tokens -/

def FML2 : Bytes := str "FML2"
def FML3 : Bytes := str "FML3"
def FORGE : Bytes := str "FORGE"
/-- `forge.HandshakeHostnameToken` = "\x00FML\x00" -/
def legacyForgeToken : Bytes := [0, 70, 77, 76, 0]

/-- the loop of `ModernToken` over the NUL-separated parts -/
def modernTokenLoop : List Bytes → Int → Except Bytes Int
  | [], nat => .ok nat
  | pt :: rest, nat =>
    if hasPrefix FML2 pt || hasPrefix FML3 pt then .error ([0] ++ pt ++ [0])   -- early return
    else if hasPrefix FORGE pt then
      modernTokenLoop rest (if pt.length > FORGE.length then atoiOrZero (pt.drop FORGE.length) else nat)
    else modernTokenLoop rest nat

/-- `modernforge.ModernToken(hostName)` -/
def modernToken (hostName : Bytes) : Bytes :=
  let nat : Except Bytes Int :=
    if hostName.contains NUL then modernTokenLoop (splitOn1 NUL hostName) 0 else .ok 0
  match nat with
  | .error tok => tok
  | .ok n => if n = 0 then [0] ++ FORGE else [0] ++ FORGE ++ itoa n

inductive ConnType where
  | undetermined | undetermined17 | vanilla | legacyForge | modernForge
  deriving DecidableEq, Repr

/-- `backendHandshakeBaseHost(vHost, connType)` -/
def backendHandshakeBaseHost (vHost : Bytes) (t : ConnType) : Bytes :=
  if t = .legacyForge ∨ t = .modernForge then beforeNul vHost else vHost

/-! ## encoding/json of []profile.Property -/

structure Property where
  name : Bytes
  value : Bytes
  signature : Bytes
  deriving DecidableEq, Repr

def hexLower (n : Nat) : UInt8 := if n < 10 then UInt8.ofNat (48 + n) else UInt8.ofNat (87 + n)

/-- `utf8.DecodeRuneInString` on the head of `s` (`s ≠ []`, head ≥ 0x80): `some (codepoint, size)` for a
    well-formed sequence, `none` for `(RuneError, 1)`. Go's acceptance ranges. -/
def decodeRune (s : Bytes) : Option (Nat × Nat) :=
  let cont (b : UInt8) (lo hi : Nat) : Bool := lo ≤ b.toNat && b.toNat ≤ hi
  match s with
  | b0 :: rest =>
    let x := b0.toNat
    if 0xC2 ≤ x ∧ x ≤ 0xDF then
      match rest with
      | b1 :: _ => if cont b1 0x80 0xBF then some ((x - 0xC0) * 64 + (b1.toNat - 0x80), 2) else none
      | _ => none
    else if 0xE0 ≤ x ∧ x ≤ 0xEF then
      let lo := if x = 0xE0 then 0xA0 else 0x80
      let hi := if x = 0xED then 0x9F else 0xBF
      match rest with
      | b1 :: b2 :: _ =>
        if cont b1 lo hi && cont b2 0x80 0xBF then
          some ((x - 0xE0) * 4096 + (b1.toNat - 0x80) * 64 + (b2.toNat - 0x80), 3) else none
      | _ => none
    else if 0xF0 ≤ x ∧ x ≤ 0xF4 then
      let lo := if x = 0xF0 then 0x90 else 0x80
      let hi := if x = 0xF4 then 0x8F else 0xBF
      match rest with
      | b1 :: b2 :: b3 :: _ =>
        if cont b1 lo hi && cont b2 0x80 0xBF && cont b3 0x80 0xBF then
          some ((x - 0xF0) * 262144 + (b1.toNat - 0x80) * 4096 + (b2.toNat - 0x80) * 64 + (b3.toNat - 0x80), 4)
        else none
      | _ => none
    else none
  | [] => none

/-- one ASCII byte as `appendString(…, escapeHTML = true)` writes it -/
def jsonEscAscii (b : UInt8) : Bytes :=
  if b = 92 ∨ b = 34 then [92, b]
  else if b = 8 then [92, 98] else if b = 12 then [92, 102] else if b = 10 then [92, 110]
  else if b = 13 then [92, 114] else if b = 9 then [92, 116]
  else if b.toNat < 0x20 ∨ b = 60 ∨ b = 62 ∨ b = 38 then
    [92, 117, 48, 48, hexLower (b.toNat / 16), hexLower (b.toNat % 16)]
  else [b]

/-- the body of a JSON string, fuel = input length -/
def jsonStrBody : Nat → Bytes → Bytes
  | 0, _ => []
  | _ + 1, [] => []
  | fuel + 1, b :: r =>
    if b.toNat < 0x80 then jsonEscAscii b ++ jsonStrBody fuel r
    else match decodeRune (b :: r) with
      | none => str "\\ufffd" ++ jsonStrBody fuel r
      | some (c, size) =>
        if c = 0x2028 ∨ c = 0x2029 then
          [92, 117, 50, 48, 50, hexLower (c % 16)] ++ jsonStrBody fuel (r.drop (size - 1))
        else (b :: r).take size ++ jsonStrBody fuel (r.drop (size - 1))

def jsonString (s : Bytes) : Bytes := [34] ++ jsonStrBody s.length s ++ [34]

/-- `{"name":…,"value":…,"signature":…}` — `signature` has `omitempty` -/
def jsonProperty (p : Property) : Bytes :=
  str "{\"name\":" ++ jsonString p.name ++ str ",\"value\":" ++ jsonString p.value ++
    (if p.signature.isEmpty then [] else str ",\"signature\":" ++ jsonString p.signature) ++ str "}"

def joinComma : List Bytes → Bytes
  | [] => []
  | [x] => x
  | x :: xs => x ++ [44] ++ joinComma xs

/-- `json.Marshal(properties)`: a nil slice is `null` -/
def jsonProps (isNil : Bool) (ps : List Property) : Bytes :=
  if ps.isEmpty ∧ isNil then str "null" else [91] ++ joinComma (ps.map jsonProperty) ++ [93]

/-! ## the address -/

inductive Mode where
  | none | legacy | velocity | bungeeguard
  deriving DecidableEq, Repr

/-- everything `handshakeAddr` reads -/
structure Env where
  mode        : Mode
  bgSecret    : Bytes            -- Forwarding.BungeeGuardSecret
  serverAddr  : Bytes            -- server.ServerInfo().Addr().String()
  remoteAddr  : Bytes            -- player.RemoteAddr().String()
  id          : Bytes            -- profile.ID, 16 bytes
  props       : List Property    -- profile.Properties
  propsNil    : Bool             -- … is a nil slice
  connType    : ConnType         -- player.Type()
  vhostAddr   : Bytes            -- player.virtualHost.String()
  hook1       : Option (Bytes → Bytes)               -- HandshakeAddresser (ServerInfo or RegisteredServer)
  hook2       : Option (Bytes → Except Unit Bytes)   -- Proxy's BackendHandshakeAddresser

def undashed (id : Bytes) : Bytes := id.flatMap fun b => [hexLower (b.toNat / 16), hexLower (b.toNat % 16)]

/-- `forgeExtraDataProperty()` -/
def forgeExtraData (e : Env) : Bytes :=
  match e.connType with
  | .modernForge =>
    match (splitOn1 NUL (hostOf e.vhostAddr)).find? (fun pt => hasPrefix FML2 pt || hasPrefix FML3 pt || hasPrefix FORGE pt) with
    | some pt => 1 :: pt
    | none => []
  | .legacyForge => [1, 70, 77, 76, 0]
  | _ => []

def extraDataName : Bytes := str "extraData"
def tokenName : Bytes := str "bungeeguard-token"

/-- the property list both forwarding formats serialise (`withToken` = BungeeGuard) -/
def forwardedProps (e : Env) (withToken : Bool) : List Property :=
  e.props ++ (if forgeExtraData e = [] then [] else [⟨extraDataName, forgeExtraData e, []⟩]) ++
    (if withToken then [⟨tokenName, e.bgSecret, []⟩] else [])

def forwardingAddress (e : Env) (withToken : Bool) : Bytes :=
  let ps := forwardedProps e withToken
  -- the slice stays nil only if nothing was appended to a nil slice
  let isNil := e.propsNil && e.props.isEmpty && ps.isEmpty
  e.serverAddr ++ [0] ++ hostOf e.remoteAddr ++ [0] ++ undashed e.id ++ [0] ++ jsonProps isNil ps

def createLegacyForwardingAddress (e : Env) : Bytes := forwardingAddress e false
def createBungeeGuardForwardingAddress (e : Env) : Bytes := forwardingAddress e true

/-- `(s *serverConnection) handshakeAddr(vHost, player)`; `.error ()` = the backend addresser failed -/
def handshakeAddr (e : Env) (vHost : Bytes) : Except Unit Bytes :=
  let usedForwarding := e.hook1.isNone && (e.mode = .legacy || e.mode = .bungeeguard)
  let v0 :=
    match e.hook1 with
    | some _ => vHost
    | none =>
      match e.mode with
      | .legacy => createLegacyForwardingAddress e
      | .bungeeguard => createBungeeGuardForwardingAddress e
      | _ => vHost
  let v1 := match e.hook1 with
    | some f => f v0
    | none => v0
  let forgeTokenSource := v1
  if usedForwarding then .ok v1
  else
    let r2 : Except Unit Bytes := match e.hook2 with
      | some g => g (backendHandshakeBaseHost v1 e.connType)
      | none => .ok v1
    match r2 with
    | .error () => .error ()
    | .ok v2 =>
      if e.connType = .legacyForge then .ok (v2 ++ legacyForgeToken)
      else if e.connType = .modernForge then
        .ok (backendHandshakeBaseHost v2 .modernForge ++ modernToken forgeTokenSource)
      else .ok v2

/-- the virtual host `startHandshake` starts from -/
def playerVHost (e : Env) : Bytes :=
  let h := hostOf e.vhostAddr
  if h = [] then hostOf e.serverAddr else h

/-- `Handshake.ServerAddress` as `startHandshake` computes it -/
def serverAddress (e : Env) : Except Unit Bytes := handshakeAddr e (playerVHost e)

end Gate.C19
