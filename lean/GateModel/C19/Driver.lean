import GateModel.Base.Line
import GateModel.C19.Spec
/-
C19 driver.  One case per line:

  addr <mode> <bgSecret> <serverAddr> <remoteAddr> <ipText> <uuid> <propsNil> <props> <connType> <vhostAddr> <hook1> <hook2> <reg>

byte strings hex (`-` empty); <props> = `_` or `name,value,sig;…`; hooks: `-` | id | pre:<hex> | app:<hex> |
const:<hex> | drop | err.  Model output: `ok <hex of Handshake.ServerAddress>` | `err`.

Spec verdict on the IMPLEMENTATION's address:
  * no forwarding format in use, hooks that keep the first part (none / id / app): the first NUL-separated
    part must be the first part of the host the client sent (judged when that host is unambiguous: the
    virtual-host address is `<host>:<digits>` whose first part is non-empty and free of `:`, `[`, `]`) and
    `ClearVirtualHost` of the result must equal `ClearVirtualHost` of the client's host;
  * legacy / bungeeguard format: a BungeeCord backend's parser must recover exactly the backend address, the
    player's IP text, the UUID and the property list (+ extraData, + token last), judged when no component
    contains NUL and all property strings are valid UTF-8 (JSON cannot carry other byte strings).
-/
namespace Gate.C19
open Gate Gate.C19.Spec

def parseProps (s : String) : Option (List Property) :=
  if s = "_" then some [] else
  (s.splitOn ";").mapM fun e => match e.splitOn "," with
    | [a, b, c] => do pure ⟨← parseHex a, ← parseHex b, ← parseHex c⟩
    | _ => none

def parseMode : String → Option Mode
  | "none" => some .none | "legacy" => some .legacy | "velocity" => some .velocity
  | "bungeeguard" => some .bungeeguard | _ => none

def parseConnType : String → Option ConnType
  | "undetermined" => some .undetermined | "undetermined17" => some .undetermined17
  | "vanilla" => some .vanilla | "legacyforge" => some .legacyForge | "modernforge" => some .modernForge
  | _ => none

/-- the harness's hook language -/
inductive Hook where
  | none | id | pre (a : Bytes) | app (a : Bytes) | const (a : Bytes) | drop | err

def parseHook (s : String) : Option Hook :=
  if s = "-" then some .none else if s = "id" then some .id else if s = "drop" then some .drop
  else if s = "err" then some .err
  else match s.splitOn ":" with
    | ["pre", h] => (parseHex h).map .pre
    | ["app", h] => (parseHex h).map .app
    | ["const", h] => (parseHex h).map .const
    | _ => none

def afterFirstNul : Bytes → Bytes
  | [] => []
  | b :: r => if b = 0 then r else afterFirstNul r

def Hook.fn : Hook → Option (Bytes → Except Unit Bytes)
  | .none => Option.none
  | .id => some fun v => .ok v
  | .pre a => some fun v => .ok (a ++ v)
  | .app a => some fun v => .ok (v ++ a)
  | .const a => some fun _ => .ok a
  | .drop => some fun v => .ok (afterFirstNul v)
  | .err => some fun _ => .error ()

/-- hooks of the harness language that honour the "keep the first part" contract for every input -/
def Hook.keepsFirst : Hook → Bool
  | .none | .id => true
  | .app a => a.isEmpty || a.head? = some 0
  | _ => false

/-- strip a trailing `:<digits>` (what the handshake handler appended), if present -/
def stripPort (s : Bytes) : Option Bytes :=
  let r := s.reverse
  let ds := r.takeWhile isDigit
  match r.drop ds.length with
  | 58 :: rest => if ds.isEmpty then none else some rest.reverse
  | _ => none

def step (c : Case) : String × String :=
  match c.op, c.args with
  | "addr", [mode, bg, srv, rem, ipText, id, nilF, props, ct, vh, h1, h2, reg] =>
    match parseMode mode, parseHex bg, parseHex srv, parseHex rem, parseHex ipText, parseHex id, parseProps props,
          parseConnType ct, parseHex vh, parseHook h1, parseHook h2 with
    | some mode, some bg, some srv, some rem, some ipText, some id, some props, some ct, some vh, some h1, some h2 =>
      let e : Env := { mode := mode, bgSecret := bg, serverAddr := srv, remoteAddr := rem, id := id, props := props,
                       propsNil := nilF = "1", connType := ct, vhostAddr := vh,
                       hook1 := h1.fn.map fun f v => match f v with | .ok x => x | .error _ => [],
                       hook2 := h2.fn,
                       -- `direct`/`plain`: the ServerInfo itself; `via`: registered while Via routes the backend
                       viaWrapped := reg = "via" }
      let out := match serverAddress e with
        | .ok a => "ok " ++ toHex a
        | .error _ => "err"
      -- verdict on the implementation's output
      let verdict : String :=
        if !c.impl.startsWith "ok " then "-" else
        match parseHex (c.impl.drop 3).toString with
        | none => "viol:unreadable"
        | some r =>
          if usedForwarding e then
            let want := forwardedProps e (mode = .bungeeguard)
            if srv.contains 0 || ipText.contains 0 || !(want.all propOk) then "-" else
            match bungeeParse r with
            | none => "viol:forwarding-unparseable"
            | some f =>
              let wantProps : Option (List Property) := if want.isEmpty ∧ e.propsNil then none else some want
              if f.host = srv ∧ f.ip = ipText ∧ f.uuid = id ∧ f.props = wantProps then "ok"
              else "viol:forwarding-fields"
          else if (reg = "via" || h1.keepsFirst) && h2.keepsFirst then
            match stripPort vh with
            | none => "-"
            | some sa =>
              let first := beforeNul sa
              if first.isEmpty || first.contains 58 || first.contains 91 || first.contains 93 then "-"
              else if beforeNul r = first ∧ clearVirtualHost r = clearVirtualHost sa then "ok"
              -- a `[` / `]` in a LATER NUL part (and no `:` anywhere) makes netutil.Host fail, the virtual host
              -- counts as empty and the backend's own host is sent instead: recorded finding, own signature
              else if !sa.contains 58 && (sa.contains 91 || sa.contains 93) then "viol:host-replaced-on-bracket"
              else "viol:host-first"
          else "-"
      (out, verdict)
    | _, _, _, _, _, _, _, _, _, _, _ => ("bad-op", "-")
  | _, _ => ("bad-op", "-")

end Gate.C19

def main : IO Unit := Gate.runPureDriver Gate.C19.step
