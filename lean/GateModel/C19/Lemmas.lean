import GateModel.C19.Spec
/-
C19 — helper lemmas: the first NUL-separated part under appending, Forge tokens start with NUL,
splitting of the forwarding address, hex of the UUID, NUL-freeness of the JSON text.
-/
namespace Gate.C19
open Gate Gate.C19.Spec

/-! ## first part -/

theorem beforeNul_append_nul (a t : Bytes) : beforeNul (a ++ NUL :: t) = beforeNul a := by
  unfold beforeNul
  induction a with
  | nil => simp [List.takeWhile]
  | cons x xs ih =>
    simp only [List.cons_append, List.takeWhile_cons]
    split
    · rw [ih]
    · rfl

theorem beforeNul_idem (a : Bytes) : beforeNul (beforeNul a) = beforeNul a := by
  unfold beforeNul
  induction a with
  | nil => rfl
  | cons x xs ih =>
    simp only [List.takeWhile_cons]
    split
    · rename_i h; simp only [List.takeWhile_cons, h, if_true, ih]
    · rfl

theorem beforeNul_no_nul (a : Bytes) : NUL ∉ beforeNul a := by
  unfold beforeNul
  induction a with
  | nil => simp
  | cons x xs ih =>
    simp only [List.takeWhile_cons]
    split
    · rename_i h
      simp only [ne_eq, decide_eq_true_eq] at h
      intro hm
      simp only [List.mem_cons] at hm
      rcases hm with hm | hm
      · exact h hm.symm
      · exact ih hm
    · simp

theorem beforeNul_of_no_nul (a : Bytes) (h : NUL ∉ a) : beforeNul a = a := by
  unfold beforeNul
  induction a with
  | nil => rfl
  | cons x xs ih =>
    have hx : x ≠ NUL := fun hx => h (by simp [hx])
    have hxs : NUL ∉ xs := fun hm => h (by simp [hm])
    simp only [List.takeWhile_cons, ne_eq, hx, not_false_eq_true, decide_true, if_true, ih hxs]

theorem beforeNul_append_of_no_nul (a t : Bytes) (h : NUL ∉ a) :
    beforeNul (a ++ NUL :: t) = a := by
  rw [beforeNul_append_nul, beforeNul_of_no_nul a h]

/-- `ClearVirtualHost` looks only at the first NUL-separated part -/
theorem clearVirtualHost_congr (a b : Bytes) (h : beforeNul a = beforeNul b) :
    clearVirtualHost a = clearVirtualHost b := by
  unfold clearVirtualHost; rw [h]

/-! ## Forge tokens begin with NUL -/

theorem modernTokenLoop_error_head (ps : List Bytes) (n : Int) (tok : Bytes)
    (h : modernTokenLoop ps n = .error tok) : ∃ t, tok = NUL :: t := by
  induction ps generalizing n with
  | nil => simp [modernTokenLoop] at h
  | cons pt rest ih =>
    unfold modernTokenLoop at h
    split at h
    · injection h with h; exact ⟨pt ++ [0], by rw [← h]; rfl⟩
    · split at h
      · exact ih _ h
      · exact ih _ h

theorem modernToken_head (hn : Bytes) : ∃ t, modernToken hn = NUL :: t := by
  unfold modernToken
  simp only
  split
  · rename_i tok heq
    split at heq
    · exact modernTokenLoop_error_head _ _ _ heq
    · cases heq
  · split
    · exact ⟨FORGE, rfl⟩
    · exact ⟨FORGE ++ itoa _, rfl⟩

theorem legacyForgeToken_head : legacyForgeToken = NUL :: [70, 77, 76, 0] := by decide

/-! ## the address when no forwarding format is used -/

theorem forwardedOrHost_not_used (e : Env) (vHost : Bytes) (h : usedForwarding e = false) :
    forwardedOrHost e vHost = vHost := by
  unfold forwardedOrHost; simp [h]

/-- Without forwarding: the result is the hook chain's result with a NUL-led Forge marker appended (or
    nothing), the marker never displacing the first part. -/
theorem handshakeAddr_no_forwarding (e : Env) (vHost r : Bytes) (hnf : usedForwarding e = false)
    (h : handshakeAddr e vHost = .ok r) :
    ∃ v2, afterHook2 e vHost = .ok v2 ∧ beforeNul r = beforeNul v2 := by
  unfold handshakeAddr at h
  simp only [hnf, Bool.false_eq_true, if_false] at h
  cases h2 : afterHook2 e vHost with
  | error u => rw [h2] at h; cases u; simp at h
  | ok v2 =>
    rw [h2] at h
    refine ⟨v2, rfl, ?_⟩
    simp only [Except.ok.injEq] at h
    subst h
    unfold withForgeMarker
    split
    · rw [legacyForgeToken_head, beforeNul_append_nul]
    · split
      · obtain ⟨t, ht⟩ := modernToken_head (afterHook1 e vHost)
        rw [ht, beforeNul_append_nul]
        unfold backendHandshakeBaseHost
        simp [beforeNul_idem]
      · rfl

/-- contract of a `HandshakeAddresser`: keeps the first NUL-separated part of what it is given -/
def KeepsFirst (f : Bytes → Bytes) : Prop := ∀ v, beforeNul (f v) = beforeNul v
/-- contract of a `BackendHandshakeAddresser` -/
def KeepsFirst2 (g : Bytes → Except Unit Bytes) : Prop := ∀ b v, g b = .ok v → beforeNul v = beforeNul b

def HooksKeepFirst (e : Env) : Prop :=
  (∀ f, e.hook1Seen = some f → KeepsFirst f) ∧ (∀ g, e.hook2 = some g → KeepsFirst2 g)

theorem baseHost_first (v : Bytes) (t : ConnType) : beforeNul (backendHandshakeBaseHost v t) = beforeNul v := by
  unfold backendHandshakeBaseHost
  split
  · exact beforeNul_idem v
  · rfl

theorem afterHook2_first (e : Env) (vHost v2 : Bytes) (hnf : usedForwarding e = false)
    (hk : HooksKeepFirst e) (h : afterHook2 e vHost = .ok v2) : beforeNul v2 = beforeNul vHost := by
  have h1 : beforeNul (afterHook1 e vHost) = beforeNul vHost := by
    unfold afterHook1
    rw [forwardedOrHost_not_used e vHost hnf]
    cases hh : e.hook1Seen with
    | some f => exact hk.1 f hh vHost
    | none => rfl
  unfold afterHook2 at h
  cases hg : e.hook2 with
  | some g =>
    rw [hg] at h
    rw [hk.2 g hg _ _ h, baseHost_first, h1]
  | none =>
    rw [hg] at h
    injection h with h; subst h; exact h1

/-! ## splitting the forwarding address -/

theorem splitOn1_ne_nil (sep : UInt8) (s : Bytes) : splitOn1 sep s ≠ [] := by
  induction s with
  | nil => simp [splitOn1]
  | cons b r ih =>
    unfold splitOn1
    split
    · simp
    · split
      · simp
      · simp

theorem splitOn1_cons_ne (sep b : UInt8) (r p : Bytes) (ps : List Bytes) (hb : b ≠ sep)
    (h : splitOn1 sep r = p :: ps) : splitOn1 sep (b :: r) = (b :: p) :: ps := by
  rw [splitOn1, if_neg hb, h]

theorem splitOn1_cons_eq (sep : UInt8) (r : Bytes) : splitOn1 sep (sep :: r) = [] :: splitOn1 sep r := by
  rw [splitOn1]; simp

theorem splitOn1_no_sep (sep : UInt8) (s : Bytes) (h : sep ∉ s) : splitOn1 sep s = [s] := by
  induction s with
  | nil => rfl
  | cons b r ih =>
    have hb : b ≠ sep := fun hb => h (by simp [hb])
    have hr : sep ∉ r := fun hr => h (by simp [hr])
    exact splitOn1_cons_ne _ _ _ _ _ hb (ih hr)

theorem splitOn1_append (sep : UInt8) (a rest : Bytes) (h : sep ∉ a) :
    splitOn1 sep (a ++ sep :: rest) = a :: splitOn1 sep rest := by
  induction a with
  | nil => simp [splitOn1_cons_eq]
  | cons b r ih =>
    have hb : b ≠ sep := fun hb => h (by simp [hb])
    have hr : sep ∉ r := fun hr => h (by simp [hr])
    simp only [List.cons_append]
    exact splitOn1_cons_ne _ _ _ _ _ hb (ih hr)

theorem split_four (a b c d : Bytes) (ha : NUL ∉ a) (hb : NUL ∉ b) (hc : NUL ∉ c) (hd : NUL ∉ d) :
    splitOn1 NUL (a ++ [0] ++ b ++ [0] ++ c ++ [0] ++ d) = [a, b, c, d] := by
  have : a ++ [0] ++ b ++ [0] ++ c ++ [0] ++ d = a ++ NUL :: (b ++ NUL :: (c ++ NUL :: d)) := by
    simp [NUL]
  rw [this, splitOn1_append _ _ _ ha, splitOn1_append _ _ _ hb, splitOn1_append _ _ _ hc,
    splitOn1_no_sep _ _ hd]

/-! ## the undashed UUID -/

theorem hexVal_hexLower (n : Nat) (h : n < 16) : hexVal (hexLower n) = some n := by
  have : ∀ m : Fin 16, hexVal (hexLower m.val) = some m.val := by decide
  exact this ⟨n, h⟩

theorem hexLower_ne_nul (n : Nat) (h : n < 16) : hexLower n ≠ NUL := by
  have : ∀ m : Fin 16, hexLower m.val ≠ NUL := by decide
  exact this ⟨n, h⟩

theorem undashed_no_nul (id : Bytes) : NUL ∉ undashed id := by
  unfold undashed
  intro h
  rw [List.mem_flatMap] at h
  obtain ⟨b, _, hb⟩ := h
  simp only [List.mem_cons, List.not_mem_nil, or_false] at hb
  have h1 : b.toNat / 16 < 16 := by have := b.toNat_lt; omega
  have h2 : b.toNat % 16 < 16 := by omega
  rcases hb with hb | hb
  · exact hexLower_ne_nul _ h1 hb.symm
  · exact hexLower_ne_nul _ h2 hb.symm

theorem undashed_length (id : Bytes) : (undashed id).length = 2 * id.length := by
  unfold undashed
  induction id with
  | nil => rfl
  | cons b r ih => simp only [List.flatMap_cons, List.length_append, List.length_cons, List.length_nil, ih]; omega

theorem unhex_undashed (id : Bytes) : unhexPairs (undashed id) = some id := by
  unfold undashed
  induction id with
  | nil => rfl
  | cons b r ih =>
    have h1 : b.toNat / 16 < 16 := by have := b.toNat_lt; omega
    have h2 : b.toNat % 16 < 16 := by omega
    simp only [List.flatMap_cons, List.cons_append, List.nil_append, unhexPairs,
      hexVal_hexLower _ h1, hexVal_hexLower _ h2, ih]
    congr 2
    have : b.toNat / 16 * 16 + b.toNat % 16 = b.toNat := by omega
    rw [this]
    exact UInt8.ofNat_toNat

/-! ## netutil.Host on `<host>:<port>` -/

theorem lastIndexOf_none (c : UInt8) (s : Bytes) (h : c ∉ s) : lastIndexOf c s = none := by
  induction s with
  | nil => rfl
  | cons b r ih =>
    have hb : b ≠ c := fun hb => h (by simp [hb])
    have hr : c ∉ r := fun hr => h (by simp [hr])
    simp [lastIndexOf, ih hr, hb]

theorem lastIndexOf_append (c : UInt8) (a p : Bytes) (hp : c ∉ p) :
    lastIndexOf c (a ++ c :: p) = some a.length := by
  induction a with
  | nil => simp [lastIndexOf, lastIndexOf_none c p hp]
  | cons x a ih => simp [lastIndexOf, ih]

/-- a host without `:`, `[`, `]`, followed by `:` and a port without them, is recovered exactly -/
theorem hostOf_host_port (sa port : Bytes) (h1 : COLON ∉ sa) (h2 : LBR ∉ sa) (h3 : RBR ∉ sa)
    (p1 : COLON ∉ port) (p2 : LBR ∉ port) (p3 : RBR ∉ port) :
    hostOf (sa ++ COLON :: port) = sa := by
  have hhead : (sa ++ COLON :: port).head? ≠ some LBR := by
    cases sa with
    | nil => simp [COLON, LBR]
    | cons x xs =>
      simp only [List.cons_append, List.head?_cons, ne_eq, Option.some.injEq]
      intro hx; exact h2 (by simp [hx])
  have hl : LBR ∉ sa ++ COLON :: port := by
    simp only [List.mem_append, List.mem_cons, not_or]
    exact ⟨h2, by decide, p2⟩
  have hr : RBR ∉ sa ++ COLON :: port := by
    simp only [List.mem_append, List.mem_cons, not_or]
    exact ⟨h3, by decide, p3⟩
  unfold hostOf splitHostPort
  rw [lastIndexOf_append COLON sa port p1]
  simp only [hhead, if_false, List.take_left']
  have e1 : (List.take sa.length (sa ++ COLON :: port)) = sa := List.take_left' rfl
  simp [e1, h1, hl, hr]

/-! ## UTF-8 decoding facts -/

theorem utf8Lead_bounds (x size lo hi : Nat) (h : utf8Lead x = some (size, lo, hi)) :
    0xC2 ≤ x ∧ 2 ≤ size ∧ size ≤ 4 ∧ 0x80 ≤ lo := by
  unfold utf8Lead at h
  repeat' split at h
  all_goals first
    | (simp only [Option.some.injEq, Prod.mk.injEq] at h; omega)
    | (simp at h)

theorem contOk_high (lo hi : Nat) (cs : Bytes) (hlo : 0x80 ≤ lo) (h : contOk lo hi cs = true) :
    ∀ x ∈ cs, 0x80 ≤ x.toNat := by
  cases cs with
  | nil => simp
  | cons c1 t =>
    simp only [contOk, Bool.and_eq_true, decide_eq_true_eq, List.all_eq_true] at h
    intro x hx
    simp only [List.mem_cons] at hx
    rcases hx with rfl | hx
    · omega
    · exact (h.2 x hx).1

theorem decodeRune_high (b : UInt8) (r : Bytes) (c size : Nat) (h : decodeRune (b :: r) = some (c, size)) :
    0x80 ≤ b.toNat ∧ 2 ≤ size ∧ size ≤ 4 ∧ (r.take (size - 1)).length = size - 1 ∧
    ∀ x ∈ r.take (size - 1), 0x80 ≤ x.toNat := by
  unfold decodeRune at h
  simp only at h
  split at h
  · simp at h
  · rename_i sz lo hi hl
    obtain ⟨h1, h2, h3, h4⟩ := utf8Lead_bounds _ _ _ _ hl
    split at h
    · rename_i hc
      simp only [Option.some.injEq, Prod.mk.injEq] at h
      obtain ⟨_, rfl⟩ := h
      exact ⟨by omega, h2, h3, hc.1, contOk_high lo hi _ h4 hc.2⟩
    · simp at h

end Gate.C19
