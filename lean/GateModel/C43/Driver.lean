import GateModel.Base.Line
import GateModel.C43.Model
/-
C43 driver.  One case = one client connection through `Proxy.HandleConn`:
  conn <protocol> <nextState> <online> <showMax> <s|1> <op,op,…>
ops:  R[hex]  status request (+ junk)     P[hex]  ping, hex = bytes after the packet id
      U<id>:<hex>  unregistered packet id  E  empty frame
(`s`/`1`: frames written separately / in one segment — no influence on the model.)
Output: what the client saw: `resp:proto=…,online=…,max=…`, `echo:<hex>` … then `closed` (or `open`).
The verdict is the spec evaluated on the implementation's output: at most one well-formed response, advertised
protocol = client's if supported else newest, online = the player count, echo byte-identical, closed at the end.
-/
namespace Gate.C43
open Gate

def parseOp (s : String) : Option (Option Int × Bytes) :=
  match s.toList with
  | 'E' :: [] => some (none, [])
  | 'R' :: r => (parseHexChars r).map fun d => (some 0, d)
  | 'P' :: r => (parseHexChars r).map fun d => (some 1, d)
  | 'U' :: r => match (String.ofList r).splitOn ":" with
    | [i, h] => do
      let id ← i.toInt?
      let d ← parseHex (if h = "" then "-" else h)
      pure (some id, d)
    | _ => none
  | _ => none

def showOut : Out → String
  | .response p o m => "resp:proto=" ++ toString p ++ ",online=" ++ toString o ++ ",max=" ++ toString m
  | .echo pl => "echo:" ++ toHex pl.tail

def render (r : List Out × Bool) : String :=
  " ".intercalate (r.1.map showOut ++ [if r.2 then "closed" else "open"])

def verdict (e : Env) (expected impl : String) : String :=
  if impl = expected then "ok" else
  let toks := impl.splitOn " "
  let resps := toks.filter (·.startsWith "resp:")
  let wantResp := showOut (.response (advertised e.proto) e.online e.showMax)
  if resps.any (fun t => !t.startsWith "resp:proto=") then "viol:malformed-response"
  else if resps.length > 1 then "viol:multiple-responses"
  else if resps.any (fun t => (t.splitOn ",").head? != (wantResp.splitOn ",").head?) then "viol:advertised-protocol"
  else if resps.any (fun t => (t.splitOn ",").drop 1 |>.head? |> (· != ((wantResp.splitOn ",").drop 1).head?)) then "viol:online-count"
  else if toks.getLast? != some "closed" then "viol:not-closed"
  else if toks.filter (·.startsWith "echo:") != (expected.splitOn " ").filter (·.startsWith "echo:") then "viol:echo-mismatch"
  else "viol:status-sequence"

def step' (c : Case) : String × String :=
  match c.op, c.args with
  | "conn", [ps, ns, os, ms, _w, ops] =>
    match ps.toInt?, ns.toInt?, os.toNat?, ms.toNat? with
    | some p, some n, some o, some m =>
      let frames := (if ops = "_" then [] else ops.splitOn ",").mapM fun s => (parseOp s).map fun x => classify x.1 x.2
      match frames, nextState n with
      | some fs, .login => let _ := fs; ("bad-op", "-")
      | some fs, _ =>
        let e : Env := { proto := p, online := o, showMax := m }
        let expected := render (session e n fs)
        (expected, verdict e expected c.impl)
      | none, _ => ("bad-op", "-")
    | _, _, _, _ => ("bad-op", "-")
  | _, _ => ("bad-op", "-")

end Gate.C43

def main : IO Unit := Gate.runPureDriver Gate.C43.step'
