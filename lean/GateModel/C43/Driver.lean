import GateModel.Base.Line
import GateModel.C43.Model
/-
C43 driver.  One case = one client connection through `Proxy.HandleConn`:
  conn <protocol> <nextState> <online> <showMax> <s|1> <op,op,…>
ops:  R[hex]  status request (+ junk)     P[hex]  ping, hex = bytes after the packet id
      U<id>:<hex>  unregistered packet id  E  empty frame
(`s`/`1`: frames written separately / in one segment — no influence on the model.)
Output: what the client saw: `resp:proto=…,online=…,max=…`, `echo:<hex>` … then `closed` (or `open`).
The verdict is the spec evaluated on the implementation's output: at most one well-formed response, advertised
protocol = client's if supported else newest, online = the player count, echo byte-identical, closed at the end.
`hist` lines (see below) drive the REAL player registry through a register/unregister history and judge the
`players.online` of a status exchange after every step against the number of registered players.
-/
namespace Gate.C43
open Gate

def parseOp (s : String) : Option (Option Int × Bytes) :=
  match s.toList with
  | 'E' :: [] => some (none, [])
  | 'R' :: r => (parseHexChars r).map fun d => (some 0, d)
  | 'P' :: r => (parseHexChars r).map fun d => (some 1, d)
  | 'U' :: r => match (String.ofList r).splitOn ":" with
    | [i, h] => do
      let id ← i.toInt?
      let d ← parseHex (if h = "" then "-" else h)
      pure (some id, d)
    | _ => none
  | _ => none

def showOut : Out → String
  | .response p o m => "resp:proto=" ++ toString p ++ ",online=" ++ toString o ++ ",max=" ++ toString m
  | .echo pl => "echo:" ++ toHex pl.tail

def render (r : List Out × Bool) : String :=
  " ".intercalate (r.1.map showOut ++ [if r.2 then "closed" else "open"])

def verdict (e : Env) (expected impl : String) : String :=
  if impl = expected then "ok" else
  let toks := impl.splitOn " "
  let resps := toks.filter (·.startsWith "resp:")
  let wantResp := showOut (.response (advertised e.proto) e.online e.showMax)
  if resps.any (fun t => !t.startsWith "resp:proto=") then "viol:malformed-response"
  else if resps.length > 1 then "viol:multiple-responses"
  else if resps.any (fun t => (t.splitOn ",").head? != (wantResp.splitOn ",").head?) then "viol:advertised-protocol"
  else if resps.any (fun t => (t.splitOn ",").drop 1 |>.head? |> (· != ((wantResp.splitOn ",").drop 1).head?)) then "viol:online-count"
  else if toks.getLast? != some "closed" then "viol:not-closed"
  else if toks.filter (·.startsWith "echo:") != (expected.splitOn " ").filter (·.startsWith "echo:") then "viol:echo-mismatch"
  else "viol:status-sequence"

def step' (c : Case) : String × String :=
  match c.op, c.args with
  | "conn", [ps, ns, os, ms, _w, ops] =>
    match ps.toInt?, ns.toInt?, os.toNat?, ms.toNat? with
    | some p, some n, some o, some m =>
      let frames := (if ops = "_" then [] else ops.splitOn ",").mapM fun s => (parseOp s).map fun x => classify x.1 x.2
      match frames, nextState n with
      | some fs, .login => let _ := fs; ("bad-op", "-")
      | some fs, _ =>
        let e : Env := { proto := p, online := o, showMax := m }
        let expected := render (session e n fs)
        (expected, verdict e expected c.impl)
      | none, _ => ("bad-op", "-")
    | _, _, _, _ => ("bad-op", "-")
  | "hist", [oms, ks, decls, ops] =>
    -- hist <onlineMode 0/1> <kickExisting 0/1> <name:uuid,…> <r<i>|u<i>,…> : a registry history on a fresh proxy;
    -- after every step one status exchange (players.online) and len(Players()) are observed
    let ds := (decls.splitOn ",").filterMap fun d => match d.splitOn ":" with
      | [n, u] => u.toNat?.map fun u => (n.toLower, u)
      | _ => none
    let a : Attrs := { nameOf := fun c => (ds.getD c ("?", 0)).1, idOf := fun c => (ds.getD c ("?", 0)).2 }
    let rops := (ops.splitOn ",").mapM fun o => match o.toList with
      | 'r' :: r => (String.ofList r).toNat?.map RegOp.reg
      | 'u' :: r => (String.ofList r).toNat?.map RegOp.unreg
      | _ => none
    match rops with
    | some rops =>
      let kick := oms = "1" && ks = "1"
      let states := (List.range rops.length).map fun i => regRun a kick {} (rops.take (i + 1))
      let on := ",".intercalate (states.map fun r => toString (playerCount r))
      let pl := ",".intercalate (states.map fun r => toString r.live.length)
      let expected := "on=" ++ on ++ " pl=" ++ pl
      let implOn := ((c.impl.splitOn " ").head?.getD "").drop 3 |>.toString
      let implPl := (((c.impl.splitOn " ").drop 1).head?.getD "").drop 3 |>.toString
      let v := if implOn != implPl then "viol:online-count"
        else if c.impl = expected then "ok" else "viol:registry-history"
      (expected, v)
    | none => ("bad-op", "-")
  | _, _ => ("bad-op", "-")

end Gate.C43

def main : IO Unit := Gate.runPureDriver Gate.C43.step'
