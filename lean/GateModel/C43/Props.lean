import GateModel.C43.Lemmas
/-
C43 — Server list pings get one well-formed response and an exact echo.

Property theorems only.  `run e s fs` is the list of packets the proxy sends while the status-phase frames `fs`
arrive on a connection in state `s` (`{}` = fresh status handler), for a client whose handshake carried protocol
`e.proto`, while `e.online` players are online.  All theorems hold for every frame sequence, every protocol number
(any `Int`) and every player count; none is bounded.
-/
namespace Gate.C43.Props
open Gate Gate.C43 Gate.Gen.C43

/-! ### exactly one response -/

/-- whatever the client sends, at most one status response is ever written -/
theorem one_response (e : Env) (s : St) (fs : List Frame) : (run e s fs).countP isResponse ≤ 1 :=
  responses_le_one e fs s

/-- a status request arriving on an open connection that has not been answered yet is answered, with the
    advertised protocol and the current player count -/
theorem request_answered (e : Env) (s : St) (ho : s.closed = false) (hr : s.receivedRequest = false) :
    (step e s .request).2 = [.response (e.adv e.proto) e.online e.showMax] ∧ (step e s .request).1.closed = false := by
  simp [step, ho, hr]

/-- up to 11 empty frames before the request do not change that -/
theorem request_answered_after_empties (e : Env) (n : Nat) (hn : n ≤ 11) (rest : List Frame) :
    ∃ tail, run e {} (List.replicate n .empty ++ .request :: rest) =
      .response (e.adv e.proto) e.online e.showMax :: tail := by
  suffices h : ∀ k m, k + m ≤ 11 → ∃ tail, run e { empties := m } (List.replicate k .empty ++ .request :: rest) =
      .response (e.adv e.proto) e.online e.showMax :: tail from by simpa using h n 0 (by omega)
  intro k
  induction k with
  | zero => intro m _; exact ⟨run e { receivedRequest := true } rest, by simp [run, step]⟩
  | succ k ih =>
    intro m hm
    obtain ⟨tail, ht⟩ := ih (m + 1) (by omega)
    refine ⟨tail, ?_⟩
    have : ¬ m > 10 := by omega
    simp [List.replicate_succ, run, step, this, ht]

/-- the advertised protocol is the client's when the proxy supports it and the proxy's newest otherwise
    (unknown, legacy, negative numbers alike) -/
theorem advertised_protocol (p : Int) :
    (p ∈ supported → advertised p = p) ∧ (p ∉ supported → advertised p = maxVersion) := by
  constructor
  · intro h; simp [advertised, h]
  · intro h; simp [advertised, h]

theorem max_is_newest : maxVersion ∈ supported ∧ ∀ q ∈ supported, q ≤ maxVersion := by decide +kernel

/-- the count in the response is the online player count handed to the handler (`Proxy.PlayerCount()`) -/
theorem online_eq_player_count (e : Env) (s : St) (fs : List Frame) (o : Out) (ho : o ∈ run e s fs)
    (hr : isResponse o = true) : o = .response (e.adv e.proto) e.online e.showMax := by
  induction fs generalizing s with
  | nil => simp [run] at ho
  | cons f fs ih =>
    cases hc : s.closed
    · rcases step_cases e s f hc with ⟨s', h1, _, _⟩ | h1 | ⟨_, _, h1⟩ | ⟨pl, _, h1⟩
      · simp only [run, h1, List.nil_append] at ho; exact ih s' ho
      · simp [run, h1, run_closed e (closeSt s) rfl] at ho
      · simp only [run, h1, List.cons_append, List.nil_append, List.mem_cons] at ho
        rcases ho with rfl | ho
        · rfl
        · exact ih _ ho
      · simp [run, h1, run_closed e (closeSt s) rfl] at ho
        subst ho; simp [isResponse] at hr
    · simp [run_closed e s hc] at ho

/-! ### `players.online` after every registry history

The `online` input of the status handler is `Proxy.PlayerCount()`, the size of the UUID index after the
register/unregister history so far.  For every history, in both registry modes, that is the number of players that
are online (registered and neither unregistered nor kicked since). -/

theorem online_eq_registered (a : Attrs) (kick : Bool) (ops : List RegOp) :
    playerCount (regRun a kick {} ops) = (regRun a kick {} ops).live.length := by
  unfold playerCount
  rw [regRun_ids_live a kick ops {} rfl]

/-- end to end in the model: after any registry history a first status request is answered with the number of
    online players -/
theorem status_online_follows_registry (a : Attrs) (kick : Bool) (ops : List RegOp) (p : Int) (m : Nat) :
    (step { proto := p, online := playerCount (regRun a kick {} ops), showMax := m } {} .request).2 =
      [.response (advertised p) (regRun a kick {} ops).live.length m] := by
  simp [step, online_eq_registered]

/-- outside kick mode the name index has the same size (so counting it is harmless there) … -/
theorem count_by_names_ok_without_kick (a : Attrs) (ops : List RegOp) :
    playerCountByNames (regRun a false {} ops) = (regRun a false {} ops).live.length := by
  unfold playerCountByNames
  rw [regRun_names_ids_nokick a ops {} rfl, regRun_ids_live a false ops {} rfl]

/-- … but in kick mode it is wrong: two online players with different UUIDs and the same lower-cased name are
    counted as 1, and as 0 after the later one left while 1 is still online -/
theorem count_by_names_fails :
    let a : Attrs := { nameOf := fun _ => "x", idOf := fun c => c }
    playerCountByNames (regRun a true {} [.reg 0, .reg 1]) = 1 ∧ (regRun a true {} [.reg 0, .reg 1]).live.length = 2 ∧
    playerCountByNames (regRun a true {} [.reg 0, .reg 1, .unreg 1]) = 0 ∧
      (regRun a true {} [.reg 0, .reg 1, .unreg 1]).live.length = 1 := by decide

/-! ### the ping: byte-identical echo, then close -/

theorem echo_identical_then_close (e : Env) (s : St) (ho : s.closed = false) (payload : Bytes) (fs : List Frame) :
    run e s (.ping payload :: fs) = [.echo payload] ∧ (finalSt e s (.ping payload :: fs)).closed = true := by
  have h : step e s (.ping payload) = (closeSt s, [.echo payload]) := by simp [step, ho]
  constructor
  · simp [run, h, run_closed e (closeSt s) rfl]
  · simp [finalSt, h, finalSt_closed e (closeSt s) rfl]

/-- the echoed payload is the whole payload of the client's frame: packet id byte and all data bytes -/
theorem ping_payload_is_frame_payload (data : Bytes) (h : 8 ≤ data.length) :
    classify (some 1) data = .ping (1 :: data) := by
  simp [classify, h]

/-! ### anything else, or a repeated request, closes the connection without an answer -/

theorem other_or_repeated_closes (e : Env) (s : St) (ho : s.closed = false) (f : Frame)
    (hf : f = .unknown ∨ f = .malformed ∨ (f = .request ∧ s.receivedRequest = true)) (fs : List Frame) :
    run e s (f :: fs) = [] ∧ (finalSt e s (f :: fs)).closed = true := by
  have h : step e s f = (closeSt s, []) := by
    rcases hf with rfl | rfl | ⟨rfl, hr⟩
    · simp [step, ho]
    · simp [step, ho]
    · simp [step, ho, hr]
  constructor
  · simp [run, h, run_closed e (closeSt s) rfl]
  · simp [finalSt, h, finalSt_closed e (closeSt s) rfl]

theorem closed_silent (e : Env) (s : St) (h : s.closed = true) (fs : List Frame) : run e s fs = [] :=
  run_closed e s h fs

/-- a truncated ping and an unregistered packet id are what `classify` turns into `malformed` / `unknown` -/
theorem classify_other (id : Int) (data : Bytes) :
    (id = 1 → data.length < 8 → classify (some id) data = .malformed) ∧
    (id ≠ 0 → id ≠ 1 → classify (some id) data = .unknown) := by
  constructor
  · intro h1 h2; subst h1
    have : ¬ 8 ≤ data.length := by omega
    simp [classify, this]
  · intro h0 h1
    simp [classify, h0, h1]

/-- every connection's output is: at most one response, then at most one echo, nothing else -/
theorem trace_shape (e : Env) (fs : List Frame) :
    run e {} fs = [] ∨ (∃ pl, run e {} fs = [.echo pl]) ∨
    run e {} fs = [.response (e.adv e.proto) e.online e.showMax] ∨
    ∃ pl, run e {} fs = [.response (e.adv e.proto) e.online e.showMax, .echo pl] := by
  rcases run_shape e fs {} with h | h | ⟨_, h | h⟩
  · exact .inl h
  · exact .inr (.inl h)
  · exact .inr (.inr (.inl h))
  · exact .inr (.inr (.inr h))

/-! ### handshake → status -/
theorem next_state (n : Int) :
    (n = 1 → nextState n = .status) ∧ (n = 2 ∨ n = 3 → nextState n = .login) ∧
    (n ≠ 1 → n ≠ 2 → n ≠ 3 → nextState n = .close) := by
  refine ⟨?_, ?_, ?_⟩
  · intro h; subst h; decide
  · intro h; rcases h with h | h <;> subst h <;> decide
  · intro h1 h2 h3
    have e1 : statusState = 1 := by decide
    have e2 : loginState = 2 := by decide
    simp [nextState, e1, e2, h1, h2, h3]

/-! ### the pre-fix code (kept as `advertisedDefective`) violates the clause -/
theorem advertised_protocol_fails :
    (9999 : Int) ∉ supported ∧ advertisedDefective 9999 = minVersion ∧ advertisedDefective 9999 ≠ maxVersion := by
  decide +kernel

/-! ### source shape (regenerated facts) -/
theorem status_dispatch : statusCases = ["*packet.StatusRequest", "*packet.StatusPing", "default"] := by decide
theorem ping_handler_shape : pingCalls.take 2 = ["defer:h.conn.Close", "h.conn.Write"] := by decide
theorem initial_ping_shape :
    initialPingCalls.take 2 = ["version.Protocol", "version.Protocol().Version"] ∧
      initialPingCalls.contains "p.PlayerCount" = true := by decide

/-! ### non-vacuity -/
example : (764 : Int) ∈ supported ∧ (9999 : Int) ∉ supported ∧ (-1 : Int) ∉ supported ∧ (-2 : Int) ∉ supported := by
  decide +kernel
example : run { proto := 9999, online := 3, showMax := 1000 } {} [.request, .request, .ping [1, 2]] =
    [.response 776 3 1000] := by decide +kernel
example : run { proto := 47, online := 0, showMax := 5 } {} [.empty, .request, .ping [1, 9, 9, 9, 9, 9, 9, 9, 9]] =
    [.response 47 0 5, .echo [1, 9, 9, 9, 9, 9, 9, 9, 9]] := by decide +kernel

end Gate.C43.Props
