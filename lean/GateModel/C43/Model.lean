import GateModel.Base.Bytes
import GateModel.Gen.C43
/-
C43 — model of the server-list-ping path of gate in classic mode with no ping event subscribers:
`handshakeSessionHandler.handleHandshake` (next-state dispatch, `stateForProtocol`), the frame classification done
by `codec.Decoder` for the two status-state packets, `statusSessionHandler.HandlePacket / handleStatusRequest /
handleStatusPing`, `newInitialPing`, and the read loop's "stop after close" rule (`!Closed(c) && next()`).

The model mirrors the REPAIRED code (fixes/C43-status-advertised-protocol.diff): `newInitialPing` receives the
protocol of the client's handshake and advertises it only when the version table knows it as a non-legacy
version.  The pre-fix behaviour is kept as `advertisedDefective` (the protocol of the packet registry in use — the
lowest supported version after the registry fallback — filtered by `Supported()`, which is `≠ Unknown`).

A client frame is described at the level the decoder hands it to the session handler (`Frame`); `classify`
mirrors how a raw status-state frame (packet id, data) gets there: id 0 = StatusRequest (decodes nothing, surplus
bytes are tolerated: `ErrDecoderLeftBytes` is ignored by `netmc.reader.ReadPacket`), id 1 = StatusPing (needs 8
data bytes, surplus tolerated; fewer ⇒ decode error ⇒ the read loop ends and the connection is closed), any other
id ⇒ unknown packet, empty frame ⇒ skipped by `Decoder.readPacket` (more than 11 in a row ⇒ error).
Parameters (not modelled): JSON rendering of the response, the MOTD/favicon, the event manager (no subscribers),
the online player count `online` (what `Proxy.PlayerCount()` returns at that moment) and `showMax`.
Core Lean only.
-/
namespace Gate.C43
open Gate Gate.Gen.C43

/-! ### version table (regenerated) -/
def allVersions : List Int := versions.map Prod.snd
def isSupportedEntry (p : Int) : Bool := p != versionsV.Unknown && p != versionsV.Legacy
/-- `version.SupportedVersions` = what `Protocol.Version()` can return other than Unknown / Legacy -/
def supported : List Int := allVersions.filter isSupportedEntry
def minVersion : Int := supported.head?.getD 0
def maxVersion : Int := supported.getLast?.getD 0

/-- `newInitialPing` (repaired): `Protocol(p).Version()` is looked up in `ProtocolToVersion` (built from
    `Versions`); Unknown / Legacy / not found ⇒ `MaximumVersion` -/
def advertised (p : Int) : Int := if supported.contains p then p else maxVersion

/-- pre-fix: `pc.Protocol` is the `Protocol` field of the registry the decoder uses — the client's protocol if a
    registry exists for it, else (registry fallback) `MinimumVersion` — and `Supported()` only excludes `Unknown`. -/
def advertisedDefective (p : Int) : Int :=
  let regProto := if supported.contains p then p else minVersion
  if regProto != versionsV.Unknown then regProto else maxVersion

/-! ### handshake -/
inductive Next where
  | status | login | close
  deriving DecidableEq, Repr

/-- `stateForProtocol(handshake.NextStatus)`; 3 = `packet.TransferHandshakeIntent` -/
def nextState (n : Int) : Next :=
  if n = statusState then .status else if n = loginState ∨ n = 3 then .login else .close

/-! ### frames of the status state -/
inductive Frame where
  | request                    -- StatusRequest
  | ping (payload : Bytes)     -- StatusPing that decodes; `payload` = the frame's payload (packet id + data)
  | unknown                    -- packet id without a registered type
  | malformed                  -- registered packet that fails to decode
  | empty                      -- zero-length frame
  deriving DecidableEq, Repr

/-- what the decoder makes of a raw frame `(packet id, data)`; `none` id = zero-length frame.
    The packet id is a VarInt (any int32); only 0 and 1 are registered in the status state, for every protocol. -/
def classify : Option Int → Bytes → Frame
  | none, _ => .empty
  | some id, data =>
    if id = 0 then .request
    else if id = 1 then (if 8 ≤ data.length then .ping (1 :: data) else .malformed)
    else .unknown

inductive Out where
  | response (proto : Int) (online showMax : Nat)
  | echo (payload : Bytes)
  deriving DecidableEq, Repr

structure St where
  receivedRequest : Bool := false
  closed : Bool := false
  empties : Nat := 0          -- consecutive empty frames inside the current `readPacket` call
  deriving DecidableEq, Repr

structure Env where
  proto   : Int       -- protocol number of the client's handshake
  online  : Nat
  showMax : Nat
  adv     : Int → Int := advertised

def closeSt (s : St) : St := { s with closed := true }

/-- one frame arriving at the connection -/
def step (e : Env) (s : St) (f : Frame) : St × List Out :=
  if s.closed then (s, [])                      -- read loop: `!Closed(c) && next()`
  else match f with
  | .empty => if s.empties > 10 then (closeSt s, []) else ({ s with empties := s.empties + 1 }, [])
  | .malformed => (closeSt s, [])
  | .unknown => (closeSt s, [])                 -- `!pc.KnownPacket()` ⇒ Close
  | .request =>
    if s.receivedRequest then (closeSt s, [])   -- "Already sent response"
    else ({ s with receivedRequest := true, empties := 0 }, [.response (e.adv e.proto) e.online e.showMax])
  | .ping payload => (closeSt s, [.echo payload])   -- `defer h.conn.Close(); h.conn.Write(p.Payload)`

def run (e : Env) : St → List Frame → List Out
  | _, [] => []
  | s, f :: fs => let r := step e s f; r.2 ++ run e r.1 fs

def finalSt (e : Env) : St → List Frame → St
  | s, [] => s
  | s, f :: fs => finalSt e (step e s f).1 fs

/-- a whole connection: handshake with `next`, then status-phase frames -/
def session (e : Env) (next : Int) (fs : List Frame) : List Out × Bool :=
  match nextState next with
  | .status => (run e {} fs, (finalSt e {} fs).closed)
  | .close => ([], true)
  | .login => ([], false)   -- not part of this model

/-! ### the player registry behind `players.online`

`Proxy.PlayerCount()` is `len(p.playerIDs)`; the status response's `players.online` is that number, so the `online`
input of `Env` is the result of a REGISTRY HISTORY: `registerConnection` / `unregisterConnection` calls in one of the
two registry modes (`kick` = `OnlineMode && OnlineModeKickExistingPlayers`).  A connection `c : Nat` has a fixed
lower-cased username `nameOf c` and UUID `idOf c`.  Both Go maps are modelled as lists of connections, the key of an
entry being `idOf c` resp. `nameOf c` (`put` = map assignment: the entry with the same key is replaced).
`live` is the SPEC's ghost: the connections that registered successfully and were neither unregistered nor kicked
since — the players that are online. -/

structure Attrs where
  nameOf : Nat → String
  idOf   : Nat → Nat

structure Registry where
  ids   : List Nat := []     -- playerIDs   (values; key `idOf c`)
  names : List Nat := []     -- playerNames (values; key `nameOf c`)
  live  : List Nat := []     -- ghost: who is online
  deriving DecidableEq, Repr

inductive RegOp where
  | reg (c : Nat)      -- registerConnection(c)
  | unreg (c : Nat)    -- unregisterConnection(c) (teardown of c, registered or not)
  deriving DecidableEq, Repr

/-- `unregisterConnection`: delete an index entry only if it belongs to this very connection -/
def unregister (r : Registry) (c : Nat) : Registry :=
  { ids := r.ids.filter (· != c), names := r.names.filter (· != c), live := r.live.filter (· != c) }

/-- `registerConnection` -/
def register (a : Attrs) (kick : Bool) (r : Registry) (c : Nat) : Registry :=
  if kick then
    -- `existing, ok := playerIDs[id]; existing.Disconnect(…)` ⇒ its teardown unregisters it; then retry
    let r1 := match r.ids.find? (fun d => a.idOf d == a.idOf c) with
      | some d => unregister r d
      | none => r
    { ids := r1.ids.filter (fun d => a.idOf d != a.idOf c) ++ [c],
      names := r1.names.filter (fun d => a.nameOf d != a.nameOf c) ++ [c],
      live := r1.live.filter (fun d => a.idOf d != a.idOf c) ++ [c] }   -- same-UUID players are kicked, `c` is online
  else if r.names.any (fun d => a.nameOf d == a.nameOf c) || r.ids.any (fun d => a.idOf d == a.idOf c) then r
  else
    { ids := r.ids.filter (fun d => a.idOf d != a.idOf c) ++ [c],
      names := r.names.filter (fun d => a.nameOf d != a.nameOf c) ++ [c],
      live := r.live ++ [c] }

def regStep (a : Attrs) (kick : Bool) (r : Registry) : RegOp → Registry
  | .reg c => register a kick r c
  | .unreg c => unregister r c

def regRun (a : Attrs) (kick : Bool) (r : Registry) (ops : List RegOp) : Registry :=
  ops.foldl (regStep a kick) r

/-- `Proxy.PlayerCount()` -/
def playerCount (r : Registry) : Nat := r.ids.length
/-- a count taken from the name index instead (what a "the two indices have equal size" shortcut computes) -/
def playerCountByNames (r : Registry) : Nat := r.names.length

end Gate.C43
