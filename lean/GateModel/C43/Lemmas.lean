import GateModel.C43.Model
/-
C43 — helper lemmas: behaviour of `run` after close, counting of responses, the shape of every trace.
-/
namespace Gate.C43
open Gate

def isResponse : Out → Bool
  | .response .. => true
  | _ => false
def isEcho : Out → Bool
  | .echo _ => true
  | _ => false

theorem run_closed (e : Env) (s : St) (h : s.closed = true) (fs : List Frame) : run e s fs = [] := by
  induction fs generalizing s with
  | nil => rfl
  | cons f fs ih =>
    have hs : step e s f = (s, []) := by simp [step, h]
    simp [run, hs, ih s h]

theorem finalSt_closed (e : Env) (s : St) (h : s.closed = true) (fs : List Frame) :
    (finalSt e s fs).closed = true := by
  induction fs generalizing s with
  | nil => exact h
  | cons f fs ih =>
    have hs : step e s f = (s, []) := by simp [step, h]
    simp [finalSt, hs, ih s h]

/-- a step either leaves the connection open, or closes it -/
theorem step_cases (e : Env) (s : St) (f : Frame) (ho : s.closed = false) :
    (∃ s', step e s f = (s', []) ∧ s'.closed = false ∧ s'.receivedRequest = s.receivedRequest) ∨
    (step e s f = (closeSt s, [])) ∨
    (s.receivedRequest = false ∧ f = .request ∧
      step e s f = ({ s with receivedRequest := true, empties := 0 }, [.response (e.adv e.proto) e.online e.showMax])) ∨
    (∃ pl, f = .ping pl ∧ step e s f = (closeSt s, [.echo pl])) := by
  cases f with
  | empty =>
    by_cases h : s.empties > 10
    · right; left; simp [step, ho, h]
    · left; exact ⟨{ s with empties := s.empties + 1 }, by simp [step, ho, h], ho, rfl⟩
  | malformed => right; left; simp [step, ho]
  | unknown => right; left; simp [step, ho]
  | request =>
    cases hr : s.receivedRequest
    · right; right; left; exact ⟨rfl, rfl, by simp [step, ho, hr]⟩
    · right; left; simp [step, ho, hr]
  | ping pl => right; right; right; exact ⟨pl, rfl, by simp [step, ho]⟩

/-- once a request has been answered, no further response is ever produced -/
theorem no_response_after_request (e : Env) (fs : List Frame) (s : St) (hr : s.receivedRequest = true) :
    (run e s fs).countP isResponse = 0 := by
  induction fs generalizing s with
  | nil => rfl
  | cons f fs ih =>
    cases hc : s.closed
    · rcases step_cases e s f hc with ⟨s', h1, _, h3⟩ | h1 | ⟨h0, _, _⟩ | ⟨pl, _, h1⟩
      · simp [run, h1, ih s' (h3 ▸ hr)]
      · simp [run, h1, run_closed e (closeSt s) rfl]
      · rw [hr] at h0; cases h0
      · simp [run, h1, run_closed e (closeSt s) rfl, isResponse]
    · simp [run_closed e s hc]

theorem responses_le_one (e : Env) (fs : List Frame) (s : St) : (run e s fs).countP isResponse ≤ 1 := by
  induction fs generalizing s with
  | nil => simp [run]
  | cons f fs ih =>
    cases hc : s.closed
    · rcases step_cases e s f hc with ⟨s', h1, _, _⟩ | h1 | ⟨_, _, h1⟩ | ⟨pl, _, h1⟩
      · simp [run, h1, ih s']
      · simp [run, h1, run_closed e (closeSt s) rfl]
      · have h0 := no_response_after_request e fs { s with receivedRequest := true, empties := 0 } rfl
        simp only [run, h1, List.cons_append, List.nil_append, List.countP_cons, h0]
        simp [isResponse]
      · simp [run, h1, run_closed e (closeSt s) rfl, isResponse]
    · simp [run_closed e s hc]

theorem echoes_le_one (e : Env) (fs : List Frame) (s : St) : (run e s fs).countP isEcho ≤ 1 := by
  induction fs generalizing s with
  | nil => simp [run]
  | cons f fs ih =>
    cases hc : s.closed
    · rcases step_cases e s f hc with ⟨s', h1, _, _⟩ | h1 | ⟨_, _, h1⟩ | ⟨pl, _, h1⟩
      · simp [run, h1, ih s']
      · simp [run, h1, run_closed e (closeSt s) rfl]
      · have := ih { s with receivedRequest := true, empties := 0 }
        simp [run, h1, isEcho, this]
      · simp [run, h1, run_closed e (closeSt s) rfl, isEcho]
    · simp [run_closed e s hc]

/-- every trace is: an optional response followed by an optional echo -/
theorem run_shape (e : Env) (fs : List Frame) (s : St) :
    run e s fs = [] ∨ (∃ pl, run e s fs = [.echo pl]) ∨
    (s.receivedRequest = false ∧ (run e s fs = [.response (e.adv e.proto) e.online e.showMax] ∨
      ∃ pl, run e s fs = [.response (e.adv e.proto) e.online e.showMax, .echo pl])) := by
  induction fs generalizing s with
  | nil => left; rfl
  | cons f fs ih =>
    cases hc : s.closed
    · rcases step_cases e s f hc with ⟨s', h1, _, h3⟩ | h1 | ⟨h0, _, h1⟩ | ⟨pl, _, h1⟩
      · simp only [run, h1, List.nil_append]
        rcases ih s' with h | h | ⟨hr, h⟩
        · left; exact h
        · right; left; exact h
        · right; right; exact ⟨h3 ▸ hr, h⟩
      · left; simp [run, h1, run_closed e (closeSt s) rfl]
      · right; right; refine ⟨h0, ?_⟩
        simp only [run, h1, List.cons_append, List.nil_append]
        rcases ih { s with receivedRequest := true, empties := 0 } with h | ⟨pl, h⟩ | ⟨hr, _⟩
        · left; rw [h]
        · right; exact ⟨pl, by rw [h]⟩
        · cases hr
      · right; left; exact ⟨pl, by simp [run, h1, run_closed e (closeSt s) rfl]⟩
    · left; exact run_closed e s hc (f :: fs)

/-! ### registry histories -/

theorem filter_ne_of_not_any {a : Attrs} {l : List Nat} {c : Nat}
    (h : l.any (fun d => a.idOf d == a.idOf c) = false) : l.filter (fun d => a.idOf d != a.idOf c) = l := by
  rw [List.filter_eq_self]
  intro d hd
  have := List.any_eq_false.mp h d hd
  simpa [bne] using this

/-- the UUID index holds exactly the online connections, after every history in every mode -/
theorem regStep_ids_live (a : Attrs) (kick : Bool) (r : Registry) (op : RegOp) (h : r.ids = r.live) :
    (regStep a kick r op).ids = (regStep a kick r op).live := by
  cases op with
  | unreg c => simp [regStep, unregister, h]
  | reg c =>
    simp only [regStep, register]
    cases kick
    · simp only [Bool.false_eq_true, if_false]
      split
      · exact h
      · rename_i hc
        simp only [Bool.or_eq_true, not_or, Bool.not_eq_true] at hc
        show r.ids.filter (fun d => a.idOf d != a.idOf c) ++ [c] = r.live ++ [c]
        rw [filter_ne_of_not_any hc.2, h]
    · simp only [if_true]
      split <;> simp [unregister, h]

theorem regRun_ids_live (a : Attrs) (kick : Bool) (ops : List RegOp) (r : Registry) (h : r.ids = r.live) :
    (regRun a kick r ops).ids = (regRun a kick r ops).live := by
  induction ops generalizing r with
  | nil => exact h
  | cons op ops ih => exact ih _ (regStep_ids_live a kick r op h)

theorem filter_name_of_not_any {a : Attrs} {l : List Nat} {c : Nat}
    (h : l.any (fun d => a.nameOf d == a.nameOf c) = false) : l.filter (fun d => a.nameOf d != a.nameOf c) = l := by
  rw [List.filter_eq_self]
  intro d hd
  have := List.any_eq_false.mp h d hd
  simpa [bne] using this

/-- outside kick mode the two indices always hold the same connections -/
theorem regRun_names_ids_nokick (a : Attrs) (ops : List RegOp) (r : Registry) (h : r.names = r.ids) :
    (regRun a false r ops).names = (regRun a false r ops).ids := by
  induction ops generalizing r with
  | nil => exact h
  | cons op ops ih =>
    apply ih
    cases op with
    | unreg c => simp [regStep, unregister, h]
    | reg c =>
      simp only [regStep, register, Bool.false_eq_true, if_false]
      split
      · exact h
      · rename_i hc
        simp only [Bool.or_eq_true, not_or, Bool.not_eq_true] at hc
        show r.names.filter (fun d => a.nameOf d != a.nameOf c) ++ [c] = r.ids.filter (fun d => a.idOf d != a.idOf c) ++ [c]
        rw [filter_name_of_not_any hc.1, filter_ne_of_not_any hc.2, h]

end Gate.C43
