import GateModel.Base.Line
import GateModel.C23.Model
/-
C23 driver.  Stateful: the current proxy command tree and the player's permissions.

  tree <node>…      node = <parent>:<name>:<perm|-|!>:<redirect|->         impl `ok`   (`!` = the requirement panics)
  perms <p,p,…|->                                                            impl `ok`
  filter            impl: filterNode(root, player) walked in pre-order: `N<id> … R … U`, `nil`, `diverges`, or
                    `panic` (a requirement's panic propagated out of the call: no tree is delivered — acceptable)
                    (cyclic trees are probed in a child process: stack overflow = `diverges`)
  merge <name:ident,…|->   the backend root's children;
                    impl: `root=<B:name:ident|P:name:id,…|-> sub=<walk of the injected proxy nodes|-> bk=<0|1>`
                    (bk = every kept backend node still has the subtree it had before)

`filter` and `merge` lines carry the current tree and permissions once more as trailing `@tree=…;… @perms=…`
arguments (ignored here) so that a reported case is a complete replay.  `merge` lines with `@packet=k-on-one-backend-connection`
are the k-th commands packet handled by ONE backendPlaySessionHandler (`@earlier-packets=` lists tree/permissions of
the earlier ones): the spec judges each against the tree and permissions current at that packet.

Spec verdict on the implementation's output: every proxy node received passes its requirement; proxy nodes replace
backend nodes of the same name; all other backend nodes are kept exactly once and unchanged; nothing else appears.
-/
namespace Gate.C23
open Gate

def parseOptNat (s : String) : Option (Option Nat) :=
  if s = "-" then some none else s.toNat?.map some

def parseReq (s : String) : Option Req :=
  if s = "-" then some .free else if s = "!" then some .panics else s.toNat?.map .perm

def parseNode (s : String) : Option PNode :=
  match s.splitOn ":" with
  | [p, name, req, red] => do pure ⟨← p.toNat?, name, ← parseReq req, ← parseOptNat red⟩
  | _ => none

def parsePerms (s : String) : Option (List Nat) :=
  if s = "-" then some [] else (s.splitOn ",").mapM String.toNat?

def Tok.show : Tok → String
  | .node id => s!"N{id}" | .redirect => "R" | .up => "U"

def showToks (ts : List Tok) : String := if ts.isEmpty then "-" else " ".intercalate (ts.map Tok.show)

def parseTok (s : String) : Option Tok :=
  if s = "R" then some .redirect else if s = "U" then some .up
  else if s.startsWith "N" then (s.drop 1).toString.toNat?.map .node else none

def parseToks (s : String) : Option (List Tok) :=
  if s = "-" then some [] else (s.splitOn " ").mapM parseTok

def MNode.show : MNode → String
  | .backend b => s!"B:{b.name}:{b.ident}" | .proxy n id => s!"P:{n}:{id}"

def parseMNode (s : String) : Option MNode :=
  match s.splitOn ":" with
  | ["B", n, i] => i.toNat?.map (fun i => .backend ⟨n, i⟩)
  | ["P", n, i] => i.toNat?.map (fun i => .proxy n i)
  | _ => none

def parseBackend (s : String) : Option (List BNode) :=
  if s = "-" then some [] else (s.splitOn ",").mapM fun e =>
    match e.splitOn ":" with
    | [n, i] => i.toNat?.map (fun i => ⟨n, i⟩)
    | _ => none

structure DS where
  tree : PTree := []
  perms : List Nat := []

def allUsable (ds : DS) (ts : List Tok) : Bool :=
  (received ts).all fun id => id == 0 || (match ds.tree[id - 1]? with | some nd => usable ds.perms nd | none => false)

def verdictMerge (ds : DS) (backend : List BNode) (impl : String) : String :=
  match impl.splitOn " sub=" with
  | [rootPart, rest] =>
    match rest.splitOn " bk=" with
    | [subPart, bk] =>
      let root? := if rootPart = "root=-" then some [] else ((rootPart.drop 5).toString.splitOn ",").mapM parseMNode
      match root?, parseToks subPart with
      | some root, some sub =>
        let pnames := root.filterMap (fun m => match m with | .proxy n _ => some n | _ => none)
        let kept := root.filterMap (fun m => match m with | .backend b => some b | _ => none)
        let want := backend.filter (fun b => !pnames.contains b.name)
        if !allUsable ds sub then "viol:unusable-node-sent"
        else if !(root.all fun m => match m with
            | .proxy _ id => (match ds.tree[id - 1]? with | some nd => usable ds.perms nd && nd.parent == 0 | none => false)
            | _ => true) then "viol:unusable-node-sent"
        else if kept.any (fun b => pnames.contains b.name) then "viol:backend-node-not-replaced"
        else if !(want.all fun b => kept.count b == 1) || !(kept.all fun b => want.contains b) || bk != "1" then
          "viol:backend-node-changed"
        else "ok"
      | _, _ => "viol:unreadable"
    | _ => "viol:unreadable"
  | _ => if impl = "hang" then "viol:hang" else "viol:unreadable"

def step (ds : DS) (c : Case) : DS × String × String :=
  match c.op, c.args with
  | "tree", nodes =>
    match (nodes.filter (· ≠ "")).mapM parseNode with
    | some t => ({ ds with tree := t }, "ok", "-")
    | none => (ds, "bad-op", "-")
  | "perms", [p] =>
    match parsePerms p with
    | some ps => ({ ds with perms := ps }, "ok", "-")
    | none => (ds, "bad-op", "-")
  | "filter", _ =>
    let out := match filter ds.tree ds.perms (fuelFor ds.tree) 0 with
      | .diverges => "diverges"
      | .panicked => "panic"
      | .ok [] => "nil"
      | .ok ts => showToks ts
    let v :=
      if c.impl = "diverges" then "viol:redirect-cycle-diverges"
      else if c.impl = "panic" then "ok"        -- the panic propagated: no tree was delivered
      else match parseToks c.impl with
        | some ts => if allUsable ds ts then "ok" else "viol:unusable-node-sent"
        | none => "viol:" ++ (if c.impl = "hang" then "hang" else "unreadable")
    (ds, out, v)
  | "merge", b :: _ =>
    match parseBackend b with
    | none => (ds, "bad-op", "-")
    | some backend =>
      -- one step of a history; the handler keeps nothing between packets (`runHistory`)
      let out := match (handlePacket () ⟨ds.tree, ds.perms, backend⟩).2 with
        | .tree root sub => "root=" ++ (if root.isEmpty then "-" else ",".intercalate (root.map MNode.show)) ++
            " sub=" ++ showToks sub ++ " bk=1"
        | .panicked => "panic"
        | .diverges => "diverges"
      (ds, out, if c.impl = "panic" then "ok" else verdictMerge ds backend c.impl)
  | _, _ => (ds, "bad-op", "-")

end Gate.C23

def main : IO Unit := Gate.runDriver ({} : Gate.C23.DS) Gate.C23.step
