/-
C23 — model of pkg/edition/java/proxy/session_backend_play.go: filterNode, handleAvailableCommands.

The proxy's command tree is a flat table (`parent` / `redirect` are node ids, 0 = root, own id = position + 1), so
redirect graphs with cycles are representable.  `filterNode` makes a fresh copy of every node it keeps; the copy a
player receives is encoded as a token list (pre-order: `node id`, then — if the node redirects and the target
survives — `redirect` followed by the target's own filtered copy, then the children in registration order, then `up`).
Recursion is by fuel: `Res.diverges` = the Go recursion does not terminate (a redirect leads back to a node that is
being filtered: stack overflow), `Res.panicked` = a requirement function panicked for this player (the panic unwinds
out of filterNode and handleAvailableCommands: no tree is delivered), `Res.ok []` = filterNode returned nil
(requirement not passed).
-/
namespace Gate.C23

/-- a node's requirement, as it behaves for the player the tree is filtered for -/
inductive Req where
  | free                -- no requirement
  | perm (p : Nat)      -- passes iff the player has permission p
  | panics              -- the (plugin-supplied) requirement function panics for this player
  deriving DecidableEq, Repr

/-- outcome of `src.CanUse(ctx)` -/
inductive ReqOut where
  | allow | deny | panic
  deriving DecidableEq, Repr

structure PNode where
  parent : Nat
  name : String
  req : Req
  redirect : Option Nat       -- redirect target id (0 = root)
  deriving DecidableEq, Repr

abbrev PTree := List PNode

inductive Tok where
  | node (id : Nat)
  | redirect
  | up
  deriving DecidableEq, Repr

def reqOut (perms : List Nat) (nd : PNode) : ReqOut :=
  match nd.req with
  | .free => .allow
  | .perm p => if perms.contains p then .allow else .deny
  | .panics => .panic

/-- the requirement returned true (a panicking requirement is NOT passed) -/
def usable (perms : List Nat) (nd : PNode) : Bool := reqOut perms nd == .allow

/-- ids of the children of node `n`, in registration order -/
def childIds (t : PTree) (n : Nat) : List Nat :=
  (t.zipIdx.filter (fun x => x.1.parent == n)).map (fun x => x.2 + 1)

/-- what a call of filterNode amounts to -/
inductive Res where
  | diverges                 -- the recursion never returns (stack overflow)
  | panicked                 -- a requirement panicked; the panic unwinds out of filterNode: no tree is delivered
  | ok (ts : List Tok)       -- returned; `[]` = nil
  deriving DecidableEq, Repr

/-- results of consecutive calls: the first call that does not return decides -/
def catRes : List Res → Res
  | [] => .ok []
  | .ok a :: r =>
    match catRes r with
    | .ok b => .ok (a ++ b)
    | e => e
  | e :: _ => e

/-- `filterNode(node n, player)` -/
def filter (t : PTree) (perms : List Nat) : Nat → Nat → Res
  | 0, _ => .diverges
  | fuel + 1, n =>
    if n = 0 then
      -- *brigodier.RootCommandNode: fresh root, then the children
      match catRes ((childIds t 0).map (filter t perms fuel)) with
      | .ok cs => .ok (Tok.node 0 :: cs ++ [Tok.up])
      | e => e
    else
      match t[n - 1]? with
      | none => .ok []
      | some nd =>
        match reqOut perms nd with
        | .panic => .panicked                -- src.CanUse(...) panics
        | .deny => .ok []                    -- !src.CanUse(...) → nil
        | .allow =>
          let red : Res :=
            match nd.redirect with
            | none => .ok []
            | some tgt =>
              match filter t perms fuel tgt with
              | .ok r => .ok (if r.isEmpty then [] else Tok.redirect :: r)
              | e => e
          match red with
          | .ok r =>
            match catRes ((childIds t n).map (filter t perms fuel)) with
            | .ok cs => .ok (Tok.node n :: r ++ cs ++ [Tok.up])
            | e => e
          | e => e

/-- fuel that decides termination: a recursion deeper than the number of nodes + 1 repeats a node -/
def fuelFor (t : PTree) : Nat := t.length + 2

/-- the ids of the nodes a player receives -/
def received : List Tok → List Nat
  | [] => []
  | .node id :: r => id :: received r
  | _ :: r => received r

/-! ### merge into the backend's root (handleAvailableCommands) -/

/-- a child of the backend's root node: its name and an opaque identity -/
structure BNode where
  name : String
  ident : Nat
  deriving DecidableEq, Repr

/-- a child of the merged root: kept backend node or injected proxy node (by proxy node id) -/
inductive MNode where
  | backend (b : BNode)
  | proxy (name : String) (id : Nat)
  deriving DecidableEq, Repr

def MNode.name : MNode → String
  | .backend b => b.name
  | .proxy n _ => n

/-- `proxyNodes.Range(… RemoveChild(same name); AddChild(node))`: one injected node -/
def inject (root : List MNode) (p : String × Nat) : List MNode :=
  root.filter (fun m => m.name != p.1) ++ [.proxy p.1 p.2]

def merge (backend : List BNode) (proxy : List (String × Nat)) : List MNode :=
  proxy.foldl inject (backend.map .backend)

/-- the (name, id) of the usable children of the proxy's root: what `filterNode(root).ChildrenOrdered()` holds -/
def proxyRootChildren (t : PTree) (perms : List Nat) : List (String × Nat) :=
  (childIds t 0).filterMap fun id =>
    match t[id - 1]? with
    | some nd => if usable perms nd then some (nd.name, id) else none
    | none => none

/-- strip the outer `node 0 … up` of the filtered root: the walks of its children -/
def stripRoot : List Tok → List Tok
  | .node 0 :: r => r.dropLast
  | ts => ts

/-! ### histories: several commands packets on one backend connection

`backendPlaySessionHandler.handleAvailableCommands` reads the proxy's command tree, the player's permissions and the
packet, and writes no field of the handler: the handler state that matters to it is trivial. A history is a list of
steps, each with the proxy tree, the requirement outcomes (permissions) and the backend's root children CURRENT at
that packet. -/

structure Step where
  tree : PTree
  perms : List Nat
  backend : List BNode
  deriving DecidableEq, Repr

/-- what the player gets for one commands packet -/
inductive Delivered where
  | panicked                                     -- a requirement panicked: no packet is written
  | diverges
  | tree (root : List MNode) (sub : List Tok)    -- merged root children, walk of the injected proxy nodes
  deriving DecidableEq, Repr

def deliver (s : Step) : Delivered :=
  match filter s.tree s.perms (fuelFor s.tree) 0 with
  | .ok ts => .tree (merge s.backend (proxyRootChildren s.tree s.perms)) (stripRoot ts)
  | .panicked => .panicked
  | .diverges => .diverges

/-- the part of backendPlaySessionHandler that handleAvailableCommands writes: nothing -/
abbrev HState := Unit

def handlePacket (h : HState) (s : Step) : HState × Delivered := (h, deliver s)

def runHistory (h : HState) : List Step → List Delivered
  | [] => []
  | s :: r => (handlePacket h s).2 :: runHistory (handlePacket h s).1 r

end Gate.C23
