import GateModel.C23.Lemmas
import GateModel.Gen.C23
/-
C23 — the command tree sent to a player only shows proxy commands it may use.

`filter t perms fuel n` models `filterNode(node n, player)`; its result lists every node copy the player receives
below that node, including the copies made for redirect targets.  The theorems hold for ALL proxy trees (nesting,
requirements, redirects — also cyclic redirect graphs), all permission sets and all backend root children.
-/
namespace Gate.C23.Props
open Gate.C23

/-! ### source shape -/

def subseq : List String → List String → Bool
  | [], _ => true
  | _ :: _, [] => false
  | a :: as, b :: bs => if a = b then subseq as bs else subseq (a :: as) bs

/-- filterNode: the requirement is checked before anything is copied; the copy's requirement is replaced; the redirect
    target and every child go through filterNode again; only non-nil children are added -/
theorem filterNode_shape :
    subseq ["src.CanUse", "return", "src.CreateBuilder", "src.CreateBuilder().Requires", "src.Redirect", "filterNode",
      "builder.Redirect", "builder.Build", "src.ChildrenOrdered", "func:{", "filterNode", "dest.AddChild", "}",
      "src.ChildrenOrdered().Range"] Gate.Gen.C23.filterNodeCalls = true := by decide

/-- handleAvailableCommands: the proxy's root is filtered for this player; for every filtered root child a backend
    child of the same name is removed before the proxy node is added; the packet is written afterwards -/
theorem handleAvailableCommands_shape :
    subseq ["filterNode", "dispatcherRootNode.ChildrenOrdered", "func:{", "rootNode.Children", "node.Name",
      "rootNode.RemoveChild", "rootNode.AddChild", "}", "proxyNodes.Range", "b.serverConn.player.WritePacket"]
      Gate.Gen.C23.handleAvailableCommandsCalls = true := by decide

/-! ### requirement filtering -/

/-- Every proxy command node the player receives — at any depth, and also through redirects — is one whose
    requirement returned true for the player: it neither returned false nor panicked (id 0 is the fresh root copy).
    Since every ancestor of a delivered copy is itself delivered, all requirements on its path returned true. -/
theorem filtered_usable (t : PTree) (perms : List Nat) (fuel n : Nat) (ts : List Tok)
    (h : filter t perms fuel n = .ok ts) :
    ∀ id ∈ received ts, id = 0 ∨ ∃ nd, t[id - 1]? = some nd ∧ reqOut perms nd = .allow :=
  filter_usable t perms fuel n ts h

/-- A node whose requirement returns false is dropped with its whole subtree (filterNode returns nil). -/
theorem unusable_dropped (t : PTree) (perms : List Nat) (fuel n : Nat) (nd : PNode) (hn : n ≠ 0)
    (hnd : t[n - 1]? = some nd) (hu : reqOut perms nd = .deny) : filter t perms (fuel + 1) n = .ok [] :=
  filter_denied t perms fuel n nd hn hnd hu

/-- A node whose requirement panics is never copied: the call does not return a tree at all. -/
theorem panicking_requirement_delivers_nothing (t : PTree) (perms : List Nat) (fuel n : Nat) (nd : PNode) (hn : n ≠ 0)
    (hnd : t[n - 1]? = some nd) (hu : reqOut perms nd = .panic) : filter t perms (fuel + 1) n = .panicked :=
  filter_panics t perms fuel n nd hn hnd hu

/-- The proxy nodes injected into the backend's root are exactly the usable children of the proxy's root. -/
theorem injected_are_usable_root_children (t : PTree) (perms : List Nat) (p : String × Nat)
    (hp : p ∈ proxyRootChildren t perms) :
    p.2 ∈ childIds t 0 ∧ ∃ nd, t[p.2 - 1]? = some nd ∧ reqOut perms nd = .allow ∧ nd.name = p.1 := by
  simp only [proxyRootChildren, List.mem_filterMap] at hp
  obtain ⟨id, hid, hm⟩ := hp
  split at hm
  · rename_i nd hnd
    split at hm
    · rename_i hu
      cases hm
      exact ⟨hid, nd, hnd, by simpa [usable] using hu, rfl⟩
    · cases hm
  · cases hm

/-- filterNode terminates (returns or panics) whenever children and redirect targets can be ranked below their node
    (the child + redirect graph is acyclic). -/
theorem terminates_if_acyclic (t : PTree) (perms : List Nat) (rank : Nat → Nat)
    (hchild : ∀ n, ∀ c ∈ childIds t n, rank c < rank n)
    (hred : ∀ n nd tgt, t[n - 1]? = some nd → n ≠ 0 → nd.redirect = some tgt → rank tgt < rank n) (n : Nat) :
    filter t perms (rank n + 1) n ≠ .diverges :=
  filter_terminates t perms rank hchild hred (rank n + 1) n (Nat.lt_succ_self _)

/-! ### merge with the backend's tree -/

/-- The merged root is: the backend's children that no injected proxy node is named like, unchanged and in their
    order, followed by the injected proxy nodes. -/
theorem merge_closed_form (backend : List BNode) (proxy : List (String × Nat)) (hn : (proxy.map Prod.fst).Nodup) :
    merge backend proxy =
      (backend.filter (fun b => !(proxy.map Prod.fst).contains b.name)).map MNode.backend ++
      proxy.map (fun p => MNode.proxy p.1 p.2) := by
  unfold merge
  rw [foldl_inject proxy hn]
  congr 1
  rw [List.filter_map]
  rfl

/-- Proxy nodes replace backend nodes of the same name. -/
theorem proxy_replaces_backend (backend : List BNode) (proxy : List (String × Nat)) (hn : (proxy.map Prod.fst).Nodup)
    (p : String × Nat) (hp : p ∈ proxy) :
    MNode.proxy p.1 p.2 ∈ merge backend proxy ∧ ∀ b, MNode.backend b ∈ merge backend proxy → b.name ≠ p.1 := by
  rw [merge_closed_form backend proxy hn]
  constructor
  · apply List.mem_append_right
    exact List.mem_map.mpr ⟨p, hp, rfl⟩
  · intro b hb
    rw [List.mem_append] at hb
    rcases hb with hb | hb
    · simp only [List.mem_map, List.mem_filter] at hb
      obtain ⟨b', ⟨_, hnot⟩, hb'⟩ := hb
      cases hb'
      intro heq
      have hc : (proxy.map Prod.fst).contains b.name = true := by
        rw [List.contains_iff_mem]; exact List.mem_map.mpr ⟨p, hp, heq.symm⟩
      rw [hc] at hnot
      cases hnot
    · simp at hb

/-- All other backend nodes are kept (once each, same order), and no backend node is invented. -/
theorem others_unchanged (backend : List BNode) (proxy : List (String × Nat)) (hn : (proxy.map Prod.fst).Nodup) :
    (merge backend proxy).filterMap (fun m => match m with | .backend b => some b | .proxy _ _ => none) =
      backend.filter (fun b => !(proxy.map Prod.fst).contains b.name) := by
  rw [merge_closed_form backend proxy hn, List.filterMap_append]
  have h1 : ∀ l : List BNode, (l.map MNode.backend).filterMap
      (fun m => match m with | .backend b => some b | .proxy _ _ => none) = l := by
    intro l; induction l with
    | nil => rfl
    | cons a r ih => simp [ih]
  have h2 : ∀ l : List (String × Nat), (l.map (fun p => MNode.proxy p.1 p.2)).filterMap
      (fun m => match m with | .backend b => some b | .proxy _ _ => none) = [] := by
    intro l; induction l with
    | nil => rfl
    | cons a r ih => simp [ih]
  rw [h1, h2, List.append_nil]

/-- The proxy root's usable children have pairwise different names whenever the proxy's root children do
    (brigodier keys children by name), so the merge theorems apply to `proxyRootChildren`. -/
theorem proxyRootChildren_names_nodup (t : PTree) (perms : List Nat)
    (hn : ((childIds t 0).filterMap (fun id => (t[id - 1]?).map (·.name))).Nodup) :
    ((proxyRootChildren t perms).map Prod.fst).Nodup := by
  unfold proxyRootChildren
  rw [List.map_filterMap]
  refine List.Sublist.nodup ?_ hn
  induction (childIds t 0) with
  | nil => simp
  | cons id rest ih =>
    simp only [List.filterMap_cons]
    cases hnd : t[id - 1]? with
    | none => simpa using ih
    | some nd =>
      simp only [Option.map_some]
      by_cases hu : usable perms nd = true
      · simpa [hu] using ih
      · have hu' : usable perms nd = false := by simpa using hu
        simp only [hu', Bool.false_eq_true, if_false, Option.map_none]
        exact List.Sublist.cons _ ih

/-! ### histories: several commands packets on one backend connection -/

/-- Every packet of a history is answered as if it were the only one: with the tree, requirement outcomes and
    backend nodes current at that packet. -/
theorem history_pointwise (h : HState) (hist : List Step) : runHistory h hist = hist.map deliver := by
  induction hist generalizing h with
  | nil => rfl
  | cons s r ih => simp [runHistory, handlePacket, ih]

/-- What the player gets for a commands packet does not depend on the packets handled earlier on the connection
    (nothing is remembered: requirements are evaluated anew for every packet). -/
theorem history_independent_of_past (pre₁ pre₂ : List Step) (s : Step) :
    (runHistory () (pre₁ ++ [s])).getLast? = (runHistory () (pre₂ ++ [s])).getLast? := by
  simp [history_pointwise]

/-- For every history and every packet in it: each proxy node delivered with that packet — injected into the root
    or below, also through redirects — passes its requirement AT THAT TIME (in the tree and under the
    permissions current at that packet), whatever was delivered before. -/
theorem history_filtered_usable (hist : List Step) (k : Nat) (s : Step) (root : List MNode) (sub : List Tok)
    (hs : hist[k]? = some s) (hd : (runHistory () hist)[k]? = some (.tree root sub)) :
    (∀ id ∈ received sub, id = 0 ∨ ∃ nd, s.tree[id - 1]? = some nd ∧ reqOut s.perms nd = .allow) ∧
    (∀ n i, MNode.proxy n i ∈ root → ∃ nd, s.tree[i - 1]? = some nd ∧ reqOut s.perms nd = .allow ∧ nd.name = n) := by
  rw [history_pointwise, List.getElem?_map, hs] at hd
  simp only [Option.map_some, Option.some.injEq, deliver] at hd
  split at hd
  · rename_i ts hts
    cases hd
    constructor
    · intro id hid
      exact filter_usable s.tree s.perms _ 0 ts hts id (received_stripRoot ts id hid)
    · intro n i hm
      rcases proxy_mem_foldl_inject _ _ n i hm with h1 | h1
      · obtain ⟨_, nd, hnd, hu, hn⟩ := injected_are_usable_root_children s.tree s.perms (n, i) h1
        exact ⟨nd, hnd, hu, hn⟩
      · simp at h1
  · cases hd
  · cases hd

/-! ### redirect cycles (known finding redirect-cycle-diverges) -/

/-- brigadier's `execute … run` shape: `/execute` has a child that redirects to the root -/
def cyclicTree : PTree := [⟨0, "execute", .free, none⟩, ⟨1, "run", .free, some 0⟩]

/-- filterNode does not terminate on it, whatever the amount of fuel (in Go: stack overflow) -/
theorem redirect_to_ancestor_diverges_fails (perms : List Nat) :
    ∀ fuel, filter cyclicTree perms fuel 0 = .diverges ∧ filter cyclicTree perms fuel 1 = .diverges ∧
      filter cyclicTree perms fuel 2 = .diverges := by
  intro fuel
  induction fuel with
  | zero => simp [filter]
  | succ fuel ih =>
    obtain ⟨h0, h1, h2⟩ := ih
    have c0 : childIds cyclicTree 0 = [1] := by decide
    have c1 : childIds cyclicTree 1 = [2] := by decide
    have c2 : childIds cyclicTree 2 = [] := by decide
    have g1 : cyclicTree[0]? = some ⟨0, "execute", .free, none⟩ := rfl
    have g2 : cyclicTree[1]? = some ⟨1, "run", .free, some 0⟩ := rfl
    refine ⟨?_, ?_, ?_⟩
    · simp [filter, c0, h1, catRes]
    · simp [filter, c1, h2, catRes, g1, reqOut]
    · simp [filter, c2, h0, catRes, g2, reqOut]

/-! ### non-vacuity -/

/-- a tree with nesting, a requirement and a redirect; the rank hypotheses of `terminates_if_acyclic` hold with
    rank(root)=3, rank(server)=1, rank(n2)=0, rank(hub)=2 -/
example : filter [⟨0, "server", .free, none⟩, ⟨1, "n2", .perm 1, none⟩, ⟨0, "hub", .free, some 1⟩] [] 5 0
    = .ok [.node 0, .node 1, .up, .node 3, .redirect, .node 1, .up, .up, .up] := by decide

/-- a requirement that panics below a usable node: nothing is delivered; behind a denied node it is never evaluated -/
example : filter [⟨0, "server", .free, none⟩, ⟨1, "n2", .panics, none⟩] [] 5 0 = .panicked := by decide
example : filter [⟨0, "server", .perm 1, none⟩, ⟨1, "n2", .panics, none⟩] [] 5 0 = .ok [.node 0, .up] := by decide

/-- a permission revoked between two commands packets on one connection: `admin` is delivered, then it is not -/
example : runHistory () [⟨[⟨0, "server", .free, none⟩, ⟨0, "admin", .perm 1, none⟩], [1], []⟩,
                        ⟨[⟨0, "server", .free, none⟩, ⟨0, "admin", .perm 1, none⟩], [], []⟩]
    = [.tree [.proxy "server" 1, .proxy "admin" 2] [.node 1, .up, .node 2, .up],
       .tree [.proxy "server" 1] [.node 1, .up]] := by decide

example : merge [⟨"server", 1⟩, ⟨"give", 2⟩] [("server", 1), ("hub", 3)]
    = [.backend ⟨"give", 2⟩, .proxy "server" 1, .proxy "hub" 3] := by decide

end Gate.C23.Props
