import GateModel.C23.Model
/-
C23 helper lemmas: token-list algebra, filter invariants, the merge as a closed form.
-/
namespace Gate.C23

theorem received_append (a b : List Tok) : received (a ++ b) = received a ++ received b := by
  induction a with
  | nil => rfl
  | cons x r ih => cases x <;> simp [received, ih]

theorem mem_received_catOpt (l : List (Option (List Tok))) (ts : List Tok) (h : catOpt l = some ts) (id : Nat)
    (hid : id ∈ received ts) : ∃ a, some a ∈ l ∧ id ∈ received a := by
  induction l generalizing ts with
  | nil => simp [catOpt] at h; subst h; simp [received] at hid
  | cons x r ih =>
    cases x with
    | none => simp [catOpt] at h
    | some a =>
      simp only [catOpt, Option.map_eq_some_iff] at h
      obtain ⟨rest, hr, rfl⟩ := h
      rw [received_append, List.mem_append] at hid
      rcases hid with h1 | h2
      · exact ⟨a, by simp, h1⟩
      · obtain ⟨a', hm, hi⟩ := ih rest hr h2
        exact ⟨a', by simp [hm], hi⟩

theorem catOpt_isSome (l : List (Option (List Tok))) (h : ∀ x ∈ l, x.isSome = true) : (catOpt l).isSome = true := by
  induction l with
  | nil => rfl
  | cons x r ih =>
    cases x with
    | none => simpa using h none (by simp)
    | some a =>
      have := ih (fun y hy => h y (by simp [hy]))
      simp only [catOpt, Option.isSome_map]
      exact this

/-- Every node in what `filterNode` returns — at any depth, including redirect targets — is the root copy or a node
    whose requirement the player passes. -/
theorem filter_usable (t : PTree) (perms : List Nat) :
    ∀ (fuel n : Nat) (ts : List Tok), filter t perms fuel n = some ts →
      ∀ id ∈ received ts, id = 0 ∨ ∃ nd, t[id - 1]? = some nd ∧ usable perms nd = true := by
  intro fuel
  induction fuel with
  | zero => intro n ts h; simp [filter] at h
  | succ fuel ih =>
    intro n ts h id hid
    simp only [filter] at h
    split at h
    · -- root
      simp only [Option.map_eq_some_iff] at h
      obtain ⟨cs, hcs, rfl⟩ := h
      have hrec : received (Tok.node 0 :: cs ++ [Tok.up]) = 0 :: received cs := by
        simp [received, received_append]
      rw [hrec, List.mem_cons] at hid
      rcases hid with h0 | hin
      · left; exact h0
      · obtain ⟨a, hm, hi⟩ := mem_received_catOpt _ cs hcs id hin
        simp only [List.mem_map] at hm
        obtain ⟨c, _, hc⟩ := hm
        exact ih c a hc id hi
    · split at h
      · cases h; simp [received] at hid
      · rename_i nd hnd
        split at h
        · cases h; simp [received] at hid
        · rename_i huse
          split at h
          · rename_i r cs hr hcs
            cases h
            have hrec : received (Tok.node n :: r ++ cs ++ [Tok.up]) = n :: (received r ++ received cs) := by
              simp [received, received_append]
            rw [hrec, List.mem_cons, List.mem_append] at hid
            rcases hid with h0 | hin
            · right; exact ⟨nd, by rw [h0]; exact hnd, by simpa using huse⟩
            · rcases hin with hr' | hc'
              · -- inside the redirect target's copy
                split at hr
                · cases hr; simp [received] at hr'
                · rename_i tgt _
                  simp only [Option.map_eq_some_iff] at hr
                  obtain ⟨r0, hr0, rfl⟩ := hr
                  split at hr'
                  · simp [received] at hr'
                  · simp only [received] at hr'
                    exact ih tgt r0 hr0 id hr'
              · obtain ⟨a, hm, hi⟩ := mem_received_catOpt _ cs hcs id hc'
                simp only [List.mem_map] at hm
                obtain ⟨c, _, hc⟩ := hm
                exact ih c a hc id hi
          · cases h

/-- a node the player may not use is dropped together with everything below it -/
theorem filter_unusable (t : PTree) (perms : List Nat) (fuel n : Nat) (nd : PNode) (hn : n ≠ 0)
    (hnd : t[n - 1]? = some nd) (hu : usable perms nd = false) : filter t perms (fuel + 1) n = some [] := by
  simp [filter, hn, hnd, hu]

/-- termination: if children and redirect targets have smaller rank, `rank n + 1` fuel is enough -/
theorem filter_terminates (t : PTree) (perms : List Nat) (rank : Nat → Nat)
    (hchild : ∀ n, ∀ c ∈ childIds t n, rank c < rank n)
    (hred : ∀ n nd tgt, t[n - 1]? = some nd → n ≠ 0 → nd.redirect = some tgt → rank tgt < rank n) :
    ∀ fuel n, rank n < fuel → (filter t perms fuel n).isSome = true := by
  intro fuel
  induction fuel with
  | zero => intro n h; omega
  | succ fuel ih =>
    intro n hlt
    have hkids : (catOpt ((childIds t n).map (filter t perms fuel))).isSome = true := by
      apply catOpt_isSome
      intro x hx
      simp only [List.mem_map] at hx
      obtain ⟨c, hc, rfl⟩ := hx
      exact ih c (by have := hchild n c hc; omega)
    simp only [filter]
    split
    · rename_i h0
      subst h0
      simp only [Option.isSome_map]; exact hkids
    · rename_i h0
      split
      · rfl
      · rename_i nd hnd
        split
        · rfl
        · have hredSome : ∀ r, r = (match nd.redirect with
              | none => some []
              | some tgt => (filter t perms fuel tgt).map (fun (r : List Tok) => if r.isEmpty then [] else Tok.redirect :: r)) →
              r.isSome = true := by
            intro r hr
            subst hr
            split
            · rfl
            · rename_i tgt htgt
              simp only [Option.isSome_map]
              exact ih tgt (by have := hred n nd tgt hnd h0 htgt; omega)
          split
          · rfl
          · rename_i hnot
            exfalso
            obtain ⟨cs, hcs⟩ := Option.isSome_iff_exists.mp hkids
            obtain ⟨r, hr⟩ := Option.isSome_iff_exists.mp (hredSome _ rfl)
            exact hnot r cs hr hcs

/-! ### merge -/

def isProxyName (proxy : List (String × Nat)) (m : MNode) : Bool := (proxy.map Prod.fst).contains m.name

/-- closed form of the injection loop, for proxy nodes with pairwise different names -/
theorem foldl_inject (proxy : List (String × Nat)) (hn : (proxy.map Prod.fst).Nodup) :
    ∀ root : List MNode, proxy.foldl inject root =
      root.filter (fun m => !isProxyName proxy m) ++ proxy.map (fun p => MNode.proxy p.1 p.2) := by
  induction proxy with
  | nil =>
    intro root
    have : root.filter (fun m => !isProxyName [] m) = root := by
      induction root with
      | nil => rfl
      | cons a r ih => simp [isProxyName] 
    simp [this]
  | cons p rest ih =>
    intro root
    simp only [List.map_cons, List.nodup_cons] at hn
    obtain ⟨hp, hrest⟩ := hn
    simp only [List.foldl_cons]
    rw [ih hrest]
    simp only [inject, List.filter_append, List.filter_filter, List.map_cons]
    have hkeep : ([MNode.proxy p.1 p.2].filter (fun m => !isProxyName rest m)) = [MNode.proxy p.1 p.2] := by
      simp only [List.filter_cons, List.filter_nil]
      have : isProxyName rest (MNode.proxy p.1 p.2) = false := by
        simp only [isProxyName, MNode.name]
        simpa using hp
      simp [this]
    rw [hkeep]
    have hpred : (fun m : MNode => (!isProxyName rest m) && (m.name != p.1)) = (fun m => !isProxyName (p :: rest) m) := by
      funext m
      simp only [isProxyName, List.map_cons, List.contains_cons]
      cases h1 : (List.map Prod.fst rest).contains m.name <;> cases h2 : (m.name == p.1) <;> simp [bne, h2]
    rw [hpred]
    simp

end Gate.C23
