import GateModel.C23.Model
/-
C23 helper lemmas: token-list algebra, filter invariants, the merge as a closed form.
-/
namespace Gate.C23

theorem received_append (a b : List Tok) : received (a ++ b) = received a ++ received b := by
  induction a with
  | nil => rfl
  | cons x r ih => cases x <;> simp [received, ih]

theorem mem_received_catRes (l : List Res) (ts : List Tok) (h : catRes l = .ok ts) (id : Nat)
    (hid : id ∈ received ts) : ∃ a, Res.ok a ∈ l ∧ id ∈ received a := by
  induction l generalizing ts with
  | nil => simp [catRes] at h; subst h; simp [received] at hid
  | cons x r ih =>
    cases x with
    | diverges => simp [catRes] at h
    | panicked => simp [catRes] at h
    | ok a =>
      simp only [catRes] at h
      cases hr : catRes r with
      | diverges => rw [hr] at h; cases h
      | panicked => rw [hr] at h; cases h
      | ok rest =>
        rw [hr] at h
        cases h
        rw [received_append, List.mem_append] at hid
        rcases hid with h1 | h2
        · exact ⟨a, by simp, h1⟩
        · obtain ⟨a', hm, hi⟩ := ih rest hr h2
          exact ⟨a', by simp [hm], hi⟩

theorem catRes_ne_diverges (l : List Res) (h : ∀ x ∈ l, x ≠ .diverges) : catRes l ≠ .diverges := by
  induction l with
  | nil => simp [catRes]
  | cons x r ih =>
    have hr := ih (fun y hy => h y (by simp [hy]))
    have hx := h x (by simp)
    cases x with
    | diverges => exact absurd rfl hx
    | panicked => simp [catRes]
    | ok a =>
      simp only [catRes]
      cases hc : catRes r with
      | diverges => exact absurd hc hr
      | panicked => simp
      | ok b => simp

/-- Every node in what `filterNode` returns — at any depth, including redirect targets — is the root copy or a node
    whose requirement returned true for the player (not false, and it did not panic). -/
theorem filter_usable (t : PTree) (perms : List Nat) :
    ∀ (fuel n : Nat) (ts : List Tok), filter t perms fuel n = .ok ts →
      ∀ id ∈ received ts, id = 0 ∨ ∃ nd, t[id - 1]? = some nd ∧ reqOut perms nd = .allow := by
  intro fuel
  induction fuel with
  | zero => intro n ts h; simp [filter] at h
  | succ fuel ih =>
    intro n ts h id hid
    simp only [filter] at h
    split at h
    · -- root
      split at h
      · rename_i cs hcs
        cases h
        have hrec : received (Tok.node 0 :: cs ++ [Tok.up]) = 0 :: received cs := by
          simp [received, received_append]
        rw [hrec, List.mem_cons] at hid
        rcases hid with h0 | hin
        · left; exact h0
        · obtain ⟨a, hm, hi⟩ := mem_received_catRes _ cs hcs id hin
          simp only [List.mem_map] at hm
          obtain ⟨c, _, hc⟩ := hm
          exact ih c a hc id hi
      · rename_i hne
        exact (hne _ h).elim
    · split at h
      · cases h; simp [received] at hid
      · rename_i nd hnd
        split at h
        · cases h
        · cases h; simp [received] at hid
        · rename_i hallow
          split at h
          · rename_i r hr
            split at h
            · rename_i cs hcs
              cases h
              have hrec : received (Tok.node n :: r ++ cs ++ [Tok.up]) = n :: (received r ++ received cs) := by
                simp [received, received_append]
              rw [hrec, List.mem_cons, List.mem_append] at hid
              rcases hid with h0 | hin
              · right; exact ⟨nd, by rw [h0]; exact hnd, hallow⟩
              · rcases hin with hr' | hc'
                · -- inside the redirect target's copy
                  split at hr
                  · cases hr; simp [received] at hr'
                  · rename_i tgt _
                    split at hr
                    · rename_i r0 hr0
                      cases hr
                      split at hr'
                      · simp [received] at hr'
                      · simp only [received] at hr'
                        exact ih tgt r0 hr0 id hr'
                    · rename_i hne
                      exact (hne _ hr).elim
                · obtain ⟨a, hm, hi⟩ := mem_received_catRes _ cs hcs id hc'
                  simp only [List.mem_map] at hm
                  obtain ⟨c, _, hc⟩ := hm
                  exact ih c a hc id hi
            · rename_i hne
              exact (hne _ h).elim
          · rename_i hne
            exact (hne _ h).elim

/-- a node whose requirement returns false is dropped together with everything below it -/
theorem filter_denied (t : PTree) (perms : List Nat) (fuel n : Nat) (nd : PNode) (hn : n ≠ 0)
    (hnd : t[n - 1]? = some nd) (hu : reqOut perms nd = .deny) : filter t perms (fuel + 1) n = .ok [] := by
  simp [filter, hn, hnd, hu]

/-- a node whose requirement panics makes the whole call panic: nothing is returned -/
theorem filter_panics (t : PTree) (perms : List Nat) (fuel n : Nat) (nd : PNode) (hn : n ≠ 0)
    (hnd : t[n - 1]? = some nd) (hu : reqOut perms nd = .panic) : filter t perms (fuel + 1) n = .panicked := by
  simp [filter, hn, hnd, hu]

/-- termination: if children and redirect targets have smaller rank, `rank n + 1` fuel is enough -/
theorem filter_terminates (t : PTree) (perms : List Nat) (rank : Nat → Nat)
    (hchild : ∀ n, ∀ c ∈ childIds t n, rank c < rank n)
    (hred : ∀ n nd tgt, t[n - 1]? = some nd → n ≠ 0 → nd.redirect = some tgt → rank tgt < rank n) :
    ∀ fuel n, rank n < fuel → filter t perms fuel n ≠ .diverges := by
  intro fuel
  induction fuel with
  | zero => intro n h; omega
  | succ fuel ih =>
    intro n hlt
    have hkids : catRes ((childIds t n).map (filter t perms fuel)) ≠ .diverges := by
      apply catRes_ne_diverges
      intro x hx
      simp only [List.mem_map] at hx
      obtain ⟨c, hc, rfl⟩ := hx
      exact ih c (by have := hchild n c hc; omega)
    simp only [filter]
    split
    · rename_i h0
      subst h0
      split
      · simp
      · exact hkids
    · rename_i h0
      split
      · simp
      · rename_i nd hnd
        split
        · simp
        · simp
        · split
          · split
            · simp
            · exact hkids
          · split
            · simp
            · rename_i tgt htgt
              split
              · simp
              · exact ih tgt (by have := hred n nd tgt hnd h0 htgt; omega)

theorem received_of_sublist {a b : List Tok} (h : a.Sublist b) : ∀ id ∈ received a, id ∈ received b := by
  induction h with
  | slnil => intro id hid; exact hid
  | cons x _ ih =>
    intro id hid
    cases x <;> simp [received, ih id hid]
  | cons_cons x _ ih =>
    intro id hid
    cases x with
    | node n =>
      simp only [received, List.mem_cons] at hid ⊢
      rcases hid with h | h
      · left; exact h
      · right; exact ih id h
    | redirect => simpa [received] using ih id (by simpa [received] using hid)
    | up => simpa [received] using ih id (by simpa [received] using hid)

theorem received_stripRoot (ts : List Tok) : ∀ id ∈ received (stripRoot ts), id ∈ received ts := by
  intro id hid
  unfold stripRoot at hid
  split at hid
  · rename_i r
    have := received_of_sublist (List.dropLast_sublist r) id hid
    simp [received, this]
  · exact hid

/-! ### merge -/

/-- an injected proxy node in the merged root comes from the injection list -/
theorem proxy_mem_foldl_inject (proxy : List (String × Nat)) :
    ∀ (root : List MNode) (n : String) (i : Nat), MNode.proxy n i ∈ proxy.foldl inject root →
      (n, i) ∈ proxy ∨ MNode.proxy n i ∈ root := by
  induction proxy with
  | nil => intro root n i h; right; simpa using h
  | cons p rest ih =>
    intro root n i h
    simp only [List.foldl_cons] at h
    rcases ih _ n i h with h1 | h1
    · left; simp [h1]
    · simp only [inject, List.mem_append, List.mem_filter, List.mem_singleton] at h1
      rcases h1 with ⟨hm, _⟩ | hm
      · right; exact hm
      · left
        cases hm
        simp


def isProxyName (proxy : List (String × Nat)) (m : MNode) : Bool := (proxy.map Prod.fst).contains m.name

/-- closed form of the injection loop, for proxy nodes with pairwise different names -/
theorem foldl_inject (proxy : List (String × Nat)) (hn : (proxy.map Prod.fst).Nodup) :
    ∀ root : List MNode, proxy.foldl inject root =
      root.filter (fun m => !isProxyName proxy m) ++ proxy.map (fun p => MNode.proxy p.1 p.2) := by
  induction proxy with
  | nil =>
    intro root
    have : root.filter (fun m => !isProxyName [] m) = root := by
      induction root with
      | nil => rfl
      | cons a r ih => simp [isProxyName] 
    simp [this]
  | cons p rest ih =>
    intro root
    simp only [List.map_cons, List.nodup_cons] at hn
    obtain ⟨hp, hrest⟩ := hn
    simp only [List.foldl_cons]
    rw [ih hrest]
    simp only [inject, List.filter_append, List.filter_filter, List.map_cons]
    have hkeep : ([MNode.proxy p.1 p.2].filter (fun m => !isProxyName rest m)) = [MNode.proxy p.1 p.2] := by
      simp only [List.filter_cons, List.filter_nil]
      have : isProxyName rest (MNode.proxy p.1 p.2) = false := by
        simp only [isProxyName, MNode.name]
        simpa using hp
      simp [this]
    rw [hkeep]
    have hpred : (fun m : MNode => (!isProxyName rest m) && (m.name != p.1)) = (fun m => !isProxyName (p :: rest) m) := by
      funext m
      simp only [isProxyName, List.map_cons, List.contains_cons]
      cases h1 : (List.map Prod.fst rest).contains m.name <;> cases h2 : (m.name == p.1) <;> simp [bne, h2]
    rw [hpred]
    simp

end Gate.C23
