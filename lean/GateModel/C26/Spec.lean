import GateModel.C26.Model
/-
C26 — reference: Velocity's `BungeeCordMessageResponder` (the port of BungeeCord's `DownstreamBridge`
plugin-channel handling), transcribed by hand from Velocity (proxy/…/connection/backend/
BungeeCordMessageResponder.java) — NOT derived from gate's code.  Java's `DataInput`/`DataOutput`
primitives are modelled on byte strings (`String`s are the byte strings of their modified-UTF-8 form,
see the assumptions in checks/C26.json); a Java exception is an explicit outcome `Exn`.

Velocity, per sub-channel (after `in.readUTF()` of the sub-channel name):
  Connect            s ← readUTF; getServer(s).ifPresent(player.createConnectionRequest(·).fireAndForget())
  ConnectOther       p ← readUTF; s ← readUTF; if both present: p.createConnectionRequest(s).fireAndForget()
  IP                 "IP", host, writeInt(port)                                → sendResponseOnConnection
  IPOther            getPlayer(readUTF).ifPresent: "IPOther", name, host, writeInt(port)
  PlayerCount        t ← readUTF; t.equals("ALL") ? "PlayerCount","ALL",int(proxy count)
                                                  : getServer(t).ifPresent: "PlayerCount", name, int(#players)
  PlayerList         t ← readUTF; "ALL" ? "PlayerList","ALL",join(", ", all usernames)
                                         : getServer(t).ifPresent: "PlayerList", name, join(", ", usernames)
  GetServers         "GetServers", join(", ", server names)
  Message/MessageRaw t ← readUTF; m ← readUTF; c ← deserialize(m); "ALL" ? proxy.sendMessage(c)
                                         : getPlayer(t).ifPresent(p → p.sendMessage(c))
  GetServer          "GetServer", player.ensureAndGetCurrentServer().name
  UUID / UUIDOther   "UUID", undashed | getPlayer(readUTF).ifPresent: "UUIDOther", name, undashed
  ServerIP           getServer(readUTF).ifPresent: "ServerIP", name, host, writeShort(port)
  KickPlayer(/Raw)   getPlayer(readUTF).ifPresent: r ← readUTF; p.disconnect(deserialize(r))
  GetPlayerServer    getPlayer(readUTF).ifPresent(p → p.getCurrentServer().ifPresent(s →
                        "GetPlayerServer", p.username, s.name → sendResponseOnConnection))
  ForwardToPlayer    getPlayer(readUTF).ifPresent: toForward = in.unwrap().copy();  sendServerResponse(THAT player, toForward)
  Forward            t ← readUTF; toForward = in.unwrap().copy(); "ALL"/"ONLINE" (equals): every server whose
                        ServerInfo ≠ the caller's current one: rs.sendPluginMessage(LEGACY_CHANNEL, toForward)
                        else getServer(t).ifPresent(·.sendPluginMessage(LEGACY_CHANNEL, toForward))
  sendServerResponse(player, buf): conn = player.ensureAndGetCurrentServer().ensureConnected()   (throws if none);
                        conn.write(new PluginMessagePacket(getBungeeCordChannel(conn.protocolVersion), buf))
  isBungeeCordMessage: channel.equals("bungeecord:main") || channel.equals("BungeeCord")
`RegisteredServer.sendPluginMessage` writes the message ONCE, on the backend connection of the first
connected player whose current server is that server (nothing if there is none).
-/
namespace Gate.C26
open Gate

/-- why Velocity's handler threw -/
inductive Exn where
  | truncated       -- `readUTF` ran past the end (IndexOutOfBounds / EOF)
  | noServer        -- `ensureAndGetCurrentServer` / `ensureConnected`: the player has no live backend connection
  | utfTooLong      -- `writeUTF` of more than 65535 bytes (UTFDataFormatException)
  | badComponent    -- component deserializer threw / is unavailable
  | emptyForward    -- Forward/ForwardToPlayer with nothing after the target: BungeeCord's `readUTF` of the channel
                    -- throws, Velocity writes an empty plugin message; not judged
  deriving DecidableEq, Repr

abbrev R := Except Exn

/-- `DataInput.readUTF` -/
def jReadUTF : Bytes → R (Bytes × Bytes)
  | a :: b :: r =>
    let n := a.toNat * 256 + b.toNat
    if n ≤ r.length then .ok (r.take n, r.drop n) else .error .truncated
  | _ => .error .truncated

/-- `DataOutput.writeUTF` -/
def jWriteUTF (s : Bytes) : R Bytes :=
  if s.length ≤ 65535 then .ok ([UInt8.ofNat (s.length / 256), UInt8.ofNat (s.length % 256)] ++ s)
  else .error .utfTooLong
/-- `writeInt` / `writeShort` of a non-negative `int` -/
def jWriteInt (n : Nat) : Bytes :=
  [UInt8.ofNat (n / 16777216 % 256), UInt8.ofNat (n / 65536 % 256), UInt8.ofNat (n / 256 % 256), UInt8.ofNat (n % 256)]
def jWriteShort (n : Nat) : Bytes := [UInt8.ofNat (n / 256 % 256), UInt8.ofNat (n % 256)]

/-- `new StringJoiner(", ")` -/
def jJoin : List Bytes → Bytes
  | [] => []
  | [x] => x
  | x :: y :: r => x ++ sSep ++ jJoin (y :: r)

def jChannel (protocol : Nat) : Bytes := if protocol ≥ 393 then cModern else cLegacy

/-- `sendServerResponse(player, buf)` -/
def jSend (p : Player) (buf : Bytes) : R (List Effect) :=
  match p.conn with
  | none => .error .noServer
  | some c => .ok [.respond c buf]

def jDec : Dec → R Comp
  | .ok c => .ok c
  | _ => .error .badComponent

def jUtf3 (a b c : Bytes) : R Bytes := do
  let x ← jWriteUTF a; let y ← jWriteUTF b; let z ← jWriteUTF c
  pure (x ++ y ++ z)

/-- the responder; `ext.legacy` stands for `LegacyComponentSerializer.legacySection()`, `ext.jsonDefault`
    for `GsonComponentSerializer.gson()` (one version-independent JSON deserializer) -/
def specSub (ext : Ext) (st : St) (sub inp : Bytes) : R (List Effect) :=
  if sub = sGetPlayerServer then do
    let (name, _) ← jReadUTF inp
    match st.playerByName name with
    | none => pure []
    | some p =>
      match p.conn with
      | none => pure []
      | some c => do
        let buf ← jUtf3 sGetPlayerServer p.name c.server
        jSend st.caller buf
  else if sub = sForwardToPlayer then do
    let (name, rest) ← jReadUTF inp
    match st.playerByName name with
    | none => pure []
    | some p => if rest = [] then .error .emptyForward else jSend p rest
  else if sub = sForward then do
    let (target, rest) ← jReadUTF inp
    if rest = [] then .error .emptyForward
    else if target = sALL ∨ target = sONLINE then
      let cur : Option Bytes := st.caller.conn.map (·.server)
      pure ((st.servers.filter (fun s => some s.name != cur)).map fun s => .broadcast s.name rest)
    else
      match st.serverByName target with
      | some s => pure [.broadcast s.name rest]
      | none => pure []
  else if sub = sConnect then do
    let (name, _) ← jReadUTF inp
    match st.serverByName name with
    | some s => pure [.connect st.caller.name s.name]
    | none => pure []
  else if sub = sConnectOther then do
    let (pname, r1) ← jReadUTF inp
    let (sname, _) ← jReadUTF r1
    match st.playerByName pname, st.serverByName sname with
    | some p, some s => pure [.connect p.name s.name]
    | _, _ => pure []
  else if sub = sIP then do
    let a ← jWriteUTF sIP; let h ← jWriteUTF st.caller.host
    jSend st.caller (a ++ h ++ jWriteInt st.caller.port)
  else if sub = sPlayerCount then do
    let (target, _) ← jReadUTF inp
    if target = sALL then do
      let a ← jWriteUTF sPlayerCount; let b ← jWriteUTF sALL
      jSend st.caller (a ++ b ++ jWriteInt st.playerCount)
    else
      match st.serverByName target with
      | none => pure []
      | some s => do
        let a ← jWriteUTF sPlayerCount; let b ← jWriteUTF s.name
        jSend st.caller (a ++ b ++ jWriteInt s.count)
  else if sub = sPlayerList then do
    let (target, _) ← jReadUTF inp
    if target = sALL then do
      let buf ← jUtf3 sPlayerList sALL (jJoin (st.players.map (·.name)))
      jSend st.caller buf
    else
      match st.serverByName target with
      | none => pure []
      | some s => do
        let buf ← jUtf3 sPlayerList s.name (jJoin s.players)
        jSend st.caller buf
  else if sub = sGetServers then do
    let a ← jWriteUTF sGetServers; let b ← jWriteUTF (jJoin (st.servers.map (·.name)))
    jSend st.caller (a ++ b)
  else if sub = sMessage ∨ sub = sMessageRaw then do
    let (target, r1) ← jReadUTF inp
    let (msg, _) ← jReadUTF r1
    let comp ← jDec (if sub = sMessage then ext.legacy msg else ext.jsonDefault msg)
    if target = sALL then pure [.msgAll comp]
    else
      match st.playerByName target with
      | some p => pure [.msgPlayer p.name comp]
      | none => pure []
  else if sub = sGetServer then
    match st.caller.conn with
    | none => .error .noServer
    | some c => do
      let a ← jWriteUTF sGetServer; let b ← jWriteUTF c.server
      jSend st.caller (a ++ b)
  else if sub = sUUID then do
    let a ← jWriteUTF sUUID; let b ← jWriteUTF st.caller.uuid
    jSend st.caller (a ++ b)
  else if sub = sUUIDOther then do
    let (name, _) ← jReadUTF inp
    match st.playerByName name with
    | none => pure []
    | some p => do
      let buf ← jUtf3 sUUIDOther p.name p.uuid
      jSend st.caller buf
  else if sub = sIPOther then do
    let (name, _) ← jReadUTF inp
    match st.playerByName name with
    | none => pure []
    | some p => do
      let buf ← jUtf3 sIPOther p.name p.host
      jSend st.caller (buf ++ jWriteInt p.port)
  else if sub = sServerIP then do
    let (name, _) ← jReadUTF inp
    match st.serverByName name with
    | none => pure []
    | some s => do
      let buf ← jUtf3 sServerIP s.name s.host
      jSend st.caller (buf ++ jWriteShort s.port)
  else if sub = sKickPlayer ∨ sub = sKickPlayerRaw then do
    let (name, r1) ← jReadUTF inp
    match st.playerByName name with
    | none => pure []
    | some p => do
      let (msg, _) ← jReadUTF r1
      let comp ← jDec (if sub = sKickPlayer then ext.legacy msg else ext.jsonDefault msg)
      pure [.kick p.name comp]
  else pure []

/-- `process`: `none` = not a BungeeCord message (returns false); otherwise the effects or the exception -/
def spec (ext : Ext) (st : St) (chan data : Bytes) : Option (R (List Effect)) :=
  if chan = cModern ∨ chan = cLegacy then
    some (do
      let (sub, inp) ← jReadUTF data
      specSub ext st sub inp)
  else none

/-- BungeeCord's own framing of a forwarded message (`DownstreamBridge`): `writeUTF(channel)`,
    `writeShort(data.length)`, `write(data)` — what the receiving backend's BungeeCord-channel listener parses. -/
def forwardFrame (channel data : Bytes) : Bytes :=
  [UInt8.ofNat (channel.length / 256), UInt8.ofNat (channel.length % 256)] ++ channel ++
  [UInt8.ofNat (data.length / 256), UInt8.ofNat (data.length % 256)] ++ data

/-! ### reference for the adapter: what reaches which connection -/

/-- Velocity: respond = one plugin message on that player's backend connection; Forward = ONE plugin message
    to the backend server through a connected player's connection; connect = a connection request for that
    player; kick = disconnect that player; messages = chat to the addressed player(s). -/
def specAdapt (online : List Player) (listed : Bytes → List Player)
    (pick : List Player → Option Player) : Effect → List Write
  | .respond c data => [.backendPlugin c.owner (jChannel c.protocol) data]
  | .broadcast srv data =>
    -- sendPluginMessage: the first player IN THE SERVER'S LIST whose connected server IS this server
    match pick ((listed srv).filter fun p => match p.conn with | some c => c.server == srv | none => false) with
    | some p => [.backendPlugin p.name cLegacy data]
    | none => []
  | .connect p s =>
    -- `createConnectionRequest(s).fireAndForget()`: ALREADY_CONNECTED ⇒ the "already connected" notice,
    -- otherwise a ServerPreConnectEvent for (player, server)
    match (online.find? (·.name == p)).bind (·.conn) with
    | some c => if c.server == s then [.clientChat p] else [.connectRequest p s]
    | none => [.connectRequest p s]
  | .kick p _ => [.clientDisconnect p]
  | .msgAll _ => online.map fun p => .clientChat p.name
  | .msgPlayer p _ => [.clientChat p]
  | .msgServer _ _ => []

end Gate.C26
