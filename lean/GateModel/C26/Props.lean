import GateModel.C26.Lemmas
import GateModel.Gen.C26
/-
C26 — the BungeeCord plugin channel behaves like BungeeCord (as ported by Velocity).

Property theorems only.  `process` is the model of the REPAIRED `bungee_message.go` (fixes/C26-*.diff applied to
/repo), `spec` the hand transcription of Velocity's `BungeeCordMessageResponder`, `adapt` the model of the
repaired provider adapter `bungee.go`, `specAdapt` what Velocity writes per connection.  All theorems hold for
every proxy state (arbitrary lookup functions), every channel and every request byte string.

Hypotheses, all stated explicitly and shown satisfiable below:
  `NamesOk st`   names that are joined/compared are non-empty (gate's `joiner` drops the separator after an empty
                 first element; an empty server name would equal the "no current server" marker);
  `hjson`        the JSON decoder gate picks by the caller's protocol for KickPlayerRaw is the one default JSON decoder;
  `NoPanic ext`  the external component decoders do not panic.
What the reference leaves undefined (not claimed): `utfTooLong`, `badComponent`, `emptyForward` exceptions, and channel
ids that match only case-insensitively.
-/
namespace Gate.C26.Props
open Gate Gate.C26
set_option linter.unusedSimpArgs false
set_option linter.unusedVariables false

/-! ### 1. refinement of the reference -/

/-- Wherever Velocity's responder completes normally, the repaired responder reports the message handled and makes
    exactly the same provider calls (same connection, same bytes, same order), without panicking. -/
theorem process_refines_spec (ext : Ext) (st : St) (chan data : Bytes) (effs : List Effect)
    (hn : NamesOk st) (hjson : ext.jsonFor st.caller.protocol = ext.jsonDefault)
    (h : spec ext st chan data = some (.ok effs)) :
    process ext st chan data = ⟨true, effs, false⟩ := by
  unfold spec at h
  split at h
  · rename_i hc
    have hb : isBungee chan = true := by rcases hc with rfl | rfl <;> decide
    simp only [Option.some.injEq, bind_ok_iff, jReadUTF_ok_iff] at h
    obtain ⟨⟨sub, inp⟩, hr, hs⟩ := h
    simp only [process, processV, hb, hr]
    exact refine_sub ext st sub inp effs hn hjson hs
  · simp at h

/-- Where Velocity throws because the request is truncated or the addressed player has no live backend connection,
    the repaired responder does nothing (no response, no side effect, no panic). -/
theorem process_silent_where_reference_throws (ext : Ext) (st : St) (chan data : Bytes) (e : Exn)
    (he : e = .truncated ∨ e = .noServer) (h : spec ext st chan data = some (.error e)) :
    (process ext st chan data).effects = [] ∧ (process ext st chan data).panicked = false := by
  unfold spec at h
  split at h
  · rename_i hc
    have hb : isBungee chan = true := by rcases hc with rfl | rfl <;> decide
    simp only [Option.some.injEq, bind_error_iff, jReadUTF_error_iff, jReadUTF_ok_iff] at h
    rcases h with ⟨hr, _⟩ | ⟨⟨sub, inp⟩, hr, hs⟩
    · simp [process, processV, hb, hr, Out.none]
    · simp only [process, processV, hb, hr]
      exact quiet_sub ext st sub inp e he hs
  · simp at h

/-- No request makes the repaired responder panic ("no crash"), whatever the state. -/
theorem process_never_panics (ext : Ext) (st : St) (chan data : Bytes) (hp : NoPanic ext) :
    (process ext st chan data).panicked = false := by
  unfold process processV
  split
  · rfl
  · split
    · rfl
    · exact no_panic_sub ext st _ _ hp

/-- A message on any other channel is not processed at all. -/
theorem non_bungee_channel_ignored (ext : Ext) (st : St) (chan data : Bytes) (h : isBungee chan = false) :
    process ext st chan data = ⟨false, [], false⟩ := by
  simp [process, processV, h, Out.none]

/-- The reference is defined on the two channel ids exactly. -/
theorem spec_defined_on_bungee_channels (ext : Ext) (st : St) (data : Bytes) :
    (spec ext st cModern data).isSome ∧ (spec ext st cLegacy data).isSome := by
  simp [spec]

/-! ### 2. forwarded payloads -/

/-- `Forward <server> <rest>`: the target server is handed exactly the unread rest of the request. -/
theorem forward_payload_unchanged (ext : Ext) (st : St) (target rest : Bytes) (s : Server)
    (ht : target ≠ sALL ∧ target ≠ sONLINE) (hs : st.serverByName target = some s) (hl : target.length ≤ 65535) :
    process ext st cLegacy (writeUTF sForward ++ writeUTF target ++ rest) = ⟨true, [.broadcast s.name rest], false⟩ := by
  have h1 : readUTF (writeUTF sForward ++ writeUTF target ++ rest) = some (sForward, writeUTF target ++ rest) := by
    simp [writeUTF, beBytes2, sForward, readUTF]
  have h2 : readUTF (writeUTF target ++ rest) = some (target, rest) := by
    have : target.length / 256 % 256 = target.length / 256 := Nat.mod_eq_of_lt (by omega)
    have hlt : target.length / 256 < 256 := by omega
    have hlt2 : target.length % 256 < 256 := Nat.mod_lt _ (by decide)
    simp only [writeUTF, beBytes2, this, List.cons_append, List.nil_append, readUTF]
    have e1 : (UInt8.ofNat (target.length / 256)).toNat = target.length / 256 := by
      simp [Nat.mod_eq_of_lt hlt]
    have e2 : (UInt8.ofNat (target.length % 256)).toNat = target.length % 256 := by
      simp
    have e3 : target.length / 256 * 256 + target.length % 256 = target.length := by omega
    simp [e1, e2, e3]
  have hb : isBungee cLegacy = true := by decide
  have ht' : (target == sALL || target == sONLINE) = false := by simp [ht.1, ht.2]
  simp only [process, processV, hb, h1]
  simp [processSub, sForward, sForwardToPlayer, h2, prepareForward, repaired, isAllOrOnline, ht', hs, Out.of]

/-- … hence a BungeeCord-framed message (`writeUTF(channel) writeShort(len) data`) arrives with its channel name
    still length-prefixed. -/
theorem forward_keeps_length_prefixed_channel (ext : Ext) (st : St) (target channel data : Bytes) (s : Server)
    (ht : target ≠ sALL ∧ target ≠ sONLINE) (hs : st.serverByName target = some s) (hl : target.length ≤ 65535) :
    process ext st cLegacy (writeUTF sForward ++ writeUTF target ++ forwardFrame channel data) =
      ⟨true, [.broadcast s.name (forwardFrame channel data)], false⟩ :=
  forward_payload_unchanged ext st target _ s ht hs hl

/-- `Forward ALL|ONLINE`: the payload is handed to every listed server other than the caller's current one, and
    (server names being distinct) to each of them exactly once. -/
theorem forward_all_each_other_server_once (ext : Ext) (st : St) (target rest : Bytes) (s : Server)
    (ht : target = sALL ∨ target = sONLINE) (hnd : (st.servers.map (·.name)).Nodup)
    (hs : s ∈ st.servers) (hcur : ∀ c, st.caller.conn = some c → c.server ≠ s.name) (hne : s.name ≠ []) :
    ((processSub repaired ext st sForward (writeUTF target ++ rest)).effects.filter
        (fun e => match e with | .broadcast n _ => n == s.name | _ => false)).length = 1
    ∧ ∀ e ∈ (processSub repaired ext st sForward (writeUTF target ++ rest)).effects,
        ∃ s' ∈ st.servers, e = .broadcast s'.name rest := by
  have hl : target.length ≤ 65535 := by rcases ht with rfl | rfl <;> decide
  have h2 : readUTF (writeUTF target ++ rest) = some (target, rest) := by
    rcases ht with rfl | rfl <;> simp [writeUTF, beBytes2, sALL, sONLINE, readUTF]
  have ht' : (target == sALL || target == sONLINE) = true := by rcases ht with rfl | rfl <;> simp
  simp only [processSub, sForward, sForwardToPlayer, h2, prepareForward, repaired, isAllOrOnline, ht', Out.of]
  simp only [show (([70,111,114,119,97,114,100] : Bytes) = [70,111,114,119,97,114,100,84,111,80,108,97,121,101,114]) = False from by simp,
    if_false, if_true]
  have hscur : s.name ≠ (match st.caller.conn with | some c => c.server | none => ([] : Bytes)) := by
    cases hc : st.caller.conn with
    | none => exact hne
    | some c => exact fun h => hcur c hc h.symm
  have key : ∀ (cur : Bytes), s.name ≠ cur → ∀ (l : List Server), (l.map (·.name)).Nodup → s ∈ l →
      (((l.filter (fun x => x.name != cur)).map (fun x => Effect.broadcast x.name rest)).filter
        (fun e => match e with | .broadcast n _ => n == s.name | _ => false)).length = 1 := by
    intro cur hscur l
    induction l with
    | nil => intro _ h; cases h
    | cons a l ih =>
      intro hnd hm
      simp only [List.map_cons, List.nodup_cons] at hnd
      rcases List.mem_cons.mp hm with rfl | hm'
      · have hnot : ∀ x ∈ l, (x.name == s.name) = false := by
          intro x hx
          have : x.name ≠ s.name := fun h => hnd.1 (h ▸ List.mem_map_of_mem hx)
          simpa using this
        have hz : (((l.filter (fun x => x.name != cur)).map (fun x => Effect.broadcast x.name rest)).filter
            (fun e => match e with | .broadcast n _ => n == s.name | _ => false)) = [] := by
          simp only [List.filter_eq_nil_iff, List.mem_map, List.mem_filter]
          rintro e ⟨x, ⟨hx, _⟩, rfl⟩
          simp [hnot x hx]
        have hk : (s.name != cur) = true := by simpa using hscur
        simp [hk, hz]
      · have hne' : a.name ≠ s.name := fun h => hnd.1 (h ▸ List.mem_map_of_mem hm')
        have hb : (a.name == s.name) = false := by simpa using hne'
        by_cases hk : (a.name != cur) = true
        · simp [hk, hb, ih hnd.2 hm']
        · simp [hk, ih hnd.2 hm']
  constructor
  · exact key _ hscur st.servers hnd hs
  · intro e he
    simp only [List.mem_map, List.mem_filter] at he
    obtain ⟨x, ⟨hx, _⟩, rfl⟩ := he
    exact ⟨x, hx, rfl⟩

/-! ### 3. player- and server-targeted requests act on the named object; unknown names do nothing -/

/-- ForwardToPlayer writes the payload on the NAMED player's backend connection, with the channel id chosen by
    that connection's protocol. -/
theorem forward_to_player_uses_named_players_connection (ext : Ext) (st : St) (name rest : Bytes) (p : Player) (c : Conn)
    (hr : readUTF (writeUTF name ++ rest) = some (name, rest))
    (hp : st.playerByName name = some p) (hc : p.conn = some c) (hrest : rest ≠ []) :
    processSub repaired ext st sForwardToPlayer (writeUTF name ++ rest) = Out.of [.respond c rest] := by
  simp [processSub, hr, hp, prepareForward, repaired, hc, sendOn_some _ _ hrest]

/-- GetPlayerServer reports the NAMED player's server (on the caller's connection). -/
theorem get_player_server_reports_named_players_server (ext : Ext) (st : St) (name r : Bytes) (p : Player) (pc cc : Conn)
    (hr : readUTF (writeUTF name) = some (name, r))
    (hp : st.playerByName name = some p) (hpc : p.conn = some pc) (hcc : st.caller.conn = some cc) :
    processSub repaired ext st sGetPlayerServer (writeUTF name) =
      Out.of [.respond cc (writeUTF sGetPlayerServer ++ writeUTF p.name ++ writeUTF pc.server)] := by
  have : sGetPlayerServer ≠ sForwardToPlayer := by decide
  simp [processSub, sGetPlayerServer, sForwardToPlayer, sForward, sConnect, sConnectOther, sIP, sIPOther, sUUID,
    sUUIDOther, sPlayerCount, sPlayerList, sGetServers, sGetServer, sMessage, sMessageRaw, sServerIP, sKickPlayer,
    sKickPlayerRaw] at *
  simp [hr, hp, repaired, hpc, hcc, sendOn_utf]

/-- Every request that names a player does nothing when that player is unknown. -/
theorem unknown_player_no_effect (ext : Ext) (st : St) (sub name rest : Bytes)
    (hsub : sub ∈ [sForwardToPlayer, sConnectOther, sIPOther, sUUIDOther, sKickPlayer, sKickPlayerRaw, sGetPlayerServer])
    (hr : readUTF (writeUTF name ++ rest) = some (name, rest)) (hp : st.playerByName name = none) :
    processSub repaired ext st sub (writeUTF name ++ rest) = Out.of [] := by
  simp only [List.mem_cons, List.not_mem_nil, or_false] at hsub
  rcases hsub with rfl | rfl | rfl | rfl | rfl | rfl | rfl <;>
    simp [processSub, processKick, sGetPlayerServer, sForwardToPlayer, sForward, sConnect, sConnectOther, sIP, sIPOther,
      sUUID, sUUIDOther, sPlayerCount, sPlayerList, sGetServers, sGetServer, sMessage, sMessageRaw, sServerIP,
      sKickPlayer, sKickPlayerRaw, hr, hp]

/-- A chat message for an unknown player (target ≠ ALL) is dropped — no nil dereference. -/
theorem message_unknown_target_no_effect (ext : Ext) (st : St) (dec : Bytes → Dec) (target msg r : Bytes) (c : Comp)
    (hr1 : readUTF (writeUTF target ++ writeUTF msg) = some (target, writeUTF msg))
    (hr2 : readUTF (writeUTF msg) = some (msg, r)) (hd : dec msg = .ok c)
    (ht : target ≠ sALL) (hp : st.playerByName target = none) :
    processMessage repaired st dec (writeUTF target ++ writeUTF msg) = Out.of [] := by
  simp [processMessage, hr1, hr2, hd, decOut, ht, repaired, hp]

/-- Every request that names a server does nothing when that server is unknown. -/
theorem unknown_server_no_effect (ext : Ext) (st : St) (sub name rest : Bytes)
    (hsub : sub ∈ [sForward, sConnect, sPlayerCount, sPlayerList, sServerIP])
    (hr : readUTF (writeUTF name ++ rest) = some (name, rest))
    (hall : name ≠ sALL ∧ name ≠ sONLINE) (hs : st.serverByName name = none) :
    processSub repaired ext st sub (writeUTF name ++ rest) = Out.of [] := by
  have h1 : (name == sALL) = false := by simp [hall.1]
  have h2 : (name == sONLINE) = false := by simp [hall.2]
  simp only [List.mem_cons, List.not_mem_nil, or_false] at hsub
  rcases hsub with rfl | rfl | rfl | rfl | rfl <;>
    simp [processSub, sGetPlayerServer, sForwardToPlayer, sForward, sConnect, sConnectOther, sIP, sIPOther,
      sUUID, sUUIDOther, sPlayerCount, sPlayerList, sGetServers, sGetServer, sMessage, sMessageRaw, sServerIP,
      sKickPlayer, sKickPlayerRaw, hr, hs, prepareForward, repaired, isAllOrOnline, isAll] <;>
    simp_all [sALL, sONLINE]

/-! ### 4. the provider adapter: which connection receives what -/

/-- side conditions under which an effect is within the reference's domain -/
def AdaptOk (online : List Player) : Effect → Prop
  | .broadcast _ d => d ≠ []
  | .connect p _ => (online.find? (·.name == p)).isSome
  | .msgServer _ _ => False
  | _ => True

/-- The repaired adapter writes, per effect, exactly the packets Velocity writes: a response on that player's backend
    connection; a Forward payload ONCE on the backend connection of a player that is LISTED on the target server AND
    currently connected to it (never to clients, never through a player whose current server is another one); a
    connection request / disconnect / chat message for the addressed player.  `listed` (the servers' player lists)
    and the players' current connections are independent relations. -/
theorem adapter_refines_reference (online : List Player) (listed : Bytes → List Player)
    (pick : List Player → Option Player) (e : Effect)
    (h : AdaptOk online e) : adapt repairedA online listed pick e = specAdapt online listed pick e := by
  cases e with
  | respond c d => rfl
  | broadcast s d =>
    have hd : d.isEmpty = false := by cases d <;> simp_all [AdaptOk]
    simp only [adapt, specAdapt, hd, repairedA, carriers]
    show (match pick (List.filter (isOn s) (listed s)) with
          | some p => [Write.backendPlugin p.name cLegacy d] | none => []) =
         (match pick (List.filter (isOn s) (listed s)) with
          | some p => [Write.backendPlugin p.name cLegacy d] | none => [])
    rfl
  | connect p s =>
    simp only [AdaptOk] at h
    cases hf : online.find? (·.name == p) with
    | none => simp [hf] at h
    | some pl => cases hc : pl.conn <;> simp [adapt, specAdapt, hf, hc]
  | kick p c => rfl
  | msgAll c => rfl
  | msgPlayer p c => rfl
  | msgServer s c => exact absurd h (by simp [AdaptOk])

/-- A Forward produces at most one packet; when some listed player is currently connected to the target server it is
    exactly one, and it travels on the backend connection of such a player — a connection TO THE TARGET SERVER —
    whatever the state of the two relations (in particular while another player is mid server switch). -/
theorem forward_reaches_backend_once (online : List Player) (listed : Bytes → List Player)
    (pick : List Player → Option Player) (hpick : ∀ l p, pick l = some p → p ∈ l) (srv data : Bytes) (hd : data ≠ []) :
    (adapt repairedA online listed pick (.broadcast srv data) = [] ∧ pick (carriers listed srv) = none) ∨
    (∃ p c, adapt repairedA online listed pick (.broadcast srv data) = [.backendPlugin p.name cLegacy data] ∧
        p ∈ listed srv ∧ p.conn = some c ∧ c.server = srv) := by
  have hde : data.isEmpty = false := by cases data <;> simp_all
  cases hp : pick (carriers listed srv) with
  | none => left; simp [adapt, repairedA, hde, hp]
  | some p =>
    right
    have hm := hpick _ _ hp
    simp only [carriers, List.mem_filter, isOn] at hm
    cases hc : p.conn with
    | none => simp [hc] at hm
    | some c =>
      refine ⟨p, c, by simp [adapt, repairedA, hde, hp], hm.1, hc, ?_⟩
      simpa [hc] using hm.2

/-- With a connected, listed player on the target the Forward IS delivered (the picker finds someone in a non-empty
    list). -/
theorem forward_delivered_when_someone_is_there (online : List Player) (listed : Bytes → List Player)
    (pick : List Player → Option Player) (hne : ∀ l, l ≠ [] → (pick l).isSome) (srv data : Bytes) (hd : data ≠ [])
    (p : Player) (c : Conn) (hl : p ∈ listed srv) (hc : p.conn = some c) (hs : c.server = srv) :
    (adapt repairedA online listed pick (.broadcast srv data)).length = 1 := by
  have hde : data.isEmpty = false := by cases data <;> simp_all
  have hmem : p ∈ carriers listed srv := by simp [carriers, isOn, hl, hc, hs]
  have := hne (carriers listed srv) (List.ne_nil_of_mem hmem)
  cases hp : pick (carriers listed srv) with
  | none => simp [hp] at this
  | some q => simp [adapt, repairedA, hde, hp]

/-! ### 5. the code as found violates the property (kernel-checked witnesses) -/

set_option maxRecDepth 16000

def wAlice : Bytes := [65,108,105,99,101]
def wBob : Bytes := [98,111,98]
def wLobby : Bytes := [108,111,98,98,121]
def wPvp : Bytes := [112,118,112]
def wChan : Bytes := [77,121,67,104,97,110,110,101,108]   -- "MyChannel"
def wHost : Bytes := [49,46,50,46,51,46,52]
def alice : Player := ⟨wAlice, [97], wHost, 50001, 765, some ⟨wAlice, wLobby, 765⟩⟩
def bob : Player := ⟨wBob, [98], wHost, 50002, 340, some ⟨wBob, wPvp, 393⟩⟩
def wSt : St := mkSt alice [alice, bob] 2 [⟨wLobby, wHost, 25566, 1, [wAlice]⟩, ⟨wPvp, wHost, 40000, 1, [wBob]⟩]
def wExt : Ext := ⟨fun m => .ok m, fun _ m => .ok m, fun m => .ok m, []⟩

/-- Forward: the code as found drops the channel name's length prefix (`00 09`). -/
theorem forward_framing_fails :
    spec wExt wSt cLegacy (writeUTF sForward ++ writeUTF wPvp ++ forwardFrame wChan [1,2,3]) =
      some (.ok [.broadcast wPvp (forwardFrame wChan [1,2,3])]) ∧
    processDefective wExt wSt cLegacy (writeUTF sForward ++ writeUTF wPvp ++ forwardFrame wChan [1,2,3]) =
      ⟨true, [.broadcast wPvp (wChan ++ [0,3,1,2,3])], false⟩ := by
  constructor <;> first | rfl | decide

/-- Forward with a length field ≥ 0x8000: the code as found panics (`make([]byte, -1)`). -/
theorem forward_negative_length_panics :
    (processDefective wExt wSt cLegacy (writeUTF sForward ++ writeUTF wPvp ++ writeUTF wChan ++ [0xff, 0xff])).panicked = true := by
  decide

/-- ForwardToPlayer bob: the code as found writes on the CALLER's (alice's lobby) connection. -/
theorem forward_to_player_wrong_connection_fails :
    spec wExt wSt cLegacy (writeUTF sForwardToPlayer ++ writeUTF wBob ++ forwardFrame wChan [1]) =
      some (.ok [.respond ⟨wBob, wPvp, 393⟩ (forwardFrame wChan [1])]) ∧
    (processDefective wExt wSt cLegacy (writeUTF sForwardToPlayer ++ writeUTF wBob ++ forwardFrame wChan [1])).effects =
      [.respond ⟨wAlice, wLobby, 765⟩ (wChan ++ [0,1,1])] := by
  constructor <;> first | rfl | decide

/-- GetPlayerServer bob: the code as found answers "lobby" (the caller's server) instead of "pvp". -/
theorem get_player_server_fails :
    spec wExt wSt cLegacy (writeUTF sGetPlayerServer ++ writeUTF wBob) =
      some (.ok [.respond ⟨wAlice, wLobby, 765⟩ (writeUTF sGetPlayerServer ++ writeUTF wBob ++ writeUTF wPvp)]) ∧
    (processDefective wExt wSt cLegacy (writeUTF sGetPlayerServer ++ writeUTF wBob)).effects =
      [.respond ⟨wAlice, wLobby, 765⟩ (writeUTF sGetPlayerServer ++ writeUTF wBob ++ writeUTF wLobby)] := by
  constructor <;> first | rfl | decide

/-- Message bob "hi": the reference messages player bob; the code as found looks up a SERVER "bob" and calls a
    method on the nil result — panic. -/
theorem message_to_player_panics :
    spec wExt wSt cLegacy (writeUTF sMessage ++ writeUTF wBob ++ writeUTF [104,105]) = some (.ok [.msgPlayer wBob [104,105]]) ∧
    (processDefective wExt wSt cLegacy (writeUTF sMessage ++ writeUTF wBob ++ writeUTF [104,105])).panicked = true := by
  constructor <;> first | rfl | decide

/-- Message pvp "hi": no player is called pvp, the reference does nothing; the code as found messages the server. -/
theorem message_target_is_server_fails :
    spec wExt wSt cLegacy (writeUTF sMessage ++ writeUTF wPvp ++ writeUTF [104,105]) = some (.ok []) ∧
    (processDefective wExt wSt cLegacy (writeUTF sMessage ++ writeUTF wPvp ++ writeUTF [104,105])).effects =
      [.msgServer wPvp [104,105]] := by
  constructor <;> first | rfl | decide

/-- PlayerCount "all": not a server, the reference is silent; the code as found answers for ALL. -/
theorem player_count_casefold_fails :
    spec wExt wSt cLegacy (writeUTF sPlayerCount ++ writeUTF [97,108,108]) = some (.ok []) ∧
    (processDefective wExt wSt cLegacy (writeUTF sPlayerCount ++ writeUTF [97,108,108])).effects ≠ [] := by
  constructor <;> first | rfl | decide

def wListed : Bytes → List Player := fun srv => [alice, bob].filter (isOn srv)

/-- The adapter as found delivers a Forward payload to every CLIENT on the target server and never to the backend. -/
theorem adapter_forward_to_clients_fails :
    adapt ⟨false, true⟩ [alice, bob] wListed List.head? (.broadcast wPvp [1]) = [.clientPlugin wBob cLegacy [1]] ∧
    specAdapt [alice, bob] wListed List.head? (.broadcast wPvp [1]) = [.backendPlugin wBob cLegacy [1]] := by
  constructor <;> decide

/-- Mid server switch: bob is current on pvp but still LISTED on lobby (and alice has left lobby's list).  An adapter
    that trusts the list sends `Forward lobby` through bob — i.e. to the pvp backend; the reference (and the repaired
    adapter) deliver nothing, since nobody listed on lobby is connected to it. -/
def wSwitching : Bytes → List Player := fun srv => if srv = wLobby then [bob] else if srv = wPvp then [bob] else []

theorem adapter_trusts_player_list_fails :
    adapt ⟨true, false⟩ [alice, bob] wSwitching List.head? (.broadcast wLobby [1]) = [.backendPlugin wBob cLegacy [1]] ∧
    bob.conn = some ⟨wBob, wPvp, 393⟩ ∧
    specAdapt [alice, bob] wSwitching List.head? (.broadcast wLobby [1]) = [] ∧
    adapt repairedA [alice, bob] wSwitching List.head? (.broadcast wLobby [1]) = [] := by
  refine ⟨?_, ?_, ?_, ?_⟩ <;> decide

/-- … and the repaired code agrees with the reference on every one of these witnesses. -/
theorem witnesses_repaired :
    process wExt wSt cLegacy (writeUTF sForward ++ writeUTF wPvp ++ forwardFrame wChan [1,2,3]) =
      ⟨true, [.broadcast wPvp (forwardFrame wChan [1,2,3])], false⟩ ∧
    (process wExt wSt cLegacy (writeUTF sForward ++ writeUTF wPvp ++ writeUTF wChan ++ [0xff, 0xff])).panicked = false ∧
    (process wExt wSt cLegacy (writeUTF sForwardToPlayer ++ writeUTF wBob ++ forwardFrame wChan [1])).effects =
      [.respond ⟨wBob, wPvp, 393⟩ (forwardFrame wChan [1])] ∧
    (process wExt wSt cLegacy (writeUTF sMessage ++ writeUTF wBob ++ writeUTF [104,105])) = ⟨true, [.msgPlayer wBob [104,105]], false⟩ ∧
    (process wExt wSt cLegacy (writeUTF sPlayerCount ++ writeUTF [97,108,108])).effects = [] := by
  refine ⟨?_, ?_, ?_, ?_, ?_⟩ <;> decide

/-! ### 6. the model's shape is the source's shape (regenerated facts) -/

/-- `Process` switches on exactly the sub-channels of the model, in this order. -/
theorem dispatch_labels : Gate.Gen.C26.processCases = subNames.map (fun s => "\"" ++ s ++ "\"") ++ ["default"] := by
  decide
/-- the model's byte constants spell those names -/
theorem sub_bytes_spell_names : subBytes = subNames.map asc := by decide
/-- `prepareForwardMessage` only drains the reader (no re-framing). -/
theorem forward_is_verbatim_in_source : Gate.Gen.C26.prepareForwardCalls = ["io.ReadAll", "return"] := by decide
/-- ForwardToPlayer and GetPlayerServer ask for the NAMED player's server connection. -/
theorem target_connection_in_source :
    "r.PlayerServer" ∈ Gate.Gen.C26.forwardToPlayerCalls ∧ "r.sendResponse" ∈ Gate.Gen.C26.forwardToPlayerCalls ∧
    "r.PlayerServer" ∈ Gate.Gen.C26.getPlayerServerCalls ∧ "r.ConnectedServer" ∉ Gate.Gen.C26.getPlayerServerCalls := by
  decide
/-- Message looks its target up as a player and never calls `r.Server`. -/
theorem message_target_in_source :
    "r.PlayerByName" ∈ Gate.Gen.C26.message0Calls ∧ "player.SendMessage" ∈ Gate.Gen.C26.message0Calls ∧
    "r.Server" ∉ Gate.Gen.C26.message0Calls := by decide
/-- "ALL"/"ONLINE" are compared with `==` (no `strings.EqualFold`). -/
theorem exact_all_in_source :
    "strings.EqualFold" ∉ Gate.Gen.C26.playerCountCalls ∧ "strings.EqualFold" ∉ Gate.Gen.C26.forwardToServerCalls := by
  decide
/-- the adapter walks the server's player list, takes each player's CURRENT server connection, compares that
    connection's server with the target (`RegisteredServerEqual`) and only then sends through it
    (`conn.SendPluginMessage`) — not to the player list. -/
theorem adapter_forward_in_source :
    Gate.Gen.C26.adapterBroadcastCalls =
      ["return", "s.s.Players", "func:{", "p.CurrentServer", "conn.Server", "RegisteredServerEqual", "return",
       "conn.SendPluginMessage", "errors.Is", "return", "}", "s.s.Players().Range"] := by decide

/-! ### 7. the hypotheses are satisfiable -/

example : NamesOk wSt := by
  refine ⟨?_, ?_, ?_⟩
  · decide
  · decide
  · intro n s h u hu
    simp only [wSt, mkSt] at h
    have hm := List.mem_of_find?_eq_some h
    simp only [List.mem_cons, List.not_mem_nil, or_false] at hm
    rcases hm with rfl | rfl <;> simp_all [wAlice, wBob]
example : wExt.jsonFor wSt.caller.protocol = wExt.jsonDefault := rfl
example : NoPanic wExt := ⟨by simp [wExt], by simp [wExt], by simp [wExt]⟩
example : AdaptOk [alice, bob] (.connect wBob wLobby) := by unfold AdaptOk; decide
example : readUTF (writeUTF wBob ++ [1]) = some (wBob, [1]) := by decide

end Gate.C26.Props
