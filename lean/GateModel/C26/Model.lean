import GateModel.Base.Bytes
/-
C26 — model of `pkg/edition/java/proxy/bungeecord/bungee_message.go` (the BungeeCord plugin-channel
responder) and of the provider adapter `pkg/edition/java/proxy/bungee.go`.

The responder is a pure function of
  * the abstract proxy state the `Providers` interface exposes (`St`),
  * the request (`channel`, `data`),
  * the external component decoders (`Ext`, parameters: legacy `§` text, JSON for a protocol, default JSON),
to the list of calls it makes on its providers (`Effect`s, in call order), whether it reported the message
as handled, and whether it panicked (Go `nil` interface call / `make` with a negative length).

`Variant` switches sit at the four sites where the code as found deviated from the reference
(DESIGN §11 row 14); `process` is the REPAIRED code (what /repo contains after fixes/C26-*.diff),
`processDefective` the code as found.  Core Lean only.
-/
namespace Gate.C26
open Gate

/-- components are opaque: the canonical rendering the harness prints (JSON bytes) -/
abbrev Comp := Bytes

/-- a player's live connection to a backend server (`bungeecord.ServerConnection`) -/
structure Conn where
  owner    : Bytes      -- username of the player whose connection this is
  server   : Bytes      -- `Name()`
  protocol : Nat        -- `Protocol()`
  deriving DecidableEq, Repr

structure Player where
  name     : Bytes      -- `Username()`
  uuid     : Bytes      -- `ID().Undashed()` (text)
  host     : Bytes      -- `netutil.HostPort(RemoteAddr())`
  port     : Nat
  protocol : Nat
  conn     : Option Conn   -- connected server with a live connection, if any
  deriving DecidableEq, Repr

structure Server where
  name    : Bytes
  host    : Bytes       -- `netutil.HostPort(Addr())`
  port    : Nat
  count   : Nat         -- `PlayerCount()`
  players : List Bytes  -- usernames of `Players()`, in the order returned
  deriving DecidableEq, Repr

/-- what the `Providers` interface exposes; the two lookups are arbitrary functions -/
structure St where
  caller       : Player               -- the responder's own player; `caller.conn` is `ConnectedServer()`
  players      : List Player          -- `Players()`
  playerCount  : Nat                  -- `PlayerCount()`
  servers      : List Server          -- `Servers()`
  playerByName : Bytes → Option Player
  serverByName : Bytes → Option Server

/-- a state whose lookups are "first entry whose name matches case-insensitively" (what gate's Proxy and the
    harness' recording providers do) -/
def lowerB (b : UInt8) : UInt8 := if 65 ≤ b ∧ b ≤ 90 then b + 32 else b
/-- `strings.EqualFold` against an ASCII constant without `k`/`s` (the only letters with non-ASCII fold partners) -/
def eqFold (a b : Bytes) : Bool := a.map lowerB == b.map lowerB

def mkSt (caller : Player) (players : List Player) (count : Nat) (servers : List Server) : St :=
  { caller, players, playerCount := count, servers,
    playerByName := fun n => players.find? (fun p => eqFold p.name n),
    serverByName := fun n => servers.find? (fun s => eqFold s.name n) }

inductive Dec where
  | ok (c : Comp) | err | panic
  deriving DecidableEq, Repr

/-- external functions (parameters of every theorem) -/
structure Ext where
  legacy      : Bytes → Dec            -- `(&legacy.Legacy{}).Unmarshal`
  jsonFor     : Nat → Bytes → Dec      -- `util.JsonCodec(protocol).Unmarshal`
  jsonDefault : Bytes → Dec            -- `util.DefaultJsonCodec().Unmarshal`
  blank       : Comp                   -- `&component.Text{}`

inductive Effect where
  | respond (c : Conn) (data : Bytes)           -- `c.WritePacket(&plugin.Message{Channel(c.Protocol()), data})`
  | broadcast (server : Bytes) (data : Bytes)   -- `server.BroadcastPluginMessage(LegacyChannel, data)`
  | connect (player server : Bytes)             -- `server.Connect(player)`
  | kick (player : Bytes) (reason : Comp)       -- `player.Disconnect(reason)`
  | msgAll (c : Comp)                           -- `BroadcastMessage(c)` on the player provider
  | msgPlayer (player : Bytes) (c : Comp)       -- `player.SendMessage(c)`
  | msgServer (server : Bytes) (c : Comp)       -- `server.BroadcastMessage(c)` (code as found only)
  deriving DecidableEq, Repr

structure Out where
  handled  : Bool
  effects  : List Effect
  panicked : Bool
  deriving DecidableEq, Repr

def Out.none (handled : Bool) : Out := ⟨handled, [], false⟩
def Out.of (es : List Effect) : Out := ⟨true, es, false⟩
def Out.panic (es : List Effect) : Out := ⟨true, es, true⟩

structure Variant where
  forwardVerbatim : Bool   -- forward = the unread rest of the request (repaired) | re-framed without the channel's length prefix
  targetConn      : Bool   -- ForwardToPlayer / GetPlayerServer use the NAMED player's connection (repaired) | the caller's
  messagePlayer   : Bool   -- Message target is a player (repaired) | a server, nil dereference when unknown
  exactAll        : Bool   -- "ALL"/"ONLINE" compared exactly (repaired) | with strings.EqualFold
  deriving DecidableEq, Repr

def repaired : Variant := ⟨true, true, true, true⟩
def defective : Variant := ⟨false, false, false, false⟩

/-! ### byte-string constants (ASCII) -/
def asc (s : String) : Bytes := s.toList.map (fun c => UInt8.ofNat c.toNat)

def cModern : Bytes := [98,117,110,103,101,101,99,111,114,100,58,109,97,105,110]   -- "bungeecord:main"
def cLegacy : Bytes := [66,117,110,103,101,101,67,111,114,100]                      -- "BungeeCord"
def sALL : Bytes := [65,76,76]
def sONLINE : Bytes := [79,78,76,73,78,69]
def sSep : Bytes := [44,32]                                                         -- ", "

def sForwardToPlayer : Bytes := [70,111,114,119,97,114,100,84,111,80,108,97,121,101,114]
def sForward : Bytes := [70,111,114,119,97,114,100]
def sConnect : Bytes := [67,111,110,110,101,99,116]
def sConnectOther : Bytes := [67,111,110,110,101,99,116,79,116,104,101,114]
def sIP : Bytes := [73,80]
def sIPOther : Bytes := [73,80,79,116,104,101,114]
def sUUID : Bytes := [85,85,73,68]
def sUUIDOther : Bytes := [85,85,73,68,79,116,104,101,114]
def sPlayerCount : Bytes := [80,108,97,121,101,114,67,111,117,110,116]
def sPlayerList : Bytes := [80,108,97,121,101,114,76,105,115,116]
def sGetServers : Bytes := [71,101,116,83,101,114,118,101,114,115]
def sGetServer : Bytes := [71,101,116,83,101,114,118,101,114]
def sMessage : Bytes := [77,101,115,115,97,103,101]
def sMessageRaw : Bytes := [77,101,115,115,97,103,101,82,97,119]
def sServerIP : Bytes := [83,101,114,118,101,114,73,80]
def sKickPlayer : Bytes := [75,105,99,107,80,108,97,121,101,114]
def sKickPlayerRaw : Bytes := [75,105,99,107,80,108,97,121,101,114,82,97,119]
def sGetPlayerServer : Bytes := [71,101,116,80,108,97,121,101,114,83,101,114,118,101,114]

/-- the sub-channels `Process` switches on, in source order (tied to the source by `Gen.C26.processCases`) -/
def subNames : List String :=
  ["ForwardToPlayer", "Forward", "Connect", "ConnectOther", "IP", "IPOther", "UUID", "UUIDOther",
   "PlayerCount", "PlayerList", "GetServers", "GetServer", "Message", "MessageRaw", "ServerIP",
   "KickPlayer", "KickPlayerRaw", "GetPlayerServer"]

def subBytes : List Bytes :=
  [sForwardToPlayer, sForward, sConnect, sConnectOther, sIP, sIPOther, sUUID, sUUIDOther,
   sPlayerCount, sPlayerList, sGetServers, sGetServer, sMessage, sMessageRaw, sServerIP,
   sKickPlayer, sKickPlayerRaw, sGetPlayerServer]

/-! ### wire primitives as the Go code uses them -/

/-- `util.ReadUTF` on a `bytes.Reader`: 2-byte big-endian length (`io.ReadFull`), then `io.ReadFull` of the body -/
def readUTF : Bytes → Option (Bytes × Bytes)
  | a :: b :: r =>
    let n := a.toNat * 256 + b.toNat
    if n ≤ r.length then some (r.take n, r.drop n) else none
  | _ => none

/-- `util.WriteUTF`: `uint16(len(s))` (truncating) then the bytes -/
def writeUTF (s : Bytes) : Bytes := beBytes 2 s.length ++ s
def writeInt32 (n : Nat) : Bytes := beBytes 4 n
def writeInt16 (n : Nat) : Bytes := beBytes 2 n

/-- the `joiner` helper: a separator is written whenever the builder is non-empty -/
def joinerWrite (acc s : Bytes) : Bytes := if acc.isEmpty then s else acc ++ sSep ++ s
def joinNames (xs : List Bytes) : Bytes := xs.foldl joinerWrite []

/-- `bungeecord.Channel(protocol)`: modern id from 1.13 (protocol 393) on -/
def protocol_1_13 : Nat := 393
def chanOf (protocol : Nat) : Bytes := if protocol ≥ protocol_1_13 then cModern else cLegacy

/-- `IsBungeeCordMessage`: case-insensitive match of either channel id -/
def isBungee (chan : Bytes) : Bool := eqFold cModern chan || eqFold cLegacy chan

/-- `sendServerResponse` generalised to a given connection: nothing for an empty payload or no connection -/
def sendOn (c : Option Conn) (data : Bytes) : List Effect :=
  if data.isEmpty then [] else
  match c with
  | none => []
  | some c => [.respond c data]

/-- `int16` reinterpretation of a big-endian 2-byte value -/
def toInt16 (n : Nat) : Int := if n < 32768 then (n : Int) else (n : Int) - 65536

/-- `prepareForwardMessage`.  `none` = Go panic (`make([]byte, negative)`); `some []` = the nil slice. -/
def prepareForward (v : Variant) (inp : Bytes) : Option Bytes :=
  if v.forwardVerbatim then some inp     -- io.ReadAll(in)
  else
    match readUTF inp with
    | none => some []
    | some (channel, r1) =>
      match r1 with
      | a :: b :: r2 =>
        let len := toInt16 (a.toNat * 256 + b.toNat)
        if len < 0 then none
        else if len.toNat ≤ r2.length then
          some (channel ++ [a, b] ++ r2.take len.toNat)     -- WriteString(channel): no length prefix
        else some []
      | _ => some []

def isAll (v : Variant) (t : Bytes) : Bool := if v.exactAll then t == sALL else eqFold t sALL
def isAllOrOnline (v : Variant) (t : Bytes) : Bool :=
  if v.exactAll then t == sALL || t == sONLINE else eqFold t sALL || eqFold t sONLINE

def decOut (d : Dec) (k : Comp → Out) : Out :=
  match d with
  | .ok c => k c
  | .err => Out.of []
  | .panic => Out.panic []

/-- `processMessage0` -/
def processMessage (v : Variant) (st : St) (dec : Bytes → Dec) (inp : Bytes) : Out :=
  match readUTF inp with
  | none => Out.of []
  | some (target, r1) =>
    match readUTF r1 with
    | none => Out.of []
    | some (msg, _) =>
      decOut (dec msg) fun comp =>
        if target == sALL then Out.of [.msgAll comp]
        else if v.messagePlayer then
          match st.playerByName target with
          | some p => Out.of [.msgPlayer p.name comp]
          | none => Out.of []
        else
          match st.serverByName target with
          | some s => Out.of [.msgServer s.name comp]
          | none => Out.panic []            -- method call on a nil interface value

/-- `processKick` / `processKickRaw`: a reason that does not decode falls back to the blank component -/
def processKick (ext : Ext) (st : St) (dec : Bytes → Dec) (inp : Bytes) : Out :=
  match readUTF inp with
  | none => Out.of []
  | some (name, r1) =>
    match st.playerByName name with
    | none => Out.of []
    | some p =>
      match readUTF r1 with
      | none => Out.of []
      | some (msg, _) =>
        match dec msg with
        | .ok c => Out.of [.kick p.name c]
        | .err => Out.of [.kick p.name ext.blank]
        | .panic => Out.panic []

/-- the 18 sub-channel handlers -/
def processSub (v : Variant) (ext : Ext) (st : St) (sub inp : Bytes) : Out :=
  if sub = sForwardToPlayer then
    match readUTF inp with
    | none => Out.of []
    | some (name, r1) =>
      match st.playerByName name with
      | none => Out.of []
      | some p =>
        match prepareForward v r1 with
        | none => Out.panic []
        | some fwd => Out.of (sendOn (if v.targetConn then p.conn else st.caller.conn) fwd)
  else if sub = sForward then
    match readUTF inp with
    | none => Out.of []
    | some (target, r1) =>
      match prepareForward v r1 with
      | none => Out.panic []
      | some fwd =>
        if isAllOrOnline v target then
          let cur : Bytes := match st.caller.conn with | some c => c.server | none => []
          Out.of ((st.servers.filter (fun s => s.name != cur)).map fun s => .broadcast s.name fwd)
        else
          match st.serverByName target with
          | some s => Out.of [.broadcast s.name fwd]
          | none => Out.of []
  else if sub = sConnect then
    match readUTF inp with
    | none => Out.of []
    | some (name, _) =>
      match st.serverByName name with
      | some s => Out.of [.connect st.caller.name s.name]
      | none => Out.of []
  else if sub = sConnectOther then
    match readUTF inp with
    | none => Out.of []
    | some (pname, r1) =>
      match st.playerByName pname with
      | none => Out.of []
      | some p =>
        match readUTF r1 with
        | none => Out.of []
        | some (sname, _) =>
          match st.serverByName sname with
          | some s => Out.of [.connect p.name s.name]
          | none => Out.of []
  else if sub = sIP then
    Out.of (sendOn st.caller.conn (writeUTF sIP ++ writeUTF st.caller.host ++ writeInt32 st.caller.port))
  else if sub = sIPOther then
    match readUTF inp with
    | none => Out.of []
    | some (name, _) =>
      match st.playerByName name with
      | none => Out.of []
      | some p =>
        Out.of (sendOn st.caller.conn (writeUTF sIPOther ++ writeUTF p.name ++ writeUTF p.host ++ writeInt32 p.port))
  else if sub = sUUID then
    Out.of (sendOn st.caller.conn (writeUTF sUUID ++ writeUTF st.caller.uuid))
  else if sub = sUUIDOther then
    match readUTF inp with
    | none => Out.of []
    | some (name, _) =>
      match st.playerByName name with
      | none => Out.of []
      | some p => Out.of (sendOn st.caller.conn (writeUTF sUUIDOther ++ writeUTF p.name ++ writeUTF p.uuid))
  else if sub = sPlayerCount then
    match readUTF inp with
    | none => Out.of []
    | some (target, _) =>
      if isAll v target then
        Out.of (sendOn st.caller.conn (writeUTF sPlayerCount ++ writeUTF sALL ++ writeInt32 st.playerCount))
      else
        match st.serverByName target with
        | none => Out.of []
        | some s => Out.of (sendOn st.caller.conn (writeUTF sPlayerCount ++ writeUTF s.name ++ writeInt32 s.count))
  else if sub = sPlayerList then
    match readUTF inp with
    | none => Out.of []
    | some (target, _) =>
      if target == sALL then
        Out.of (sendOn st.caller.conn
          (writeUTF sPlayerList ++ writeUTF sALL ++ writeUTF (joinNames (st.players.map (·.name)))))
      else
        match st.serverByName target with
        | none => Out.of []
        | some s => Out.of (sendOn st.caller.conn
            (writeUTF sPlayerList ++ writeUTF s.name ++ writeUTF (joinNames s.players)))
  else if sub = sGetServers then
    Out.of (sendOn st.caller.conn (writeUTF sGetServers ++ writeUTF (joinNames (st.servers.map (·.name)))))
  else if sub = sGetServer then
    match st.caller.conn with
    | none => Out.of []
    | some c => Out.of (sendOn st.caller.conn (writeUTF sGetServer ++ writeUTF c.server))
  else if sub = sMessage then processMessage v st ext.legacy inp
  else if sub = sMessageRaw then processMessage v st ext.jsonDefault inp
  else if sub = sServerIP then
    match readUTF inp with
    | none => Out.of []
    | some (name, _) =>
      match st.serverByName name with
      | none => Out.of []
      | some s => Out.of (sendOn st.caller.conn
          (writeUTF sServerIP ++ writeUTF s.name ++ writeUTF s.host ++ writeInt16 s.port))
  else if sub = sKickPlayer then processKick ext st ext.legacy inp
  else if sub = sKickPlayerRaw then processKick ext st (ext.jsonFor st.caller.protocol) inp
  else if sub = sGetPlayerServer then
    match readUTF inp with
    | none => Out.of []
    | some (name, _) =>
      match st.playerByName name with
      | none => Out.of []
      | some p =>
        match (if v.targetConn then p.conn else st.caller.conn) with
        | none => Out.of []
        | some c => Out.of (sendOn st.caller.conn
            (writeUTF sGetPlayerServer ++ writeUTF p.name ++ writeUTF c.server))
  else Out.of []      -- unknown sub-channel: handled, nothing done

/-- `Process` -/
def processV (v : Variant) (ext : Ext) (st : St) (chan data : Bytes) : Out :=
  if !isBungee chan then Out.none false
  else
    match readUTF data with
    | none => Out.none false
    | some (sub, inp) => processSub v ext st sub inp

/-- the repaired code (what /repo contains with fixes/C26-*.diff applied) -/
def process := processV repaired
/-- the code as found -/
def processDefective := processV defective

/-! ### the provider adapter (`bungee.go`): effects → packets written per connection

Connections: `backend p` = the proxy's connection to the backend server on behalf of player `p`,
`client p` = the connection to player `p`'s client.  `ASt` is the part of the real proxy state the
adapter reads: for every online player its username and, if connected, its server. -/

inductive Write where
  | backendPlugin (owner : Bytes) (chan data : Bytes)   -- plugin message on owner's backend connection
  | clientPlugin (player : Bytes) (chan data : Bytes)   -- plugin message to the player's client
  | clientChat (player : Bytes)                         -- chat packet to the player's client
  | clientDisconnect (player : Bytes)                   -- disconnect packet, connection closed
  | connectRequest (player server : Bytes)              -- ServerPreConnectEvent fired for (player, server)
  deriving DecidableEq, Repr

structure AVariant where
  forwardToBackend : Bool   -- Forward payload goes once to the backend server (repaired) | to every client on it
  checkCurrent     : Bool   -- the carrying player's CURRENT server must be the target (repaired) | the list is trusted
  deriving DecidableEq, Repr

def repairedA : AVariant := ⟨true, true⟩

/-- players whose connected server is `srv` (the "current server" relation) -/
def isOn (srv : Bytes) (p : Player) : Bool := match p.conn with | some c => c.server == srv | none => false

/-- The adapter reads TWO relations of the real proxy that agree only in steady states:
    `listed srv` = the registered server's player list (`RegisteredServer.Players()`), and each player's current
    server connection (`p.conn`).  During a server switch a player is current on the new server while still listed
    on the old one.  A Forward may only travel through a LISTED player whose CURRENT server is the target. -/
def carriers (listed : Bytes → List Player) (srv : Bytes) : List Player := (listed srv).filter (isOn srv)

/-- The adapter's realisation of one effect.  For the repaired Forward the backend connection used is that
    of the FIRST suitable player `Players().Range` yields (Go map order): `pick` abstracts that choice. -/
def adapt (av : AVariant) (online : List Player) (listed : Bytes → List Player)
    (pick : List Player → Option Player) : Effect → List Write
  | .respond c data => [.backendPlugin c.owner (chanOf c.protocol) data]
  | .broadcast srv data =>
    if av.forwardToBackend then
      if data.isEmpty then [] else
      match pick (if av.checkCurrent then carriers listed srv else (listed srv).filter (·.conn.isSome)) with
      | some p => [.backendPlugin p.name cLegacy data]
      | none => []
    else (listed srv).map fun p => .clientPlugin p.name cLegacy data
  | .connect p s =>
    match online.find? (·.name == p) with
    | none => []                                   -- `proxy.Player(id)` is nil: nothing
    | some pl =>
      match pl.conn with
      | some c => if c.server == s then [.clientChat p] else [.connectRequest p s]   -- "already connected" notice
      | none => [.connectRequest p s]
  | .kick p _ => [.clientDisconnect p]
  | .msgAll _ => online.map fun p => .clientChat p.name
  | .msgPlayer p _ => [.clientChat p]
  | .msgServer s _ => (listed s).map fun p => .clientChat p.name

end Gate.C26
