import GateModel.C26.Spec
/-
C26 helper lemmas: Java `DataInput/DataOutput` primitives vs. gate's `util.ReadUTF/WriteUTF/WriteInt*`,
`StringJoiner` vs. gate's `joiner`, inversion of the reference's exception monad, and one refinement
lemma per sub-channel.
-/
namespace Gate.C26
open Gate

/-! ### the exception monad -/

theorem bind_ok_iff {α β : Type} (x : R α) (f : α → R β) (b : β) :
    (x >>= f) = .ok b ↔ ∃ a, x = .ok a ∧ f a = .ok b := by
  cases x <;> simp [bind, Except.bind]

theorem bind_error_iff {α β : Type} (x : R α) (f : α → R β) (e : Exn) :
    (x >>= f) = .error e ↔ x = .error e ∨ ∃ a, x = .ok a ∧ f a = .error e := by
  cases x <;> simp [bind, Except.bind]

theorem pure_ok_iff {α : Type} (a b : α) : (pure a : R α) = .ok b ↔ a = b := by
  simp [pure, Except.pure]

theorem pure_ne_error {α : Type} (a : α) (e : Exn) : (pure a : R α) ≠ .error e := by
  simp [pure, Except.pure]

/-! ### wire primitives -/

theorem jReadUTF_ok_iff (b : Bytes) (x : Bytes × Bytes) : jReadUTF b = .ok x ↔ readUTF b = some x := by
  match b with
  | [] => simp [jReadUTF, readUTF]
  | [_] => simp [jReadUTF, readUTF]
  | a :: c :: r =>
    simp only [jReadUTF, readUTF]
    by_cases h : a.toNat * 256 + c.toNat ≤ r.length <;> simp [h]

theorem jReadUTF_error_iff (b : Bytes) (e : Exn) : jReadUTF b = .error e ↔ readUTF b = none ∧ e = .truncated := by
  match b with
  | [] => simp [jReadUTF, readUTF, eq_comm]
  | [_] => simp [jReadUTF, readUTF, eq_comm]
  | a :: c :: r =>
    simp only [jReadUTF, readUTF]
    by_cases h : a.toNat * 256 + c.toNat ≤ r.length <;> simp [h, eq_comm]

theorem beBytes2 (n : Nat) : beBytes 2 n = [UInt8.ofNat (n / 256 % 256), UInt8.ofNat (n % 256)] := by
  simp [beBytes]

theorem jWriteUTF_ok_iff (s y : Bytes) : jWriteUTF s = .ok y ↔ s.length ≤ 65535 ∧ y = writeUTF s := by
  unfold jWriteUTF writeUTF
  by_cases h : s.length ≤ 65535
  · have : s.length / 256 % 256 = s.length / 256 := Nat.mod_eq_of_lt (by omega)
    simp [beBytes2, this, h, eq_comm]
  · simp [h]

theorem jWriteInt_eq (n : Nat) : jWriteInt n = writeInt32 n := by
  simp [jWriteInt, writeInt32, beBytes, Nat.div_div_eq_div_mul]

theorem jWriteShort_eq (n : Nat) : jWriteShort n = writeInt16 n := by
  simp [jWriteShort, writeInt16, beBytes]

theorem writeUTF_ne_nil (s : Bytes) : writeUTF s ≠ [] := by simp [writeUTF, beBytes2]

theorem jChannel_eq (p : Nat) : jChannel p = chanOf p := rfl

theorem jSend_ok_iff (p : Player) (buf : Bytes) (e : List Effect) :
    jSend p buf = .ok e ↔ ∃ c, p.conn = some c ∧ e = [.respond c buf] := by
  unfold jSend; cases p.conn <;> simp [eq_comm]

theorem jUtf3_ok_iff (a b c y : Bytes) : jUtf3 a b c = .ok y ↔
    a.length ≤ 65535 ∧ b.length ≤ 65535 ∧ c.length ≤ 65535 ∧ y = writeUTF a ++ writeUTF b ++ writeUTF c := by
  simp only [jUtf3, bind_ok_iff, jWriteUTF_ok_iff, pure_ok_iff]
  constructor
  · rintro ⟨x, ⟨h1, rfl⟩, y', ⟨h2, rfl⟩, z, ⟨h3, rfl⟩, rfl⟩; exact ⟨h1, h2, h3, rfl⟩
  · rintro ⟨h1, h2, h3, rfl⟩; exact ⟨_, ⟨h1, rfl⟩, _, ⟨h2, rfl⟩, _, ⟨h3, rfl⟩, rfl⟩

theorem sendOn_some (c : Conn) (d : Bytes) (h : d ≠ []) : sendOn (some c) d = [.respond c d] := by
  cases d <;> simp_all [sendOn]

theorem sendOn_none (d : Bytes) : sendOn none d = [] := by
  unfold sendOn; split <;> rfl

theorem jDec_ok_iff (d : Dec) (c : Comp) : jDec d = .ok c ↔ d = .ok c := by
  cases d <;> simp [jDec]

/-! ### `StringJoiner(", ")` vs. gate's `joiner` -/

def tailJoin : List Bytes → Bytes
  | [] => []
  | x :: r => sSep ++ x ++ tailJoin r

theorem jJoin_cons (x : Bytes) (r : List Bytes) : jJoin (x :: r) = x ++ tailJoin r := by
  induction r generalizing x with
  | nil => simp [jJoin, tailJoin]
  | cons y r ih => simp [jJoin, tailJoin, ih, List.append_assoc]

theorem foldl_joiner (acc : Bytes) (xs : List Bytes) (hacc : acc ≠ []) :
    xs.foldl joinerWrite acc = acc ++ tailJoin xs := by
  induction xs generalizing acc with
  | nil => simp [tailJoin]
  | cons x r ih =>
    have hne : acc.isEmpty = false := by cases acc <;> simp_all
    have : joinerWrite acc x = acc ++ sSep ++ x := by simp [joinerWrite, hne]
    rw [List.foldl_cons, this, ih _ (by cases acc <;> simp_all), tailJoin]
    simp [List.append_assoc]

/-- with non-empty elements gate's joiner is Java's `StringJoiner` -/
theorem joinNames_eq_jJoin (xs : List Bytes) (h : ∀ x ∈ xs, x ≠ []) : joinNames xs = jJoin xs := by
  cases xs with
  | nil => rfl
  | cons x r =>
    have hx : x ≠ [] := h x (by simp)
    have : joinerWrite [] x = x := by simp [joinerWrite]
    rw [joinNames, List.foldl_cons, this, foldl_joiner x r hx, jJoin_cons]

end Gate.C26

namespace Gate.C26
open Gate

theorem sendOn_utf (c : Conn) (s rest : Bytes) :
    sendOn (some c) (writeUTF s ++ rest) = [.respond c (writeUTF s ++ rest)] :=
  sendOn_some _ _ (by simp [writeUTF_ne_nil])

/-- state well-formedness used by the refinement: names that get joined / compared are non-empty -/
structure NamesOk (st : St) : Prop where
  players : ∀ p ∈ st.players, p.name ≠ []
  servers : ∀ s ∈ st.servers, s.name ≠ []
  users   : ∀ n s, st.serverByName n = some s → ∀ u ∈ s.players, u ≠ []

macro "unfold_sub" : tactic => `(tactic|
  simp [specSub, processSub, sForwardToPlayer, sForward, sConnect, sConnectOther, sIP, sIPOther, sUUID, sUUIDOther,
    sPlayerCount, sPlayerList, sGetServers, sGetServer, sMessage, sMessageRaw, sServerIP, sKickPlayer, sKickPlayerRaw,
    sGetPlayerServer, bind_ok_iff, pure_ok_iff, jReadUTF_ok_iff, jWriteUTF_ok_iff, jUtf3_ok_iff, jSend_ok_iff,
    jWriteInt_eq, jWriteShort_eq, jDec_ok_iff] at *)

end Gate.C26

set_option linter.unusedSimpArgs false

namespace Gate.C26
open Gate

/-! ### refinement, one lemma per sub-channel: where the reference completes, the repaired code does the same -/
theorem map_ok_iff {α β : Type} (x : R α) (f : α → β) (b : β) :
    (f <$> x) = .ok b ↔ ∃ a, x = .ok a ∧ f a = b := by
  cases x <;> simp [Functor.map, Except.map]
variable (ext : Ext) (st : St) (inp : Bytes) (effs : List Effect)

theorem r_connect (h : specSub ext st sConnect inp = .ok effs) :
    processSub repaired ext st sConnect inp = Out.of effs := by
  unfold_sub
  obtain ⟨a, ⟨b, h1⟩, h2⟩ := h
  simp [h1]
  cases hs : st.serverByName a <;> simp_all [pure_ok_iff]

theorem r_connectOther (h : specSub ext st sConnectOther inp = .ok effs) :
    processSub repaired ext st sConnectOther inp = Out.of effs := by
  unfold_sub
  obtain ⟨a, b, h1, c, ⟨d, h2⟩, h3⟩ := h
  simp [h1, h2]
  cases hp : st.playerByName a <;> cases hs : st.serverByName c <;> simp_all [pure_ok_iff]

theorem r_ip (h : specSub ext st sIP inp = .ok effs) :
    processSub repaired ext st sIP inp = Out.of effs := by
  unfold_sub
  obtain ⟨a, ⟨_, rfl⟩, c, hc, rfl⟩ := h
  simp [hc, sendOn_utf]

theorem r_ipOther (h : specSub ext st sIPOther inp = .ok effs) :
    processSub repaired ext st sIPOther inp = Out.of effs := by
  unfold_sub
  obtain ⟨a, ⟨b, h1⟩, h2⟩ := h
  simp [h1]
  cases hp : st.playerByName a with
  | none => simp_all [pure_ok_iff]
  | some p =>
    simp [hp, bind_ok_iff, jUtf3_ok_iff, jSend_ok_iff] at h2 ⊢
    obtain ⟨w, ⟨_, _, rfl⟩, c, hc, rfl⟩ := h2
    simp [hc, sendOn_utf]

theorem r_uuid (h : specSub ext st sUUID inp = .ok effs) :
    processSub repaired ext st sUUID inp = Out.of effs := by
  unfold_sub
  obtain ⟨a, ⟨_, rfl⟩, c, hc, rfl⟩ := h
  simp [hc, sendOn_utf]

theorem r_uuidOther (h : specSub ext st sUUIDOther inp = .ok effs) :
    processSub repaired ext st sUUIDOther inp = Out.of effs := by
  unfold_sub
  obtain ⟨a, ⟨b, h1⟩, h2⟩ := h
  simp [h1]
  cases hp : st.playerByName a with
  | none => simp_all [pure_ok_iff]
  | some p =>
    simp [hp, bind_ok_iff, jUtf3_ok_iff, jSend_ok_iff] at h2 ⊢
    obtain ⟨w, ⟨_, _, rfl⟩, c, hc, rfl⟩ := h2
    simp [hc, sendOn_utf]

theorem r_serverIP (h : specSub ext st sServerIP inp = .ok effs) :
    processSub repaired ext st sServerIP inp = Out.of effs := by
  unfold_sub
  obtain ⟨a, ⟨b, h1⟩, h2⟩ := h
  simp [h1]
  cases hp : st.serverByName a with
  | none => simp_all [pure_ok_iff]
  | some p =>
    simp [hp, bind_ok_iff, jUtf3_ok_iff, jSend_ok_iff] at h2 ⊢
    obtain ⟨w, ⟨_, _, rfl⟩, c, hc, rfl⟩ := h2
    simp [hc, sendOn_utf]

theorem r_getServer (h : specSub ext st sGetServer inp = .ok effs) :
    processSub repaired ext st sGetServer inp = Out.of effs := by
  unfold_sub
  cases hc : st.caller.conn with
  | none => simp_all
  | some c =>
    simp [hc, bind_ok_iff, jWriteUTF_ok_iff, jSend_ok_iff] at h ⊢
    obtain ⟨w, ⟨_, rfl⟩, rfl⟩ := h
    simp [sendOn_utf]

theorem r_getServers (hn : NamesOk st) (h : specSub ext st sGetServers inp = .ok effs) :
    processSub repaired ext st sGetServers inp = Out.of effs := by
  have hj : joinNames (st.servers.map (·.name)) = jJoin (st.servers.map (·.name)) :=
    joinNames_eq_jJoin _ (by simp; exact fun s hs => hn.servers s hs)
  unfold_sub
  obtain ⟨a, ⟨_, rfl⟩, c, hc, rfl⟩ := h
  simp [hc, sendOn_utf, hj]

theorem r_playerCount (h : specSub ext st sPlayerCount inp = .ok effs) :
    processSub repaired ext st sPlayerCount inp = Out.of effs := by
  unfold_sub
  obtain ⟨a, ⟨b, h1⟩, h2⟩ := h
  simp [h1, isAll, repaired]
  by_cases ha : a = sALL
  · simp [ha, bind_ok_iff, jWriteUTF_ok_iff, jSend_ok_iff, sALL] at h2 ⊢
    obtain ⟨c, hc, rfl⟩ := h2
    simp [hc, sendOn_utf]
  · simp [ha] at h2 ⊢
    cases hp : st.serverByName a with
    | none => simp_all [pure_ok_iff]
    | some p =>
      simp [hp, bind_ok_iff, jWriteUTF_ok_iff, jSend_ok_iff] at h2 ⊢
      obtain ⟨w, ⟨_, rfl⟩, c, hc, rfl⟩ := h2
      simp [hc, sendOn_utf]


theorem r_playerList (hn : NamesOk st) (h : specSub ext st sPlayerList inp = .ok effs) :
    processSub repaired ext st sPlayerList inp = Out.of effs := by
  have hj : joinNames (st.players.map (·.name)) = jJoin (st.players.map (·.name)) :=
    joinNames_eq_jJoin _ (by simp; exact fun s hs => hn.players s hs)
  unfold_sub
  obtain ⟨a, ⟨b, h1⟩, h2⟩ := h
  simp [h1]
  by_cases ha : a = sALL
  · simp [ha, bind_ok_iff, jUtf3_ok_iff, jSend_ok_iff, sALL] at h2 ⊢
    obtain ⟨w, ⟨_, rfl⟩, c, hc, rfl⟩ := h2
    simp [hc, sendOn_utf, hj]
  · simp [ha] at h2 ⊢
    cases hp : st.serverByName a with
    | none => simp_all [pure_ok_iff]
    | some p =>
      have hj2 : joinNames p.players = jJoin p.players := joinNames_eq_jJoin _ (hn.users a p hp)
      simp [hp, bind_ok_iff, jUtf3_ok_iff, jSend_ok_iff] at h2 ⊢
      obtain ⟨w, ⟨_, _, rfl⟩, c, hc, rfl⟩ := h2
      simp [hc, sendOn_utf, hj2]

theorem r_message (h : specSub ext st sMessage inp = .ok effs) :
    processSub repaired ext st sMessage inp = Out.of effs := by
  unfold_sub
  obtain ⟨a, b, h1, c, ⟨d, h2⟩, comp, h3, h4⟩ := h
  simp [processMessage, h1, h2, h3, decOut, repaired]
  by_cases ha : a = sALL
  · simp_all [pure_ok_iff, sALL]
  · simp [ha] at h4 ⊢
    cases hp : st.playerByName a <;> simp_all [pure_ok_iff]

theorem r_messageRaw (h : specSub ext st sMessageRaw inp = .ok effs) :
    processSub repaired ext st sMessageRaw inp = Out.of effs := by
  unfold_sub
  obtain ⟨a, b, h1, c, ⟨d, h2⟩, comp, h3, h4⟩ := h
  simp [processMessage, h1, h2, h3, decOut, repaired]
  by_cases ha : a = sALL
  · simp_all [pure_ok_iff, sALL]
  · simp [ha] at h4 ⊢
    cases hp : st.playerByName a <;> simp_all [pure_ok_iff]

theorem r_kick (h : specSub ext st sKickPlayer inp = .ok effs) :
    processSub repaired ext st sKickPlayer inp = Out.of effs := by
  unfold_sub
  obtain ⟨a, b, h1, h2⟩ := h
  simp [processKick, h1]
  cases hp : st.playerByName a with
  | none => simp_all [pure_ok_iff]
  | some p =>
    simp [hp, bind_ok_iff, map_ok_iff, jReadUTF_ok_iff, jDec_ok_iff, pure_ok_iff] at h2 ⊢
    obtain ⟨m, ⟨r, h3⟩, comp, h4, rfl⟩ := h2
    simp [h3, h4]

theorem r_kickRaw (hj : ext.jsonFor st.caller.protocol = ext.jsonDefault)
    (h : specSub ext st sKickPlayerRaw inp = .ok effs) :
    processSub repaired ext st sKickPlayerRaw inp = Out.of effs := by
  unfold_sub
  obtain ⟨a, b, h1, h2⟩ := h
  simp [processKick, h1]
  cases hp : st.playerByName a with
  | none => simp_all [pure_ok_iff]
  | some p =>
    simp [hp, bind_ok_iff, map_ok_iff, jReadUTF_ok_iff, jDec_ok_iff, pure_ok_iff] at h2 ⊢
    obtain ⟨m, ⟨r, h3⟩, comp, h4, rfl⟩ := h2
    simp [h3, h4, hj]

theorem r_getPlayerServer (h : specSub ext st sGetPlayerServer inp = .ok effs) :
    processSub repaired ext st sGetPlayerServer inp = Out.of effs := by
  unfold_sub
  obtain ⟨a, ⟨b, h1⟩, h2⟩ := h
  simp [h1, repaired]
  cases hp : st.playerByName a with
  | none => simp_all [pure_ok_iff]
  | some p =>
    simp [hp] at h2 ⊢
    cases hc : p.conn with
    | none => simp_all [pure_ok_iff]
    | some pc =>
      simp [hc, bind_ok_iff, jUtf3_ok_iff, jSend_ok_iff] at h2 ⊢
      obtain ⟨w, ⟨_, _, rfl⟩, c, hcc, rfl⟩ := h2
      simp [hcc, sendOn_utf]

theorem r_forwardToPlayer (h : specSub ext st sForwardToPlayer inp = .ok effs) :
    processSub repaired ext st sForwardToPlayer inp = Out.of effs := by
  unfold_sub
  obtain ⟨a, b, h1, h2⟩ := h
  simp [h1, repaired, prepareForward]
  cases hp : st.playerByName a with
  | none => simp_all [pure_ok_iff]
  | some p =>
    simp [hp] at h2 ⊢
    by_cases hb : b = []
    · simp [hb] at h2
    · simp [hb, jSend_ok_iff] at h2
      obtain ⟨c, hc, rfl⟩ := h2
      simp [hc, sendOn_some _ _ hb]

theorem r_forward (hn : NamesOk st) (h : specSub ext st sForward inp = .ok effs) :
    processSub repaired ext st sForward inp = Out.of effs := by
  unfold_sub
  obtain ⟨a, b, h1, h2⟩ := h
  simp [h1, repaired, prepareForward, isAllOrOnline]
  by_cases hb : b = []
  · simp [hb] at h2
  · simp [hb] at h2
    by_cases ha : a = sALL ∨ a = sONLINE
    · simp [ha, pure_ok_iff] at h2
      simp only [if_pos ha]
      subst h2
      congr 2
      apply List.filter_congr
      intro s hs
      have := hn.servers s hs
      cases hc : st.caller.conn <;> simp_all [bne]
    · simp [ha] at h2
      simp only [if_neg ha]
      cases hs : st.serverByName a <;> simp_all [pure_ok_iff]

theorem r_unknown (sub : Bytes) (hsub : sub ∉ subBytes) (h : specSub ext st sub inp = .ok effs) :
    processSub repaired ext st sub inp = Out.of effs := by
  simp [subBytes] at hsub
  simp [specSub, processSub, hsub, pure_ok_iff] at h ⊢
  simp [Out.of, h]


/-! ### where the reference throws for truncated input / a missing connection, the repaired code is silent -/

theorem map_error_iff {α β : Type} (x : R α) (f : α → β) (e : Exn) :
    (f <$> x) = .error e ↔ x = .error e := by
  cases x <;> simp [Functor.map, Except.map]

theorem jWriteUTF_error_iff (s : Bytes) (e : Exn) : jWriteUTF s = .error e ↔ 65535 < s.length ∧ e = .utfTooLong := by
  unfold jWriteUTF
  by_cases h : s.length ≤ 65535
  · simp [h]; omega
  · simp [h, eq_comm]; omega

theorem jSend_error_iff (p : Player) (buf : Bytes) (e : Exn) :
    jSend p buf = .error e ↔ p.conn = none ∧ e = .noServer := by
  unfold jSend; cases p.conn <;> simp [eq_comm]

theorem jUtf3_error_iff (a b c : Bytes) (e : Exn) : jUtf3 a b c = .error e ↔
    (65535 < a.length ∨ 65535 < b.length ∨ 65535 < c.length) ∧ e = .utfTooLong := by
  unfold jUtf3 jWriteUTF
  by_cases ha : a.length ≤ 65535 <;> by_cases hb : b.length ≤ 65535 <;> by_cases hc : c.length ≤ 65535 <;>
    simp [ha, hb, hc, bind, Except.bind, pure, Except.pure, eq_comm] <;> omega

theorem jDec_error_iff (d : Dec) (e : Exn) : jDec d = .error e ↔ (∀ c, d ≠ .ok c) ∧ e = .badComponent := by
  cases d <;> simp [jDec, eq_comm]

def Quiet (o : Out) : Prop := o.effects = [] ∧ o.panicked = false

variable (e : Exn)

macro "unfold_err" : tactic => `(tactic|
  simp [specSub, processSub, sForwardToPlayer, sForward, sConnect, sConnectOther, sIP, sIPOther, sUUID, sUUIDOther,
    sPlayerCount, sPlayerList, sGetServers, sGetServer, sMessage, sMessageRaw, sServerIP, sKickPlayer, sKickPlayerRaw,
    sGetPlayerServer, bind_error_iff, bind_ok_iff, pure_ok_iff, pure_ne_error, jReadUTF_ok_iff, jReadUTF_error_iff,
    jWriteUTF_ok_iff, jWriteUTF_error_iff, jUtf3_ok_iff, jSend_ok_iff, jSend_error_iff, map_error_iff, map_ok_iff,
    jWriteInt_eq, jWriteShort_eq, jDec_ok_iff, jDec_error_iff, jUtf3_error_iff, and_assoc, prepareForward, repaired, isAllOrOnline, isAll, processMessage, processKick, decOut] at *)

theorem quiet_of (x : List Effect) : Quiet (Out.of x) ↔ x = [] := by simp [Quiet, Out.of]

macro "leaves" : tactic => `(tactic|
  repeat' (first
    | (split <;> simp_all [quiet_of, sendOn_none, pure_ne_error, pure_ok_iff, bind_error_iff, bind_ok_iff,
        jSend_error_iff, jSend_ok_iff, jUtf3_error_iff, jUtf3_ok_iff, jDec_error_iff, jDec_ok_iff, jWriteUTF_error_iff,
        jWriteUTF_ok_iff, jReadUTF_error_iff, jReadUTF_ok_iff, map_error_iff, map_ok_iff, and_assoc])
    | simp_all [quiet_of, sendOn_none, pure_ne_error, pure_ok_iff, bind_error_iff, bind_ok_iff,
        jSend_error_iff, jSend_ok_iff, jUtf3_error_iff, jUtf3_ok_iff, jDec_error_iff, jDec_ok_iff, jWriteUTF_error_iff,
        jWriteUTF_ok_iff, jReadUTF_error_iff, jReadUTF_ok_iff, map_error_iff, map_ok_iff, and_assoc]))

theorem q_ForwardToPlayer (he : e = .truncated ∨ e = .noServer) (h : specSub ext st sForwardToPlayer inp = .error e) :
    Quiet (processSub repaired ext st sForwardToPlayer inp) := by
  rcases he with rfl | rfl <;> unfold_err <;> leaves <;>
    (split at h <;> simp_all [jSend_error_iff, sendOn_none, pure_ne_error])

theorem q_Forward (he : e = .truncated ∨ e = .noServer) (h : specSub ext st sForward inp = .error e) :
    Quiet (processSub repaired ext st sForward inp) := by
  rcases he with rfl | rfl <;> unfold_err <;> leaves <;>
    (split at h <;> simp_all [jSend_error_iff, sendOn_none, pure_ne_error])

theorem q_Connect (he : e = .truncated ∨ e = .noServer) (h : specSub ext st sConnect inp = .error e) :
    Quiet (processSub repaired ext st sConnect inp) := by
  rcases he with rfl | rfl <;> unfold_err <;> leaves

theorem q_ConnectOther (he : e = .truncated ∨ e = .noServer) (h : specSub ext st sConnectOther inp = .error e) :
    Quiet (processSub repaired ext st sConnectOther inp) := by
  rcases he with rfl | rfl <;> unfold_err <;> leaves

theorem q_IP (he : e = .truncated ∨ e = .noServer) (h : specSub ext st sIP inp = .error e) :
    Quiet (processSub repaired ext st sIP inp) := by
  rcases he with rfl | rfl <;> unfold_err <;> leaves

theorem q_IPOther (he : e = .truncated ∨ e = .noServer) (h : specSub ext st sIPOther inp = .error e) :
    Quiet (processSub repaired ext st sIPOther inp) := by
  rcases he with rfl | rfl <;> unfold_err <;> leaves

theorem q_UUID (he : e = .truncated ∨ e = .noServer) (h : specSub ext st sUUID inp = .error e) :
    Quiet (processSub repaired ext st sUUID inp) := by
  rcases he with rfl | rfl <;> unfold_err <;> leaves

theorem q_UUIDOther (he : e = .truncated ∨ e = .noServer) (h : specSub ext st sUUIDOther inp = .error e) :
    Quiet (processSub repaired ext st sUUIDOther inp) := by
  rcases he with rfl | rfl <;> unfold_err <;> leaves

theorem q_PlayerCount (he : e = .truncated ∨ e = .noServer) (h : specSub ext st sPlayerCount inp = .error e) :
    Quiet (processSub repaired ext st sPlayerCount inp) := by
  rcases he with rfl | rfl <;> unfold_err <;> leaves

theorem q_PlayerList (he : e = .truncated ∨ e = .noServer) (h : specSub ext st sPlayerList inp = .error e) :
    Quiet (processSub repaired ext st sPlayerList inp) := by
  rcases he with rfl | rfl <;> unfold_err <;> leaves

theorem q_GetServers (he : e = .truncated ∨ e = .noServer) (h : specSub ext st sGetServers inp = .error e) :
    Quiet (processSub repaired ext st sGetServers inp) := by
  rcases he with rfl | rfl <;> unfold_err <;> leaves

theorem q_GetServer (he : e = .truncated ∨ e = .noServer) (h : specSub ext st sGetServer inp = .error e) :
    Quiet (processSub repaired ext st sGetServer inp) := by
  rcases he with rfl | rfl <;> unfold_err <;> leaves

theorem q_Message (he : e = .truncated ∨ e = .noServer) (h : specSub ext st sMessage inp = .error e) :
    Quiet (processSub repaired ext st sMessage inp) := by
  rcases he with rfl | rfl <;> unfold_err <;> leaves

theorem q_MessageRaw (he : e = .truncated ∨ e = .noServer) (h : specSub ext st sMessageRaw inp = .error e) :
    Quiet (processSub repaired ext st sMessageRaw inp) := by
  rcases he with rfl | rfl <;> unfold_err <;> leaves

theorem q_ServerIP (he : e = .truncated ∨ e = .noServer) (h : specSub ext st sServerIP inp = .error e) :
    Quiet (processSub repaired ext st sServerIP inp) := by
  rcases he with rfl | rfl <;> unfold_err <;> leaves

theorem q_KickPlayer (he : e = .truncated ∨ e = .noServer) (h : specSub ext st sKickPlayer inp = .error e) :
    Quiet (processSub repaired ext st sKickPlayer inp) := by
  rcases he with rfl | rfl <;> unfold_err <;> leaves

theorem q_KickPlayerRaw (he : e = .truncated ∨ e = .noServer) (h : specSub ext st sKickPlayerRaw inp = .error e) :
    Quiet (processSub repaired ext st sKickPlayerRaw inp) := by
  rcases he with rfl | rfl <;> unfold_err <;> leaves

theorem q_GetPlayerServer (he : e = .truncated ∨ e = .noServer) (h : specSub ext st sGetPlayerServer inp = .error e) :
    Quiet (processSub repaired ext st sGetPlayerServer inp) := by
  rcases he with rfl | rfl <;> unfold_err <;> leaves



/-! ### all sub-channels together -/
variable (ext : Ext) (st : St) (sub inp : Bytes) (effs : List Effect) (e : Exn)

theorem refine_sub (hn : NamesOk st) (hj : ext.jsonFor st.caller.protocol = ext.jsonDefault)
    (h : specSub ext st sub inp = .ok effs) : processSub repaired ext st sub inp = Out.of effs := by
  by_cases hm : sub ∈ subBytes
  · simp only [subBytes, List.mem_cons, List.not_mem_nil, or_false] at hm
    rcases hm with rfl | rfl | rfl | rfl | rfl | rfl | rfl | rfl | rfl | rfl | rfl | rfl | rfl | rfl | rfl | rfl | rfl | rfl
    · exact r_forwardToPlayer ext st inp effs h
    · exact r_forward ext st inp effs hn h
    · exact r_connect ext st inp effs h
    · exact r_connectOther ext st inp effs h
    · exact r_ip ext st inp effs h
    · exact r_ipOther ext st inp effs h
    · exact r_uuid ext st inp effs h
    · exact r_uuidOther ext st inp effs h
    · exact r_playerCount ext st inp effs h
    · exact r_playerList ext st inp effs hn h
    · exact r_getServers ext st inp effs hn h
    · exact r_getServer ext st inp effs h
    · exact r_message ext st inp effs h
    · exact r_messageRaw ext st inp effs h
    · exact r_serverIP ext st inp effs h
    · exact r_kick ext st inp effs h
    · exact r_kickRaw ext st inp effs hj h
    · exact r_getPlayerServer ext st inp effs h
  · exact r_unknown ext st inp effs sub hm h

theorem quiet_sub (he : e = .truncated ∨ e = .noServer) (h : specSub ext st sub inp = .error e) :
    Quiet (processSub repaired ext st sub inp) := by
  by_cases hm : sub ∈ subBytes
  · simp only [subBytes, List.mem_cons, List.not_mem_nil, or_false] at hm
    rcases hm with rfl | rfl | rfl | rfl | rfl | rfl | rfl | rfl | rfl | rfl | rfl | rfl | rfl | rfl | rfl | rfl | rfl | rfl
    · exact q_ForwardToPlayer ext st inp e he h
    · exact q_Forward ext st inp e he h
    · exact q_Connect ext st inp e he h
    · exact q_ConnectOther ext st inp e he h
    · exact q_IP ext st inp e he h
    · exact q_IPOther ext st inp e he h
    · exact q_UUID ext st inp e he h
    · exact q_UUIDOther ext st inp e he h
    · exact q_PlayerCount ext st inp e he h
    · exact q_PlayerList ext st inp e he h
    · exact q_GetServers ext st inp e he h
    · exact q_GetServer ext st inp e he h
    · exact q_Message ext st inp e he h
    · exact q_MessageRaw ext st inp e he h
    · exact q_ServerIP ext st inp e he h
    · exact q_KickPlayer ext st inp e he h
    · exact q_KickPlayerRaw ext st inp e he h
    · exact q_GetPlayerServer ext st inp e he h
  · simp [subBytes] at hm
    simp [specSub, hm, pure_ne_error] at h

/-- decoders that do not panic -/
structure NoPanic (ext : Ext) : Prop where
  legacy : ∀ m, ext.legacy m ≠ .panic
  jsonFor : ∀ p m, ext.jsonFor p m ≠ .panic
  jsonDefault : ∀ m, ext.jsonDefault m ≠ .panic

theorem processMessage_no_panic (dec : Bytes → Dec) (hd : ∀ m, dec m ≠ .panic) :
    (processMessage repaired st dec inp).panicked = false := by
  unfold processMessage
  split
  · rfl
  · split
    · rfl
    · rename_i msg _ _
      have := hd msg
      cases hdm : dec msg <;> simp_all [decOut, Out.of, repaired]
      · split
        · rfl
        · split <;> rfl

theorem processKick_no_panic (dec : Bytes → Dec) (hd : ∀ m, dec m ≠ .panic) :
    (processKick ext st dec inp).panicked = false := by
  unfold processKick
  repeat' split
  all_goals first | rfl | (rename_i h; exact absurd h (hd _))

theorem no_panic_sub (hp : NoPanic ext) : (processSub repaired ext st sub inp).panicked = false := by
  by_cases hm : sub ∈ subBytes
  · simp only [subBytes, List.mem_cons, List.not_mem_nil, or_false] at hm
    rcases hm with rfl | rfl | rfl | rfl | rfl | rfl | rfl | rfl | rfl | rfl | rfl | rfl | rfl | rfl | rfl | rfl | rfl | rfl
    all_goals
      simp [processSub, sForwardToPlayer, sForward, sConnect, sConnectOther, sIP, sIPOther, sUUID, sUUIDOther,
        sPlayerCount, sPlayerList, sGetServers, sGetServer, sMessage, sMessageRaw, sServerIP, sKickPlayer,
        sKickPlayerRaw, sGetPlayerServer, prepareForward, repaired]
    all_goals first
      | exact processMessage_no_panic st inp _ hp.legacy
      | exact processMessage_no_panic st inp _ hp.jsonDefault
      | exact processKick_no_panic ext st inp _ hp.legacy
      | exact processKick_no_panic ext st inp _ (hp.jsonFor _)
      | ((repeat' split) <;> rfl)
      | (split
         · rfl
         · rename_i ch r1 _
           by_cases hc : isAllOrOnline ⟨true, true, true, true⟩ ch = true
           · simp [hc, Out.of]
           · simp only [hc]; (repeat' split) <;> first | rfl | simp_all)
  · simp [subBytes] at hm
    simp [processSub, hm, Out.of]

end Gate.C26
