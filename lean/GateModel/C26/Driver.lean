import GateModel.Base.Line
import GateModel.C26.Model
import GateModel.C26.Spec
/-
C26 driver.  Case lines (names/strings hex, `-` = empty):
  state  <caller> <players|_> <playerCount> <servers|_>      set the abstract proxy state (layer A)
  astate <caller> <players|_> <playerCount> <servers|_>      same format, state of the real proxy (layer B)
      player := name,uuidtext,host,port,protocol,(_|server~protocol)   players separated by `;`
      server := name,host,port,count,(_|user+user+…)                   servers separated by `;`
  req  <channel> <data> <L> <J> <D> <blank>    layer A: responder over recording providers
  areq <channel> <data> <L> <J> <D> <blank>    layer B: responder + real adapter, packets per connection
      L/J/D = result of the legacy / JSON(caller protocol) / default-JSON decoder on the request's message
      string: hex of the canonical component, `!` = error, `P` = panic.
Output: `h=<0|1> <effect>|<effect>…` (`-` when none) [+ ` panic`].
Verdict = the reference (`Spec.lean`) evaluated on the IMPLEMENTATION's output.
-/
namespace Gate.C26
open Gate

/-! ### parsing -/

def parseConn (owner : Bytes) (s : String) : Option (Option Conn) :=
  if s = "_" then some none else
  match s.splitOn "~" with
  | [h, p] => do pure (some ⟨owner, ← parseHex h, ← p.toNat?⟩)
  | _ => none

def parsePlayer (s : String) : Option Player :=
  match s.splitOn "," with
  | [n, u, h, po, pr, c] => do
    let name ← parseHex n
    pure ⟨name, ← parseHex u, ← parseHex h, ← po.toNat?, ← pr.toNat?, ← parseConn name c⟩
  | _ => none

def parseServer (s : String) : Option Server :=
  match s.splitOn "," with
  | [n, h, po, c, pl] => do
    let players ← if pl = "_" then some [] else (pl.splitOn "+").mapM parseHex
    pure ⟨← parseHex n, ← parseHex h, ← po.toNat?, ← c.toNat?, players⟩
  | _ => none

def parseList {α} (f : String → Option α) (s : String) : Option (List α) :=
  if s = "_" then some [] else (s.splitOn ";").mapM f

def parseState : List String → Option St
  | [c, ps, n, ss] => do pure (mkSt (← parsePlayer c) (← parseList parsePlayer ps) (← n.toNat?) (← parseList parseServer ss))
  | _ => none

def parseDec (s : String) : Dec :=
  if s = "P" then .panic else if s = "!" then .err else
  match parseHex s with
  | some b => .ok b
  | none => .err

/-! ### rendering -/

def chanTok (c : Bytes) : String :=
  if c = cModern then "m" else if c = cLegacy then "l" else "x" ++ toHex c

def Effect.render : Effect → String
  | .respond c d => "R:" ++ toHex c.owner ++ ":" ++ toHex c.server ++ ":" ++ chanTok (chanOf c.protocol) ++ ":" ++ toHex d
  | .broadcast s d => "B:" ++ toHex s ++ ":l:" ++ toHex d
  | .connect p s => "C:" ++ toHex p ++ ":" ++ toHex s
  | .kick p c => "K:" ++ toHex p ++ ":" ++ toHex c
  | .msgAll c => "MA:" ++ toHex c
  | .msgPlayer p c => "MP:" ++ toHex p ++ ":" ++ toHex c
  | .msgServer s c => "MS:" ++ toHex s ++ ":" ++ toHex c

/-- which backend connection carries a Forward is Go map order: the owner is printed as `*` -/
def Write.render (online : List Player) (fwd : Bool) : Write → String
  | .backendPlugin o ch d =>
    let srv := match (online.find? (·.name == o)).bind (·.conn) with | some c => c.server | none => []
    "b:" ++ (if fwd then "*" else toHex o) ++ ":" ++ toHex srv ++ ":" ++ chanTok ch ++ ":" ++ toHex d
  | .clientPlugin p ch d => "c:" ++ toHex p ++ ":" ++ chanTok ch ++ ":" ++ toHex d
  | .clientChat p => "cc:" ++ toHex p
  | .clientDisconnect p => "cd:" ++ toHex p
  | .connectRequest p s => "ev:" ++ toHex p ++ ":" ++ toHex s

def joinOr (xs : List String) : String := if xs.isEmpty then "-" else "|".intercalate xs

def showA (handled : Bool) (effs : List Effect) (panicked : Bool) : String :=
  (if handled then "h=1 " else "h=0 ") ++ joinOr (effs.map Effect.render) ++ (if panicked then " panic" else "")

def sortS (xs : List String) : List String := xs.mergeSort (fun a b => decide (a ≤ b))

def showB (online : List Player) (fwd handled : Bool) (ws : List Write) (panicked : Bool) : String :=
  (if handled then "h=1 " else "h=0 ") ++ joinOr (sortS (ws.map (Write.render online fwd))) ++
  (if panicked then " panic" else "")

/-! ### hypotheses of the refinement theorem, checked per case (verdict `-` when they do not hold) -/

def namesOk (st : St) : Bool :=
  st.players.all (fun p => !p.name.isEmpty) && st.servers.all (fun s => !s.name.isEmpty && s.players.all (fun n => !n.isEmpty))

def subName (sub : Bytes) : String :=
  match (subBytes.zip subNames).find? (fun x => x.1 == sub) with
  | some x => x.2
  | none => "unknown"

def firstPick (xs : List Player) : Option Player := xs.head?

structure DS where
  st : Option St := none

def stepReq (layerB : Bool) (st : St) (c : Case) : String × String :=
  match c.args with
  | [chs, ds, l, j, d, bl] =>
    match parseHex chs, parseHex ds, parseHex bl with
    | some chan, some data, some blank =>
      let dl := parseDec l; let dj := parseDec j; let dd := parseDec d
      let ext : Ext := { legacy := fun _ => dl, jsonFor := fun _ _ => dj, jsonDefault := fun _ => dd, blank }
      let out := process ext st chan data
      let sub : Bytes := match readUTF data with | some (s, _) => s | none => []
      let fwd := sub == sForward
      let online := st.players
      -- the registered servers' player lists (may contain players whose current server is another one)
      let listed : Bytes → List Player := fun srv =>
        match st.servers.find? (·.name == srv) with
        | some sv => sv.players.filterMap fun n => online.find? (·.name == n)
        | none => []
      let rA := fun (h : Bool) (es : List Effect) (p : Bool) =>
        if layerB then showB online fwd h (es.flatMap (adapt repairedA online listed firstPick)) p else showA h es p
      let model := rA out.handled out.effects out.panicked
      let tag := subName sub
      let hyps := namesOk st && (dj == dd)
      let verdict :=
        match spec ext st chan data with
        | none =>
          if !isBungee chan then (if c.impl = "h=0 -" then "ok" else "viol:non-bungee-channel-processed") else "-"
        | some (.ok effs) =>
          if !hyps then "-" else
          let want := if layerB then showB online fwd true (effs.flatMap (specAdapt online listed firstPick)) false
                      else showA true effs false
          if c.impl = want then "ok"
          else if c.impl.endsWith "panic" then "viol:panic-" ++ tag
          else "viol:" ++ (if layerB then "adapter-" else "") ++ tag
        | some (.error e) =>
          if c.impl.endsWith "panic" || c.impl.endsWith "hang" then "viol:panic-" ++ tag
          else if e = .truncated || e = .noServer then
            (if c.impl = "h=1 -" || c.impl = "h=0 -" then "ok" else "viol:effect-on-malformed-" ++ tag)
          else "-"
      (model, verdict)
    | _, _, _ => ("bad-op", "-")
  | _ => ("bad-op", "-")

def step (s : DS) (c : Case) : DS × String × String :=
  match c.op with
  | "state" | "astate" =>
    match parseState c.args with
    | some st => ({ st := some st }, "-", "-")
    | none => ({ st := none }, "bad-state", "-")
  | "req" | "areq" =>
    match s.st with
    | some st => let (m, v) := stepReq (c.op == "areq") st c; (s, m, v)
    | none => (s, "no-state", "-")
  | _ => (s, "bad-op", "-")

end Gate.C26

def main : IO Unit := Gate.runDriver ({} : Gate.C26.DS) Gate.C26.step
