import GateModel.Base.Line
import GateModel.C36.Spec
/-
C36 driver.  Case lines (documents in the canonical one-token encoding of harness/c36/main.go):

  merge <T> <P>\t<R>             model output: canonical encoding of `merge T P`
                                 verdict: the implementation's R must be the value `specMerge T P` (RFC 7396)
  cfg <exp> <T> <P> <R|->\t<acc|rej>
                                 end-to-end `mergeConfigPatch` (observed; the strict decoder is not modelled):
                                 model output: the generator's expectation (a → acc, r → rej, u → echo)
                                 verdict: a patch with an unknown / wrongly typed member must be refused,
                                 a patch made of valid edits must be accepted, and an accepted candidate must
                                 agree with `merge T P` on every leaf (members the merged document lacks or holds
                                 as a zero value may be defaulted by the decoder).
  seq <exp> <E> <P> <X> <R>\t<code>   a history of merge patches sent to ONE ConfigHandler: each is judged against the
                                 configuration in effect before it (E): the handler's code and the effective
                                 configuration afterwards (R) must be those of a stateless evaluation (exp, X), and an
                                 accepted patch must give `merge E P` on every leaf
  eff <E> <P> <R|->\t<acc|rej>    E = json.Marshal(effective configuration) (not canonicalConfigJSON), P = {} or a
                                 Lite-routes patch, R = json.Marshal(candidate): R must agree with `merge E P`
                                 on every leaf — the patch target is the effective configuration
-/
namespace Gate.C36
open Gate

def isHexDigit (c : Char) : Bool := ('0' ≤ c && c ≤ '9') || ('a' ≤ c && c ≤ 'f')

mutual
partial def parseJ : List Char → Option (J × List Char)
  | 'n' :: r => some (.null, r)
  | 't' :: r => some (.bool true, r)
  | 'f' :: r => some (.bool false, r)
  | '#' :: r => let (h, r') := r.span isHexDigit; some (.num (String.ofList h), r')
  | 's' :: r => let (h, r') := r.span isHexDigit; some (.str (String.ofList h), r')
  | '[' :: ']' :: r => some (.arr [], r)
  | '[' :: r => parseElems r []
  | '{' :: '}' :: r => some (.obj [], r)
  | '{' :: r => parseMembers r []
  | _ => none
partial def parseElems (cs : List Char) (acc : List J) : Option (J × List Char) :=
  match parseJ cs with
  | some (v, ',' :: r) => parseElems r (v :: acc)
  | some (v, ']' :: r) => some (.arr (v :: acc).reverse, r)
  | _ => none
partial def parseMembers (cs : List Char) (acc : Fields) : Option (J × List Char) :=
  let (h, r) := cs.span isHexDigit
  match r with
  | ':' :: r' => match parseJ r' with
    | some (v, ',' :: r'') => parseMembers r'' ((String.ofList h, v) :: acc)
    | some (v, '}' :: r'') => some (.obj ((String.ofList h, v) :: acc).reverse, r'')
    | _ => none
  | _ => none
end

def parseDoc (s : String) : Option J :=
  match parseJ s.toList with
  | some (v, []) => some v
  | _ => none

def insertSorted (kv : String × String) : List (String × String) → List (String × String)
  | [] => [kv]
  | x :: r => if kv.1 < x.1 then kv :: x :: r else x :: insertSorted kv r

/-- canonical encoding: members sorted by (hex) key; a key bound twice keeps its first binding, like `lookup` -/
partial def showJ : J → String
  | .null => "n"
  | .bool true => "t"
  | .bool false => "f"
  | .num h => "#" ++ h
  | .str h => "s" ++ h
  | .arr xs => "[" ++ ",".intercalate (xs.map showJ) ++ "]"
  | .obj kvs =>
    let dedup := kvs.foldl (fun acc (kv : String × J) => if acc.any (·.1 = kv.1) then acc else acc ++ [(kv.1, showJ kv.2)]) []
    let sorted := dedup.foldl (fun acc kv => insertSorted kv acc) []
    "{" ++ ",".intercalate (sorted.map fun kv => kv.1 ++ ":" ++ kv.2) ++ "}"

def isZeroValue : J → Bool
  | .null => true
  | .bool b => !b
  | .num h => h = "30"          -- "0"
  | .str h => h = ""
  | .arr xs => xs.isEmpty
  | .obj kvs => kvs.isEmpty

/-- every leaf of the merged document `m` is found in the accepted candidate `r` -/
partial def leafAgree (m r : J) : Bool :=
  match m, r with
  | .obj ms, .obj rs =>
    ms.all fun (k, v) => match lookup k rs with
      | some v' => leafAgree v v'
      | none => isZeroValue v || (match v with | .obj _ => leafAgree v (.obj []) | _ => false)
  | .arr xs, .arr ys => xs.length = ys.length && (xs.zip ys).all fun (a, b) => leafAgree a b
  | a, b => showJ a = showJ b

def step (c : Case) : String × String :=
  match c.op, c.args with
  | "merge", [ts, ps] =>
    match parseDoc ts, parseDoc ps with
    | some t, some p =>
      let verdict := match parseDoc c.impl with
        | some r => if showJ r = showJ (specMerge t p) then "ok" else "viol:not-rfc7396"
        | none => "viol:not-rfc7396"
      (showJ (merge t p), verdict)
    | _, _ => ("bad-op", "-")
  | "cfg", [exp, ts, ps, rs] =>
    let model := if exp = "a" then "acc" else if exp = "r" then "rej" else c.impl
    let verdict :=
      if c.impl = "acc" then
        if exp = "r" then "viol:nonstrict-accepted" else
        match parseDoc ts, parseDoc ps, parseDoc rs with
        | some t, some p, some r =>
          let m := merge t p
          if !m.isObj then "-" else if leafAgree m r then "ok" else "viol:patched-config-differs"
        | _, _, _ => "viol:patched-config-differs"
      else if c.impl = "rej" then (if exp = "a" then "viol:valid-patch-rejected" else "ok")
      else "viol:" ++ c.impl
    (model, verdict)
  | "seq", [exp, es, ps, xs, rs] =>
    -- one request of a history of merge patches on ONE handler: it must be answered from the configuration
    -- in effect (E), independently of earlier patches that were merged and then refused
    let verdict :=
      if c.impl ≠ exp then "viol:patch-history-dependent"
      else match parseDoc es, parseDoc ps, parseDoc xs, parseDoc rs with
        | some e, some p, some x, some r =>
          if showJ r ≠ showJ x then "viol:patch-history-dependent"
          else if exp = "ok" && !leafAgree (merge e p) r then "viol:patched-config-differs"
          else "ok"
        | _, _, _, _ => "viol:patch-history-dependent"
    (exp, verdict)
  | "eff", [es, ps, rs] =>
    -- the merge-patch target must be the EFFECTIVE configuration: E is the effective configuration encoded
    -- independently of canonicalConfigJSON; an accepted candidate R must agree with `merge E P` on every leaf
    let verdict :=
      if c.impl = "acc" then
        match parseDoc es, parseDoc ps, parseDoc rs with
        | some e, some p, some r => if leafAgree (merge e p) r then "ok" else "viol:target-not-effective"
        | _, _, _ => "viol:target-not-effective"
      else "viol:valid-patch-rejected"
    ("acc", verdict)
  | _, _ => ("bad-op", "-")

end Gate.C36

def main : IO Unit := Gate.runPureDriver Gate.C36.step
