import GateModel.C36.Spec
/-
C36 — helper lemmas: map operations, the loop invariant of `mergeFields`, path semantics.
-/
namespace Gate.C36

/-! ### association-list maps -/

theorem lookup_erase_self (k : String) (m : Fields) : lookup k (erase k m) = none := by
  induction m with
  | nil => rfl
  | cons kv r ih =>
    obtain ⟨k', v⟩ := kv
    by_cases h : k' = k
    · simp [erase, h, ih]
    · simp [erase, lookup, h, ih]

theorem lookup_erase_ne {k k' : String} (h : k' ≠ k) (m : Fields) :
    lookup k' (erase k m) = lookup k' m := by
  induction m with
  | nil => rfl
  | cons kv r ih =>
    obtain ⟨k0, v⟩ := kv
    by_cases h0 : k0 = k
    · have : k0 ≠ k' := fun e => h (e ▸ h0 ▸ rfl)
      simp [erase, lookup, h0, ih]
      intro e; exact absurd e.symm h
    · by_cases h1 : k0 = k'
      · subst h1
        simp [erase, lookup, h0]
      · simp [erase, lookup, h0, h1, ih]

theorem lookup_set_self (k : String) (v : J) (m : Fields) : lookup k (set k v m) = some v := by
  simp [set, lookup]

theorem lookup_set_ne {k k' : String} (h : k' ≠ k) (v : J) (m : Fields) :
    lookup k' (set k v m) = lookup k' m := by
  have : k ≠ k' := fun e => h e.symm
  simp [set, lookup, this, lookup_erase_ne h]

theorem nodup_erase (k : String) (m : Fields) (h : NodupKeys m) : NodupKeys (erase k m) := by
  induction m with
  | nil => trivial
  | cons kv r ih =>
    obtain ⟨k0, v⟩ := kv
    obtain ⟨h1, h2⟩ := h
    by_cases h0 : k0 = k
    · simp [erase, h0]; exact ih h2
    · simp only [erase, h0, if_false]
      refine ⟨?_, ih h2⟩
      rw [lookup_erase_ne h0]; exact h1

theorem nodup_set (k : String) (v : J) (m : Fields) (h : NodupKeys m) : NodupKeys (set k v m) :=
  ⟨lookup_erase_self k m, nodup_erase k m h⟩

/-! ### the loop -/

/-- What one member of the result is, in terms of the patch member of that name — RFC 7396's loop body
    read as an equation.  Needs only that the patch (a Go map) has distinct keys. -/
theorem lookup_mergeFields (k : String) (ps : Fields) (hp : NodupKeys ps) (acc : Fields) :
    lookup k (mergeFields acc ps) =
      match lookup k ps with
      | none => lookup k acc
      | some v => if v.isNull then none else some (merge (lookupD k acc) v) := by
  induction ps generalizing acc with
  | nil => simp [mergeFields, lookup]
  | cons kv ps ih =>
    obtain ⟨k0, v0⟩ := kv
    obtain ⟨h1, h2⟩ := hp
    by_cases hk : k0 = k
    · subst hk
      by_cases hn : v0.isNull
      · simp [mergeFields, hn, lookup, ih h2, h1, lookup_erase_self]
      · simp [mergeFields, hn, lookup, ih h2, h1, lookup_set_self]
    · have hk' : k ≠ k0 := fun e => hk e.symm
      cases hn : v0.isNull with
      | true =>
        simp only [mergeFields, hn, if_true, lookup, hk, if_false, ih h2]
        cases lookup k ps with
        | none => simp [lookup_erase_ne hk']
        | some v => simp [lookupD, lookup_erase_ne hk']
      | false =>
        simp only [mergeFields, hn, lookup, hk, if_false, ih h2, Bool.false_eq_true]
        cases lookup k ps with
        | none => simp [lookup_set_ne hk']
        | some v => simp [lookupD, lookup_set_ne hk']

theorem nodup_mergeFields (ps acc : Fields) (h : NodupKeys acc) : NodupKeys (mergeFields acc ps) := by
  induction ps generalizing acc with
  | nil => simpa [mergeFields] using h
  | cons kv ps ih =>
    obtain ⟨k0, v0⟩ := kv
    by_cases hn : v0.isNull
    · simp only [mergeFields, hn, if_true]; exact ih _ (nodup_erase _ _ h)
    · simp only [mergeFields, hn]; exact ih _ (nodup_set _ _ _ h)


/-! ### one level of the result -/

theorem isObj_iff {j : J} : j.isObj = true ↔ ∃ kvs, j = .obj kvs := by
  cases j <;> simp [J.isObj]

theorem merge_nonobj (t p : J) (h : p.isObj = false) : merge t p = p := by
  cases p <;> simp [merge, J.isObj] at *

theorem specMerge_nonobj (t p : J) (h : p.isObj = false) : specMerge t p = p := by
  cases p <;> simp [specMerge, J.isObj] at *

theorem child_merge_obj (t : J) (ps : Fields) (hp : NodupKeys ps) (k : String) :
    child k (merge t (.obj ps)) =
      match lookup k ps with
      | none => child k t
      | some v => if v.isNull then none else some (merge ((child k t).getD .null) v) := by
  simp only [merge, child, asObj]
  exact lookup_mergeFields k ps hp (asObj t)

theorem lookup_append (k : String) (a b : Fields) :
    lookup k (a ++ b) = match lookup k a with | some v => some v | none => lookup k b := by
  induction a with
  | nil => simp [lookup]
  | cons kv r ih =>
    obtain ⟨k0, v⟩ := kv
    by_cases h : k0 = k <;> simp [lookup, h, ih]

theorem lookup_keepUntouched (k : String) (ps tf : Fields) :
    lookup k (keepUntouched ps tf) = if hasKey k ps then none else lookup k tf := by
  induction tf with
  | nil => simp [keepUntouched, lookup]
  | cons kv r ih =>
    obtain ⟨k0, v⟩ := kv
    by_cases h : k0 = k
    · subst h
      cases hh : hasKey k0 ps <;> simp [keepUntouched, lookup, hh, ih]
    · cases hh : hasKey k0 ps <;> simp [keepUntouched, lookup, hh, ih, h]

theorem lookup_specNew (k : String) (tf ps : Fields) (hp : NodupKeys ps) :
    lookup k (specNew tf ps) =
      match lookup k ps with
      | none => none
      | some v => if v.isNull then none else some (specMerge (lookupD k tf) v) := by
  induction ps with
  | nil => simp [specNew, lookup]
  | cons kv ps ih =>
    obtain ⟨k0, v0⟩ := kv
    obtain ⟨h1, h2⟩ := hp
    by_cases hk : k0 = k
    · subst hk
      cases hn : v0.isNull <;> simp [specNew, hn, lookup, ih h2, h1]
    · cases hn : v0.isNull <;> simp [specNew, hn, lookup, ih h2, hk]

private theorem specAux (x y : Option J) (g : J → J) :
    (match (if x.isSome then none else y) with
      | some v => some v
      | none => match x with
        | none => none
        | some v => if v.isNull then none else some (g v)) =
    match x with
    | none => y
    | some v => if v.isNull then none else some (g v) := by
  cases x with
  | none => cases y <;> rfl
  | some v => rfl

theorem child_specMerge_obj (t : J) (ps : Fields) (hp : NodupKeys ps) (k : String) :
    child k (specMerge t (.obj ps)) =
      match lookup k ps with
      | none => child k t
      | some v => if v.isNull then none else some (specMerge ((child k t).getD .null) v) := by
  show lookup k (keepUntouched ps (asObj t) ++ specNew (asObj t) ps) = _
  rw [lookup_append, lookup_keepUntouched, lookup_specNew _ _ _ hp]
  simp only [child, hasKey, lookupD]
  exact specAux _ _ _

/-! ### path semantics -/

theorem getPath_cons (j : J) (k : String) (r : List String) :
    getPath j (k :: r) = match child k j with | some v => getPath v r | none => none := rfl

theorem sem_nil (j : J) : sem j [] = some (shape j) := rfl

theorem sem_cons (j : J) (k : String) (r : List String) :
    sem j (k :: r) = match child k j with | some v => sem v r | none => none := by
  simp only [sem, getPath_cons]; cases child k j <;> rfl

theorem shape_isObj (j : J) : (shape j).isObj = j.isObj := by cases j <;> rfl
theorem shape_isNull (j : J) : (shape j).isNull = j.isNull := by cases j <;> rfl
theorem shape_nonobj (j : J) (h : j.isObj = false) : shape j = j := by
  cases j <;> simp [J.isObj, shape] at *

theorem sem_eq_shape {a b : J} (h : sem a = sem b) : shape a = shape b := by
  have := congrFun h []; simpa [sem_nil] using this
theorem sem_eq_isObj {a b : J} (h : sem a = sem b) : a.isObj = b.isObj := by
  rw [← shape_isObj a, ← shape_isObj b, sem_eq_shape h]
theorem sem_eq_isNull {a b : J} (h : sem a = sem b) : a.isNull = b.isNull := by
  rw [← shape_isNull a, ← shape_isNull b, sem_eq_shape h]
theorem sem_eq_nonobj {a b : J} (h : sem a = sem b) (ha : a.isObj = false) : a = b := by
  have hb : b.isObj = false := (sem_eq_isObj h) ▸ ha
  rw [← shape_nonobj a ha, ← shape_nonobj b hb, sem_eq_shape h]

/-- members of semantically equal documents are semantically equal -/
def ChildRel (x y : Option J) : Prop :=
  match x, y with
  | none, none => True
  | some a, some b => sem a = sem b
  | _, _ => False

theorem sem_eq_child {a b : J} (h : sem a = sem b) (k : String) : ChildRel (child k a) (child k b) := by
  have hk : ∀ r, sem a (k :: r) = sem b (k :: r) := fun r => congrFun h _
  simp only [sem_cons] at hk
  cases ha : child k a <;> cases hb : child k b <;> simp only [ha, hb, ChildRel] at hk ⊢
  · have := hk []; simp [sem_nil] at this
  · have := hk []; simp [sem_nil] at this
  · exact funext hk

theorem childRel_getD {x y : Option J} (h : ChildRel x y) : sem (x.getD .null) = sem (y.getD .null) := by
  cases x <;> cases y <;> simp_all [ChildRel]

theorem WF_child {j v : J} {k : String} (h : WF j) (hc : child k j = some v) : WF v := by
  intro path kvs hg
  apply h (k :: path) kvs
  rw [getPath_cons, hc]; exact hg

theorem WF_lookup {ps : Fields} {v : J} {k : String} (h : WF (.obj ps)) (hc : lookup k ps = some v) : WF v :=
  WF_child (j := .obj ps) h (by simpa [child, asObj] using hc)

theorem WF_top {ps : Fields} (h : WF (.obj ps)) : NodupKeys ps := h [] ps rfl

theorem WF_null : WF .null := by
  intro path kvs h
  cases path with
  | nil => simp [getPath] at h
  | cons k r => simp [getPath, child, asObj, lookup] at h

theorem WF_getD {j : J} (h : WF j) (k : String) : WF ((child k j).getD .null) := by
  cases hc : child k j with
  | none => exact WF_null
  | some v => exact WF_child h hc

theorem nodup_asObj {j : J} (h : WF j) : NodupKeys (asObj j) := by
  cases j <;> try trivial
  exact WF_top h

/-! ### the RFC 7396 equations and their unique solution -/

/-- RFC 7396 §2 read as equations about a binary function on JSON documents. -/
structure IsRFC7396 (f : J → J → J) : Prop where
  nonobject_replaces : ∀ t p, p.isObj = false → f t p = p
  object_result : ∀ t ps, (f t (.obj ps)).isObj = true
  member : ∀ t ps, NodupKeys ps → ∀ k,
    child k (f t (.obj ps)) =
      match lookup k ps with
      | none => child k t
      | some v => if v.isNull then none else some (f ((child k t).getD .null) v)

theorem merge_isRFC : IsRFC7396 merge where
  nonobject_replaces := merge_nonobj
  object_result := by intro t ps; simp [merge, J.isObj]
  member := child_merge_obj

theorem specMerge_isRFC : IsRFC7396 specMerge where
  nonobject_replaces := specMerge_nonobj
  object_result := by intro t ps; simp [specMerge, J.isObj]
  member := child_specMerge_obj

theorem shape_obj_of_isObj {j : J} (h : j.isObj = true) : shape j = .obj [] := by
  obtain ⟨kvs, rfl⟩ := isObj_iff.mp h; rfl

/-- Any two solutions of the RFC equations agree on semantically equal arguments. -/
theorem rfc_congr_path {f g : J → J → J} (hf : IsRFC7396 f) (hg : IsRFC7396 g) (path : List String) :
    ∀ t t' p p', sem t = sem t' → sem p = sem p' → WF p → WF p' →
      sem (f t p) path = sem (g t' p') path := by
  induction path with
  | nil =>
    intro t t' p p' _ hp _ _
    cases ho : p.isObj with
    | false =>
      have : p = p' := sem_eq_nonobj hp ho
      subst this
      rw [hf.nonobject_replaces _ _ ho, hg.nonobject_replaces _ _ ho]
    | true =>
      have ho' : p'.isObj = true := (sem_eq_isObj hp) ▸ ho
      obtain ⟨ps, rfl⟩ := isObj_iff.mp ho
      obtain ⟨ps', rfl⟩ := isObj_iff.mp ho'
      rw [sem_nil, sem_nil, shape_obj_of_isObj (hf.object_result _ _), shape_obj_of_isObj (hg.object_result _ _)]
  | cons k r ih =>
    intro t t' p p' ht hp wp wp'
    cases ho : p.isObj with
    | false =>
      have : p = p' := sem_eq_nonobj hp ho
      subst this
      rw [hf.nonobject_replaces _ _ ho, hg.nonobject_replaces _ _ ho]
    | true =>
      have ho' : p'.isObj = true := (sem_eq_isObj hp) ▸ ho
      obtain ⟨ps, rfl⟩ := isObj_iff.mp ho
      obtain ⟨ps', rfl⟩ := isObj_iff.mp ho'
      rw [sem_cons, sem_cons, hf.member _ _ (WF_top wp), hg.member _ _ (WF_top wp')]
      have hc := sem_eq_child hp k
      have hct := sem_eq_child ht k
      simp only [child, asObj] at hc
      cases h1 : lookup k ps with
      | none =>
        cases h2 : lookup k ps' with
        | some v' => simp [h1, h2, ChildRel] at hc
        | none =>
          simp only []
          cases h3 : child k t <;> cases h4 : child k t' <;> simp_all [ChildRel]
      | some v =>
        cases h2 : lookup k ps' with
        | none => simp [h1, h2, ChildRel] at hc
        | some v' =>
          simp only [h1, h2, ChildRel] at hc
          simp only []
          have hn := sem_eq_isNull hc
          cases hv : v.isNull with
          | true => simp [hv, ← hn]
          | false =>
            have hv' : v'.isNull = false := hn ▸ hv
            simp only [hv', Bool.false_eq_true, if_false]
            exact ih _ _ _ _ (childRel_getD hct) hc (WF_lookup wp h1) (WF_lookup wp' h2)


/-! ### idempotence -/

theorem merge_idem_path (path : List String) :
    ∀ t p, WF p → sem (merge (merge t p) p) path = sem (merge t p) path := by
  induction path with
  | nil =>
    intro t p _
    cases ho : p.isObj with
    | false => rw [merge_nonobj _ _ ho, merge_nonobj _ _ ho]
    | true =>
      obtain ⟨ps, rfl⟩ := isObj_iff.mp ho
      simp [sem_nil, merge, shape]
  | cons k r ih =>
    intro t p wp
    cases ho : p.isObj with
    | false => rw [merge_nonobj _ _ ho, merge_nonobj _ _ ho]
    | true =>
      obtain ⟨ps, rfl⟩ := isObj_iff.mp ho
      have hn := WF_top wp
      rw [sem_cons, sem_cons, child_merge_obj _ _ hn]
      cases h1 : lookup k ps with
      | none => rfl
      | some v =>
        simp only []
        rw [child_merge_obj _ _ hn, h1]
        cases hv : v.isNull with
        | true => simp [hv]
        | false =>
          simp only [hv, Bool.false_eq_true, if_false, Option.getD_some]
          exact ih _ _ (WF_lookup wp h1)

/-! ### key uniqueness is preserved (the result is again a legal Go map tree) -/

theorem merge_wf_path (path : List String) :
    ∀ t p kvs, WF t → WF p → getPath (merge t p) path = some (.obj kvs) → NodupKeys kvs := by
  induction path with
  | nil =>
    intro t p kvs wt wp h
    cases ho : p.isObj with
    | false => rw [merge_nonobj _ _ ho] at h; exact wp [] kvs h
    | true =>
      obtain ⟨ps, rfl⟩ := isObj_iff.mp ho
      simp only [getPath, merge, Option.some.injEq, J.obj.injEq] at h
      subst h
      exact nodup_mergeFields _ _ (nodup_asObj wt)
  | cons k r ih =>
    intro t p kvs wt wp h
    cases ho : p.isObj with
    | false => rw [merge_nonobj _ _ ho] at h; exact wp _ kvs h
    | true =>
      obtain ⟨ps, rfl⟩ := isObj_iff.mp ho
      rw [getPath_cons, child_merge_obj _ _ (WF_top wp)] at h
      cases h1 : lookup k ps with
      | none =>
        rw [h1] at h
        exact wt (k :: r) kvs (by rw [getPath_cons]; exact h)
      | some v =>
        rw [h1] at h
        cases hv : v.isNull with
        | true => simp [hv] at h
        | false =>
          simp only [hv, Bool.false_eq_true, if_false] at h
          exact ih _ _ kvs (WF_getD wt k) (WF_lookup wp h1) h

end Gate.C36
