import GateModel.C36.Lemmas
import GateModel.Gen.C36
/-
C36 — Config edits via JSON Merge Patch follow RFC 7396.

`merge` (Model.lean) mirrors `applyMergePatch`; the list order of a patch object is the order in which
Go's `range` visits the map.  `NodupKeys`/`WF` say "this is a Go map" (each key once).  `sem d` is the
JSON value a document denotes (Spec.lean).  Property theorems only; helper lemmas are in Lemmas.lean.
-/
namespace Gate.C36.Props
open Gate Gate.C36

/-- any non-object patch value (null, scalar, array — whatever it contains) replaces the target -/
theorem nonobject_replaces (t p : J) (h : p.isObj = false) : merge t p = p := merge_nonobj t p h

/-- an object patch always yields an object (a non-object target is treated as `{}`) -/
theorem object_patch_yields_object (t : J) (ps : Fields) : (merge t (.obj ps)).isObj = true :=
  merge_isRFC.object_result t ps

/-- RFC 7396, member by member, for every visiting order of the patch map:
    null removes, a value merges recursively with the target's member (or with null if there is none),
    members the patch does not name are kept. -/
theorem merge_lookup (t : J) (ps : Fields) (hp : NodupKeys ps) (k : String) :
    child k (merge t (.obj ps)) =
      match lookup k ps with
      | none => child k t
      | some v => if v.isNull then none else some (merge ((child k t).getD .null) v) :=
  child_merge_obj t ps hp k

theorem null_removes (t : J) (ps : Fields) (hp : NodupKeys ps) (k : String)
    (h : lookup k ps = some .null) : child k (merge t (.obj ps)) = none := by
  rw [merge_lookup t ps hp k, h]; rfl

theorem unnamed_member_kept (t : J) (ps : Fields) (hp : NodupKeys ps) (k : String)
    (h : lookup k ps = none) : child k (merge t (.obj ps)) = child k t := by
  rw [merge_lookup t ps hp k, h]

theorem objects_merge_recursively (t : J) (ps : Fields) (hp : NodupKeys ps) (k : String) (v : J)
    (h : lookup k ps = some v) (hv : v.isNull = false) :
    child k (merge t (.obj ps)) = some (merge ((child k t).getD .null) v) := by
  rw [merge_lookup t ps hp k, h]; simp [hv]

/-- the model solves the RFC 7396 equations -/
theorem merge_is_rfc7396 : IsRFC7396 merge := merge_isRFC

/-- … and those equations determine the resulting JSON value: every solution `f` agrees with `merge`,
    even on arguments that are only equal as JSON values (different member order at any depth).
    With `f = merge` this is independence of Go's map iteration order. -/
theorem rfc7396_unique (f : J → J → J) (hf : IsRFC7396 f) (t t' p p' : J)
    (ht : sem t = sem t') (hp : sem p = sem p') (wp : WF p) (wp' : WF p') :
    sem (f t p) = sem (merge t' p') :=
  funext fun path => rfc_congr_path hf merge_isRFC path t t' p p' ht hp wp wp'

theorem iteration_order_irrelevant (t t' p p' : J)
    (ht : sem t = sem t') (hp : sem p = sem p') (wp : WF p) (wp' : WF p') :
    sem (merge t p) = sem (merge t' p') :=
  rfc7396_unique merge merge_isRFC t t' p p' ht hp wp wp'

/-- the model denotes the same value as the declarative reference used as oracle by the driver -/
theorem merge_eq_rfc (t p : J) (wp : WF p) : sem (merge t p) = sem (specMerge t p) :=
  (rfc7396_unique specMerge specMerge_isRFC t t p p rfl rfl wp wp).symm

theorem idempotent (t p : J) (wp : WF p) : sem (merge (merge t p) p) = sem (merge t p) :=
  funext fun path => merge_idem_path path t p wp

/-- the result is again a tree of Go maps (no key twice at any reachable object) -/
theorem merge_wf (t p : J) (wt : WF t) (wp : WF p) : WF (merge t p) :=
  fun path kvs h => merge_wf_path path t p kvs wt wp h

/-! ### source shape (regenerated from /repo on every run) -/

/-- `applyMergePatch`: early `return patch`, `make` for a non-object target, `delete` for null,
    one recursive call per remaining member, `return targetObject` — nothing else. -/
theorem applyMergePatch_shape :
    Gate.Gen.C36.applyMergePatchCalls = ["return", "make", "delete", "applyMergePatch", "return"] := by decide

/-- `mergeConfigPatch` decodes target and patch, merges, re-encodes and strictly decodes the merged
    document before it returns a candidate. -/
theorem mergeConfigPatch_shape :
    Gate.Gen.C36.mergeConfigPatchCalls.filter
        (fun c => c ∈ ["canonicalConfigJSON", "json.Unmarshal", "applyMergePatch", "json.Marshal", "decodeConfigStrict"])
      = ["canonicalConfigJSON", "json.Unmarshal", "json.Unmarshal", "applyMergePatch", "json.Marshal", "decodeConfigStrict"] := by
  decide

/-! ### non-vacuity: RFC 7396 appendix A on the model, and satisfiable hypotheses -/

private def s (x : String) : J := .str x
example : merge (.obj [("a", s "b")]) (.obj [("a", s "c")]) = .obj [("a", s "c")] := rfl
example : merge (.obj [("a", s "b")]) (.obj [("b", s "c")]) = .obj [("b", s "c"), ("a", s "b")] := rfl
example : merge (.obj [("a", s "b")]) (.obj [("a", .null)]) = .obj [] := rfl
example : merge (.obj [("a", s "b"), ("b", s "c")]) (.obj [("a", .null)]) = .obj [("b", s "c")] := rfl
example : merge (.obj [("a", .arr [s "b"])]) (.obj [("a", s "c")]) = .obj [("a", s "c")] := rfl
example : merge (.obj [("a", .obj [("b", s "c")])]) (.obj [("a", .obj [("b", s "d"), ("c", .null)])])
    = .obj [("a", .obj [("b", s "d")])] := rfl
example : merge (.arr [s "a", s "b"]) (.arr [s "c", s "d"]) = .arr [s "c", s "d"] := rfl
example : merge (.obj [("a", s "foo")]) .null = .null := rfl
example : merge (.obj [("e", .null)]) (.obj [("a", .num "1")]) = .obj [("a", .num "1"), ("e", .null)] := rfl
example : merge (.arr [.num "1", .num "2"]) (.obj [("a", s "b"), ("c", .null)]) = .obj [("a", s "b")] := rfl
example : merge (.obj []) (.obj [("a", .obj [("bb", .obj [("ccc", .null)])])])
    = .obj [("a", .obj [("bb", .obj [])])] := rfl
example : NodupKeys [("a", s "b"), ("c", .null)] := by simp [NodupKeys, lookup]
example : WF (.obj []) := by
  intro path kvs h
  cases path with
  | nil => simp [getPath] at h; subst h; trivial
  | cons k r => simp [getPath, child, asObj, lookup] at h

end Gate.C36.Props
