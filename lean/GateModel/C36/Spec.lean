import GateModel.C36.Model
/-
C36 — reference semantics for RFC 7396 (JSON Merge Patch), independent of iteration order.

* `specMerge` is the RFC's result written declaratively (no loop over a mutated accumulator):
  the members of the target the patch does not mention, followed by the patch's non-null members
  merged recursively.  It is the executable oracle the driver evaluates on the implementation's output.
* `sem` is the *value* a document denotes: what is found at every object path (objects only as the
  marker `obj []`, everything else — scalars and arrays — verbatim).  Two documents with the same `sem`
  are the same JSON value up to member order.
Core Lean only.
-/
namespace Gate.C36

def hasKey (k : String) (m : Fields) : Bool := (lookup k m).isSome

/-- members of the target whose name does not occur in the patch -/
def keepUntouched (ps : Fields) : Fields → Fields
  | [] => []
  | (k, v) :: r => if hasKey k ps then keepUntouched ps r else (k, v) :: keepUntouched ps r

mutual
def specMerge (t : J) : J → J
  | .obj ps => .obj (keepUntouched ps (asObj t) ++ specNew (asObj t) ps)
  | p => p
def specNew (tf : Fields) : Fields → Fields
  | [] => []
  | (k, v) :: ps =>
    if v.isNull then specNew tf ps else (k, specMerge (lookupD k tf) v) :: specNew tf ps
end

/-- member `k` of `j` when `j` is an object -/
def child (k : String) (j : J) : Option J := lookup k (asObj j)

/-- the value found by descending through object members -/
def getPath : J → List String → Option J
  | j, [] => some j
  | j, k :: r => match child k j with
    | some v => getPath v r
    | none => none

def shape : J → J
  | .obj _ => .obj []
  | j => j

/-- the JSON value denoted by a document (member order and shadowed duplicates forgotten) -/
def sem (j : J) (path : List String) : Option J := (getPath j path).map shape

/-- a Go map never holds a key twice -/
def NodupKeys : Fields → Prop
  | [] => True
  | (k, _) :: r => lookup k r = none ∧ NodupKeys r

/-- every object reachable through object members has distinct keys (what `json.Unmarshal` into
    `map[string]any` produces) -/
def WF (j : J) : Prop := ∀ path kvs, getPath j path = some (.obj kvs) → NodupKeys kvs

def J.isObj : J → Bool
  | .obj _ => true
  | _ => false

end Gate.C36
