/-
C36 — model of `pkg/gate/config_merge_patch.go:applyMergePatch`.

JSON values as Go's `encoding/json` decodes them into `any`:
  nil | bool | float64 | string | []any | map[string]any
Numbers and strings are opaque tokens (the merge never inspects them).  A Go map is modelled as an
association list; `lookup`/`erase`/`set` are the map read / `delete` / assignment.  The order of the
patch's association list is the order in which Go's `for key, value := range patchObject` happens to
visit the map (unspecified in Go) — the theorems in `Props` show the result does not depend on it.
Core Lean only.
-/
namespace Gate.C36

inductive J where
  | null
  | bool (b : Bool)
  | num (s : String)
  | str (s : String)
  | arr (xs : List J)
  | obj (kvs : List (String × J))
  deriving Repr, Inhabited

abbrev Fields := List (String × J)

/-- `m[k]` with the comma-ok form: first binding of `k`. -/
def lookup (k : String) : Fields → Option J
  | [] => none
  | (k', v) :: r => if k' = k then some v else lookup k r

/-- `delete(m, k)` -/
def erase (k : String) : Fields → Fields
  | [] => []
  | (k', v) :: r => if k' = k then erase k r else (k', v) :: erase k r

/-- `m[k] = v` -/
def set (k : String) (v : J) (m : Fields) : Fields := (k, v) :: erase k m

def J.isNull : J → Bool
  | .null => true
  | _ => false

/-- `targetObject, ok := target.(map[string]any); if !ok { targetObject = make(map[string]any) }` -/
def asObj : J → Fields
  | .obj kvs => kvs
  | _ => []

/-- `targetObject[key]` on a missing key yields the nil interface, i.e. JSON null. -/
def lookupD (k : String) (m : Fields) : J := (lookup k m).getD .null

mutual
/-- `applyMergePatch(target, patch)` -/
def merge (t : J) : J → J
  | .obj ps => .obj (mergeFields (asObj t) ps)
  | p => p
/-- the `for key, value := range patchObject` loop over the (mutated in place) target object -/
def mergeFields (acc : Fields) : Fields → Fields
  | [] => acc
  | (k, v) :: ps =>
    if v.isNull then mergeFields (erase k acc) ps
    else mergeFields (set k (merge (lookupD k acc) v) acc) ps
end

end Gate.C36
