import GateModel.Base.Line
import GateModel.C24.Model
/-
C24 driver.  `reset` starts a CONFIG world (player over a 1.20.3 connection, backends 0..3 with
connections) and a PRE-JOIN world (player over a 1.12.2 connection, backends 0..3).  The send index of a
client message is in the op line and must equal the number of messages so far in that world.

CONFIG world ops                                    PRE-JOIN world ops
  cmsg <idx> <len>        handlePluginMessage          pmsg <idx> <len>       handlePluginMessage
  cburst <idx> <n> <len>  n messages                   pburst <idx> <n> <len>
  cflush <s>              flushQueuedPluginMessagesTo  pflush                 FlushQueuedPluginMessages
  cflushrace <s> <idx> <len>  … with one more client message handled while the flush is writing
  clogin <s> cfg|play     login success of backend s   pjoin <d>              handleBackendJoinGame(d)
                          with the client in CONFIG    pdeact                 Deactivated
                          (→ flush) or in PLAY (→ no   pcur/pinfl <b|->, pconn <b> <0|1>
                          flush: the call site)        pstate <b> p|c         backend protocol state
  cfinish <s>             handleBackendFinishUpdate    pbphase <b> v|u|t      backend phase
  ccur/cinfl <b|->, cconn <b> <0|1>                    pcphase v|n            client phase (complete / not)

Output: `<events> q=<len>,<bytes>,<latched>` (+ ` r=<ready|->` in the CONFIG world, `e` prefix on cflush
when it returned an error); events = `-` or comma-separated `<b>:w:<idx>` (WritePacket), `<b>:b:<idx>`
(BufferPacket), `<b>:f` (Flush), `D` (player disconnected).

Verdict = the property on the IMPLEMENTATION's output given the model state before the op:
no message handed over twice (`duplicate`), per backend in send order (`reorder`), buffered messages
flushed within the call (`unflushed`), caps respected (`bound-exceeded`), an overflow disconnects
(`overflow-no-disconnect`), handled = delivered + queued + dropped-by-design + lost-by-overflow
(`lost-or-duplicated`), at backend finish nothing addressed to it is still queued
(`stranded-at-finish`), a PLAY message sent while a backend is in flight / not ready is not discarded
(`play-msg-discarded-not-ready`).
-/
namespace Gate.C24
open Gate

def showOut : Out → String
  | .msg b .write i => toString b ++ ":w:" ++ toString i
  | .msg b .buffer i => toString b ++ ":b:" ++ toString i
  | .flush b => toString b ++ ":f"
  | .disconnect => "D"

def showOuts (os : List Out) : String := if os.isEmpty then "-" else ",".intercalate (os.map showOut)

def parseOut (t : String) : Option Out :=
  if t = "D" then some .disconnect else
  match t.splitOn ":" with
  | [b, "f"] => do pure (.flush (← b.toNat?))
  | [b, "w", i] => do pure (.msg (← b.toNat?) .write (← i.toNat?))
  | [b, "b", i] => do pure (.msg (← b.toNat?) .buffer (← i.toNat?))
  | _ => none

def parseOuts (s : String) : Option (List Out) :=
  if s = "-" then some [] else (s.splitOn ",").mapM parseOut

def b01 (b : Bool) : String := if b then "1" else "0"
def showQ (q : Q) : String := "q=" ++ toString q.queue.length ++ "," ++ toString q.bytes ++ "," ++ b01 q.overflowed
def showReady : Option Nat → String | some s => toString s | none => "-"

def parseOptNat (s : String) : Option (Option Nat) :=
  if s = "-" then some none else s.toNat?.map some

/-- implementation output split into events and the queue digest `(len, bytes, latched)` -/
structure Impl where
  err : Bool
  outs : List Out
  qlen : Nat
  qbytes : Nat
  latched : Bool

def parseImpl (s : String) : Option Impl := do
  let toks := s.splitOn " "
  let (err, toks) := match toks with | "e" :: r => (true, r) | r => (false, r)
  match toks with
  | ev :: qd :: _ =>
    let outs ← parseOuts ev
    match (qd.drop 2).toString.splitOn "," with
    | [a, b, c] => pure ⟨err, outs, ← a.toNat?, ← b.toNat?, c = "1"⟩
    | _ => none
  | _ => none

/-- per-backend order / exactly-once / flush discipline of the implementation's events against what
    had been delivered before (`deliv`, newest first) -/
def judgeOuts (deliv : List (Nat × Msg)) (next : Nat) (outs : List Out) : Option String :=
  let rec go (seen : List (Nat × Nat)) (unflushed : List Nat) : List Out → Option String
    | [] => if unflushed.isEmpty then none else some "unflushed"
    | .msg b via i :: r =>
      if i ≥ next then some "never-sent"
      else if seen.any (fun x => x.2 == i) then some "duplicate"
      else if seen.any (fun x => x.1 == b && x.2 > i) then some "reorder"
      else go ((b, i) :: seen) (if via == .buffer then b :: unflushed else unflushed) r
    | .flush b :: r => go seen (unflushed.filter (· != b)) r
    | .disconnect :: r => go seen unflushed r
  go (deliv.map fun d => (d.1, d.2.idx)) [] outs

def nMsgs (outs : List Out) : Nat := (outs.filter fun o => match o with | .msg .. => true | _ => false).length

/-- common part of the verdict -/
def judgeCommon (deliv : List (Nat × Msg)) (next' dropped' lost' : Nat) (wasLatched wasDisc : Bool) (im : Impl) : String :=
  match judgeOuts deliv next' im.outs with
  | some sig => "viol:" ++ sig
  | none =>
    if im.qlen > maxMsgs ∨ im.qbytes > maxBytes then "viol:bound-exceeded"
    else if im.latched && !wasLatched && !wasDisc && !im.outs.contains .disconnect then "viol:overflow-no-disconnect"
    else if deliv.length + nMsgs im.outs + im.qlen + dropped' + lost' ≠ next' then "viol:lost-or-duplicated"
    else "ok"

structure World where
  c : Cfg := {}
  p : Play := {}
  cDisc : Bool := false
  pDisc : Bool := false     -- the PRE-JOIN history has left `pDisciplined` (order no longer judged)

def cfgLine (c : Cfg) (outs : List Out) (err : Bool := false) : String :=
  (if err then "e " else "") ++ showOuts outs ++ " " ++ showQ c.q ++ " r=" ++ showReady c.ready
def playLine (p : Play) (outs : List Out) : String := showOuts outs ++ " " ++ showQ p.q

def cfgVerdict (c c' : Cfg) (impl : String) : String :=
  match parseImpl impl with
  | none => "viol:unparsable"
  | some im => judgeCommon c.deliv c'.next c'.dropped.length c'.lost.length c.q.overflowed c.disconnected im
def playVerdict (p p' : Play) (impl : String) : String :=
  match parseImpl impl with
  | none => "viol:unparsable"
  | some im => judgeCommon p.deliv p'.next p'.dropped.length p'.lost.length p.q.overflowed p.disconnected im

def cfgDo (w : World) (acts : List CAct) (impl : String) : World × String × String :=
  let (c', outs) := crun w.c acts
  ({ w with c := c' }, cfgLine c' outs, cfgVerdict w.c c' impl)
/-- `pDisc` latches once a PRE-JOIN op leaves the discipline `pDisciplined` (a direct write past a non-empty
    queue, possible only through environment changes the phase code never makes): per-backend order is then
    not a fact about correct code (`play_order_needs_discipline`), so `reorder` is no longer judged until reset;
    every other verdict still is. -/
def playDo (w : World) (ops : List POp) (impl : String) (verdict : Bool := true) : World × String × String :=
  let (p', outs) := prun w.p ops
  let undisc := w.pDisc || !pDisciplined w.p ops
  let v := if verdict then playVerdict w.p p' impl else "-"
  let v := if undisc && v = "viol:reorder" then "-" else v
  ({ w with p := p', pDisc := undisc }, playLine p' outs, v)

/-- a PLAY message that the property wants delivered later but the handler discards: a backend is in
    flight while none is connected, or the connected backend is not in the PLAY state yet -/
def discardedNotReady (p : Play) : Bool :=
  match p.cur with
  | none => (match p.infl with | some s => p.hasConn s | none => false)
  | some s => p.hasConn s && !p.inPlay s

def step (w : World) (c : Case) : World × String × String :=
  match c.op, c.args with
  | "reset", _ => ({}, "-", "-")
  | "caps", _ => (w, toString maxMsgs ++ " " ++ toString maxBytes, "-")
  -- CONFIG world
  | "cmsg", [i, len] => (match i.toNat?, len.toNat? with
    | some i, some len => if i ≠ w.c.next then (w, "bad-idx", "-") else cfgDo w (cmsgActs len) c.impl
    | _, _ => (w, "bad-op", "-"))
  | "cburst", [i, n, len] => (match i.toNat?, n.toNat?, len.toNat? with
    | some i, some n, some len =>
      if i ≠ w.c.next then (w, "bad-idx", "-")
      else cfgDo w ((List.range n).flatMap fun _ => cmsgActs len) c.impl
    | _, _, _ => (w, "bad-op", "-"))
  | "cflush", [s] => (match s.toNat? with
    | some s =>
      let (c', outs, err) := cflush w.c s
      ({ w with c := c' }, cfgLine c' outs err, cfgVerdict w.c c' c.impl)
    | none => (w, "bad-op", "-"))
  | "cflushrace", [s, i, len] => (match s.toNat?, i.toNat?, len.toNat? with
    | some s, some i, some len =>
      if i ≠ w.c.next then (w, "bad-idx", "-") else
      -- the flush's `h.mu` section is atomic, so a client message arriving while the flush is writing is
      -- handled after it: flush, then the message
      let (c1, o1, err) := cflush w.c s
      let (c2, o2) := crun c1 (cmsgActs len)
      let v := match parseImpl c.impl with
        | none => "viol:unparsable"
        | some im =>
          -- `config_ready_backend_has_nothing_queued`: with `s` ready nothing addressed to `s` may wait
          if !err && im.qlen > 0 && c1.target = some s && c2.q.queue.isEmpty then "viol:stranded-after-flush"
          else cfgVerdict w.c c2 c.impl
      ({ w with c := c2 }, cfgLine c2 (o1 ++ o2) err, v)
    | _, _, _ => (w, "bad-op", "-"))
  | "clogin", [s, mode] => (match s.toNat? with
    | some s =>
      if mode = "cfg" then
        let (c', outs, err) := cflush w.c s
        ({ w with c := c' }, cfgLine c' outs err, cfgVerdict w.c c' c.impl)
      else (w, cfgLine w.c [], cfgVerdict w.c w.c c.impl)
    | none => (w, "bad-op", "-"))
  | "cfinish", [s] => (match s.toNat? with
    | some s =>
      let v := match parseImpl c.impl with
        | none => "viol:unparsable"
        | some im =>
          if im.qlen > 0 && w.c.q.queue.any (fun m => m.tgt == some s) then "viol:stranded-at-finish"
          else cfgVerdict w.c w.c c.impl
      (w, cfgLine w.c [], v)
    | none => (w, "bad-op", "-"))
  | "ccur", [o] => (match parseOptNat o with
    | some o => cfgDo w [.setCur o] c.impl | none => (w, "bad-op", "-"))
  | "cinfl", [o] => (match parseOptNat o with
    | some o => cfgDo w [.setInfl o] c.impl | none => (w, "bad-op", "-"))
  | "cconn", [b, v] => (match b.toNat? with
    | some b => cfgDo w [.setConn b (v = "1")] c.impl | none => (w, "bad-op", "-"))
  -- PRE-JOIN world
  | "pmsg", [i, len] => (match i.toNat?, len.toNat? with
    | some i, some len =>
      if i ≠ w.p.next then (w, "bad-idx", "-")
      else
        let (w', m, v) := playDo w [.msg len] c.impl
        let v := if v = "ok" && discardedNotReady w.p then
            (match parseImpl c.impl with
             | some im => if nMsgs im.outs = 0 && im.qlen = w.p.q.queue.length then "viol:play-msg-discarded-not-ready" else v
             | none => v)
          else v
        (w', m, v)
    | _, _ => (w, "bad-op", "-"))
  | "pburst", [i, n, len] => (match i.toNat?, n.toNat?, len.toNat? with
    | some i, some n, some len =>
      if i ≠ w.p.next then (w, "bad-idx", "-") else playDo w (List.replicate n (.msg len)) c.impl
    | _, _, _ => (w, "bad-op", "-"))
  | "pflush", _ => playDo w [.flushQueued] c.impl
  | "pjoin", [d] => (match d.toNat? with
    | some d => playDo w [.join d] c.impl | none => (w, "bad-op", "-"))
  | "pdeact", _ => playDo w [.deactivated] c.impl
  | "pcur", [o] => (match parseOptNat o with
    | some o => playDo w [.setCur o] c.impl | none => (w, "bad-op", "-"))
  | "pinfl", [o] => (match parseOptNat o with
    | some o => playDo w [.setInfl o] c.impl | none => (w, "bad-op", "-"))
  | "pconn", [b, v] => (match b.toNat? with
    | some b => playDo w [.setConn b (v = "1")] c.impl | none => (w, "bad-op", "-"))
  | "pstate", [b, v] => (match b.toNat? with
    | some b => playDo w [.setInPlay b (v = "p")] c.impl | none => (w, "bad-op", "-"))
  | "pbphase", [b, v] => (match b.toNat? with
    | some b => playDo w [.setBPhase b (if v = "v" then .vanilla else if v = "u" then .unknown else .transition)] c.impl
    | none => (w, "bad-op", "-"))
  | "pcphase", [v] => playDo w [.setClientComplete (v = "v")] c.impl
  | _, _ => (w, "bad-op", "-")

end Gate.C24

def main : IO Unit := Gate.runDriver ({} : Gate.C24.World) Gate.C24.step
