import GateModel.Gen.C24
/-
C24 — model of the two "early plugin message" queues of pkg/edition/java/proxy:

* the CONFIG-phase queue of `clientConfigSessionHandler` (session_client_config.go:
  `handlePluginMessage` → `enqueuePluginMessage` / direct write, `flushQueuedPluginMessagesTo`,
  state under `h.mu`: `pluginMessages`, `pluginMessagesBytes`, `pluginMessagesOverflowed`, `readyServer`);
* the PRE-JOIN queue of `clientPlaySessionHandler` (session_client_play.go: generic branch of
  `handlePluginMessage` → `enqueueLoginPluginMessage` / direct write, `drainQueuedLoginPluginMessages`
  used by `handleBackendJoinGame` and `FlushQueuedPluginMessages`, `Deactivated`).

A client plugin message is identified by its send index `idx` (the harness puts it into the channel
name); only `len(Data)` matters to the code.  Backends are indices.  `deliv` is the chronological
(newest first) list of plugin messages handed to backend connections.
Messages on BungeeCord / brand / register channels and channels known to the proxy's channel
registrar take other branches and are not part of this model (C25/C26).
-/
namespace Gate.C24

def maxMsgs : Nat := Gate.Gen.C24.maxQueuedLoginPluginMessages.toNat
def maxBytes : Nat := Gate.Gen.C24.maxQueuedLoginPluginMessageBytes.toNat

structure Msg where
  idx : Nat
  len : Nat
  tgt : Option Nat := none   -- ghost: the server the message was addressed to when it was handled
  deriving DecidableEq, Repr, Inhabited

/-- how a message reached a backend connection -/
inductive Via where
  | write    -- WritePacket (written and flushed)
  | buffer   -- BufferPacket (needs a Flush)
  deriving DecidableEq, Repr

/-- observable effects of one handler call, in order -/
inductive Out where
  | msg (b : Nat) (via : Via) (idx : Nat)
  | flush (b : Nat)
  | disconnect            -- player.Disconnect("Too many plugin messages …")
  deriving DecidableEq, Repr

/-! ## the bounded queue shared (as duplicated code) by both handlers -/

structure Q where
  queue : List Msg := []
  bytes : Nat := 0
  overflowed : Bool := false
  deriving Repr

inductive EnqRes where
  | queued | latched | overflow
  deriving DecidableEq, Repr

/-- body of `enqueuePluginMessage` after the ready check / of `enqueueLoginPluginMessage` -/
def Q.enqueue (q : Q) (m : Msg) : Q × EnqRes :=
  if q.overflowed then (q, .latched)
  else
    let newBytes := q.bytes + m.len
    let newCount := q.queue.length + 1
    if newBytes > maxBytes ∨ newCount > maxMsgs then
      ({ queue := [], bytes := 0, overflowed := true }, .overflow)
    else ({ q with queue := q.queue ++ [m], bytes := newBytes }, .queued)

/-- the drain loop: byte counter reset, everything popped front to back -/
def Q.drain (q : Q) : Q × List Msg := ({ q with queue := [], bytes := 0 }, q.queue)

/-! ## CONFIG-phase handler -/

/-- client read-loop position inside `handlePluginMessage` -/
inductive CPc where
  | idle
  | got (m : Msg)                 -- target read (`m.tgt`), about to enter the `h.mu` section of enqueue
  | direct (m : Msg) (t : Nat)    -- enqueue returned false (`readyServer == target`): about to write directly
  deriving DecidableEq, Repr

structure Cfg where
  q : Q := {}
  ready : Option Nat := none          -- h.mu.readyServer
  cur : Option Nat := none            -- player.connectedServer_
  infl : Option Nat := none           -- player.connInFlight
  hasConn : Nat → Bool := fun _ => true
  pc : CPc := .idle
  -- ghost bookkeeping
  next : Nat := 0                     -- client messages handled so far
  deliv : List (Nat × Msg) := []      -- newest first
  dropped : List Msg := []            -- not handed to any backend (no server / no connection / latched)
  lost : List Msg := []               -- cleared from the queue by an overflow
  disconnected : Bool := false

/-- `connectionInFlightOrConnectedServer` -/
def Cfg.target (c : Cfg) : Option Nat := match c.infl with | some s => some s | none => c.cur

def Cfg.setConn (c : Cfg) (b : Nat) (v : Bool) : Cfg :=
  { c with hasConn := fun j => if j = b then v else c.hasConn j }

/-- atomic actions of the CONFIG world: the client read loop's three steps per message, the flush
    critical section (by a backend goroutine), and the environment -/
inductive CAct where
  | recv (len : Nat)      -- client thread: read target for the next message
  | enq                   -- client thread: the `h.mu` section of enqueuePluginMessage
  | direct                -- client thread: direct path (second pointer read assumed equal to the first)
  | flushSec (s : Nat)    -- flushQueuedPluginMessagesTo's `h.mu` section (after its ensureConnected succeeded)
  | setCur (o : Option Nat) | setInfl (o : Option Nat) | setConn (b : Nat) (v : Bool)

def cstep (c : Cfg) : CAct → Cfg × List Out
  | .recv len => (match c.pc with
    | .idle => ({ c with pc := .got ⟨c.next, len, c.target⟩, next := c.next + 1 }, [])
    | _ => (c, []))
  | .enq => (match c.pc with
    | .got m =>
      if m.tgt.isSome ∧ c.ready = m.tgt then
        (match m.tgt with
         | some t => ({ c with pc := .direct m t }, [])
         | none => (c, []))
      else
        (match c.q.enqueue m with
         | (q', .queued) => ({ c with q := q', pc := .idle }, [])
         | (q', .latched) => ({ c with q := q', pc := .idle, dropped := m :: c.dropped }, [])
         | (q', .overflow) =>
           -- player.Disconnect is a no-op on an already closed client connection
           ({ c with q := q', pc := .idle, lost := m :: (c.q.queue.reverse ++ c.lost), disconnected := true },
            if c.disconnected then [] else [.disconnect]))
    | _ => (c, []))
  | .direct => (match c.pc with
    | .direct m t =>
      if c.hasConn t then ({ c with pc := .idle, deliv := (t, m) :: c.deliv }, [.msg t .write m.idx])
      else ({ c with pc := .idle, dropped := m :: c.dropped }, [])
    | _ => (c, []))
  | .flushSec s =>
    if c.ready = some s then (c, [])
    else
      let (q', ms) := c.q.drain
      ({ c with q := q', ready := some s, deliv := (ms.map fun m => (s, m)).reverse ++ c.deliv },
       ms.map (fun m => Out.msg s .buffer m.idx) ++ (if ms.isEmpty then [] else [.flush s]))
  | .setCur o => ({ c with cur := o, infl := if o = c.infl then none else c.infl }, [])
  | .setInfl o => ({ c with infl := o }, [])
  | .setConn b v => (c.setConn b v, [])

def cexec (c : Cfg) : List CAct → Cfg
  | [] => c
  | a :: as => cexec (cstep c a).1 as

/-- one client plugin message handled without interference -/
def cmsgActs (len : Nat) : List CAct := [.recv len, .enq, .direct]

/-- run actions collecting outputs -/
def crun (c : Cfg) : List CAct → Cfg × List Out
  | [] => (c, [])
  | a :: as => let (c', o) := cstep c a; let (c'', o') := crun c' as; (c'', o ++ o')

/-- `flushQueuedPluginMessagesTo(s)` as called: `ensureConnected` first -/
def cflush (c : Cfg) (s : Nat) : Cfg × List Out × Bool :=
  if c.hasConn s then let (c', o) := cstep c (.flushSec s); (c', o, false) else (c, [], true)

/-! ## PRE-JOIN (play handler) queue — sequential model -/

inductive BPhase where
  | vanilla | unknown | transition     -- VanillaBackendPhase / UnknownBackendPhase / InTransitionBackendPhase
  deriving DecidableEq, Repr

structure Play where
  q : Q := {}
  cur : Option Nat := none
  infl : Option Nat := none
  hasConn : Nat → Bool := fun _ => true
  inPlay : Nat → Bool := fun _ => true          -- backendConn.State() == state.Play
  bphase : Nat → BPhase := fun _ => .vanilla     -- serverConn.phase()
  clientComplete : Bool := true                  -- player.phase().ConsideredComplete()
  spawned : Bool := false
  joined : Nat → Bool := fun _ => false          -- serverConnection.completedJoin
  next : Nat := 0
  deliv : List (Nat × Msg) := []
  dropped : List Msg := []
  lost : List Msg := []
  disconnected : Bool := false

inductive POp where
  | msg (len : Nat)
  | flushQueued                -- FlushQueuedPluginMessages
  | join (d : Nat)             -- handleBackendJoinGame(destination d)
  | deactivated
  | setCur (o : Option Nat) | setInfl (o : Option Nat) | setConn (b : Nat) (v : Bool)
  | setInPlay (b : Nat) (v : Bool) | setBPhase (b : Nat) (p : BPhase) | setClientComplete (v : Bool)

def BPhase.complete : BPhase → Bool
  | .vanilla | .transition => true
  | .unknown => false

def Play.drainTo (p : Play) (b : Nat) : Play × List Out :=
  let (q', ms) := p.q.drain
  ({ p with q := q', deliv := (ms.map fun m => (b, m)).reverse ++ p.deliv },
   ms.map (fun m => Out.msg b .buffer m.idx))

/-- first join of a not-yet-complete (legacy Forge NOT_STARTED) client: OnFirstJoin completes the phase -/
def Play.firstJoin (p : Play) : Play :=
  if p.spawned then p else { p with spawned := true, clientComplete := true }

/-- `completeJoin` (first time only for this serverConnection): UnknownBackendPhase becomes VanillaBackendPhase -/
def Play.completeJoin (p : Play) (d : Nat) : Play :=
  if p.joined d then p else
    { p with joined := fun j => if j = d then true else p.joined j,
             bphase := fun j => if j = d ∧ p.bphase d = .unknown then .vanilla else p.bphase j }

def pstep (p : Play) : POp → Play × List Out
  | .msg len =>
    let m : Msg := ⟨p.next, len, p.cur⟩
    let p := { p with next := p.next + 1 }
    match p.cur with
    | none => ({ p with dropped := m :: p.dropped }, [])
    | some s =>
      if !p.hasConn s then ({ p with dropped := m :: p.dropped }, [])
      else if !p.inPlay s then ({ p with dropped := m :: p.dropped }, [])
      else if p.bphase s = .transition then ({ p with dropped := m :: p.dropped }, [])
      else if p.clientComplete && (p.bphase s).complete then
        ({ p with deliv := (s, m) :: p.deliv }, [.msg s .write m.idx])
      else match p.q.enqueue m with
        | (q', .queued) => ({ p with q := q' }, [])
        | (q', .latched) => ({ p with q := q', dropped := m :: p.dropped }, [])
        | (q', .overflow) =>
          ({ p with q := q', lost := m :: (p.q.queue.reverse ++ p.lost), disconnected := true },
           if p.disconnected then [] else [.disconnect])
  | .flushQueued =>
    (match p.cur with
     | none => (p, [])
     | some s => if p.hasConn s then let (p', o) := p.drainTo s; (p', o ++ [.flush s]) else (p, []))
  | .join d =>
    if p.hasConn d then
      let (p', o) := p.firstJoin.drainTo d
      (p'.completeJoin d, o ++ [.flush d])
    else (p, [])
  | .deactivated =>
    ({ p with q := {}, lost := p.q.queue.reverse ++ p.lost }, [])
  | .setCur o => ({ p with cur := o, infl := if o = p.infl then none else p.infl }, [])
  | .setInfl o => ({ p with infl := o }, [])
  | .setConn b v => ({ p with hasConn := fun j => if j = b then v else p.hasConn j }, [])
  | .setInPlay b v => ({ p with inPlay := fun j => if j = b then v else p.inPlay j }, [])
  | .setBPhase b ph => ({ p with bphase := fun j => if j = b then ph else p.bphase j }, [])
  | .setClientComplete v => ({ p with clientComplete := v }, [])

def prun (p : Play) : List POp → Play × List Out
  | [] => (p, [])
  | a :: as => let (p', o) := pstep p a; let (p'', o') := prun p' as; (p'', o ++ o')

def pexec (p : Play) : List POp → Play
  | [] => p
  | a :: as => pexec (pstep p a).1 as

/-! ## the environment discipline under which pre-join ORDER is claimed (`play_in_send_order_partial`) -/

/-- the generic branch of `handlePluginMessage` writes directly (both phases complete) -/
def Play.goesDirect (p : Play) : Bool :=
  match p.cur with
  | none => false
  | some s => p.hasConn s && p.inPlay s && (p.bphase s != .transition) && p.clientComplete && (p.bphase s).complete

/-- the op does not write directly past a non-empty queue -/
def Play.opOK (p : Play) : POp → Bool
  | .msg _ => !p.goesDirect || p.q.queue.isEmpty
  | _ => true

/-- every op along the run respects `opOK` -/
def pDisciplined (p : Play) : List POp → Bool
  | [] => true
  | a :: as => p.opOK a && pDisciplined (pstep p a).1 as


end Gate.C24
