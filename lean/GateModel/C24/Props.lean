import GateModel.C24.Lemmas
/-
C24 — Early plugin messages are delivered once, in order, with bounded buffering.

Property theorems only.  Two worlds (see Model.lean):

CONFIG world (`Cfg`, `cexec c acts`): `acts` is an ARBITRARY list of atomic actions — the client read
loop's steps for each plugin message (`recv` target read, `enq` the `h.mu` section of
enqueuePluginMessage, `direct` the write outside the lock), the `h.mu` section of
flushQueuedPluginMessagesTo for any backend at any time, and server switches / connection losses.
Theorems over `acts` therefore hold for every interleaving of client messages with backend readiness
and server switches.  Each handled message has a send index; `c.all` lists where every index is:
delivered (`deliv`, newest first, with the backend), queued, dropped (no server / connection / after the
overflow latch), lost (queue cleared by the overflow that disconnects the player) or in the client
thread's hand.

PRE-JOIN world (`Play`, `pexec p ops`): every sequence of play-handler calls and environment changes.
-/
namespace Gate.C24.Props
open Gate Gate.C24

/-! ### CONFIG-phase queue: exactly once, in order -/

/-- Exactly once: in every reachable state each message handled so far is in exactly one place, so it
    is handed to at most one backend, at most once, and never both queued and delivered. -/
theorem config_exactly_once (acts : List CAct) (i : Nat) :
    (cexec {} acts).all.count i = if i < (cexec {} acts).next then 1 else 0 :=
  (cinv_exec acts cinv_init).once i

/-- … in particular no message is ever handed to backends twice. -/
theorem config_delivered_at_most_once (acts : List CAct) (i : Nat) :
    ((cexec {} acts).deliv.map (·.2.idx)).count i ≤ 1 := by
  have h := config_exactly_once acts i
  simp only [Cfg.all, List.count_append] at h
  split at h <;> omega

/-- In the order sent: for every backend, what it was handed is in send order (the list is newest
    first, so later entries have smaller send indices) — queued messages therefore reach a backend
    before every message sent after them that reaches the same backend, for all interleavings. -/
theorem config_in_send_order (acts : List CAct) :
    (cexec {} acts).deliv.Pairwise (fun x y => x.1 = y.1 → y.2.idx < x.2.idx) :=
  (cinv_exec acts cinv_init).dOrder

/-- The queue itself is FIFO: always sorted by send index, and a flush hands it over front to back,
    followed by one Flush of the backend connection, inside the `h.mu` section. -/
theorem config_queue_fifo (acts : List CAct) :
    (cexec {} acts).q.queue.Pairwise (fun a b => a.idx < b.idx) :=
  (cinv_exec acts cinv_init).qSorted
theorem config_flush_hands_over_in_order (c : Cfg) (s : Nat) (h : c.ready ≠ some s) :
    (cstep c (.flushSec s)).2 =
      c.q.queue.map (fun m => Out.msg s .buffer m.idx) ++ (if c.q.queue.isEmpty then [] else [.flush s]) ∧
    (cstep c (.flushSec s)).1.q.queue = [] ∧ (cstep c (.flushSec s)).1.ready = some s := by
  simp [cstep, h, Q.drain]

/-- Once a backend is the ready one, nothing addressed to it waits in the queue (later messages for it
    go straight through, after everything that was queued). -/
theorem config_ready_backend_has_nothing_queued (acts : List CAct) (s : Nat)
    (h : (cexec {} acts).ready = some s) : ∀ m ∈ (cexec {} acts).q.queue, m.tgt ≠ some s := by
  intro m hm e
  rcases (cinv_exec acts cinv_init).notForReady m hm with hn | hn
  · rw [hn] at e; cases e
  · exact hn (e.trans h.symm)

/-! ### CONFIG-phase queue: bounded, overflow disconnects -/

/-- ≤ 1024 messages and ≤ 4 MiB (the byte counter is exact), always. -/
theorem config_bounded (acts : List CAct) :
    (cexec {} acts).q.queue.length ≤ maxMsgs ∧ (cexec {} acts).q.bytes = sumLen (cexec {} acts).q.queue ∧
    sumLen (cexec {} acts).q.queue ≤ maxBytes := by
  have h := (cinv_exec acts cinv_init).q
  exact ⟨h.count, h.bytesEq, h.bytesEq ▸ h.bytesLe⟩

/-- Exceeding either cap disconnects instead of buffering: once the latch is set the player has been
    disconnected, the queue is empty and stays empty (enqueue no longer buffers). -/
theorem config_overflow_disconnects (acts : List CAct) (h : (cexec {} acts).q.overflowed = true) :
    (cexec {} acts).disconnected = true ∧ (cexec {} acts).q.queue = [] :=
  ⟨(cinv_exec acts cinv_init).ovf h, (cinv_exec acts cinv_init).q.latch h⟩
theorem latched_queue_buffers_nothing (q : Q) (m : Msg) (h : q.overflowed = true) : (q.enqueue m).1 = q := by
  unfold Q.enqueue; rw [if_pos h]
/-- the enqueue that would exceed a cap buffers nothing and latches -/
theorem enqueue_over_cap (q : Q) (m : Msg) (ho : q.overflowed = false)
    (h : q.bytes + m.len > maxBytes ∨ q.queue.length + 1 > maxMsgs) :
    q.enqueue m = ({ queue := [], bytes := 0, overflowed := true }, .overflow) := by
  rcases enqueue_cases q m with ⟨h1, _⟩ | ⟨_, _, he⟩ | ⟨_, h2, h3, _⟩
  · rw [ho] at h1; cases h1
  · exact he
  · omega
/-- messages are lost from the queue only by that overflow -/
theorem config_lost_only_by_overflow (acts : List CAct) (h : (cexec {} acts).lost ≠ []) :
    (cexec {} acts).disconnected = true := (cinv_exec acts cinv_init).lostD h

/-! ### CONFIG-phase queue: the switch case (genuine defect, recorded as a known finding)

Full-strength claim: "whenever a backend finishes configuration, no message addressed to it is still
queued".  `flushQueuedPluginMessagesTo` has a single call site (`handleServerLoginSuccess`, only when the
client's active handler is the config handler — `src_single_flush_site`).  On a 1.20.2+ server SWITCH the
login success arrives while the client is in PLAY, so no flush happens for the new backend while
`readyServer` still names the previous one: messages the client then sends during reconfiguration are
queued and never delivered to the new backend. -/

/-- some message addressed to backend `s` is still queued -/
def stranded (c : Cfg) (s : Nat) : Bool := c.q.queue.any (fun m => m.tgt == some s)

/-- the history: initial login to backend 0 (flushed, joined), switch to backend 1 whose login success
    arrives with the client in PLAY (no flush), client enters CONFIG and sends a plugin message -/
def switchHistory : List CAct :=
  [.setInfl (some 0), .flushSec 0, .setCur (some 0), .setCur none, .setInfl (some 1), .recv 3, .enq, .direct]

theorem config_delivery_on_switch_fails :
    ¬ (∀ acts s, (cexec {} acts).target = some s → stranded (cexec {} acts) s = false) := by
  intro h
  have := h switchHistory 1 (by decide)
  revert this; decide

/-- what does hold: after the flush section for `s` ran, nothing addressed to `s` is queued -/
theorem config_no_stranded_after_flush_partial (acts : List CAct) (s : Nat) :
    stranded (cexec {} (acts ++ [.flushSec s])) s = false := by
  have hr : (cexec {} (acts ++ [.flushSec s])).ready = some s := by
    have : ∀ (as : List CAct) (c : Cfg), cexec c (as ++ [.flushSec s]) = (cstep (cexec c as) (.flushSec s)).1 := by
      intro as; induction as with
      | nil => intro c; rfl
      | cons a as ih => intro c; exact ih _
    rw [this]
    unfold cstep; simp only
    split
    · assumption
    · rfl
  have := config_ready_backend_has_nothing_queued (acts ++ [.flushSec s]) s hr
  unfold stranded
  rw [List.any_eq_false]
  intro m hm
  have := this m hm
  simpa using this

/-! ### PRE-JOIN queue -/

theorem play_exactly_once (ops : List POp) (i : Nat) :
    (pexec {} ops).all.count i = if i < (pexec {} ops).next then 1 else 0 :=
  (pinv_exec ops pinv_init).once i

theorem play_queue_fifo (ops : List POp) : (pexec {} ops).q.queue.Pairwise (fun a b => a.idx < b.idx) :=
  (pinv_exec ops pinv_init).qSorted

theorem play_bounded (ops : List POp) :
    (pexec {} ops).q.queue.length ≤ maxMsgs ∧ (pexec {} ops).q.bytes = sumLen (pexec {} ops).q.queue ∧
    sumLen (pexec {} ops).q.queue ≤ maxBytes := by
  have h := (pinv_exec ops pinv_init).q
  exact ⟨h.count, h.bytesEq, h.bytesEq ▸ h.bytesLe⟩

theorem play_overflow_disconnects (ops : List POp) (h : (pexec {} ops).q.overflowed = true) :
    (pexec {} ops).disconnected = true ∧ (pexec {} ops).q.queue = [] :=
  ⟨(pinv_exec ops pinv_init).ovf h, (pinv_exec ops pinv_init).q.latch h⟩

/-- Per-backend send order for the pre-join queue — PARTIAL: proved for histories in which no direct
    write happens while the queue is non-empty (`pDisciplined`).  Missing: the legacy-Forge phase
    machine (pkg/edition/java/proxy/phase), which decides when the phases become "complete" and calls
    FlushQueuedPluginMessages at that point, is not modelled; without that discipline the order can
    fail (`play_order_needs_discipline`). -/
theorem play_in_send_order_partial (ops : List POp) (hd : pDisciplined {} ops = true) :
    (pexec {} ops).deliv.Pairwise (fun x y => x.1 = y.1 → y.2.idx < x.2.idx) :=
  (pord_exec ops pinv_init pord_init hd).dOrder

/-- model-level witness that the hypothesis is needed: phases flip to complete without the flush,
    a later message is written directly, the queued one follows at the next flush -/
theorem play_order_needs_discipline :
    (pexec {} [.setCur (some 0), .setClientComplete false, .msg 1, .setClientComplete true, .msg 1, .flushQueued]).deliv
      = [(0, ⟨0, 1, some 0⟩), (0, ⟨1, 1, some 0⟩)] := by decide

/-- Full-strength claim "a plugin message sent in PLAY while the backend is not ready yet (no connected
    server but a backend in flight) is delivered once that backend is joined" FAILS: the handler returns
    early and the message is discarded, not queued (known finding; same in Velocity). -/
theorem play_message_before_join_is_discarded_fails :
    let p := pexec {} [.setInfl (some 0), .msg 1, .join 0, .setCur (some 0)]
    p.deliv = [] ∧ p.q.queue = [] ∧ p.dropped = [⟨0, 1, none⟩] := by decide

/-! ### tie to the source (regenerated by tools/gofacts on every run) -/

def before (a b : String) (cs : List String) : Bool := cs.idxOf a < cs.idxOf b && cs.idxOf b < cs.length
/-- some call in `cs` is a call of a method/function named `name` (the entry ends with it) -/
def mentions (name : String) (cs : List String) : Bool := cs.any fun c => name.toList.isSuffixOf c.toList

theorem src_caps : maxMsgs = 1024 ∧ maxBytes = 4 * 1024 * 1024 := by decide

open Gate.Gen.C24 in
/-- config enqueue: one lock acquisition, push under it, overflow clears before disconnecting;
    config flush: ensureConnected, then ONE `h.mu` section (Unlock only deferred) containing the pops,
    the BufferPacket writes and the Flush — the atomic `flushSec` of the model -/
theorem src_config_sections :
    cfgEnqueueCalls.head? = some "h.mu.Lock" ∧ cfgEnqueueCalls.count "h.mu.Lock" = 1 ∧
    "h.mu.pluginMessages.PushBack" ∈ cfgEnqueueCalls ∧
    before "h.mu.pluginMessages.Clear" "h.player.Disconnect" cfgEnqueueCalls ∧
    before "serverConn.ensureConnected" "h.mu.Lock" cfgFlushCalls ∧
    before "h.mu.Lock" "defer:h.mu.Unlock" cfgFlushCalls ∧
    before "defer:h.mu.Unlock" "h.mu.pluginMessages.PopFront" cfgFlushCalls ∧
    before "h.mu.pluginMessages.PopFront" "smc.BufferPacket" cfgFlushCalls ∧
    before "smc.BufferPacket" "smc.Flush" cfgFlushCalls ∧ !cfgFlushCalls.contains "h.mu.Unlock" ∧
    before "h.enqueuePluginMessage" "smc.WritePacket" cfgHandleCalls := by decide

open Gate.Gen.C24 in
/-- the only flush call is in handleServerLoginSuccess, before the play-handler branch (`doSwitch`);
    nothing on the switch path (doSwitch, the client's FinishedUpdate in PLAY, the backend's
    FinishedUpdate, handleBackendFinishUpdate) flushes the config queue -/
theorem src_single_flush_site :
    loginSuccessCalls.count "csh.flushQueuedPluginMessagesTo" = 1 ∧
    before "csh.flushQueuedPluginMessagesTo" "csh.doSwitch" loginSuccessCalls ∧
    !mentions "flushQueuedPluginMessagesTo" doSwitchCalls ∧
    !mentions "flushQueuedPluginMessagesTo" playFinishedUpdateCalls ∧
    !mentions "flushQueuedPluginMessagesTo" cfgBackendFinishCalls ∧
    !mentions "flushQueuedPluginMessagesTo" backendCfgFinishedUpdateCalls := by decide

open Gate.Gen.C24 in
/-- pre-join queue: enqueue under `c.mu`, overflow clears before disconnecting; drain is one section;
    FlushQueuedPluginMessages and handleBackendJoinGame drain, buffer, then flush; Deactivated clears -/
theorem src_play_sections :
    playEnqueueCalls.head? = some "c.mu.Lock" ∧ "c.mu.loginPluginMessages.PushBack" ∈ playEnqueueCalls ∧
    before "c.mu.loginPluginMessages.Clear" "c.player.Disconnect" playEnqueueCalls ∧
    playDrainCalls.head? = some "c.mu.Lock" ∧ playDrainCalls[1]? = some "defer:c.mu.Unlock" ∧
    "c.mu.loginPluginMessages.PopFront" ∈ playDrainCalls ∧
    before "c.drainQueuedLoginPluginMessages" "serverMc.BufferPacket" playFlushQueuedCalls ∧
    before "serverMc.BufferPacket" "serverMc.Flush" playFlushQueuedCalls ∧
    before "c.drainQueuedLoginPluginMessages" "serverMc.Flush" playJoinGameCalls ∧
    before "serverMc.Flush" "destination.completeJoin" playJoinGameCalls ∧
    "c.mu.loginPluginMessages.Clear" ∈ playDeactivatedCalls := by decide

/-! ### non-vacuity -/

/-- queued before ready, flushed in order, the later message goes directly after them -/
example : (crun {} ([.setInfl (some 0)] ++ cmsgActs 5 ++ cmsgActs 6 ++ [.flushSec 0] ++ cmsgActs 7)).2 =
    [.msg 0 .buffer 0, .msg 0 .buffer 1, .flush 0, .msg 0 .write 2] := by decide
/-- the flush section running between the client's enqueue decision and its direct write keeps order -/
example : (cexec {} [.setInfl (some 0), .flushSec 0, .recv 1, .enq, .flushSec 1, .direct]).deliv.map (·.2.idx) = [0] := by
  decide
example : pDisciplined {} [.setCur (some 0), .setClientComplete false, .msg 1, .setClientComplete true, .flushQueued, .msg 1] = true := by
  decide
example : stranded (cexec {} switchHistory) 1 = true := by decide

end Gate.C24.Props
