import GateModel.C24.Model
/-
C24 helper lemmas: the bounded queue, and the invariant of the CONFIG-phase world under every
interleaving of its atomic actions, and of the PRE-JOIN world under every op sequence.
-/
namespace Gate.C24

/-! ## bounded queue -/

def sumLen (l : List Msg) : Nat := (l.map (·.len)).sum

theorem sumLen_append (a b : List Msg) : sumLen (a ++ b) = sumLen a + sumLen b := by
  simp [sumLen, List.sum_append]

structure QInv (q : Q) : Prop where
  count : q.queue.length ≤ maxMsgs
  bytesEq : q.bytes = sumLen q.queue
  bytesLe : q.bytes ≤ maxBytes
  latch : q.overflowed = true → q.queue = []

theorem qinv_init : QInv {} := ⟨Nat.zero_le _, rfl, Nat.zero_le _, fun _ => rfl⟩

/-- what `enqueue` does, by outcome -/
theorem enqueue_cases (q : Q) (m : Msg) :
    (q.overflowed = true ∧ q.enqueue m = (q, .latched)) ∨
    (q.overflowed = false ∧ (q.bytes + m.len > maxBytes ∨ q.queue.length + 1 > maxMsgs) ∧
      q.enqueue m = ({ queue := [], bytes := 0, overflowed := true }, .overflow)) ∨
    (q.overflowed = false ∧ q.bytes + m.len ≤ maxBytes ∧ q.queue.length + 1 ≤ maxMsgs ∧
      q.enqueue m = ({ q with queue := q.queue ++ [m], bytes := q.bytes + m.len }, .queued)) := by
  unfold Q.enqueue
  by_cases ho : q.overflowed = true
  · rw [if_pos ho]; exact .inl ⟨ho, rfl⟩
  · rw [if_neg ho]
    have ho' : q.overflowed = false := by simpa using ho
    by_cases hc : q.bytes + m.len > maxBytes ∨ q.queue.length + 1 > maxMsgs
    · simp only; rw [if_pos hc]; exact .inr (.inl ⟨ho', hc, rfl⟩)
    · simp only; rw [if_neg hc]
      have : q.bytes + m.len ≤ maxBytes ∧ q.queue.length + 1 ≤ maxMsgs := by omega
      exact .inr (.inr ⟨ho', this.1, this.2, rfl⟩)

theorem qinv_enqueue {q : Q} (m : Msg) (h : QInv q) : QInv (q.enqueue m).1 := by
  rcases enqueue_cases q m with ⟨_, he⟩ | ⟨_, _, he⟩ | ⟨ho, hb, hc, he⟩
  · rw [he]; exact h
  · rw [he]; exact ⟨Nat.zero_le _, rfl, Nat.zero_le _, fun _ => rfl⟩
  · rw [he]
    refine ⟨by simpa using hc, ?_, hb, ?_⟩
    · show q.bytes + m.len = sumLen (q.queue ++ [m])
      rw [sumLen_append, ← h.bytesEq]; simp [sumLen]
    · intro hh; rw [ho] at hh; cases hh

theorem qinv_drain (q : Q) : QInv q.drain.1 :=
  ⟨Nat.zero_le _, rfl, Nat.zero_le _, fun _ => rfl⟩

/-! ## CONFIG world: bookkeeping -/

def CPc.msgs : CPc → List Msg
  | .idle => []
  | .got m => [m]
  | .direct m _ => [m]

/-- every place a handled message can be -/
def Cfg.all (c : Cfg) : List Nat :=
  (c.deliv.map (·.2.idx)) ++ (c.q.queue.map (·.idx)) ++ (c.dropped.map (·.idx)) ++ (c.lost.map (·.idx)) ++
    (c.pc.msgs.map (·.idx))

/-- the send index from which on nothing has been queued or delivered yet -/
def Cfg.hi (c : Cfg) : Nat := match c.pc with
  | .idle => c.next
  | .got m => m.idx
  | .direct m _ => m.idx

structure CInv (c : Cfg) : Prop where
  q : QInv c.q
  once : ∀ i, c.all.count i = if i < c.next then 1 else 0
  pcIdx : ∀ m ∈ c.pc.msgs, m.idx + 1 = c.next
  qSorted : c.q.queue.Pairwise (fun a b => a.idx < b.idx)
  qHi : ∀ m ∈ c.q.queue, m.idx < c.hi
  dHi : ∀ d ∈ c.deliv, d.2.idx < c.hi
  dOrder : c.deliv.Pairwise (fun x y => x.1 = y.1 → y.2.idx < x.2.idx)
  qNewer : ∀ m ∈ c.q.queue, ∀ d ∈ c.deliv, some d.1 ≠ c.ready → d.2.idx < m.idx
  pend : ∀ m t, c.pc = .direct m t → c.ready = some t ∨ c.q.queue = []
  notForReady : ∀ m ∈ c.q.queue, m.tgt = none ∨ m.tgt ≠ c.ready
  ovf : c.q.overflowed = true → c.disconnected = true
  lostD : c.lost ≠ [] → c.disconnected = true

theorem cinv_init : CInv {} where
  q := qinv_init
  once i := by simp [Cfg.all, CPc.msgs]
  pcIdx m hm := by cases hm
  qSorted := List.Pairwise.nil
  qHi m hm := by cases hm
  dHi d hd := by cases hd
  dOrder := List.Pairwise.nil
  qNewer m hm := by cases hm
  pend m t h := by cases h
  notForReady m hm := by cases hm
  ovf h := by cases h
  lostD h := absurd rfl h

theorem cinv_recv {c : Cfg} (len : Nat) (h : CInv c) : CInv (cstep c (.recv len)).1 := by
  unfold cstep
  cases hpc : c.pc with
  | got m => simpa [hpc] using h
  | direct m t => simpa [hpc] using h
  | idle =>
    simp only
    have hhi : c.hi = c.next := by simp [Cfg.hi, hpc]
    refine ⟨h.q, ?_, ?_, h.qSorted, ?_, ?_, h.dOrder, h.qNewer, ?_, h.notForReady, h.ovf, h.lostD⟩
    · intro i
      have := h.once i
      simp only [Cfg.all, hpc, CPc.msgs, List.map_nil, List.append_nil, List.map_cons, List.count_append,
        List.count_cons, List.count_nil] at this ⊢
      by_cases hi : i = c.next
      · subst hi
        rw [if_neg (Nat.lt_irrefl _)] at this; rw [if_pos (Nat.lt_succ_self _)]
        simp only [BEq.rfl, if_true]; omega
      · have hb : ¬ ((c.next == i) = true) := by simpa using fun e => hi e.symm
        rw [if_neg hb]
        by_cases hlt : i < c.next
        · rw [if_pos hlt] at this; rw [if_pos (by omega)]; omega
        · rw [if_neg hlt] at this; rw [if_neg (by omega)]; omega
    · intro m hm; simp [CPc.msgs] at hm; subst hm; rfl
    · intro m hm; have := h.qHi m hm; rw [hhi] at this; exact this
    · intro d hd; have := h.dHi d hd; rw [hhi] at this; exact this
    · intro m t he; cases he

/-- the bookkeeping part of an invariant step: a state whose `all` has the same counts -/
theorem count_move {c c' : Cfg} (h : CInv c) (hn : c'.next = c.next)
    (hall : ∀ i, c'.all.count i = c.all.count i) : ∀ i, c'.all.count i = if i < c'.next then 1 else 0 := by
  intro i; rw [hall, hn]; exact h.once i

theorem cinv_enq {c : Cfg} (h : CInv c) : CInv (cstep c .enq).1 := by
  unfold cstep
  cases hpc : c.pc with
  | idle => simpa [hpc] using h
  | direct m t => simpa [hpc] using h
  | got m =>
    simp only
    have hm1 : m.idx + 1 = c.next := h.pcIdx m (by simp [hpc, CPc.msgs])
    have hhi : c.hi = m.idx := by simp [Cfg.hi, hpc]
    by_cases hr : m.tgt.isSome ∧ c.ready = m.tgt
    · rw [if_pos hr]
      cases ht : m.tgt with
      | none => rw [ht] at hr; simp at hr
      | some t =>
        simp only
        refine ⟨h.q, ?_, ?_, h.qSorted, ?_, ?_, h.dOrder, h.qNewer, ?_, h.notForReady, h.ovf, h.lostD⟩
        · refine count_move h (by rfl) ?_
          intro i; simp [Cfg.all, hpc, CPc.msgs]
        · intro m' hm'; simp [CPc.msgs] at hm'; subst hm'; exact hm1
        · intro q hq; have := h.qHi q hq; rw [hhi] at this; simpa [Cfg.hi] using this
        · intro d hd; have := h.dHi d hd; rw [hhi] at this; simpa [Cfg.hi] using this
        · intro m' t' he; injection he with e1 e2; subst e2; left; rw [hr.2, ht]
    · rw [if_neg hr]
      have hq_lt : ∀ q ∈ c.q.queue, q.idx < m.idx := fun q hq => hhi ▸ h.qHi q hq
      have hd_lt : ∀ d ∈ c.deliv, d.2.idx < m.idx := fun d hd => hhi ▸ h.dHi d hd
      rcases enqueue_cases c.q m with ⟨ho, he⟩ | ⟨ho, _, he⟩ | ⟨ho, _, _, he⟩
      · -- latched
        rw [he]; simp only
        refine ⟨h.q, ?_, ?_, h.qSorted, ?_, ?_, h.dOrder, h.qNewer, ?_, h.notForReady, h.ovf, h.lostD⟩
        · refine count_move h (by rfl) ?_
          intro i
          simp only [Cfg.all, hpc, CPc.msgs, List.map_nil, List.append_nil, List.map_cons, List.count_append,
            List.count_cons, List.count_nil]; omega
        · intro m' hm'; cases hm'
        · intro q hq; have := hq_lt q hq; show q.idx < c.next; omega
        · intro d hd; have := hd_lt d hd; show d.2.idx < c.next; omega
        · intro m' t' he'; cases he'
      · -- overflow
        rw [he]; simp only
        refine ⟨⟨Nat.zero_le _, rfl, Nat.zero_le _, fun _ => rfl⟩, ?_, ?_, List.Pairwise.nil, ?_, ?_, h.dOrder,
          ?_, ?_, ?_, fun _ => rfl, fun _ => rfl⟩
        · refine count_move h (by rfl) ?_
          intro i
          simp only [Cfg.all, hpc, CPc.msgs, List.map_nil, List.append_nil, List.map_cons, List.map_append,
            List.map_reverse, List.count_append, List.count_cons, List.count_nil, List.count_reverse]; omega
        · intro m' hm'; cases hm'
        · intro q hq; cases hq
        · intro d hd; have := hd_lt d hd; show d.2.idx < c.next; omega
        · intro q hq; cases hq
        · intro m' t' he'; cases he'
        · intro q hq; cases hq
      · -- queued
        rw [he]; simp only
        refine ⟨by have := qinv_enqueue m h.q; rw [he] at this; exact this, ?_, ?_, ?_, ?_, ?_, h.dOrder, ?_, ?_, ?_, ?_, h.lostD⟩
        · refine count_move h (by rfl) ?_
          intro i
          simp only [Cfg.all, hpc, CPc.msgs, List.map_nil, List.append_nil, List.map_cons, List.map_append,
            List.count_append, List.count_cons, List.count_nil]; omega
        · intro m' hm'; cases hm'
        · show (c.q.queue ++ [m]).Pairwise _
          rw [List.pairwise_append]
          refine ⟨h.qSorted, List.pairwise_singleton _ _, ?_⟩
          intro a ha b hb; rw [List.mem_singleton.mp hb]; exact hq_lt a ha
        · intro q hq
          show q.idx < c.next
          rcases List.mem_append.mp hq with hq | hq
          · have := hq_lt q hq; omega
          · rw [List.mem_singleton.mp hq]; omega
        · intro d hd; have := hd_lt d hd; show d.2.idx < c.next; omega
        · intro q hq d hd hne
          rcases List.mem_append.mp hq with hq | hq
          · exact h.qNewer q hq d hd hne
          · rw [List.mem_singleton.mp hq]; exact hd_lt d hd
        · intro m' t' he'; cases he'
        · intro q hq
          rcases List.mem_append.mp hq with hq | hq
          · exact h.notForReady q hq
          · rw [List.mem_singleton.mp hq]
            cases ht : m.tgt with
            | none => exact .inl rfl
            | some t =>
              right; intro e; apply hr; rw [ht]; exact ⟨rfl, by rw [← e]⟩
        · intro hh; have : c.q.overflowed = true := hh; rw [ho] at this; cases this

theorem cinv_direct {c : Cfg} (h : CInv c) : CInv (cstep c .direct).1 := by
  unfold cstep
  cases hpc : c.pc with
  | idle => simpa [hpc] using h
  | got m => simpa [hpc] using h
  | direct m t =>
    simp only
    have hm1 : m.idx + 1 = c.next := h.pcIdx m (by simp [hpc, CPc.msgs])
    have hhi : c.hi = m.idx := by simp [Cfg.hi, hpc]
    have hq_lt : ∀ q ∈ c.q.queue, q.idx < m.idx := fun q hq => hhi ▸ h.qHi q hq
    have hd_lt : ∀ d ∈ c.deliv, d.2.idx < m.idx := fun d hd => hhi ▸ h.dHi d hd
    by_cases hc : c.hasConn t = true
    · rw [if_pos hc]; simp only
      refine ⟨h.q, ?_, ?_, h.qSorted, ?_, ?_, ?_, ?_, ?_, h.notForReady, h.ovf, h.lostD⟩
      · refine count_move h (by rfl) ?_
        intro i
        simp only [Cfg.all, hpc, CPc.msgs, List.map_nil, List.append_nil, List.map_cons,
          List.count_append, List.count_cons, List.count_nil]; omega
      · intro m' hm'; cases hm'
      · intro q hq; have := hq_lt q hq; show q.idx < c.next; omega
      · intro d hd
        show d.2.idx < c.next
        rcases List.mem_cons.mp hd with hd | hd
        · rw [hd]; show m.idx < c.next; omega
        · have := hd_lt d hd; omega
      · show ((t, m) :: c.deliv).Pairwise _
        rw [List.pairwise_cons]
        exact ⟨fun y hy _ => hd_lt y hy, h.dOrder⟩
      · intro q hq d hd hne
        rcases List.mem_cons.mp hd with hd | hd
        · rcases h.pend m t hpc with hr | he
          · rw [hd] at hne; exact absurd hr.symm hne
          · rw [he] at hq; cases hq
        · exact h.qNewer q hq d hd hne
      · intro m' t' he'; cases he'
    · rw [if_neg hc]; simp only
      refine ⟨h.q, ?_, ?_, h.qSorted, ?_, ?_, h.dOrder, h.qNewer, ?_, h.notForReady, h.ovf, h.lostD⟩
      · refine count_move h (by rfl) ?_
        intro i
        simp only [Cfg.all, hpc, CPc.msgs, List.map_nil, List.append_nil, List.map_cons,
          List.count_append, List.count_cons, List.count_nil]; omega
      · intro m' hm'; cases hm'
      · intro q hq; have := hq_lt q hq; show q.idx < c.next; omega
      · intro d hd; have := hd_lt d hd; show d.2.idx < c.next; omega
      · intro m' t' he'; cases he'

theorem cinv_flushSec {c : Cfg} (s : Nat) (h : CInv c) : CInv (cstep c (.flushSec s)).1 := by
  unfold cstep
  simp only
  by_cases hr : c.ready = some s
  · rw [if_pos hr]; exact h
  · rw [if_neg hr]
    simp only [Q.drain]
    refine ⟨⟨Nat.zero_le _, rfl, Nat.zero_le _, fun _ => rfl⟩, ?_, h.pcIdx, List.Pairwise.nil, ?_, ?_, ?_, ?_, ?_, ?_,
      h.ovf, h.lostD⟩
    · refine count_move h (by rfl) ?_
      intro i
      simp only [Cfg.all, List.map_nil, List.map_append, List.map_reverse, List.map_map, List.count_append,
        List.count_nil, List.count_reverse]
      have : (List.map ((fun x : Nat × Msg => x.2.idx) ∘ fun m => (s, m)) c.q.queue) = c.q.queue.map (·.idx) := by
        apply List.map_congr_left; intro a _; rfl
      rw [this]; omega
    · intro q hq; cases hq
    · intro d hd
      show d.2.idx < c.hi
      rcases List.mem_append.mp hd with hd | hd
      · rw [List.mem_reverse, List.mem_map] at hd
        obtain ⟨m, hm, rfl⟩ := hd
        exact h.qHi m hm
      · exact h.dHi d hd
    · show ((c.q.queue.map fun m => (s, m)).reverse ++ c.deliv).Pairwise _
      rw [List.pairwise_append]
      refine ⟨?_, h.dOrder, ?_⟩
      · rw [List.pairwise_reverse, List.pairwise_map]
        exact List.Pairwise.imp (R := fun a b : Msg => a.idx < b.idx)
          (S := fun a b : Msg => (s, b).fst = (s, a).fst → (s, a).snd.idx < (s, b).snd.idx)
          (fun hab _ => hab) h.qSorted
      · intro x hx y hy hxy
        rw [List.mem_reverse, List.mem_map] at hx
        obtain ⟨m, hm, rfl⟩ := hx
        refine h.qNewer m hm y hy ?_
        intro e; apply hr; rw [← e]; simp only at hxy; rw [hxy]
    · intro q hq; cases hq
    · intro m t _; exact .inr rfl
    · intro q hq; cases hq

theorem cinv_env {c c' : Cfg} (h : CInv c) (hq : c'.q = c.q) (hr : c'.ready = c.ready) (hpc : c'.pc = c.pc)
    (hn : c'.next = c.next) (hd : c'.deliv = c.deliv) (hdr : c'.dropped = c.dropped) (hl : c'.lost = c.lost)
    (hdis : c'.disconnected = c.disconnected) : CInv c' := by
  have hall : c'.all = c.all := by simp [Cfg.all, hq, hpc, hd, hdr, hl]
  have hhi : c'.hi = c.hi := by simp [Cfg.hi, hpc, hn]
  exact ⟨hq ▸ h.q, by rw [hall, hn]; exact h.once, by rw [hpc, hn]; exact h.pcIdx, hq ▸ h.qSorted,
    by rw [hq, hhi]; exact h.qHi, by rw [hd, hhi]; exact h.dHi, hd ▸ h.dOrder,
    by rw [hq, hd, hr]; exact h.qNewer, by rw [hpc, hr, hq]; exact h.pend, by rw [hq, hr]; exact h.notForReady,
    by rw [hq, hdis]; exact h.ovf, by rw [hl, hdis]; exact h.lostD⟩

theorem cinv_step {c : Cfg} (a : CAct) (h : CInv c) : CInv (cstep c a).1 := by
  cases a with
  | recv len => exact cinv_recv len h
  | enq => exact cinv_enq h
  | direct => exact cinv_direct h
  | flushSec s => exact cinv_flushSec s h
  | setCur o => exact cinv_env h rfl rfl rfl rfl rfl rfl rfl rfl
  | setInfl o => exact cinv_env h rfl rfl rfl rfl rfl rfl rfl rfl
  | setConn b v => exact cinv_env h rfl rfl rfl rfl rfl rfl rfl rfl

theorem cinv_exec : ∀ (as : List CAct) {c : Cfg}, CInv c → CInv (cexec c as)
  | [], _, h => h
  | a :: as, _, h => cinv_exec as (cinv_step a h)

/-! ## PRE-JOIN world -/

def Play.all (p : Play) : List Nat :=
  (p.deliv.map (·.2.idx)) ++ (p.q.queue.map (·.idx)) ++ (p.dropped.map (·.idx)) ++ (p.lost.map (·.idx))

structure PInv (p : Play) : Prop where
  q : QInv p.q
  once : ∀ i, p.all.count i = if i < p.next then 1 else 0
  qSorted : p.q.queue.Pairwise (fun a b => a.idx < b.idx)
  qHi : ∀ m ∈ p.q.queue, m.idx < p.next
  dHi : ∀ d ∈ p.deliv, d.2.idx < p.next
  ovf : p.q.overflowed = true → p.disconnected = true

/-- ordering part, maintained as long as no direct write happens while the queue is non-empty -/
structure POrd (p : Play) : Prop where
  dOrder : p.deliv.Pairwise (fun x y => x.1 = y.1 → y.2.idx < x.2.idx)
  qNewer : ∀ m ∈ p.q.queue, ∀ d ∈ p.deliv, d.2.idx < m.idx

theorem pinv_init : PInv {} where
  q := qinv_init
  once i := by simp [Play.all]
  qSorted := List.Pairwise.nil
  qHi m hm := by cases hm
  dHi d hd := by cases hd
  ovf h := by cases h

theorem pord_init : POrd {} := ⟨List.Pairwise.nil, fun m hm => by cases hm⟩

theorem pinv_drainTo {p : Play} (b : Nat) (h : PInv p) : PInv (p.drainTo b).1 := by
  unfold Play.drainTo
  simp only [Q.drain]
  refine ⟨⟨Nat.zero_le _, rfl, Nat.zero_le _, fun _ => rfl⟩, ?_, List.Pairwise.nil, ?_, ?_, h.ovf⟩
  · intro i
    have := h.once i
    simp only [Play.all, List.map_nil, List.map_append, List.map_reverse, List.map_map, List.count_append,
      List.count_nil, List.count_reverse] at this ⊢
    have e : (List.map ((fun x : Nat × Msg => x.2.idx) ∘ fun m => (b, m)) p.q.queue) = p.q.queue.map (·.idx) := by
      apply List.map_congr_left; intro a _; rfl
    rw [e]; omega
  · intro m hm; cases hm
  · intro d hd
    rcases List.mem_append.mp hd with hd | hd
    · rw [List.mem_reverse, List.mem_map] at hd
      obtain ⟨m, hm, rfl⟩ := hd
      exact h.qHi m hm
    · exact h.dHi d hd

theorem pord_drainTo {p : Play} (b : Nat) (h : PInv p) (ho : POrd p) : POrd (p.drainTo b).1 := by
  unfold Play.drainTo
  simp only [Q.drain]
  refine ⟨?_, fun m hm => by cases hm⟩
  show ((p.q.queue.map fun m => (b, m)).reverse ++ p.deliv).Pairwise _
  rw [List.pairwise_append]
  refine ⟨?_, ho.dOrder, ?_⟩
  · rw [List.pairwise_reverse, List.pairwise_map]
    exact List.Pairwise.imp (R := fun a b : Msg => a.idx < b.idx)
      (S := fun a c : Msg => (b, c).fst = (b, a).fst → (b, a).snd.idx < (b, c).snd.idx)
      (fun hab _ => hab) h.qSorted
  · intro x hx y hy _
    rw [List.mem_reverse, List.mem_map] at hx
    obtain ⟨m, hm, rfl⟩ := hx
    exact ho.qNewer m hm y hy

/-- a message that is not handed to a backend and not queued -/
theorem pinv_drop {p p' : Play} (m : Msg) (h : PInv p) (hm : m.idx = p.next) (hq : p'.q = p.q)
    (hn : p'.next = p.next + 1) (hd : p'.deliv = p.deliv) (hdr : p'.dropped = m :: p.dropped)
    (hl : p'.lost = p.lost) (hdis : p'.disconnected = p.disconnected) : PInv p' := by
  refine ⟨hq ▸ h.q, ?_, hq ▸ h.qSorted, ?_, ?_, by rw [hq, hdis]; exact h.ovf⟩
  · intro i
    have := h.once i
    simp only [Play.all, hq, hn, hd, hdr, hl, List.map_cons, List.count_append, List.count_cons] at this ⊢
    by_cases hi : i = p.next
    · subst hi
      rw [if_neg (Nat.lt_irrefl _)] at this; rw [if_pos (Nat.lt_succ_self _)]
      simp only [hm, BEq.rfl, if_true]; omega
    · have hb : ¬ ((m.idx == i) = true) := by rw [hm]; simpa using fun e => hi e.symm
      rw [if_neg hb]
      by_cases hlt : i < p.next
      · rw [if_pos hlt] at this; rw [if_pos (by omega)]; omega
      · rw [if_neg hlt] at this; rw [if_neg (by omega)]; omega
  · intro q hq'; rw [hq] at hq'; rw [hn]; exact Nat.lt_succ_of_lt (h.qHi q hq')
  · intro d hd'; rw [hd] at hd'; rw [hn]; exact Nat.lt_succ_of_lt (h.dHi d hd')

theorem pinv_firstJoin {p : Play} (h : PInv p) : PInv p.firstJoin := by
  unfold Play.firstJoin; split
  · exact h
  · exact ⟨h.q, h.once, h.qSorted, h.qHi, h.dHi, h.ovf⟩
theorem pinv_completeJoin {p : Play} (d : Nat) (h : PInv p) : PInv (p.completeJoin d) := by
  unfold Play.completeJoin; split
  · exact h
  · exact ⟨h.q, h.once, h.qSorted, h.qHi, h.dHi, h.ovf⟩
theorem pord_firstJoin {p : Play} (h : POrd p) : POrd p.firstJoin := by
  unfold Play.firstJoin; split
  · exact h
  · exact ⟨h.dOrder, h.qNewer⟩
theorem pord_completeJoin {p : Play} (d : Nat) (h : POrd p) : POrd (p.completeJoin d) := by
  unfold Play.completeJoin; split
  · exact h
  · exact ⟨h.dOrder, h.qNewer⟩

theorem pinv_pstep {p : Play} (op : POp) (h : PInv p) : PInv (pstep p op).1 := by
  cases op with
  | msg len =>
    unfold pstep
    simp only
    cases hc : p.cur with
    | none => exact pinv_drop ⟨p.next, len, _⟩ h rfl rfl rfl rfl rfl rfl rfl
    | some s =>
      simp only
      split
      · exact pinv_drop ⟨p.next, len, _⟩ h rfl rfl rfl rfl rfl rfl rfl
      split
      · exact pinv_drop ⟨p.next, len, _⟩ h rfl rfl rfl rfl rfl rfl rfl
      split
      · exact pinv_drop ⟨p.next, len, _⟩ h rfl rfl rfl rfl rfl rfl rfl
      split
      · -- direct
        refine ⟨h.q, ?_, h.qSorted, fun q hq => Nat.lt_succ_of_lt (h.qHi q hq), ?_, h.ovf⟩
        · intro i
          have := h.once i
          simp only [Play.all, List.map_cons, List.count_append, List.count_cons] at this ⊢
          by_cases hi : i = p.next
          · subst hi
            rw [if_neg (Nat.lt_irrefl _)] at this; rw [if_pos (Nat.lt_succ_self _)]
            simp only [BEq.rfl, if_true]; omega
          · have hb : ¬ ((p.next == i) = true) := by simpa using fun e => hi e.symm
            rw [if_neg hb]
            by_cases hlt : i < p.next
            · rw [if_pos hlt] at this; rw [if_pos (by omega)]; omega
            · rw [if_neg hlt] at this; rw [if_neg (by omega)]; omega
        · intro d hd
          rcases List.mem_cons.mp hd with hd | hd
          · rw [hd]; exact Nat.lt_succ_self _
          · exact Nat.lt_succ_of_lt (h.dHi d hd)
      · -- enqueue
        rcases enqueue_cases p.q ⟨p.next, len, some s⟩ with ⟨ho, he⟩ | ⟨ho, _, he⟩ | ⟨ho, _, _, he⟩
        · rw [he]; exact pinv_drop ⟨p.next, len, _⟩ h rfl rfl rfl rfl rfl rfl rfl
        · rw [he]; simp only
          refine ⟨⟨Nat.zero_le _, rfl, Nat.zero_le _, fun _ => rfl⟩, ?_, List.Pairwise.nil, (fun q hq => by cases hq),
            (fun d hd => Nat.lt_succ_of_lt (h.dHi d hd)), (fun _ => rfl)⟩
          intro i
          have := h.once i
          simp only [Play.all, List.map_nil, List.map_cons, List.map_append, List.map_reverse, List.count_append,
            List.count_cons, List.count_nil, List.count_reverse] at this ⊢
          by_cases hi : i = p.next
          · subst hi
            rw [if_neg (Nat.lt_irrefl _)] at this; rw [if_pos (Nat.lt_succ_self _)]
            simp only [BEq.rfl, if_true]; omega
          · have hb : ¬ ((p.next == i) = true) := by simpa using fun e => hi e.symm
            rw [if_neg hb]
            by_cases hlt : i < p.next
            · rw [if_pos hlt] at this; rw [if_pos (by omega)]; omega
            · rw [if_neg hlt] at this; rw [if_neg (by omega)]; omega
        · rw [he]; simp only
          refine ⟨by have := qinv_enqueue ⟨p.next, len, some s⟩ h.q; rw [he] at this; exact this, ?_, ?_, ?_,
            fun d hd => Nat.lt_succ_of_lt (h.dHi d hd), ?_⟩
          · intro i
            have := h.once i
            simp only [Play.all, List.map_nil, List.map_cons, List.map_append, List.count_append,
              List.count_cons, List.count_nil] at this ⊢
            by_cases hi : i = p.next
            · subst hi
              rw [if_neg (Nat.lt_irrefl _)] at this; rw [if_pos (Nat.lt_succ_self _)]
              simp only [BEq.rfl, if_true]; omega
            · have hb : ¬ ((p.next == i) = true) := by simpa using fun e => hi e.symm
              rw [if_neg hb]
              by_cases hlt : i < p.next
              · rw [if_pos hlt] at this; rw [if_pos (by omega)]; omega
              · rw [if_neg hlt] at this; rw [if_neg (by omega)]; omega
          · show (p.q.queue ++ [_]).Pairwise _
            rw [List.pairwise_append]
            refine ⟨h.qSorted, List.pairwise_singleton _ _, ?_⟩
            intro a ha b hb; rw [List.mem_singleton.mp hb]; exact h.qHi a ha
          · intro q hq
            rcases List.mem_append.mp hq with hq | hq
            · exact Nat.lt_succ_of_lt (h.qHi q hq)
            · rw [List.mem_singleton.mp hq]; exact Nat.lt_succ_self _
          · intro hh; have : p.q.overflowed = true := hh; rw [ho] at this; cases this
  | flushQueued =>
    unfold pstep; simp only
    cases p.cur with
    | none => exact h
    | some s =>
      simp only
      split
      · exact pinv_drainTo s h
      · exact h
  | join d =>
    unfold pstep; simp only
    split
    · exact pinv_completeJoin d (pinv_drainTo d (pinv_firstJoin h))
    · exact h
  | deactivated =>
    unfold pstep; simp only
    refine ⟨qinv_init, ?_, List.Pairwise.nil, (fun q hq => by cases hq), h.dHi, (fun hh => by cases hh)⟩
    intro i
    have := h.once i
    simp only [Play.all, List.map_nil, List.map_append, List.map_reverse, List.count_append,
      List.count_nil, List.count_reverse] at this ⊢
    omega
  | setCur o => exact ⟨h.q, h.once, h.qSorted, h.qHi, h.dHi, h.ovf⟩
  | setInfl o => exact ⟨h.q, h.once, h.qSorted, h.qHi, h.dHi, h.ovf⟩
  | setConn b v => exact ⟨h.q, h.once, h.qSorted, h.qHi, h.dHi, h.ovf⟩
  | setInPlay b v => exact ⟨h.q, h.once, h.qSorted, h.qHi, h.dHi, h.ovf⟩
  | setBPhase b ph => exact ⟨h.q, h.once, h.qSorted, h.qHi, h.dHi, h.ovf⟩
  | setClientComplete v => exact ⟨h.q, h.once, h.qSorted, h.qHi, h.dHi, h.ovf⟩

theorem pinv_exec : ∀ (ops : List POp) {p : Play}, PInv p → PInv (pexec p ops)
  | [], _, h => h
  | a :: as, _, h => pinv_exec as (pinv_pstep a h)

theorem pord_pstep {p : Play} (op : POp) (h : PInv p) (ho : POrd p) (hok : p.opOK op = true) :
    POrd (pstep p op).1 := by
  cases op with
  | msg len =>
    unfold pstep
    simp only
    cases hc : p.cur with
    | none => exact ⟨ho.dOrder, ho.qNewer⟩
    | some s =>
      simp only
      split
      · exact ⟨ho.dOrder, ho.qNewer⟩
      split
      · exact ⟨ho.dOrder, ho.qNewer⟩
      split
      · exact ⟨ho.dOrder, ho.qNewer⟩
      split
      · -- direct: the queue is empty by `opOK`
        rename_i h1 h2 h3 h4
        have hg : p.goesDirect = true := by
          unfold Play.goesDirect; rw [hc]; simp only
          simp only [Bool.not_eq_true', Bool.not_eq_false] at h1 h2
          simp only [Bool.and_eq_true] at h4 ⊢
          refine ⟨⟨⟨⟨by simpa using h1, by simpa using h2⟩, by simpa using h3⟩, h4.1⟩, h4.2⟩
        have he : p.q.queue = [] := by
          unfold Play.opOK at hok; rw [hg] at hok; simpa using hok
        refine ⟨?_, ?_⟩
        · show ((s, _) :: p.deliv).Pairwise _
          rw [List.pairwise_cons]
          exact ⟨fun y hy _ => h.dHi y hy, ho.dOrder⟩
        · intro q hq; rw [he] at hq; cases hq
      · rcases enqueue_cases p.q ⟨p.next, len, some s⟩ with ⟨_, he⟩ | ⟨_, _, he⟩ | ⟨_, _, _, he⟩
        · rw [he]; exact ⟨ho.dOrder, ho.qNewer⟩
        · rw [he]; exact ⟨ho.dOrder, fun q hq => by cases hq⟩
        · rw [he]; simp only
          refine ⟨ho.dOrder, ?_⟩
          intro q hq d hd
          rcases List.mem_append.mp hq with hq | hq
          · exact ho.qNewer q hq d hd
          · rw [List.mem_singleton.mp hq]; exact h.dHi d hd
  | flushQueued =>
    unfold pstep; simp only
    cases p.cur with
    | none => exact ho
    | some s =>
      simp only
      split
      · exact pord_drainTo s h ho
      · exact ho
  | join d =>
    unfold pstep; simp only
    split
    · exact pord_completeJoin d (pord_drainTo d (pinv_firstJoin h) (pord_firstJoin ho))
    · exact ho
  | deactivated => unfold pstep; exact ⟨ho.dOrder, fun q hq => by cases hq⟩
  | setCur o => exact ⟨ho.dOrder, ho.qNewer⟩
  | setInfl o => exact ⟨ho.dOrder, ho.qNewer⟩
  | setConn b v => exact ⟨ho.dOrder, ho.qNewer⟩
  | setInPlay b v => exact ⟨ho.dOrder, ho.qNewer⟩
  | setBPhase b ph => exact ⟨ho.dOrder, ho.qNewer⟩
  | setClientComplete v => exact ⟨ho.dOrder, ho.qNewer⟩

theorem pord_exec : ∀ (ops : List POp) {p : Play}, PInv p → POrd p → pDisciplined p ops = true →
    POrd (pexec p ops)
  | [], _, _, ho, _ => ho
  | a :: as, p, h, ho, hd => by
    simp only [pDisciplined, Bool.and_eq_true] at hd
    exact pord_exec as (pinv_pstep a h) (pord_pstep a h ho hd.1) hd.2

end Gate.C24
