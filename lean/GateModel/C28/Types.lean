/-
C28 — shared interface between the proxy model (Model.lean) and the vanilla client (Spec.lean):
association lists (Go map / Java HashMap observed through lookups), the player-info actions, and the
*decoded* player-info packets (action set + entries / list of ids).  The byte level is C07's subject.

Core Lean only.
-/
namespace Gate.C28

/-- A profile id.  The harness numbers uuids; `0` is `uuid.Nil`. -/
abbrev UUID := Nat
def nilUUID : UUID := 0

/-! ### association lists (lookup semantics of a map) -/
namespace AL
variable {κ : Type} [DecidableEq κ] {α : Type}

def get : List (κ × α) → κ → Option α
  | [], _ => none
  | (k, v) :: m, x => if x = k then some v else get m x

/-- `m[k] = v` -/
def set : List (κ × α) → κ → α → List (κ × α)
  | [], k, v => [(k, v)]
  | (k', v') :: m, k, v => if k = k' then (k', v) :: m else (k', v') :: set m k v

/-- `delete(m, k)` -/
def erase (m : List (κ × α)) (k : κ) : List (κ × α) := m.filter (fun p => decide (p.1 ≠ k))

def keys (m : List (κ × α)) : List κ := m.map (·.1)

end AL

/-- Player-info actions in the protocol's (vanilla enum) order. -/
inductive Action where
  | add | chat | gameMode | listed | latency | display | order | hat
  deriving DecidableEq, Repr

def allActions : List Action :=
  [.add, .chat, .gameMode, .listed, .latency, .display, .order, .hat]

/-- An action list as a set in protocol order: what the wire's bit set carries, hence what any decoder
    (gate's or the client's `EnumSet`) sees. -/
def canonActs (acts : List Action) : List Action := allActions.filter acts.contains

/-- One decoded entry of a player-info update packet (`playerinfo.Entry` /
    `ClientboundPlayerInfoUpdatePacket.Entry`).  Only the fields belonging to an action of the packet's
    action set are on the wire; the others are whatever the builder left there.  Components, profile
    names and property lists are opaque tokens.  Chat sessions are absent in every modelled packet. -/
structure PEntry where
  uid      : UUID
  name     : String := ""
  props    : String := "-"
  listed   : Bool := false
  latency  : Int := 0            -- milliseconds
  gameMode : Int := 0
  display  : Option String := none
  hat      : Bool := false
  order    : Int := 0
  deriving DecidableEq, Repr

inductive Packet where
  | upsert (acts : List Action) (es : List PEntry)
  | remove (ids : List UUID)
  deriving DecidableEq, Repr

/-- What depends on the protocol version of the viewer: does it know the list-order field (1.21.2+)
    and the show-hat field (1.21.4+). -/
structure Caps where
  ord : Bool
  hat : Bool
  deriving DecidableEq, Repr

end Gate.C28
