import GateModel.C28.Lemmas
/-
C28: every step of the (repaired) proxy model preserves the invariant and the simulation relation
`Sim` with the vanilla client that is fed the packets of that step.
-/
namespace Gate.C28

theorem get_handle_single (fl : Caps) (c : Client) (acts : List Action) (e : PEntry) (u : UUID) :
    AL.get (Client.handle fl c (.upsert acts [e])) u = if u = e.uid then ptC fl acts e (AL.get c u) else AL.get c u := by
  rw [get_handle_upsert]
  by_cases h : u = e.uid
  · subst h; simp [forKey]
  · have : e.uid ≠ u := fun x => h x.symm
    simp [forKey, this, h]

theorem ptC_none_noadd (fl : Caps) (acts : List Action) (e : PEntry) (h : acts.contains Action.add = false) :
    ptC fl acts e none = none := by
  show (if acts.contains Action.add = true then _ else none) = none
  rw [h]; rfl

theorem ptC_none_add (fl : Caps) (acts : List Action) (e : PEntry) (h : acts.contains Action.add = true) :
    ptC fl acts e none = some (applyActions fl acts e (newInfo e)) := by
  show (if acts.contains Action.add = true then _ else none) = _
  rw [h]; rfl

theorem staleRef_false {s : State} {r : Ref} {a : Attrs} (hr : AL.get s.heap r = some a)
    (h : staleRef s r = false) : AL.get s.map a.uid = none ∨ AL.get s.map a.uid = some r := by
  unfold staleRef at h
  simp only [hr] at h
  cases hm : AL.get s.map a.uid with
  | none => exact Or.inl rfl
  | some r' =>
    simp only [hm] at h
    simp at h
    exact Or.inr (by rw [h])

theorem setRef_sim (fl : Caps) {s : State} {c : Client} (hi : Inv s) (hs : Sim fl s c) (r : Ref) (f : Field)
    (hst : staleRef s r = false)
    (hnil : ∀ a, AL.get s.heap r = some a → a.uid = nilUUID → AL.get s.map nilUUID = some r →
      fieldPacket fl a.uid f = none) :
    Inv (setRef fl s r f).1 ∧ Sim fl (setRef fl s r f).1 (Client.handleAll fl c (setRef fl s r f).2.2) := by
  unfold setRef
  cases hr : AL.get s.heap r with
  | none => exact ⟨hi, hs⟩
  | some a =>
    have hinv' : Inv { s with heap := AL.set s.heap r (a.setField f) } :=
      heap_set_inv hi hr (setField_uid a f) (by rw [setField_chatTN]; exact hi.noTN r a hr)
    have hrep : ∀ u, AL.get s.map u = some r → reported s u = some a := fun u hm => by
      rw [reported_of hm, hr]
    simp only
    cases hp : fieldPacket fl a.uid f with
    | none =>
      refine ⟨hinv', fun u => ?_⟩
      simp only [Client.handleAll, List.foldl_nil]
      rw [heap_set_reported]
      by_cases hm : AL.get s.map u = some r
      · rw [if_pos hm, ← hs u, hrep u hm]
        simp [view_setField_none fl a f hp]
      · rw [if_neg hm]; exact hs u
    | some p =>
      by_cases hnl : a.uid = nilUUID
      · simp only [hnl, if_true]
        refine ⟨hinv', fun u => ?_⟩
        simp only [Client.handleAll, List.foldl_nil]
        rw [heap_set_reported]
        by_cases hm : AL.get s.map u = some r
        · exfalso
          obtain ⟨b, hb, hbu⟩ := hi.keyed u r hm
          rw [hr] at hb; cases hb
          have := hnil a hr hnl (by rw [← hnl, hbu]; exact hm)
          rw [hp] at this; cases this
        · rw [if_neg hm]; exact hs u
      · simp only [hnl, if_false]
        refine ⟨hinv', fun u => ?_⟩
        obtain ⟨act, e, rfl, heu, hadd, hv⟩ := view_setField fl a f p hp
        simp only [Client.handleAll, List.foldl_cons, List.foldl_nil]
        rw [heap_set_reported, get_handle_single]
        by_cases hm : AL.get s.map u = some r
        · obtain ⟨b, hb, hbu⟩ := hi.keyed u r hm
          rw [hr] at hb; cases hb
          rw [if_pos hm, if_pos (by rw [heu, hbu]), ← hs u, hrep u hm]
          simp [ptC, hv]
        · rw [if_neg hm]
          by_cases hue : u = e.uid
          · rw [if_pos hue]
            rcases staleRef_false hr hst with h0 | h1
            · have : AL.get s.map u = none := by rw [hue, heu]; exact h0
              rw [← hs u, reported_none this]
              simp only [Option.map_none]
              rw [ptC_none_noadd fl _ _ hadd]
            · exact absurd (by rw [hue, heu]; exact h1) hm
          · rw [if_neg hue]; exact hs u

theorem applyActions_nil (fl : Caps) (e : PEntry) (ci : CEntry) : applyActions fl [] e ci = ci := rfl

theorem get_handle_noActions (fl : Caps) (c : Client) (es : List PEntry) (u : UUID) :
    AL.get (Client.handle fl c (.upsert [] es)) u = AL.get c u := by
  rw [get_handle_upsert]
  generalize forKey u es = L
  generalize AL.get c u = x
  induction L generalizing x with
  | nil => rfl
  | cons e L ih =>
    rw [List.foldl_cons]
    have : ptC fl [] e x = x := by cases x <;> rfl
    rw [this]; exact ih x

theorem profileReplaced_false {s : State} {h hp : Ref} {a p : Attrs} (hh : AL.get s.heap h = some a)
    (hm : AL.get s.map a.uid = some hp) (hpp : AL.get s.heap hp = some p) (hf : profileReplaced s h = false) :
    p.name = a.name ∧ p.props = a.props := by
  unfold profileReplaced at hf
  simp only [hh, hm, hpp] at hf
  simp at hf
  exact hf

/-- what `Add` does with one entry -/
theorem addOne_sim (fl : Caps) {s : State} {c : Client} (hi : Inv s) (hs : Sim fl s c) (h : Ref)
    (hpr : profileReplaced s h = false) :
    match addOne repaired fl s h with
    | (s', .err) => s' = s
    | (_, .panic) => False
    | (s', .pkt none) => Inv s' ∧ Sim fl s' c
    | (s', .pkt (some p)) => Inv s' ∧ Sim fl s' (Client.handle fl c p) ∧ (p.noActions = true → Sim fl s' c) := by
  unfold addOne
  cases hh : AL.get s.heap h with
  | none => simp
  | some a =>
    simp only
    by_cases hnl : a.uid = nilUUID
    · simp [hnl]
    · simp only [hnl, if_false]
      have hinv' : Inv { s with map := AL.set s.map a.uid h } := map_set_inv hi hh (fun _ _ => hnl)
      have hTN : a.chatTN = false := hi.noTN h a hh
      cases hprev : AL.get s.map a.uid with
      | none =>
        simp only [hTN, Bool.false_eq_true, if_false]
        have hsim : Sim fl { s with map := AL.set s.map a.uid h }
            (Client.handle fl c (.upsert (newActs repaired fl a) [newEntry a])) := by
          intro u
          rw [map_set_reported hh, get_handle_single]
          have hne : (newEntry a).uid = a.uid := rfl
          rw [hne]
          by_cases hu : u = a.uid
          · rw [if_pos hu, if_pos hu, ← hs u, reported_none (by rw [hu]; exact hprev)]
            simp only [Option.map_none, Option.map_some]
            rw [ptC_none_add fl _ _ (by simp [newActs]), view_newEntry]
          · rw [if_neg hu, if_neg hu]; exact hs u
        refine ⟨hinv', hsim, ?_⟩
        intro hna; simp [Packet.noActions, newActs] at hna
      | some hp =>
        simp only
        by_cases heq : hp = h
        · subst heq
          simp only [if_true, repaired, Bool.false_eq_true, if_false]
          refine ⟨hinv', fun u => ?_⟩
          rw [map_set_reported hh]
          by_cases hu : u = a.uid
          · rw [if_pos hu, ← hs u, hu, reported_of hprev, hh]
          · rw [if_neg hu]; exact hs u
        · simp only [heq, if_false]
          obtain ⟨p, hpp, hpu⟩ := hi.keyed a.uid hp hprev
          have hTNp : p.chatTN = false := hi.noTN hp p hpp
          simp only [hpp, hTN, hTNp, Bool.not_false, Bool.and_false, Bool.false_eq_true, if_false]
          obtain ⟨hn, hpr'⟩ := profileReplaced_false hh hprev hpp hpr
          have hsim : Sim fl { s with map := AL.set s.map a.uid h }
              (Client.handle fl c (.upsert (updActs fl p a) [updEntry p a])) := by
            intro u
            rw [map_set_reported hh, get_handle_single]
            have hne : (updEntry p a).uid = a.uid := rfl
            rw [hne]
            by_cases hu : u = a.uid
            · rw [if_pos hu, if_pos hu, ← hs u, hu, reported_of hprev, hpp]
              simp only [Option.map_some, ptC]
              rw [view_updEntry fl p a hpu hn hpr']
            · rw [if_neg hu, if_neg hu]; exact hs u
          refine ⟨hinv', hsim, ?_⟩
          intro hna u
          have hempty : updActs fl p a = [] := by
            simp only [Packet.noActions, List.isEmpty_iff] at hna; exact hna
          have := hsim u
          rw [hempty, get_handle_noActions] at this
          exact this

theorem addHazards_nil_cons {fl : Caps} {s : State} {h : Ref} {hs : List Ref}
    (hz : addHazards repaired fl s (h :: hs) = []) :
    profileReplaced s h = false ∧
      ∀ s' o, addOne repaired fl s h = (s', AddOut.pkt o) → addHazards repaired fl s' hs = [] := by
  unfold addHazards at hz
  constructor
  · cases hpr : profileReplaced s h with
    | false => rfl
    | true =>
      exfalso
      have hh : ∃ a, AL.get s.heap h = some a := by
        unfold profileReplaced at hpr
        cases hg : AL.get s.heap h with
        | none => simp [hg] at hpr
        | some a => exact ⟨a, rfl⟩
      obtain ⟨a, ha⟩ := hh
      simp only [hpr, if_true, ha] at hz
      rcases hres : addOne repaired fl s h with ⟨s', out⟩
      rw [hres] at hz
      cases out <;> simp at hz
  · intro s' o hres
    rw [hres] at hz
    simp only at hz
    exact (List.append_eq_nil_iff.mp hz).2

theorem addMany_sim (fl : Caps) (hs : List Ref) {s : State} {c : Client} (hi : Inv s) (hsim : Sim fl s c)
    (hz : addHazards repaired fl s hs = []) :
    Inv (addMany repaired fl s hs).1 ∧
      Sim fl (addMany repaired fl s hs).1 (Client.handleAll fl c (addMany repaired fl s hs).2.2) ∧
      (addMany repaired fl s hs).2.1 ≠ Res.panic := by
  induction hs generalizing s c with
  | nil => exact ⟨hi, hsim, by simp [addMany]⟩
  | cons h hs ih =>
    obtain ⟨hpr, hrest⟩ := addHazards_nil_cons hz
    have h1 := addOne_sim fl hi hsim h hpr
    rw [addMany]
    rcases hres : addOne repaired fl s h with ⟨s', out⟩
    rw [hres] at h1
    cases out with
    | err =>
      simp only at h1 ⊢
      subst h1
      exact ⟨hi, hsim, by simp⟩
    | panic => exact absurd h1 id
    | pkt o =>
      have hz' := hrest s' o hres
      cases o with
      | none =>
        simp only at h1 ⊢
        exact ih h1.1 h1.2 hz'
      | some p =>
        simp only at h1 ⊢
        obtain ⟨hi', hs', hno⟩ := h1
        by_cases hna : p.noActions = true
        · have := ih hi' (hno hna) hz'
          simp only [hna, if_true]
          exact this
        · have := ih hi' hs' hz'
          simp only [hna]
          simpa [Client.handleAll] using this

theorem handleAll_nil (fl : Caps) (c : Client) : Client.handleAll fl c [] = c := rfl
theorem handleAll_single (fl : Caps) (c : Client) (p : Packet) : Client.handleAll fl c [p] = Client.handle fl c p := rfl
theorem handleAll_cons (fl : Caps) (c : Client) (p : Packet) (ps : List Packet) :
    Client.handleAll fl c (p :: ps) = Client.handleAll fl (Client.handle fl c p) ps := rfl
theorem handleAll_append (fl : Caps) (c : Client) (ps qs : List Packet) :
    Client.handleAll fl c (ps ++ qs) = Client.handleAll fl (Client.handleAll fl c ps) qs := by
  simp [Client.handleAll, List.foldl_append]

theorem removeAll_sim (fl : Caps) {s : State} {c : Client} (hi : Inv s) (hs : Sim fl s c) (ids : List UUID) :
    Inv (removeAll s ids).1 ∧ Sim fl (removeAll s ids).1 (Client.handleAll fl c (removeAll s ids).2.2) := by
  unfold removeAll
  by_cases he : ids.isEmpty = true
  · rw [if_pos he]
    refine ⟨map_clear_inv hi, fun u => ?_⟩
    have hrep : reported { s with map := [] } u = none := by simp [reported]
    simp only
    rw [hrep]
    have hnone : u ∉ AL.keys s.map → AL.get c u = none := fun hn => by
      rw [← hs u, reported_none ((AL.get_eq_none_iff _ _).mpr hn)]; rfl
    by_cases hk : (AL.keys s.map).isEmpty = true
    · rw [if_pos hk, handleAll_nil]
      have : AL.keys s.map = [] := List.isEmpty_iff.mp hk
      exact (hnone (by rw [this]; simp)).symm
    · rw [if_neg hk, handleAll_single, get_handle_remove]
      by_cases hm : u ∈ AL.keys s.map
      · rw [if_pos hm]; rfl
      · rw [if_neg hm, hnone hm]; rfl
  · rw [if_neg he]
    refine ⟨map_erase_inv hi ids, fun u => ?_⟩
    simp only
    rw [handleAll_single, get_handle_remove, map_erase_reported]
    by_cases hm : u ∈ ids
    · rw [if_pos hm, if_pos hm]; rfl
    · rw [if_neg hm, if_neg hm]; exact hs u

theorem beRemove_sim (fl : Caps) {s : State} {c : Client} (hi : Inv s) (hs : Sim fl s c) (ids : List UUID) :
    Inv { s with map := ids.foldl AL.erase s.map } ∧
      Sim fl { s with map := ids.foldl AL.erase s.map } (Client.handleAll fl c [.remove ids]) := by
  refine ⟨map_erase_inv hi ids, fun u => ?_⟩
  rw [handleAll_single, get_handle_remove, map_erase_reported]
  by_cases hm : u ∈ ids
  · rw [if_pos hm, if_pos hm]; rfl
  · rw [if_neg hm, if_neg hm]; exact hs u

theorem new_sim (fl : Caps) {s : State} {c : Client} (hi : Inv s) (hs : Sim fl s c) (h : Nat) (a : Attrs)
    (hn : AL.get s.heap (Ref.api h) = none) :
    Inv { s with heap := AL.set s.heap (Ref.api h) { a with chatTN := false } } ∧
      Sim fl { s with heap := AL.set s.heap (Ref.api h) { a with chatTN := false } } c := by
  have hne : ∀ u r, AL.get s.map u = some r → r ≠ Ref.api h := fun u r hm e => by
    obtain ⟨b, hb, _⟩ := hi.keyed u r hm
    rw [e, hn] at hb; cases hb
  refine ⟨⟨?_, ?_, ?_, hi.apiNonNil⟩, fun u => ?_⟩
  · intro u r hm
    obtain ⟨b, hb, hbu⟩ := hi.keyed u r hm
    exact ⟨b, by simp [AL.get_set, hne u r hm, hb], hbu⟩
  · intro k hk
    have : Ref.be k ≠ Ref.api h := fun e => by cases e
    simp [AL.get_set, this, hi.fresh k hk]
  · intro r b hb
    by_cases e : r = Ref.api h
    · subst e; simp [AL.get_set] at hb; subst hb; rfl
    · simp [AL.get_set, e] at hb; exact hi.noTN r b hb
  · rw [heap_set_reported]
    by_cases hm : AL.get s.map u = some (Ref.api h)
    · exact absurd rfl (hne u _ hm)
    · rw [if_neg hm]; exact hs u

/-! ### backend updates -/

/-- the effect of one entry of a backend update on what the proxy reports for that entry's key -/
def ptG (acts : List Action) (e : PEntry) : Option Attrs → Option Attrs
  | some a => some (applyBackend repaired acts e a)
  | none => if acts.contains .add then some (applyBackend repaired acts e (beDefault e)) else none

theorem applyBackend_uid (v : Variant) (acts : List Action) (e : PEntry) (a : Attrs) :
    (applyBackend v acts e a).uid = a.uid := rfl

theorem applyBackend_chatTN (acts : List Action) (e : PEntry) (a : Attrs) (h : a.chatTN = false) :
    (applyBackend repaired acts e a).chatTN = false := by
  simp [applyBackend, repaired, h]

theorem procEntry_sim {s : State} (hi : Inv s) (acts : List Action) (e : PEntry) :
    Inv (procEntry repaired acts s e) ∧
      ∀ u, reported (procEntry repaired acts s e) u = if u = e.uid then ptG acts e (reported s u) else reported s u := by
  unfold procEntry
  cases hm : AL.get s.map e.uid with
  | some r =>
    obtain ⟨a, ha, hau⟩ := hi.keyed e.uid r hm
    simp only [ha]
    refine ⟨heap_set_inv hi ha (applyBackend_uid _ _ _ _) (applyBackend_chatTN _ _ _ (hi.noTN r a ha)), fun u => ?_⟩
    rw [heap_set_reported]
    by_cases hu : u = e.uid
    · subst hu
      rw [if_pos hm, if_pos rfl, reported_of hm, ha]; rfl
    · rw [if_neg hu]
      by_cases hmu : AL.get s.map u = some r
      · exact absurd (hi.unique hmu hm) hu
      · rw [if_neg hmu]
  | none =>
    simp only
    cases hadd : acts.contains Action.add with
    | false =>
      simp only [Bool.false_eq_true, if_false]
      refine ⟨hi, fun u => ?_⟩
      by_cases hu : u = e.uid
      · subst hu
        rw [if_pos rfl, reported_none hm]
        show none = (if acts.contains Action.add = true then _ else none)
        rw [hadd]; rfl
      · rw [if_neg hu]
    | true =>
      simp only [if_true]
      have hfresh : AL.get s.heap (Ref.be s.nbe) = none := hi.fresh s.nbe (Nat.le_refl _)
      have hne : ∀ u r, AL.get s.map u = some r → r ≠ Ref.be s.nbe := fun u r hmu e' => by
        obtain ⟨b, hb, _⟩ := hi.keyed u r hmu
        rw [e', hfresh] at hb; cases hb
      refine ⟨⟨?_, ?_, ?_, ?_⟩, fun u => ?_⟩
      · intro u r hmu
        by_cases hu : u = e.uid
        · subst hu
          simp [AL.get_set] at hmu; subst hmu
          exact ⟨applyBackend repaired acts e (beDefault e), by simp [AL.get_set], rfl⟩
        · simp [AL.get_set, hu] at hmu
          obtain ⟨b, hb, hbu⟩ := hi.keyed u r hmu
          exact ⟨b, by simp [AL.get_set, hne u r hmu, hb], hbu⟩
      · intro k hk
        have hk' : s.nbe ≤ k := Nat.le_of_succ_le hk
        have : Ref.be k ≠ Ref.be s.nbe := fun e' => by cases e'; exact absurd hk (Nat.not_succ_le_self _)
        simp [AL.get_set, this, hi.fresh k hk']
      · intro r b hb
        by_cases e' : r = Ref.be s.nbe
        · subst e'; simp [AL.get_set] at hb; subst hb
          exact applyBackend_chatTN _ _ _ rfl
        · simp [AL.get_set, e'] at hb; exact hi.noTN r b hb
      · intro u h hmu
        by_cases hu : u = e.uid
        · subst hu; simp [AL.get_set] at hmu
        · simp [AL.get_set, hu] at hmu; exact hi.apiNonNil u h hmu
      · unfold reported
        by_cases hu : u = e.uid
        · subst hu
          simp only [AL.get_set, if_true, Option.bind_some, hm, Option.bind_none]
          show _ = (if acts.contains Action.add = true then _ else none)
          rw [hadd]; rfl
        · simp only [AL.get_set, hu, if_false]
          cases hmu : AL.get s.map u with
          | none => rfl
          | some r => simp [AL.get_set, hne u r hmu]

theorem procAll_sim (acts : List Action) (es : List PEntry) {s : State} (hi : Inv s) :
    Inv (es.foldl (procEntry repaired acts) s) ∧
      ∀ u, reported (es.foldl (procEntry repaired acts) s) u =
        (forKey u es).foldl (fun x e => ptG acts e x) (reported s u) := by
  induction es generalizing s with
  | nil => exact ⟨hi, fun u => rfl⟩
  | cons e es ih =>
    obtain ⟨hi1, h1⟩ := procEntry_sim hi acts e
    obtain ⟨hi2, h2⟩ := ih hi1
    refine ⟨hi2, fun u => ?_⟩
    rw [List.foldl_cons, h2 u, h1 u]
    by_cases hu : u = e.uid
    · rw [if_pos hu, forKey_cons_eq u e es hu.symm, List.foldl_cons]
    · rw [if_neg hu, forKey_cons_ne u e es (fun x => hu x.symm)]

theorem ptG_view (fl : Caps) (acts : List Action) (e : PEntry) (x : Option Attrs) :
    (ptG acts e x).map (view fl) = ptC fl acts e (x.map (view fl)) := by
  cases x with
  | some a => simp [ptG, ptC, view_applyBackend]
  | none =>
    simp only [ptG, ptC, Option.map_none]
    cases hadd : acts.contains Action.add
    · simp
    · simp [view_applyBackend, view_beDefault]

theorem foldl_ptG_view (fl : Caps) (acts : List Action) (L : List PEntry) (x : Option Attrs) :
    (L.foldl (fun x e => ptG acts e x) x).map (view fl) =
      L.foldl (fun y e => ptC fl acts e y) (x.map (view fl)) := by
  induction L generalizing x with
  | nil => rfl
  | cons e L ih => rw [List.foldl_cons, List.foldl_cons, ih, ptG_view]

/-- a backend update: `ProcessUpdate` on the decoded packet, then the packet is forwarded -/
theorem beUpsert_sim (fl : Caps) {s : State} {c : Client} (hi : Inv s) (hs : Sim fl s c)
    (acts : List Action) (es : List PEntry) :
    Inv (es.foldl (procEntry repaired acts) s) ∧
      Sim fl (es.foldl (procEntry repaired acts) s) (Client.handleAll fl c [.upsert acts es]) := by
  obtain ⟨hi', h⟩ := procAll_sim acts es hi
  refine ⟨hi', fun u => ?_⟩
  rw [handleAll_single, get_handle_upsert, h u, foldl_ptG_view, hs u]

/-! ### one step, then whole histories -/

theorem setRef_res (fl : Caps) (s : State) (r : Ref) (f : Field) : (setRef fl s r f).2.1 ≠ Res.panic := by
  unfold setRef
  cases AL.get s.heap r with
  | none => simp
  | some a =>
    simp only
    cases fieldPacket fl a.uid f with
    | none => simp
    | some p => by_cases h : a.uid = nilUUID <;> simp [h]

theorem step_sim (fl : Caps) {s : State} {c : Client} (hi : Inv s) (hs : Sim fl s c) (op : Op)
    (hok : opOk fl s op = true) :
    Inv (step repaired fl s op).1 ∧
      Sim fl (step repaired fl s op).1 (Client.handleAll fl c (step repaired fl s op).2.2) ∧
      (step repaired fl s op).2.1 ≠ Res.panic := by
  cases op with
  | new h a =>
    simp only [step]
    cases hg : AL.get s.heap (Ref.api h) with
    | some b => simp only [Option.isSome_some, if_true]; exact ⟨hi, hs, by simp⟩
    | none =>
      simp only [Option.isSome_none, Bool.false_eq_true, if_false]
      obtain ⟨h1, h2⟩ := new_sim fl hi hs h a hg
      exact ⟨h1, h2, by simp⟩
  | add hs' =>
    simp only [step]
    simp only [opOk, List.isEmpty_iff] at hok
    exact addMany_sim fl _ hi hs hok
  | set h f =>
    simp only [step]
    simp only [opOk, Bool.not_eq_true'] at hok
    have := setRef_sim fl hi hs (Ref.api h) f hok (fun a _ hnl hm => absurd rfl (hi.apiNonNil _ _ hm))
    exact ⟨this.1, this.2, setRef_res _ _ _ _⟩
  | setCur u f =>
    simp only [step]
    cases hm : AL.get s.map u with
    | none => exact ⟨hi, hs, by simp⟩
    | some r =>
      simp only
      obtain ⟨a, ha, hau⟩ := hi.keyed u r hm
      have hst : staleRef s r = false := by
        unfold staleRef
        simp [ha, hau, hm]
      simp only [opOk, Bool.not_eq_true', nilSetHazard] at hok
      have := setRef_sim fl hi hs r f hst (fun a' ha' hnl hmn => by
        rw [ha] at ha'; cases ha'
        have hu0 : u = nilUUID := by rw [← hau, hnl]
        cases hfp : fieldPacket fl a.uid f with
        | none => rfl
        | some p =>
          exfalso
          rw [hau] at hfp
          rw [hm, hfp] at hok
          simp [hu0] at hok)
      exact ⟨this.1, this.2, setRef_res _ _ _ _⟩
  | removeAll ids =>
    simp only [step]
    have := removeAll_sim fl hi hs ids
    refine ⟨this.1, this.2, ?_⟩
    unfold removeAll; by_cases h : ids.isEmpty = true <;> simp [h]
  | beUpsert acts es =>
    simp only [step]
    have := beUpsert_sim fl hi hs (canonActs acts) es
    exact ⟨this.1, this.2, by simp⟩
  | beRemove ids =>
    simp only [step]
    have := beRemove_sim fl hi hs ids
    exact ⟨this.1, this.2, by simp⟩

theorem run_sim (fl : Caps) (ops : List Op) {s : State} {c : Client} (hi : Inv s) (hs : Sim fl s c)
    (hok : histOk fl s ops = true) :
    Inv (run repaired fl s ops).1 ∧
      Sim fl (run repaired fl s ops).1 (Client.handleAll fl c (run repaired fl s ops).2) ∧
      ∀ r ∈ results repaired fl s ops, r ≠ Res.panic := by
  induction ops generalizing s c with
  | nil => exact ⟨hi, hs, by simp [results]⟩
  | cons op ops ih =>
    simp only [histOk, Bool.and_eq_true] at hok
    obtain ⟨h1, h2, h3⟩ := step_sim fl hi hs op hok.1
    obtain ⟨i1, i2, i3⟩ := ih h1 h2 hok.2
    simp only [run, results]
    refine ⟨i1, ?_, ?_⟩
    · rw [handleAll_append]; exact i2
    · intro r hr
      simp only [List.mem_cons] at hr
      rcases hr with rfl | hr
      · exact h3
      · exact i3 r hr

theorem sim_init (fl : Caps) : Sim fl State.init [] := fun u => by simp [reported, State.init]

end Gate.C28
