import GateModel.C28.Types
import GateModel.Gen.C28
/-
C28 model of gate's 1.19.3+ tab list: pkg/internal/tablist/{tablist.go, entry.go, lockutil.go} and the
two backend handlers of session_backend_play.go that feed it.

Entries are Go *objects* (`*tablist.Entry`): the tab list's map stores the pointer the caller passed to
`Add`, the entry setters mutate the object and emit an update packet, `ProcessUpdate` mutates the stored
object through the `…Internal` setters, and `add` compares pointers (`equalLocked` is `reflect.DeepEqual`
under `TryRLock`/`TryLock`: for two distinct `*Entry` the embedded RWMutex states differ, so it is true
exactly for the same pointer).  Hence a heap of objects and a map uuid → reference.

Every op is one atomic step (sequential histories).  The packets a step hands to the viewer
(`BufferPacket`/`WritePacket`, and for backend packets the forward after `ProcessUpdate`/`ProcessRemove`)
are returned in order.

`Variant` switches the four defect sites between the code as found (`original`) and as repaired.

Core Lean only.
-/
namespace Gate.C28

/-- `EntryAttributes` of an internal `*tablist.Entry`. -/
structure Attrs where
  uid      : UUID
  name     : String
  props    : String
  display  : Option String
  latency  : Int            -- time.Duration, nanoseconds
  gameMode : Int
  listed   : Bool
  order    : Int
  /-- `ChatSession()` is a non-nil interface holding a nil `*chat.RemoteChatSession` -/
  chatTN   : Bool
  hat      : Bool
  deriving DecidableEq, Repr

/-- object identity: created by the API user (handle number chosen by the harness) or by `ProcessUpdate` -/
inductive Ref where
  | api (n : Nat)
  | be (n : Nat)
  deriving DecidableEq, Repr

structure State where
  heap : List (Ref × Attrs) := []
  map  : List (UUID × Ref) := []      -- TabList.EntriesByID
  nbe  : Nat := 0                      -- number of objects ProcessUpdate has allocated
  deriving Repr

def State.init : State := {}

structure Variant where
  /-- `Add` dereferences the nil packet `add` returns for an unchanged entry -/
  nilPacketDeref : Bool
  /-- `processUpdateForEntry` has no `UpdateHatAction` case -/
  backendHatIgnored : Bool
  /-- `SetChatSessionInternal(info.RemoteChatSession)` wraps a nil pointer into a non-nil interface -/
  typedNilChat : Bool
  /-- a new entry's hat flag is only sent when it is true -/
  newEntryHatOnlyIfTrue : Bool
  deriving DecidableEq, Repr

def repaired : Variant := ⟨false, false, false, false⟩
def original : Variant := ⟨true, true, true, true⟩

inductive Res where
  | ok | err | panic
  deriving DecidableEq, Repr

/-- viewer-protocol dependent switches, from the regenerated version table
    (`Protocol().GreaterEqual(version.Minecraft_1_21_2 / _1_21_4)`) -/
def flagsOf (proto : Int) : Caps :=
  ⟨decide (Gate.Gen.C28.versionsV.Minecraft_1_21_2 ≤ proto), decide (Gate.Gen.C28.versionsV.Minecraft_1_21_4 ≤ proto)⟩

/-- `tablist.New` returns the modern `TabList` from this protocol on -/
def modernFrom : Int := Gate.Gen.C28.versionsV.Minecraft_1_19_3

/-- `int(d.Milliseconds())` -/
def msOf (ns : Int) : Int := ns.tdiv 1000000

/-- what the proxy reports for `u`: `Entries()[u]` -/
def reported (s : State) (u : UUID) : Option Attrs := (AL.get s.map u).bind (AL.get s.heap)

/-! ### `add` -/

/-- the `playerinfo.Entry` literal `add` starts from -/
def baseEntry (a : Attrs) : PEntry :=
  { uid := a.uid, gameMode := a.gameMode, listed := a.listed, order := a.order, hat := a.hat }

/-- previous entry `p` exists: diff to actions -/
def updActs (fl : Caps) (p a : Attrs) : List Action :=
  (if p.display ≠ a.display then [Action.display] else []) ++
  (if p.latency ≠ a.latency then [Action.latency] else []) ++
  (if p.gameMode ≠ a.gameMode then [Action.gameMode] else []) ++
  (if p.listed ≠ a.listed then [Action.listed] else []) ++
  (if p.order ≠ a.order ∧ fl.ord then [Action.order] else []) ++
  (if p.hat ≠ a.hat ∧ fl.hat then [Action.hat] else [])

def updEntry (p a : Attrs) : PEntry :=
  { baseEntry a with
    display := if p.display ≠ a.display then a.display else none
    latency := if p.latency ≠ a.latency then msOf a.latency else 0 }

/-- no previous entry -/
def newActs (v : Variant) (fl : Caps) (a : Attrs) : List Action :=
  [Action.add, Action.latency, Action.listed] ++
  (if a.display.isSome then [Action.display] else []) ++
  (if a.gameMode ≠ -1 ∧ a.gameMode ≠ 256 then [Action.gameMode] else []) ++
  (if a.order ≠ 0 ∧ fl.ord then [Action.order] else []) ++
  (if fl.hat ∧ (a.hat ∨ v.newEntryHatOnlyIfTrue = false) then [Action.hat] else [])

def newEntry (a : Attrs) : PEntry :=
  { baseEntry a with name := a.name, props := a.props, display := a.display, latency := msOf a.latency }

inductive AddOut where
  | err                      -- `profile id must not be zero`
  | panic                    -- nil dereference inside `add`/`Add`
  | pkt (p : Option Packet)  -- `none`: add returned `nil, nil`
  deriving Repr

/-- `TabList.add(entry)` followed by `Add`'s inspection of the returned packet -/
def addOne (v : Variant) (fl : Caps) (s : State) (h : Ref) : State × AddOut :=
  match AL.get s.heap h with
  | none => (s, .err)                       -- no such object (not generated)
  | some a =>
    if a.uid = nilUUID then (s, .err) else
    let prev := AL.get s.map a.uid
    let s' := { s with map := AL.set s.map a.uid h }
    match prev with
    | some hp =>
      if hp = h then (s', if v.nilPacketDeref then .panic else .pkt none)    -- equalLocked: same pointer
      else match AL.get s.heap hp with
        | none => (s', .err)                -- dangling map entry (excluded by the invariant)
        | some p =>
          -- chat session differs and the new one "is not nil": `from.SessionID()` on a nil pointer
          if !p.chatTN && a.chatTN then (s', .panic)
          else (s', .pkt (some (.upsert (updActs fl p a) [updEntry p a])))
    | none =>
      if a.chatTN then (s', .panic)         -- `entry.ChatSession() != nil` then `.SessionID()` on nil
      else (s', .pkt (some (.upsert (newActs v fl a) [newEntry a])))

def Packet.noActions : Packet → Bool
  | .upsert acts _ => acts.isEmpty
  | .remove _ => false

/-- `TabList.Add(entries...)`: stops at the first error/panic; packets with an empty action set are skipped -/
def addMany (v : Variant) (fl : Caps) : State → List Ref → State × Res × List Packet
  | s, [] => (s, .ok, [])
  | s, h :: hs =>
    match addOne v fl s h with
    | (s', .err) => (s', .err, [])
    | (s', .panic) => (s', .panic, [])
    | (s', .pkt none) => addMany v fl s' hs
    | (s', .pkt (some p)) =>
      let (s'', r, ps) := addMany v fl s' hs
      (s'', r, if p.noActions then ps else p :: ps)

/-! ### entry setters (entry.go) -/

inductive Field where
  | display (v : Option String) | latency (ns : Int) | gameMode (g : Int)
  | listed (b : Bool) | order (i : Int) | hat (b : Bool)
  deriving DecidableEq, Repr

def Attrs.setField (a : Attrs) : Field → Attrs
  | .display v => { a with display := v }
  | .latency ns => { a with latency := ns }
  | .gameMode g => { a with gameMode := g }
  | .listed b => { a with listed := b }
  | .order i => { a with order := i }
  | .hat b => { a with hat := b }

/-- the packet `SetX` emits through `EmitActionRaw` (`rawEntry(id)` + one field), if any for this protocol -/
def fieldPacket (fl : Caps) (uid : UUID) : Field → Option Packet
  | .display v => some (.upsert [.display] [{ uid := uid, display := v }])
  | .latency ns => some (.upsert [.latency] [{ uid := uid, latency := msOf ns }])
  | .gameMode g => some (.upsert [.gameMode] [{ uid := uid, gameMode := g }])
  | .listed b => some (.upsert [.listed] [{ uid := uid, listed := b }])
  | .order i => if fl.ord then some (.upsert [.order] [{ uid := uid, order := i }]) else none
  | .hat b => if fl.hat then some (.upsert [.hat] [{ uid := uid, hat := b }]) else none

def setRef (fl : Caps) (s : State) (r : Ref) (f : Field) : State × Res × List Packet :=
  match AL.get s.heap r with
  | none => (s, .ok, [])
  | some a =>
    let s' := { s with heap := AL.set s.heap r (a.setField f) }
    match fieldPacket fl a.uid f with
    | none => (s', .ok, [])
    | some p => if a.uid = nilUUID then (s', .err, []) else (s', .ok, [p])

/-! ### RemoveAll / deleteEntries -/

def removeAll (s : State) (ids : List UUID) : State × Res × List Packet :=
  if ids.isEmpty then
    let ks := AL.keys s.map
    ({ s with map := [] }, .ok, if ks.isEmpty then [] else [.remove ks])
  else ({ s with map := ids.foldl AL.erase s.map }, .ok, [.remove ids])

/-! ### backend packets: ProcessUpdate / ProcessRemove, then forwarded unchanged -/

/-- the entry `processUpdateForEntry` creates for ADD_PLAYER -/
def beDefault (e : PEntry) : Attrs :=
  { uid := e.uid, name := e.name, props := e.props, display := none, latency := 0, gameMode := -1,
    listed := false, order := 0, chatTN := false, hat := true }

def applyBackend (v : Variant) (acts : List Action) (e : PEntry) (a : Attrs) : Attrs :=
  { a with
    gameMode := if acts.contains .gameMode then e.gameMode else a.gameMode
    latency := if acts.contains .latency then e.latency * 1000000 else a.latency
    display := if acts.contains .display then e.display else a.display
    chatTN := if acts.contains .chat then v.typedNilChat else a.chatTN
    listed := if acts.contains .listed then e.listed else a.listed
    order := if acts.contains .order then e.order else a.order
    hat := if acts.contains .hat && !v.backendHatIgnored then e.hat else a.hat }

def procEntry (v : Variant) (acts : List Action) (s : State) (e : PEntry) : State :=
  match AL.get s.map e.uid with
  | some r =>
    match AL.get s.heap r with
    | some a => { s with heap := AL.set s.heap r (applyBackend v acts e a) }
    | none => s
  | none =>
    if acts.contains .add then
      let r := Ref.be s.nbe
      { heap := AL.set s.heap r (applyBackend v acts e (beDefault e)),
        map := AL.set s.map e.uid r, nbe := s.nbe + 1 }
    else s

/-! ### steps -/

inductive Op where
  | new (h : Nat) (a : Attrs)                 -- the API user builds an entry object (not yet added)
  | add (hs : List Nat)                        -- TabList.Add(entries...)
  | set (h : Nat) (f : Field)                  -- entry.SetX(v) on a handle the user kept
  | setCur (u : UUID) (f : Field)              -- Entries()[u].SetX(v)
  | removeAll (ids : List UUID)                -- TabList.RemoveAll(ids...)
  | beUpsert (acts : List Action) (es : List PEntry)   -- backend player-info update
  | beRemove (ids : List UUID)                 -- backend player-info remove
  deriving Repr

def step (v : Variant) (fl : Caps) (s : State) : Op → State × Res × List Packet
  | .new h a =>
    if (AL.get s.heap (.api h)).isSome then (s, .ok, [])
    else ({ s with heap := AL.set s.heap (.api h) { a with chatTN := false } }, .ok, [])
  | .add hs => addMany v fl s (hs.map Ref.api)
  | .set h f => setRef fl s (.api h) f
  | .setCur u f =>
    match AL.get s.map u with
    | none => (s, .ok, [])
    | some r => setRef fl s r f
  | .removeAll ids => removeAll s ids
  | .beUpsert acts es =>
    -- the backend's packet went through gate's decoder: the action set arrives in protocol order;
    -- after ProcessUpdate the packet is forwarded unchanged
    let acts := canonActs acts
    (es.foldl (procEntry v acts) s, .ok, [.upsert acts es])
  | .beRemove ids => ({ s with map := ids.foldl AL.erase s.map }, .ok, [.remove ids])

/-- run a history; returns the final state and all packets handed to the viewer, in order -/
def run (v : Variant) (fl : Caps) : State → List Op → State × List Packet
  | s, [] => (s, [])
  | s, op :: ops =>
    let (s', _, ps) := step v fl s op
    let (s'', qs) := run v fl s' ops
    (s'', ps ++ qs)

/-- results of every op of a history -/
def results (v : Variant) (fl : Caps) : State → List Op → List Res
  | _, [] => []
  | s, op :: ops => let (s', r, _) := step v fl s op; r :: results v fl s' ops

/-! ### the two recorded hazards (model mirrors the code as it is) -/

/-- the object `r` is not the one the tab list holds under its uuid (a *stale handle*) -/
def staleRef (s : State) (r : Ref) : Bool :=
  match AL.get s.heap r with
  | none => false
  | some a => match AL.get s.map a.uid with
    | none => false
    | some r' => r' ≠ r

/-- `Add(r)` would replace an entry whose profile (name/properties) differs: `add` sends no ADD_PLAYER -/
def profileReplaced (s : State) (r : Ref) : Bool :=
  match AL.get s.heap r with
  | none => false
  | some a => match AL.get s.map a.uid with
    | none => false
    | some hp => match AL.get s.heap hp with
      | none => false
      | some p => p.name ≠ a.name || p.props ≠ a.props

/-- `Entries()[u].SetX` on an entry stored under the all-zero uuid: the setter mutates the entry, then
    `rawEntry` rejects the id and nothing is sent -/
def nilSetHazard (fl : Caps) (s : State) (u : UUID) (f : Field) : Bool :=
  u = nilUUID && (AL.get s.map u).isSome && (fieldPacket fl u f).isSome

/-- uuids for which `Add(hs)` hits `profileReplaced`, evaluated in the states `Add` runs through -/
def addHazards (v : Variant) (fl : Caps) : State → List Ref → List UUID
  | _, [] => []
  | s, h :: hs =>
    let here := if profileReplaced s h then (match AL.get s.heap h with | some a => [a.uid] | none => []) else []
    match addOne v fl s h with
    | (s', .pkt _) => here ++ addHazards v fl s' hs
    | _ => here

/-- the op does not run into one of the three recorded hazards (stale handle, profile replaced by `Add`,
    setter on an entry stored under the all-zero uuid) -/
def opOk (fl : Caps) (s : State) : Op → Bool
  | .add hs => (addHazards repaired fl s (hs.map Ref.api)).isEmpty
  | .set h _ => !staleRef s (.api h)
  | .setCur u f => !nilSetHazard fl s u f
  | _ => true

/-- no op of the history runs into a recorded hazard, each judged in the state it is executed in -/
def histOk (fl : Caps) : State → List Op → Bool
  | _, [] => true
  | s, op :: ops => opOk fl s op && histOk fl (step repaired fl s op).1 ops

end Gate.C28
