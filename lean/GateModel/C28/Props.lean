import GateModel.C28.Simulation
/-
C28 — The tab-list model matches what the client was told.

Proxy side: `Model.lean` (gate's 1.19.3+ `TabList`: `Add`/`add` diffing, `RemoveAll`, the entry setters,
`ProcessUpdate`/`ProcessRemove` + forward), run over an arbitrary history of API calls and backend packets.
Client side: `Spec.lean` (a vanilla client's player-info map under the decoded packets it received).
`reported s u` is `Entries()[u]`; `view` is how a client of the viewer's protocol sees such an entry
(latency in milliseconds, `GameType.byId`, list order / hat only if the protocol has the field).

`entries_eq_client_partial` is the property for every history that avoids three recorded hazards
(`histOk`, a decidable condition evaluated along the run); each hazard is shown to be a real counter-example
(`…_fails_…`), so the unrestricted statement is false for the code as it is — see findings/C28.json.
The four defects that were repaired are kept as `original` variant witnesses.
-/
namespace Gate.C28.Props
open Gate.C28

/-! ### tie of the version switches to vanilla's protocol numbers -/

/-- gate's `GreaterEqual(Minecraft_1_21_2 / _1_21_4)` switches (regenerated numbers) are exactly the
    protocol numbers from which a vanilla client has the list-order / hat field. -/
theorem flags_match_vanilla (p : Int) : flagsOf p = capsOf p := by
  unfold flagsOf capsOf
  rfl

/-- `tablist.New` uses the modelled `TabList` from protocol 761 (1.19.3) on. -/
theorem modern_from_1_19_3 : modernFrom = 761 := rfl

/-! ### the property -/

/-- final proxy state and the client state after a history started on an empty tab list -/
def proxyAfter (p : Int) (ops : List Op) : State := (run repaired (flagsOf p) State.init ops).1
def clientAfter (p : Int) (ops : List Op) : Client :=
  Client.handleAll (capsOf p) [] (run repaired (flagsOf p) State.init ops).2

/-- **Main theorem.** For every viewer protocol and every history of API calls (`new`/`Add`/setters via kept
    handles or via `Entries()`/`RemoveAll`) and backend packets (update/remove, forwarded) that does not run
    into a recorded hazard, for every uuid: the proxy reports an entry iff the client holds one, and they
    agree on profile (id, name, properties), display name, latency, game mode, listed flag, list order and hat. -/
theorem entries_eq_client_partial (p : Int) (ops : List Op) (hok : histOk (flagsOf p) State.init ops = true) (u : UUID) :
    (reported (proxyAfter p ops) u).map (view (capsOf p)) = AL.get (clientAfter p ops) u := by
  have h := (run_sim (flagsOf p) ops Inv.init (sim_init _) hok).2.1 u
  unfold proxyAfter clientAfter
  rw [← flags_match_vanilla]
  exact h

/-- exactly the same set of entries -/
theorem same_entries_partial (p : Int) (ops : List Op) (hok : histOk (flagsOf p) State.init ops = true) (u : UUID) :
    (reported (proxyAfter p ops) u).isSome = (AL.get (clientAfter p ops) u).isSome := by
  rw [← entries_eq_client_partial p ops hok u]; simp

/-- every reported entry is stored under its own profile id -/
theorem keys_are_profile_ids (p : Int) (ops : List Op) (hok : histOk (flagsOf p) State.init ops = true)
    (u : UUID) (a : Attrs) (h : reported (proxyAfter p ops) u = some a) : a.uid = u := by
  have hi := (run_sim (flagsOf p) ops Inv.init (sim_init _) hok).1
  unfold proxyAfter at h
  unfold reported at h
  cases hm : AL.get (run repaired (flagsOf p) State.init ops).1.map u with
  | none => simp [hm] at h
  | some r =>
    obtain ⟨b, hb, hbu⟩ := hi.keyed u r hm
    simp [hm, hb] at h
    rw [← h]; exact hbu

/-- with the repairs no tab-list call panics (the nil packet of an unchanged entry, the typed-nil chat session) -/
theorem api_never_panics (p : Int) (ops : List Op) (hok : histOk (flagsOf p) State.init ops = true) :
    ∀ r ∈ results repaired (flagsOf p) State.init ops, r ≠ Res.panic :=
  (run_sim (flagsOf p) ops Inv.init (sim_init _) hok).2.2

/-- Histories made of backend packets, `RemoveAll` and setters on current entries with a non-zero uuid
    never meet a hazard: for them the property holds unconditionally. -/
def backendish : Op → Bool
  | .beUpsert _ _ => true | .beRemove _ => true | .removeAll _ => true | .new _ _ => true
  | .setCur u _ => u ≠ nilUUID
  | _ => false

theorem backendish_histOk (fl : Caps) (ops : List Op) (s : State) (h : ops.all backendish = true) :
    histOk fl s ops = true := by
  induction ops generalizing s with
  | nil => rfl
  | cons op ops ih =>
    simp only [List.all_cons, Bool.and_eq_true] at h
    simp only [histOk, Bool.and_eq_true]
    obtain ⟨h1, h2⟩ := h
    refine ⟨?_, ih _ h2⟩
    cases op with
    | setCur u f => simp [backendish] at h1; simp [opOk, nilSetHazard, h1]
    | add _ => simp [backendish] at h1
    | set _ _ => simp [backendish] at h1
    | _ => rfl

theorem entries_eq_client_backend (p : Int) (ops : List Op) (h : ops.all backendish = true) (u : UUID) :
    (reported (proxyAfter p ops) u).map (view (capsOf p)) = AL.get (clientAfter p ops) u :=
  entries_eq_client_partial p ops (backendish_histOk _ ops _ h) u

/-! ### the client side on its own -/

/-- The client's two-phase handling of an update packet (all `putIfAbsent`s first, then all actions) acts on
    each key like handling the packet's entries for that key one after the other. -/
theorem client_two_phase_eq_sequential (caps : Caps) (c : Client) (acts : List Action) (es : List PEntry) (u : UUID) :
    AL.get (Client.handle caps c (.upsert acts es)) u =
      (forKey u es).foldl (fun x e => ptC caps acts e x) (AL.get c u) := get_handle_upsert caps c acts es u

/-- order and multiplicity of the action list are irrelevant to the client -/
theorem client_ignores_action_order (caps : Caps) (acts acts' : List Action) (e : PEntry) (ci : CEntry)
    (h : ∀ a, acts.contains a = acts'.contains a) :
    applyActions caps acts e ci = applyActions caps acts' e ci := by
  simp only [applyActions_eq, applyRec, h]

/-! ### recorded hazards: the unrestricted property is false for the code as it is -/

def aliceNew (h : Nat) (name : String) (lat : Int) : Op :=
  .new h { uid := 1, name := name, props := "-", display := none, latency := lat, gameMode := 0, listed := true,
           order := 0, chatTN := false, hat := true }

/-- `Add` of a second entry with the same uuid but another profile name: the proxy reports "bob", the client
    still holds "alice" (no ADD_PLAYER is sent for an existing uuid). -/
theorem entries_eq_client_fails_profile_replaced :
    let ops := [aliceNew 1 "alice" 0, .add [1], aliceNew 2 "bob" 0, .add [2]]
    (reported (proxyAfter 767 ops) 1).map (view (capsOf 767)) ≠ AL.get (clientAfter 767 ops) 1 := by
  decide

/-- a setter on a handle the list no longer holds: the client applies the update to the current entry -/
theorem entries_eq_client_fails_stale_handle :
    let ops := [aliceNew 1 "alice" 1000000, .add [1], aliceNew 2 "alice" 2000000, .add [2], .set 1 (.latency 9000000)]
    (reported (proxyAfter 767 ops) 1).map (view (capsOf 767)) ≠ AL.get (clientAfter 767 ops) 1 := by
  decide

/-- a backend entry under the all-zero uuid: `Entries()[0].SetLatency` changes the proxy's entry, fails, sends nothing -/
theorem entries_eq_client_fails_nil_uuid_setter :
    let ops := [Op.beUpsert [.add] [{ uid := 0, name := "nil" }], .setCur 0 (.latency 8000000)]
    (reported (proxyAfter 767 ops) 0).map (view (capsOf 767)) ≠ AL.get (clientAfter 767 ops) 0 := by
  decide

/-- these three histories are exactly what `histOk` excludes -/
example : histOk (flagsOf 767) State.init [aliceNew 1 "alice" 0, .add [1], aliceNew 2 "bob" 0, .add [2]] = false := by decide
example : histOk (flagsOf 767) State.init
    [aliceNew 1 "alice" 1000000, .add [1], aliceNew 2 "alice" 2000000, .add [2], .set 1 (.latency 9000000)] = false := by decide
example : histOk (flagsOf 767) State.init [Op.beUpsert [.add] [{ uid := 0, name := "nil" }], .setCur 0 (.latency 8000000)] = false := by
  decide

/-! ### the four repaired defects, as witnesses on the `original` variant -/

/-- DESIGN §11 row 16: `add` returns a nil packet for an unchanged entry and `Add` dereferences it -/
theorem add_unchanged_entry_panics_original :
    results original (flagsOf 767) State.init [aliceNew 1 "alice" 0, .add [1], .add [1]] = [.ok, .ok, .panic] := by
  decide

/-- DESIGN §11 row 16: a backend UPDATE_HAT is not applied to the proxy's entry -/
theorem backend_hat_fails_original :
    let ops := [Op.beUpsert [.add, .hat] [{ uid := 2, name := "carl", hat := false }]]
    (reported (run original (flagsOf 769) State.init ops).1 2).map (view (capsOf 769)) ≠
      AL.get (Client.handleAll (capsOf 769) [] (run original (flagsOf 769) State.init ops).2) 2 := by
  decide

/-- a backend INITIALIZE_CHAT without session leaves a typed-nil chat session: re-adding that entry panics
    after the map was updated and before anything is sent — the proxy reports an entry the client never got -/
theorem typed_nil_chat_fails_original :
    let ops := [aliceNew 1 "alice" 0, .add [1], Op.beUpsert [.chat] [{ uid := 1 }], .removeAll [1], .add [1]]
    results original (flagsOf 767) State.init ops = [.ok, .ok, .ok, .ok, .panic] ∧
    (reported (run original (flagsOf 767) State.init ops).1 1).isSome = true ∧
    AL.get (Client.handleAll (capsOf 767) [] (run original (flagsOf 767) State.init ops).2) 1 = none := by
  decide

/-- a new API entry with `ShowHat() == false`: nothing is sent, the client shows the hat -/
theorem new_entry_hat_false_fails_original :
    let ops := [Op.new 1 { uid := 1, name := "alice", props := "-", display := none, latency := 0, gameMode := 0,
                           listed := true, order := 0, chatTN := false, hat := false }, .add [1]]
    (reported (run original (flagsOf 769) State.init ops).1 1).map (view (capsOf 769)) ≠
      AL.get (Client.handleAll (capsOf 769) [] (run original (flagsOf 769) State.init ops).2) 1 := by
  decide

/-! ### tie to the source (facts regenerated by tools/gofacts) -/

def before (a b : String) (cs : List String) : Bool := cs.idxOf a < cs.idxOf b && cs.idxOf b < cs.length

open Gate.Gen.C28 in
/-- backend player-info packets are first applied to the tab list, then forwarded; the forward writes the
    original payload -/
theorem src_backend_process_then_forward :
    before "b.serverConn.player.tabList.ProcessUpdate" "b.forwardToPlayer" handleUpsertCalls ∧
    before "b.serverConn.player.tabList.ProcessRemove" "b.forwardToPlayer" handleRemoveCalls ∧
    "b.serverConn.player.Write" ∈ forwardToPlayerCalls := by decide

open Gate.Gen.C28 in
/-- `processUpdateForEntry` applies every field action, the hat included -/
theorem src_process_update_applies_all_fields :
    "e.SetGameModeInternal" ∈ processUpdateForEntryCalls ∧ "e.SetLatencyInternal" ∈ processUpdateForEntryCalls ∧
    "e.SetDisplayNameInternal" ∈ processUpdateForEntryCalls ∧ "e.SetListedInternal" ∈ processUpdateForEntryCalls ∧
    "e.SetListOrderInternal" ∈ processUpdateForEntryCalls ∧ "e.SetShowHatInternal" ∈ processUpdateForEntryCalls ∧
    "e.SetChatSessionInternal" ∈ processUpdateForEntryCalls := by decide

open Gate.Gen.C28 in
/-- shape of the API paths the model mirrors: `Add` = `add` per entry, buffer, flush; `RemoveAll` = delete
    then buffer; setters emit through `WritePacket`; `equalLocked` is `DeepEqual` under try-locks -/
theorem src_api_shape :
    before "t.add" "t.Viewer.BufferPacket" addCalls ∧ before "t.Viewer.BufferPacket" "t.Viewer.Flush" addCalls ∧
    before "t.Lock" "equalLocked" addOneCalls ∧ before "t.Unlock" "equalLocked" addOneCalls ∧
    before "t.deleteEntries" "t.Viewer.BufferPacket" removeAllCalls ∧
    "t.Viewer.WritePacket" ∈ emitActionRawCalls ∧
    equalWithLockerCalls = ["x.TryRLock", "defer:x.RUnlock", "y.TryLock", "defer:y.Unlock", "reflect.DeepEqual", "return"] ∧
    "delete" ∈ processRemoveCalls ∧ before "t.Lock" "t.processUpdateForEntry" processUpdateCalls := by decide

/-! ### non-vacuity -/

/-- a history that mixes every kind of op satisfies the hypothesis of the main theorem -/
example : histOk (flagsOf 769) State.init
    [aliceNew 1 "alice" 1500000, .add [1], .add [1], .set 1 (.gameMode 3),
     .beUpsert [.latency, .add, .hat] [{ uid := 1, latency := 7, hat := false }, { uid := 2, name := "bob", latency := 9 }],
     .setCur 2 (.order 4), aliceNew 2 "alice" 0, .add [2, 1], .beRemove [2], .removeAll []] = true := by decide

/-- … and the theorem then says something non-trivial: both sides hold "alice" with latency 7 ms, spectator, no hat -/
example :
    let ops := [aliceNew 1 "alice" 1500000, .add [1], .set 1 (.gameMode 3),
                Op.beUpsert [.latency, .add, .hat] [{ uid := 1, latency := 7, hat := false }]]
    AL.get (clientAfter 769 ops) 1 =
      some { uid := 1, name := "alice", props := "-", display := none, latency := 7, gameType := 3, listed := true,
             order := 0, hat := false } := by decide

end Gate.C28.Props
