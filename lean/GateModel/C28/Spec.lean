import GateModel.C28.Types
/-
C28 reference: what a VANILLA CLIENT holds in its player-info map after handling the decoded
player-info packets it received.  Transcribed from vanilla (1.19.3 … 1.21.x), not from gate:

  ClientPacketListener.handlePlayerInfoUpdate(packet):
      for (Entry e : packet.newEntries())          // = entries() if actions contains ADD_PLAYER, else empty
          playerInfoMap.putIfAbsent(e.profileId(), new PlayerInfo(e.profile(), …));
      for (Entry e : packet.entries()) {
          PlayerInfo info = playerInfoMap.get(e.profileId());
          if (info == null) continue;               // "Ignoring player info update for unknown player"
          for (Action a : packet.actions())         // EnumSet: iterates in enum declaration order
              applyPlayerInfoUpdate(a, e, info);
      }
  handlePlayerInfoRemove(packet): for (UUID id : packet.profileIds()) playerInfoMap.remove(id);

  new PlayerInfo(profile): gameMode = GameType.DEFAULT_MODE (survival), latency = 0,
      tabListDisplayName = null, showHat = true (1.21.4+), tabListOrder = 0 (1.21.2+), not listed.
  UPDATE_GAME_MODE reads GameType.byId(varint): ids outside 0..3 give SURVIVAL (ByIdMap … ZERO).
  UPDATE_LISTED adds/removes the info in `listedPlayers` (modelled as a field).

A client older than 1.21.2 / 1.21.4 has no list-order / show-hat field; such a field is then reported at
its default (the corresponding action cannot be on the wire for that protocol).

Core Lean only.
-/
namespace Gate.C28

/-- The client's `PlayerInfo` (the fields the property names, plus the hat flag). -/
@[ext] structure CEntry where
  uid      : UUID
  name     : String
  props    : String
  display  : Option String
  latency  : Int          -- milliseconds
  gameType : Nat          -- 0 survival, 1 creative, 2 adventure, 3 spectator
  listed   : Bool
  order    : Int
  hat      : Bool
  deriving DecidableEq, Repr

/-- `GameType.byId` -/
def gameTypeById (id : Int) : Nat := if 0 ≤ id ∧ id ≤ 3 then id.toNat else 0

/-- which client fields exist, by protocol number (vanilla: list order since 768, hat since 769) -/
def capsOf (proto : Int) : Caps := ⟨decide (768 ≤ proto), decide (769 ≤ proto)⟩

/-- `new PlayerInfo(entry.profile())` -/
def newInfo (e : PEntry) : CEntry :=
  { uid := e.uid, name := e.name, props := e.props, display := none, latency := 0, gameType := 0,
    listed := false, order := 0, hat := true }

/-- `applyPlayerInfoUpdate` -/
def applyAction (caps : Caps) (e : PEntry) (ci : CEntry) : Action → CEntry
  | .add => ci
  | .chat => ci                         -- chat session: not part of the compared state
  | .gameMode => { ci with gameType := gameTypeById e.gameMode }
  | .listed => { ci with listed := e.listed }
  | .latency => { ci with latency := e.latency }
  | .display => { ci with display := e.display }
  | .order => if caps.ord then { ci with order := e.order } else ci
  | .hat => if caps.hat then { ci with hat := e.hat } else ci

/-- the packet's `EnumSet<Action>`: a set, iterated in declaration order -/
def enumSet (acts : List Action) : List Action := canonActs acts

def applyActions (caps : Caps) (acts : List Action) (e : PEntry) (ci : CEntry) : CEntry :=
  (enumSet acts).foldl (applyAction caps e) ci

abbrev Client := List (UUID × CEntry)

def putIfAbsent (c : Client) (e : PEntry) : Client :=
  if (AL.get c e.uid).isSome then c else AL.set c e.uid (newInfo e)

def updateEntry (caps : Caps) (acts : List Action) (c : Client) (e : PEntry) : Client :=
  match AL.get c e.uid with
  | none => c
  | some ci => AL.set c e.uid (applyActions caps acts e ci)

def Client.handle (caps : Caps) (c : Client) : Packet → Client
  | .upsert acts es =>
    let c1 := if acts.contains .add then es.foldl putIfAbsent c else c
    es.foldl (updateEntry caps acts) c1
  | .remove ids => ids.foldl AL.erase c

def Client.handleAll (caps : Caps) (c : Client) (ps : List Packet) : Client := ps.foldl (Client.handle caps) c

end Gate.C28
