import GateModel.C28.View
/-
C28 helper lemmas: lookup semantics of association lists, the client's packet handling seen key by key,
the proxy's steps seen key by key, and the invariants of the proxy state.
-/
namespace Gate.C28

/-! ### association lists -/
namespace AL
variable {κ : Type} [DecidableEq κ] {α : Type}

@[simp] theorem get_nil (x : κ) : get ([] : List (κ × α)) x = none := rfl

theorem get_set (m : List (κ × α)) (k : κ) (v : α) (x : κ) :
    get (set m k v) x = if x = k then some v else get m x := by
  induction m with
  | nil => simp [set, get]
  | cons p m ih =>
    obtain ⟨k', v'⟩ := p
    unfold set
    by_cases h : k = k'
    · subst h
      simp only [if_true, get]
      by_cases hx : x = k <;> simp [hx]
    · simp only [if_neg h, get, ih]
      by_cases hx : x = k'
      · have : x ≠ k := fun e => h (e ▸ hx)
        simp [hx]
        intro e; exact absurd e.symm h
      · simp [hx]

theorem get_set_self (m : List (κ × α)) (k : κ) (v : α) : get (set m k v) k = some v := by
  simp [get_set]

theorem get_set_ne (m : List (κ × α)) (k : κ) (v : α) (x : κ) (h : x ≠ k) : get (set m k v) x = get m x := by
  simp [get_set, h]

theorem get_erase (m : List (κ × α)) (k : κ) (x : κ) :
    get (erase m k) x = if x = k then none else get m x := by
  induction m with
  | nil => simp [erase, get]
  | cons p m ih =>
    obtain ⟨k', v'⟩ := p
    unfold erase at ih ⊢
    by_cases h : k' = k
    · subst h
      simp only [List.filter, ne_eq, not_true_eq_false, decide_false, ih, get]
      by_cases hx : x = k' <;> simp [hx]
    · simp only [List.filter, ne_eq, h, not_false_eq_true, decide_true, get, ih]
      by_cases hx : x = k'
      · have : x ≠ k := fun e => h (hx ▸ e)
        simp [hx]
        intro e; exact absurd e h
      · simp [hx]

theorem get_foldl_erase (ids : List κ) (m : List (κ × α)) (x : κ) :
    get (ids.foldl erase m) x = if x ∈ ids then none else get m x := by
  induction ids generalizing m with
  | nil => simp
  | cons i ids ih =>
    simp only [List.foldl_cons, ih, get_erase, List.mem_cons]
    by_cases h1 : x ∈ ids <;> by_cases h2 : x = i <;> simp [h1, h2]

theorem get_eq_none_iff (m : List (κ × α)) (x : κ) : get m x = none ↔ x ∉ keys m := by
  induction m with
  | nil => simp [keys]
  | cons p m ih =>
    obtain ⟨k', v'⟩ := p
    unfold keys at ih ⊢
    simp only [get, List.map_cons, List.mem_cons, not_or]
    by_cases hx : x = k'
    · simp [hx]
    · simp only [hx, if_false, not_false_eq_true, true_and]; exact ih

end AL

/-! ### the vanilla client, key by key -/

def applyRec (caps : Caps) (acts : List Action) (e : PEntry) (ci : CEntry) : CEntry :=
  { ci with
    gameType := if acts.contains .gameMode then gameTypeById e.gameMode else ci.gameType
    listed := if acts.contains .listed then e.listed else ci.listed
    latency := if acts.contains .latency then e.latency else ci.latency
    display := if acts.contains .display then e.display else ci.display
    order := if acts.contains .order && caps.ord then e.order else ci.order
    hat := if acts.contains .hat && caps.hat then e.hat else ci.hat }

theorem foldl_filter {α β : Type} (p : α → Bool) (f : β → α → β) (l : List α) (x : β) :
    (l.filter p).foldl f x = l.foldl (fun x a => if p a then f x a else x) x := by
  induction l generalizing x with
  | nil => rfl
  | cons a l ih =>
    simp only [List.filter]
    cases h : p a <;> simp [ih, h]

section fold
variable (caps : Caps) (e : PEntry) (p : Action → Bool)

/-- one step of the client's loop over the packet's action set -/
def actStep (ci : CEntry) (a : Action) : CEntry := if p a then applyAction caps e ci a else ci

theorem fold_uid (L : List Action) (ci : CEntry) : (L.foldl (actStep caps e p) ci).uid = ci.uid := by
  induction L generalizing ci with
  | nil => rfl
  | cons a L ih =>
    simp only [List.foldl, ih, actStep]
    by_cases hp : p a = true <;> cases a <;> simp only [applyAction, hp, if_true, if_false, Bool.false_eq_true] <;> (try split) <;> rfl
theorem fold_name (L : List Action) (ci : CEntry) : (L.foldl (actStep caps e p) ci).name = ci.name := by
  induction L generalizing ci with
  | nil => rfl
  | cons a L ih =>
    simp only [List.foldl, ih, actStep]
    by_cases hp : p a = true <;> cases a <;> simp only [applyAction, hp, if_true, if_false, Bool.false_eq_true] <;> (try split) <;> rfl
theorem fold_props (L : List Action) (ci : CEntry) : (L.foldl (actStep caps e p) ci).props = ci.props := by
  induction L generalizing ci with
  | nil => rfl
  | cons a L ih =>
    simp only [List.foldl, ih, actStep]
    by_cases hp : p a = true <;> cases a <;> simp only [applyAction, hp, if_true, if_false, Bool.false_eq_true] <;> (try split) <;> rfl

theorem fold_listed (L : List Action) (ci : CEntry) : (L.foldl (actStep caps e p) ci).listed =
    if L.any (fun a => p a && a == Action.listed) then e.listed else ci.listed := by
  induction L generalizing ci with
  | nil => rfl
  | cons a L ih =>
    simp only [List.foldl, ih, actStep, List.any_cons]
    by_cases hp : p a = true <;> by_cases ho : caps.ord = true <;> by_cases hh : caps.hat = true <;>
      cases a <;> simp [applyAction, hp, ho, hh] <;> (try split) <;> simp_all
theorem fold_latency (L : List Action) (ci : CEntry) : (L.foldl (actStep caps e p) ci).latency =
    if L.any (fun a => p a && a == Action.latency) then e.latency else ci.latency := by
  induction L generalizing ci with
  | nil => rfl
  | cons a L ih =>
    simp only [List.foldl, ih, actStep, List.any_cons]
    by_cases hp : p a = true <;> by_cases ho : caps.ord = true <;> by_cases hh : caps.hat = true <;>
      cases a <;> simp [applyAction, hp, ho, hh] <;> (try split) <;> simp_all
theorem fold_display (L : List Action) (ci : CEntry) : (L.foldl (actStep caps e p) ci).display =
    if L.any (fun a => p a && a == Action.display) then e.display else ci.display := by
  induction L generalizing ci with
  | nil => rfl
  | cons a L ih =>
    simp only [List.foldl, ih, actStep, List.any_cons]
    by_cases hp : p a = true <;> by_cases ho : caps.ord = true <;> by_cases hh : caps.hat = true <;>
      cases a <;> simp [applyAction, hp, ho, hh] <;> (try split) <;> simp_all
theorem fold_gameType (L : List Action) (ci : CEntry) : (L.foldl (actStep caps e p) ci).gameType =
    if L.any (fun a => p a && a == Action.gameMode) then gameTypeById e.gameMode else ci.gameType := by
  induction L generalizing ci with
  | nil => rfl
  | cons a L ih =>
    simp only [List.foldl, ih, actStep, List.any_cons]
    by_cases hp : p a = true <;> by_cases ho : caps.ord = true <;> by_cases hh : caps.hat = true <;>
      cases a <;> simp [applyAction, hp, ho, hh] <;> (try split) <;> simp_all
theorem fold_order (L : List Action) (ci : CEntry) : (L.foldl (actStep caps e p) ci).order =
    if L.any (fun a => p a && a == Action.order) && caps.ord then e.order else ci.order := by
  induction L generalizing ci with
  | nil => simp
  | cons a L ih =>
    simp only [List.foldl, ih, actStep, List.any_cons]
    by_cases hp : p a = true <;> by_cases hc : caps.ord = true <;> by_cases hh : caps.hat = true <;>
      cases a <;> simp [applyAction, hp, hc, hh]
theorem fold_hat (L : List Action) (ci : CEntry) : (L.foldl (actStep caps e p) ci).hat =
    if L.any (fun a => p a && a == Action.hat) && caps.hat then e.hat else ci.hat := by
  induction L generalizing ci with
  | nil => simp
  | cons a L ih =>
    simp only [List.foldl, ih, actStep, List.any_cons]
    by_cases hp : p a = true <;> by_cases hc : caps.hat = true <;> by_cases ho : caps.ord = true <;>
      cases a <;> simp [applyAction, hp, hc, ho]
end fold

theorem applyActions_eq (caps : Caps) (acts : List Action) (e : PEntry) (ci : CEntry) :
    applyActions caps acts e ci = applyRec caps acts e ci := by
  unfold applyActions enumSet canonActs
  rw [foldl_filter]
  show allActions.foldl (actStep caps e acts.contains) ci = _
  apply CEntry.ext
  · rw [fold_uid]; rfl
  · rw [fold_name]; rfl
  · rw [fold_props]; rfl
  · rw [fold_display]; simp [allActions, applyRec]
  · rw [fold_latency]; simp [allActions, applyRec]
  · rw [fold_gameType]; simp [allActions, applyRec]
  · rw [fold_listed]; simp [allActions, applyRec]
  · rw [fold_order]; simp [allActions, applyRec]
  · rw [fold_hat]; simp [allActions, applyRec]

/-- the effect of one entry of an update packet on what the client holds for that entry's key -/
def ptC (caps : Caps) (acts : List Action) (e : PEntry) : Option CEntry → Option CEntry
  | some ci => some (applyActions caps acts e ci)
  | none => if acts.contains .add then some (applyActions caps acts e (newInfo e)) else none

theorem get_putIfAbsent (c : Client) (e : PEntry) (u : UUID) :
    AL.get (putIfAbsent c e) u =
      if u = e.uid then (match AL.get c u with | some x => some x | none => some (newInfo e)) else AL.get c u := by
  unfold putIfAbsent
  by_cases hu : u = e.uid
  · subst hu
    cases h : AL.get c e.uid <;> simp [h, AL.get_set]
  · cases h : AL.get c e.uid <;> simp [AL.get_set, hu]

theorem get_updateEntry (caps : Caps) (acts : List Action) (c : Client) (e : PEntry) (u : UUID) :
    AL.get (updateEntry caps acts c e) u =
      if u = e.uid then (AL.get c u).map (applyActions caps acts e) else AL.get c u := by
  unfold updateEntry
  by_cases hu : u = e.uid
  · subst hu
    cases h : AL.get c e.uid <;> simp [h, AL.get_set]
  · cases h : AL.get c e.uid <;> simp [AL.get_set, hu]

/-- the entries of a packet that concern key `u` -/
def forKey (u : UUID) (es : List PEntry) : List PEntry := es.filter (fun e => decide (e.uid = u))

theorem forKey_cons_eq (u : UUID) (e : PEntry) (es : List PEntry) (h : e.uid = u) :
    forKey u (e :: es) = e :: forKey u es := by simp [forKey, h]
theorem forKey_cons_ne (u : UUID) (e : PEntry) (es : List PEntry) (h : e.uid ≠ u) :
    forKey u (e :: es) = forKey u es := by simp [forKey, h]

theorem get_foldl_putIfAbsent (es : List PEntry) (c : Client) (u : UUID) :
    AL.get (es.foldl putIfAbsent c) u =
      match AL.get c u with
      | some x => some x
      | none => (forKey u es).head?.map newInfo := by
  induction es generalizing c with
  | nil => cases h : AL.get c u <;> simp [h, forKey]
  | cons e es ih =>
    simp only [List.foldl_cons, ih, get_putIfAbsent]
    by_cases hu : u = e.uid
    · subst hu
      cases h : AL.get c e.uid <;> simp [forKey]
    · have : e.uid ≠ u := fun x => hu x.symm
      simp only [hu, if_false, forKey_cons_ne _ _ _ this]

theorem get_foldl_updateEntry (caps : Caps) (acts : List Action) (es : List PEntry) (c : Client) (u : UUID) :
    AL.get (es.foldl (updateEntry caps acts) c) u =
      (AL.get c u).map (fun ci => (forKey u es).foldl (fun ci e => applyActions caps acts e ci) ci) := by
  induction es generalizing c with
  | nil => cases h : AL.get c u <;> simp [h, forKey]
  | cons e es ih =>
    simp only [List.foldl_cons, ih, get_updateEntry]
    by_cases hu : u = e.uid
    · subst hu
      cases h : AL.get c e.uid <;> simp [forKey]
    · have : e.uid ≠ u := fun x => hu x.symm
      simp only [hu, if_false, forKey_cons_ne _ _ _ this]

theorem foldl_ptC_some (caps : Caps) (acts : List Action) (L : List PEntry) (ci : CEntry) :
    L.foldl (fun x e => ptC caps acts e x) (some ci) =
      some (L.foldl (fun ci e => applyActions caps acts e ci) ci) := by
  induction L generalizing ci with
  | nil => rfl
  | cons e L ih => rw [List.foldl_cons]; exact ih _

theorem foldl_ptC_none (caps : Caps) (acts : List Action) (L : List PEntry) (h : acts.contains .add = false) :
    L.foldl (fun x e => ptC caps acts e x) none = none := by
  induction L with
  | nil => rfl
  | cons e L ih =>
    rw [List.foldl_cons]
    have : ptC caps acts e none = none := by
      show (if acts.contains Action.add = true then _ else none) = none
      rw [h]; rfl
    rw [this]; exact ih

/-- The client's two-phase handling of an update packet (first `putIfAbsent` for all new entries, then the
    actions of all entries) equals, key by key, handling the entries one after the other. -/
theorem get_handle_upsert (caps : Caps) (c : Client) (acts : List Action) (es : List PEntry) (u : UUID) :
    AL.get (Client.handle caps c (.upsert acts es)) u =
      (forKey u es).foldl (fun x e => ptC caps acts e x) (AL.get c u) := by
  simp only [Client.handle, get_foldl_updateEntry]
  cases hadd : acts.contains Action.add
  · simp only [Bool.false_eq_true, if_false]
    cases h : AL.get c u
    · simp [foldl_ptC_none _ _ _ hadd]
    · simp [foldl_ptC_some]
  · simp only [if_true, get_foldl_putIfAbsent]
    cases h : AL.get c u
    · cases hL : forKey u es with
      | nil => simp
      | cons e L =>
        have hp : ptC caps acts e none = some (applyActions caps acts e (newInfo e)) := by
          show (if acts.contains Action.add = true then _ else none) = _
          rw [hadd]; rfl
        rw [List.foldl_cons, hp, foldl_ptC_some]; simp
    · simp [foldl_ptC_some]

theorem get_handle_remove (caps : Caps) (c : Client) (ids : List UUID) (u : UUID) :
    AL.get (Client.handle caps c (.remove ids)) u = if u ∈ ids then none else AL.get c u := by
  simp only [Client.handle, AL.get_foldl_erase]

/-! ### the proxy state: invariants and the reported entries key by key -/

structure Inv (s : State) : Prop where
  /-- every map entry points to a live object whose profile id is the key -/
  keyed : ∀ u r, AL.get s.map u = some r → ∃ a, AL.get s.heap r = some a ∧ a.uid = u
  /-- objects `ProcessUpdate` will allocate do not exist yet -/
  fresh : ∀ k, s.nbe ≤ k → AL.get s.heap (Ref.be k) = none
  /-- (repaired code) no object carries a typed-nil chat session -/
  noTN : ∀ r a, AL.get s.heap r = some a → a.chatTN = false
  /-- `add` never stores an API object under the all-zero uuid -/
  apiNonNil : ∀ u h, AL.get s.map u = some (Ref.api h) → u ≠ nilUUID

theorem Inv.init : Inv State.init :=
  ⟨fun _ _ h => by simp [State.init] at h, fun _ _ => rfl, fun _ _ h => by simp [State.init] at h,
   fun _ _ h => by simp [State.init] at h⟩

theorem Inv.unique {s : State} (hi : Inv s) {u u' : UUID} {r : Ref}
    (h : AL.get s.map u = some r) (h' : AL.get s.map u' = some r) : u = u' := by
  obtain ⟨a, ha, hu⟩ := hi.keyed u r h
  obtain ⟨a', ha', hu'⟩ := hi.keyed u' r h'
  rw [ha] at ha'; cases ha'; rw [← hu, ← hu']

theorem reported_of {s : State} {u : UUID} {r : Ref} (h : AL.get s.map u = some r) :
    reported s u = AL.get s.heap r := by simp [reported, h]

theorem reported_none {s : State} {u : UUID} (h : AL.get s.map u = none) : reported s u = none := by
  simp [reported, h]

/-- mutating the object `r` (keeping its profile id): only the key that holds `r` sees it -/
theorem heap_set_reported (s : State) (r : Ref) (a' : Attrs) (u : UUID) :
    reported { s with heap := AL.set s.heap r a' } u =
      if AL.get s.map u = some r then some a' else reported s u := by
  unfold reported
  cases hm : AL.get s.map u with
  | none => simp
  | some r' =>
    by_cases h : r' = r
    · subst h; simp [AL.get_set]
    · simp [AL.get_set, h]

theorem heap_set_inv {s : State} (hi : Inv s) {r : Ref} {a a' : Attrs}
    (hr : AL.get s.heap r = some a) (hu : a'.uid = a.uid) (htn : a'.chatTN = false) :
    Inv { s with heap := AL.set s.heap r a' } := by
  refine ⟨?_, ?_, ?_, hi.apiNonNil⟩
  · intro u r' h
    obtain ⟨b, hb, hbu⟩ := hi.keyed u r' h
    by_cases e : r' = r
    · subst e; rw [hr] at hb; cases hb
      exact ⟨a', by simp [AL.get_set], by rw [hu, hbu]⟩
    · exact ⟨b, by simp [AL.get_set, e, hb], hbu⟩
  · intro k hk
    have := hi.fresh k hk
    by_cases e : Ref.be k = r
    · subst e; rw [hr] at this; cases this
    · simp [AL.get_set, e, this]
  · intro r' b hb
    by_cases e : r' = r
    · subst e; simp [AL.get_set] at hb; subst hb; exact htn
    · simp [AL.get_set, e] at hb; exact hi.noTN r' b hb

/-- `m[a.uid] = h` for a live object `h` with attributes `a` -/
theorem map_set_reported {s : State} {h : Ref} {a : Attrs} (hh : AL.get s.heap h = some a) (u : UUID) :
    reported { s with map := AL.set s.map a.uid h } u = if u = a.uid then some a else reported s u := by
  unfold reported
  by_cases e : u = a.uid
  · subst e; simp [AL.get_set, hh]
  · simp [AL.get_set, e]

theorem map_set_inv {s : State} (hi : Inv s) {h : Ref} {a : Attrs} (hh : AL.get s.heap h = some a)
    (hn : ∀ n, h = Ref.api n → a.uid ≠ nilUUID) :
    Inv { s with map := AL.set s.map a.uid h } := by
  refine ⟨?_, hi.fresh, hi.noTN, ?_⟩
  · intro u r hm
    by_cases e : u = a.uid
    · subst e; simp [AL.get_set] at hm; subst hm; exact ⟨a, hh, rfl⟩
    · simp [AL.get_set, e] at hm; exact hi.keyed u r hm
  · intro u n hm
    by_cases e : u = a.uid
    · subst e; simp [AL.get_set] at hm; exact hn n hm
    · simp [AL.get_set, e] at hm; exact hi.apiNonNil u n hm

theorem map_erase_reported (s : State) (ids : List UUID) (u : UUID) :
    reported { s with map := ids.foldl AL.erase s.map } u = if u ∈ ids then none else reported s u := by
  unfold reported
  simp only [AL.get_foldl_erase]
  by_cases e : u ∈ ids <;> simp [e]

theorem map_erase_inv {s : State} (hi : Inv s) (ids : List UUID) :
    Inv { s with map := ids.foldl AL.erase s.map } := by
  refine ⟨?_, hi.fresh, hi.noTN, ?_⟩
  · intro u r hm
    simp only [AL.get_foldl_erase] at hm
    by_cases e : u ∈ ids
    · simp [e] at hm
    · simp [e] at hm; exact hi.keyed u r hm
  · intro u n hm
    simp only [AL.get_foldl_erase] at hm
    by_cases e : u ∈ ids
    · simp [e] at hm
    · simp [e] at hm; exact hi.apiNonNil u n hm

theorem map_clear_inv {s : State} (hi : Inv s) : Inv { s with map := [] } :=
  ⟨fun _ _ h => by simp at h, hi.fresh, hi.noTN, fun _ _ h => by simp at h⟩

/-! ### the comparison `view` against the client's field updates -/

def Sim (fl : Caps) (s : State) (c : Client) : Prop := ∀ u, (reported s u).map (view fl) = AL.get c u

theorem msOf_mul (ms : Int) : msOf (ms * 1000000) = ms := by
  unfold msOf; exact Int.mul_tdiv_cancel ms (by decide)

theorem gameTypeById_neg_one : gameTypeById (-1) = 0 := by decide
theorem gameTypeById_256 : gameTypeById 256 = 0 := by decide

theorem view_beDefault (fl : Caps) (e : PEntry) : view fl (beDefault e) = newInfo e := by
  apply CEntry.ext <;> simp [view, beDefault, newInfo, msOf, gameTypeById_neg_one]

theorem view_applyBackend (fl : Caps) (acts : List Action) (e : PEntry) (a : Attrs) :
    view fl (applyBackend repaired acts e a) = applyActions fl acts e (view fl a) := by
  rw [applyActions_eq]
  obtain ⟨o, h⟩ := fl
  apply CEntry.ext <;> simp [view, applyBackend, applyRec, repaired] <;>
    cases o <;> cases h <;> (try simp) <;> (try split) <;> simp_all [msOf_mul]

theorem view_setField (fl : Caps) (a : Attrs) (f : Field) (p : Packet) (hp : fieldPacket fl a.uid f = some p) :
    ∃ act e, p = .upsert [act] [e] ∧ e.uid = a.uid ∧ [act].contains Action.add = false ∧
      view fl (a.setField f) = applyActions fl [act] e (view fl a) := by
  obtain ⟨o, h⟩ := fl
  cases f <;> simp only [fieldPacket] at hp
  case display v =>
    cases hp; refine ⟨_, _, rfl, rfl, by decide, ?_⟩
    rw [applyActions_eq]; apply CEntry.ext <;> simp [view, Attrs.setField, applyRec]
  case latency v =>
    cases hp; refine ⟨_, _, rfl, rfl, by decide, ?_⟩
    rw [applyActions_eq]; apply CEntry.ext <;> simp [view, Attrs.setField, applyRec]
  case gameMode v =>
    cases hp; refine ⟨_, _, rfl, rfl, by decide, ?_⟩
    rw [applyActions_eq]; apply CEntry.ext <;> simp [view, Attrs.setField, applyRec]
  case listed v =>
    cases hp; refine ⟨_, _, rfl, rfl, by decide, ?_⟩
    rw [applyActions_eq]; apply CEntry.ext <;> simp [view, Attrs.setField, applyRec]
  case order v =>
    cases o <;> simp at hp
    cases hp; refine ⟨_, _, rfl, rfl, by decide, ?_⟩
    rw [applyActions_eq]; apply CEntry.ext <;> simp [view, Attrs.setField, applyRec]
  case hat v =>
    cases h <;> simp at hp
    cases hp; refine ⟨_, _, rfl, rfl, by decide, ?_⟩
    rw [applyActions_eq]; apply CEntry.ext <;> simp [view, Attrs.setField, applyRec]

theorem view_setField_none (fl : Caps) (a : Attrs) (f : Field) (hp : fieldPacket fl a.uid f = none) :
    view fl (a.setField f) = view fl a := by
  obtain ⟨o, h⟩ := fl
  cases f <;> simp only [fieldPacket] at hp <;> (try cases hp)
  case order v =>
    cases o <;> simp at hp
    apply CEntry.ext <;> simp [view, Attrs.setField]
  case hat v =>
    cases h <;> simp at hp
    apply CEntry.ext <;> simp [view, Attrs.setField]

theorem setField_uid (a : Attrs) (f : Field) : (a.setField f).uid = a.uid := by cases f <;> rfl
theorem setField_chatTN (a : Attrs) (f : Field) : (a.setField f).chatTN = a.chatTN := by cases f <;> rfl

/-- a brand-new entry: the packet `add` builds makes the client hold exactly what the proxy reports -/
theorem view_newEntry (fl : Caps) (a : Attrs) :
    applyActions fl (newActs repaired fl a) (newEntry a) (newInfo (newEntry a)) = view fl a := by
  rw [applyActions_eq]
  obtain ⟨o, h⟩ := fl
  apply CEntry.ext <;> simp [view, applyRec, newActs, newEntry, newInfo, baseEntry, repaired]
  · intro h; exact h.symm
  · intro hg
    by_cases h1 : a.gameMode = -1
    · rw [h1]; rfl
    · rw [hg h1]; rfl
  · cases o <;> simp
    intro h0; exact h0.symm

/-- an existing entry with the same profile: the diff packet moves the client from the old entry's view
    to the new entry's view -/
theorem view_updEntry (fl : Caps) (p a : Attrs) (hu : p.uid = a.uid) (hn : p.name = a.name) (hp : p.props = a.props) :
    applyActions fl (updActs fl p a) (updEntry p a) (view fl p) = view fl a := by
  rw [applyActions_eq]
  obtain ⟨o, h⟩ := fl
  apply CEntry.ext <;> simp [view, applyRec, updActs, updEntry, baseEntry, hu, hn, hp]
  · split <;> simp_all
  · split <;> simp_all
  · intro hg; rw [hg]
  · cases o <;> simp
  · cases h <;> cases hp' : p.hat <;> cases ha' : a.hat <;> simp


end Gate.C28
