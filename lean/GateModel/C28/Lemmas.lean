import GateModel.C28.View
/-
C28 helper lemmas: lookup semantics of association lists, the client's packet handling seen key by key,
the proxy's steps seen key by key, and the invariants of the proxy state.
-/
namespace Gate.C28

/-! ### association lists -/
namespace AL
variable {κ : Type} [DecidableEq κ] {α : Type}

@[simp] theorem get_nil (x : κ) : get ([] : List (κ × α)) x = none := rfl

theorem get_set (m : List (κ × α)) (k : κ) (v : α) (x : κ) :
    get (set m k v) x = if x = k then some v else get m x := by
  induction m with
  | nil => simp [set, get]
  | cons p m ih =>
    obtain ⟨k', v'⟩ := p
    unfold set
    by_cases h : k = k'
    · subst h
      simp only [if_true, get]
      by_cases hx : x = k <;> simp [hx]
    · simp only [if_neg h, get, ih]
      by_cases hx : x = k'
      · have : x ≠ k := fun e => h (e ▸ hx)
        simp [hx]
        intro e; exact absurd e.symm h
      · simp [hx]

theorem get_set_self (m : List (κ × α)) (k : κ) (v : α) : get (set m k v) k = some v := by
  simp [get_set]

theorem get_set_ne (m : List (κ × α)) (k : κ) (v : α) (x : κ) (h : x ≠ k) : get (set m k v) x = get m x := by
  simp [get_set, h]

theorem get_erase (m : List (κ × α)) (k : κ) (x : κ) :
    get (erase m k) x = if x = k then none else get m x := by
  induction m with
  | nil => simp [erase, get]
  | cons p m ih =>
    obtain ⟨k', v'⟩ := p
    unfold erase at ih ⊢
    by_cases h : k' = k
    · subst h
      simp only [List.filter, ne_eq, not_true_eq_false, decide_false, ih, get]
      by_cases hx : x = k' <;> simp [hx]
    · simp only [List.filter, ne_eq, h, not_false_eq_true, decide_true, get, ih]
      by_cases hx : x = k'
      · have : x ≠ k := fun e => h (hx ▸ e)
        simp [hx]
        intro e; exact absurd e h
      · simp [hx]

theorem get_foldl_erase (ids : List κ) (m : List (κ × α)) (x : κ) :
    get (ids.foldl erase m) x = if x ∈ ids then none else get m x := by
  induction ids generalizing m with
  | nil => simp
  | cons i ids ih =>
    simp only [List.foldl_cons, ih, get_erase, List.mem_cons]
    by_cases h1 : x ∈ ids <;> by_cases h2 : x = i <;> simp [h1, h2]

theorem get_eq_none_iff (m : List (κ × α)) (x : κ) : get m x = none ↔ x ∉ keys m := by
  induction m with
  | nil => simp [keys]
  | cons p m ih =>
    obtain ⟨k', v'⟩ := p
    unfold keys at ih ⊢
    simp only [get, List.map_cons, List.mem_cons, not_or]
    by_cases hx : x = k'
    · simp [hx]
    · simp only [hx, if_false, not_false_eq_true, true_and]; exact ih

end AL
end Gate.C28
