import GateModel.C28.Model
import GateModel.C28.Spec
/-
C28 — the comparison between the two sides: what a vanilla client with capabilities `fl` holds for a
tab-list entry with the proxy-side attributes `a`.  Latency is compared in the protocol's unit
(milliseconds, Go's truncating `Duration.Milliseconds`), the game mode through the client's own
`GameType.byId`, list order / hat only when the client's protocol has the field.  Core Lean only.
-/
namespace Gate.C28

def view (fl : Caps) (a : Attrs) : CEntry :=
  { uid := a.uid, name := a.name, props := a.props, display := a.display, latency := msOf a.latency,
    gameType := gameTypeById a.gameMode, listed := a.listed,
    order := if fl.ord then a.order else 0, hat := if fl.hat then a.hat else true }

end Gate.C28
