import GateModel.Base.Line
import GateModel.C28.View
/-
C28 driver.  Case lines (args separated by one space):

  reset <proto>
  new <h> <uid> <name> <props> <dn|~> <latencyNs> <gameMode> <listed> <order> <hat>
  add <h>…                       TabList.Add(entries…)
  set <h> <field> <value>        entry.SetX on a kept handle        field ∈ dn lat gm li ord hat
  setcur <uid> <field> <value>   Entries()[uid].SetX
  rm <uid>…                      TabList.RemoveAll(ids…)   (no ids = all)
  bup <acts> <entry>…            backend update: decoded by gate, ProcessUpdate, forwarded
  brm <uid>…                     backend remove: ProcessRemove, forwarded

Output (impl and model):  `<ok|err|panic> <packets> <entries>`
  packets  = `-` or `;`-joined   U/<acts>/<entry>/…   |  R/<uid>,…
  acts     = `-` or `,`-joined action names in ActionSet order
  entry    = uid:name:props:listed:latency:gameMode:dn:hat:order, `_` for a field whose action is not in the set
  entries  = `-` or `,`-joined, sorted by key:  key:profileId:name:props:dn:latencyNs:gameMode:listed:order:hat

Spec verdict: the packets THE IMPLEMENTATION reports are fed to the vanilla client (Spec.lean); after every
op the entries THE IMPLEMENTATION reports, seen through `view`, must equal the client's map.
Differences explained by one of the two recorded hazards (computed on the model's pre-state) carry that
hazard's signature; every other difference is `viol:mismatch-<field>`; a panic is `viol:panic`.
-/
namespace Gate.C28
open Gate

/-! ### printing -/

def actName : Action → String
  | .add => "add" | .chat => "chat" | .gameMode => "gm" | .listed => "li"
  | .latency => "lat" | .display => "dn" | .order => "ord" | .hat => "hat"

def parseAct : String → Option Action
  | "add" => some .add | "chat" => some .chat | "gm" => some .gameMode | "li" => some .listed
  | "lat" => some .latency | "dn" => some .display | "ord" => some .order | "hat" => some .hat
  | _ => none

def showB (b : Bool) : String := if b then "1" else "0"
def showDn : Option String → String
  | none => "~" | some t => t
def showList (sep : String) (xs : List String) : String := if xs.isEmpty then "-" else sep.intercalate xs

def showEntry (acts : List Action) (e : PEntry) : String :=
  let f (a : Action) (s : String) := if acts.contains a then s else "_"
  ":".intercalate [toString e.uid, f .add e.name, f .add e.props, f .listed (showB e.listed),
    f .latency (toString e.latency), f .gameMode (toString e.gameMode), f .display (showDn e.display),
    f .hat (showB e.hat), f .order (toString e.order)]

def leNat (a b : Nat) : Bool := a ≤ b

def showPacket : Packet → String
  | .upsert acts es => "/".intercalate (["U", showList "," (acts.map actName)] ++ es.map (showEntry acts))
  | .remove ids => "R/" ++ showList "," (ids.map toString)

def showAttrs (k : UUID) (a : Attrs) : String :=
  ":".intercalate [toString k, toString a.uid, a.name, a.props, showDn a.display, toString a.latency,
    toString a.gameMode, showB a.listed, toString a.order, showB a.hat]

def entriesOf (s : State) : List (UUID × Attrs) :=
  s.map.filterMap fun (u, r) => (AL.get s.heap r).map fun a => (u, a)

def sortByKey {α} (xs : List (UUID × α)) : List (UUID × α) := xs.mergeSort fun a b => leNat a.1 b.1

def showEntries (es : List (UUID × Attrs)) : String :=
  showList "," ((sortByKey es).map fun (k, a) => showAttrs k a)

def showRes : Res → String
  | .ok => "ok" | .err => "err" | .panic => "panic"

/-! ### parsing -/

def parseB : String → Option Bool
  | "1" => some true | "0" => some false | "_" => some false | _ => none
def parseDn (s : String) : Option String := if s = "~" || s = "_" then none else some s
def parseI (s : String) : Option Int := if s = "_" then some 0 else s.toInt?

def parseEntry (s : String) : Option PEntry :=
  match s.splitOn ":" with
  | [u, n, p, li, lat, gm, dn, hat, ord] => do
    pure { uid := ← u.toNat?, name := if n = "_" then "" else n, props := if p = "_" then "-" else p,
           listed := ← parseB li, latency := ← parseI lat, gameMode := ← parseI gm, display := parseDn dn,
           hat := ← parseB hat, order := ← parseI ord }
  | _ => none

def parseActs (s : String) : Option (List Action) :=
  if s = "-" then some [] else (s.splitOn ",").mapM parseAct
def parseIds (s : String) : Option (List UUID) :=
  if s = "-" then some [] else (s.splitOn ",").mapM String.toNat?

def parsePacket (s : String) : Option Packet :=
  match s.splitOn "/" with
  | "U" :: acts :: es => do pure (.upsert (← parseActs acts) (← es.mapM parseEntry))
  | ["R", ids] => do pure (.remove (← parseIds ids))
  | _ => none

def parsePackets (s : String) : Option (List Packet) :=
  if s = "-" then some [] else (s.splitOn ";").mapM parsePacket

def parseAttrs (s : String) : Option (UUID × Attrs) :=
  match s.splitOn ":" with
  | [k, u, n, p, dn, lat, gm, li, ord, hat] => do
    pure (← k.toNat?, { uid := ← u.toNat?, name := n, props := p, display := parseDn dn, latency := ← lat.toInt?,
                        gameMode := ← gm.toInt?, listed := ← parseB li, order := ← ord.toInt?, chatTN := false,
                        hat := ← parseB hat })
  | _ => none

def parseEntries (s : String) : Option (List (UUID × Attrs)) :=
  if s = "-" then some [] else (s.splitOn ",").mapM parseAttrs

def parseField (f v : String) : Option Field :=
  match f with
  | "dn" => some (.display (parseDn v))
  | "lat" => v.toInt?.map .latency
  | "gm" => v.toInt?.map .gameMode
  | "li" => (parseB v).map .listed
  | "ord" => v.toInt?.map .order
  | "hat" => (parseB v).map .hat
  | _ => none

def fieldName : Field → String
  | .display _ => "dn" | .latency _ => "lat" | .gameMode _ => "gm" | .listed _ => "li" | .order _ => "ord" | .hat _ => "hat"

def parseOp (c : Case) : Option Op :=
  match c.op, c.args with
  | "new", [h, u, n, p, dn, lat, gm, li, ord, hat] => do
    pure (.new (← h.toNat?) { uid := ← u.toNat?, name := n, props := p, display := parseDn dn, latency := ← lat.toInt?,
                              gameMode := ← gm.toInt?, listed := ← parseB li, order := ← ord.toInt?, chatTN := false,
                              hat := ← parseB hat })
  | "add", hs => do pure (.add (← hs.mapM String.toNat?))
  | "set", [h, f, v] => do pure (.set (← h.toNat?) (← parseField f v))
  | "setcur", [u, f, v] => do pure (.setCur (← u.toNat?) (← parseField f v))
  | "rm", ids => do pure (.removeAll (← ids.mapM String.toNat?))
  | "bup", acts :: es => do pure (.beUpsert (← parseActs acts) (← es.mapM parseEntry))
  | "brm", ids => do pure (.beRemove (← ids.mapM String.toNat?))
  | _, _ => none

/-! ### spec evaluation -/

/-- differing (uuid, field) pairs between the proxy's reported entries and the client's map -/
def diffEntry (u : UUID) : Option CEntry → Option CEntry → List (UUID × String)
  | none, none => []
  | some _, none => [(u, "extra-on-proxy")]
  | none, some _ => [(u, "missing-on-proxy")]
  | some a, some b =>
    (if a.uid ≠ b.uid then [(u, "id")] else []) ++ (if a.name ≠ b.name then [(u, "name")] else []) ++
    (if a.props ≠ b.props then [(u, "props")] else []) ++ (if a.display ≠ b.display then [(u, "dn")] else []) ++
    (if a.latency ≠ b.latency then [(u, "lat")] else []) ++ (if a.gameType ≠ b.gameType then [(u, "gm")] else []) ++
    (if a.listed ≠ b.listed then [(u, "li")] else []) ++ (if a.order ≠ b.order then [(u, "ord")] else []) ++
    (if a.hat ≠ b.hat then [(u, "hat")] else [])

def diffAll (fl : Caps) (es : List (UUID × Attrs)) (c : Client) : List (UUID × String) :=
  let ks := (es.map (·.1) ++ AL.keys c).eraseDups
  ks.flatMap fun u => diffEntry u ((AL.get es u).map (view fl)) (AL.get c u)

structure DState where
  proto  : Int := 0
  s      : State := {}
  c      : Client := []                       -- vanilla client fed with the implementation's packets
  taints : List ((UUID × String) × String) := []   -- (uuid, field) explained by a recorded hazard ↦ its signature

def sigProfile := "add-keeps-old-profile"
def sigStale := "stale-handle-update"
def sigNil := "nil-uuid-setter-error"

/-- the (uuid, field) differences op may legitimately (= as recorded) introduce, from the model's pre-state -/
def hazardsOf (fl : Caps) (s : State) : Op → List ((UUID × String) × String)
  | .add hs => (addHazards repaired fl s (hs.map Ref.api)).flatMap fun u => [((u, "name"), sigProfile), ((u, "props"), sigProfile)]
  | .set h f =>
    if staleRef s (.api h) then
      match AL.get s.heap (.api h) with
      | some a => [((a.uid, fieldName f), sigStale)]
      | none => []
    else []
  | .setCur u f => if nilSetHazard fl s u f then [((u, fieldName f), sigNil)] else []
  | _ => []

def stepCase (d : DState) (c : Case) : DState × String × String :=
  if c.op = "reset" then
    match c.args with
    | [p] => match p.toInt? with
      | some p => ({ proto := p }, "ok - -", "-")
      | none => (d, "bad-op", "-")
    | _ => (d, "bad-op", "-")
  else
  match parseOp c with
  | none => (d, "bad-op", "-")
  | some op =>
    let fl := flagsOf d.proto
    let hz := hazardsOf fl d.s op
    let (s', r, ps) := step repaired fl d.s op
    -- a Remove built from a Go map iteration has no defined order: canonical (sorted) on both sides
    let ps := match op, ps with
      | .removeAll [], [.remove ids] => [Packet.remove (ids.mergeSort leNat)]
      | _, ps => ps
    let out := showRes r ++ " " ++ showList ";" (ps.map showPacket) ++ " " ++ showEntries (entriesOf s')
    -- spec on the implementation's output
    match c.impl.splitOn " " with
    | [ir, ipk, ien] =>
      match parsePackets ipk, parseEntries ien with
      | some ips, some ies =>
        let caps := capsOf d.proto
        let c' := Client.handleAll caps d.c ips
        let ds := diffAll caps ies c'
        let taints := (d.taints ++ hz).filter fun t => ds.contains t.1
        let unexplained := ds.filter fun x => !(taints.map (·.1)).contains x
        let verdict :=
          if ir = "panic" then "viol:panic"
          else if ds.isEmpty then "ok"
          else match unexplained with
            | (_, f) :: _ => "viol:mismatch-" ++ f
            | [] => match taints with
              | (_, sig) :: _ => "viol:" ++ sig
              | [] => "viol:mismatch"
        ({ d with s := s', c := c', taints := taints }, out, verdict)
      | _, _ => ({ d with s := s' }, out, "viol:unparsable-output")
    | _ => ({ d with s := s' }, out, "viol:unparsable-output")

end Gate.C28

def main : IO Unit := Gate.runDriver ({} : Gate.C28.DState) Gate.C28.stepCase
