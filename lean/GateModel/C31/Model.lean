import GateModel.Base.Bytes
import GateModel.C03.Model
import GateModel.Gen.C31
/-
C31 — model of what a Lite backend receives (`pkg/edition/java/lite/forward.go`: Forward, dialRoute, writePacket,
update, emptyReadBuff, pipe; `lite/util.go`: ClearVirtualHost, IsTCPShieldRealIP, TCPShieldRealIP;
`internal/protoutil.ProxyHeader` + go-proxyproto's version-2 format) for a client byte stream.

Go (login / transfer intent, a route was found, the backend accepted the TCP connection):

    read loop:  codec.Decoder.Decode: frame length VarInt (ReadVarIntReturnN); length 0 = empty packet, skipped (at most
                11); 0 < length ≤ MaximumFrameLength; payload := next `length` bytes (pc.Payload); packet id VarInt;
                id 0 → Handshake.Decode (VarInt, String, Int16, VarInt); surplus payload bytes are ignored
    Forward → dialRoute:
        if route.ProxyProtocol { protoutil.ProxyHeader(client addr, dst.RemoteAddr()).WriteTo(dst) }
        if route.ModifyVirtualHost { cleared := ClearVirtualHost(addr); host := netutil.HostStr(backendAddr)
            if !strings.EqualFold(cleared, host) { addr = strings.ReplaceAll(addr, cleared, host); force } }
        if route.GetTCPShieldRealIP() && IsTCPShieldRealIP(addr) { addr = TCPShieldRealIP(addr, client addr); force }
        if force { update: pc.Payload = VarInt(pc.PacketID) ++ Handshake.Encode }        -- re-encoded, minimal VarInts
        writePacket: WriteVarInt(len(pc.Payload)) ++ pc.Payload                           -- minimal length prefix
    emptyReadBuff: bytes already buffered behind the handshake → dst
    pipe: io.Copy(dst, src) and io.Copy(src, dst): every chunk read is written, in order

External functions are parameters: `eqFold` (strings.EqualFold), the unix time, the textual client address.
-/
namespace Gate.C31
open Gate
open Gate.C03 (readVarInt writeVarInt readString writeBytes readInt writeInt)

/-! ### strings -/

/-- does `p` occur at the head of `s` -/
def hasPrefix (p s : Bytes) : Bool := p.isPrefixOf s

/-- bytes before the first occurrence of `sep` (all of `s` if none): `strings.Split(s, sep)[0]`, sep non-empty -/
def beforeSep (sep : Bytes) : Bytes → Bytes
  | [] => []
  | b :: rest => if hasPrefix sep (b :: rest) then [] else b :: beforeSep sep rest

/-- bytes after the first occurrence of `sep` (none if it does not occur) -/
def afterSep (sep : Bytes) : Bytes → Option Bytes
  | [] => none
  | b :: rest => if hasPrefix sep (b :: rest) then some ((b :: rest).drop sep.length) else afterSep sep rest

def dot : UInt8 := 46
def nul : Bytes := [0]
def tripleSlash : Bytes := [47, 47, 47]

/-- `strings.Trim(s, ".")` -/
def trimDots (s : Bytes) : Bytes := ((s.dropWhile (· == dot)).reverse.dropWhile (· == dot)).reverse

/-- `ClearVirtualHost` -/
def clearVirtualHost (name : Bytes) : Bytes := trimDots (beforeSep tripleSlash (beforeSep nul name))

/-- `IsTCPShieldRealIP`: the separator occurs -/
def isTCPShield (addr : Bytes) : Bool := (afterSep tripleSlash addr).isSome

/-- width of the UTF-8 sequence at the head of `s` as `utf8.DecodeRuneInString` sees it (1 for invalid bytes) -/
def runeLen : Bytes → Nat
  | [] => 0
  | b0 :: rest =>
    let c := b0.toNat
    let cont (b : UInt8) (lo hi : Nat) : Bool := lo ≤ b.toNat && b.toNat ≤ hi
    if c < 0x80 then 1
    else if c < 0xC2 then 1
    else if c < 0xE0 then
      (match rest with | b1 :: _ => if cont b1 0x80 0xBF then 2 else 1 | _ => 1)
    else if c < 0xF0 then
      let lo := if c = 0xE0 then 0xA0 else 0x80
      let hi := if c = 0xED then 0x9F else 0xBF
      (match rest with
       | b1 :: b2 :: _ => if cont b1 lo hi && cont b2 0x80 0xBF then 3 else 1
       | _ => 1)
    else if c < 0xF5 then
      let lo := if c = 0xF0 then 0x90 else 0x80
      let hi := if c = 0xF4 then 0x8F else 0xBF
      (match rest with
       | b1 :: b2 :: b3 :: _ => if cont b1 lo hi && cont b2 0x80 0xBF && cont b3 0x80 0xBF then 4 else 1
       | _ => 1)
    else 1

/-- `strings.ReplaceAll(s, old, new)`: leftmost non-overlapping occurrences; an empty `old` matches before every
    UTF-8 sequence and at the end -/
def replaceAllAux (old new : Bytes) : Nat → Bytes → Bytes
  | 0, s => s
  | _ + 1, [] => if old.isEmpty then new else []
  | fuel + 1, b :: rest =>
    if old.isEmpty then
      let n := runeLen (b :: rest)
      new ++ (b :: rest).take n ++ replaceAllAux old new fuel ((b :: rest).drop n)
    else if hasPrefix old (b :: rest) then new ++ replaceAllAux old new fuel ((b :: rest).drop old.length)
    else b :: replaceAllAux old new fuel rest

def replaceAll (s old new : Bytes) : Bytes := replaceAllAux old new (s.length + 1) s

def natDigits (n : Nat) : Bytes := (toString n).toList.map (fun c => UInt8.ofNat c.toNat)

/-- `TCPShieldRealIP(addr, clientAddr)` with `time.Now().Unix() = now`: `SplitN(addr, "\x00", 3)` -/
def tcpShieldRealIP (addr clientAddr : Bytes) (now : Nat) : Bytes :=
  let p0 := beforeSep nul addr
  let base := p0 ++ tripleSlash ++ clientAddr ++ tripleSlash ++ natDigits now
  match afterSep nul addr with
  | none => base
  | some r1 => base ++ nul ++ beforeSep nul r1 ++ nul

/-! ### handshake packet -/

structure Handshake where
  proto : Int
  addr : Bytes
  port : Int
  next : Int
  deriving DecidableEq, Repr

def decodeHandshake (data : Bytes) : Rd Handshake :=
  match readVarInt data with
  | .error e => .error e
  | .ok (p, r1) => match readString r1 with
    | .error e => .error e
    | .ok (a, r2) => match readInt 2 r2 with
      | .error e => .error e
      | .ok (port, r3) => match readVarInt r3 with
        | .error e => .error e
        | .ok (n, r4) => .ok (⟨p, a, port, n⟩, r4)

def encodeHandshake (h : Handshake) : Bytes :=
  writeVarInt h.proto ++ writeBytes h.addr ++ writeInt 2 h.port ++ writeVarInt h.next

/-! ### frames -/

def maxFrame : Nat := Gate.Gen.C31.maximumFrameLength.toNat

inductive Parse where
  | frame (payload rest : Bytes)
  | close          -- the decoder reports an error: connection closed, nothing dialled
  | needMore       -- the decoder waits for bytes the client never sends
  deriving DecidableEq, Repr

/-- first non-empty frame of the stream; `fuel` = empty frames still tolerated + 1 -/
def readFrame : Nat → Bytes → Parse
  | 0, _ => .close
  | fuel + 1, bs =>
    match readVarInt bs with
    | .error .eof => .needMore
    | .error _ => .close
    | .ok (len, r) =>
      if len = 0 then readFrame fuel r
      else if len < 0 ∨ len > maxFrame then .close
      else if len.toNat ≤ r.length then .frame (r.take len.toNat) (r.drop len.toNat) else .needMore

/-- 11 empty packets are skipped, the 12th is an error -/
def firstFrame (bs : Bytes) : Parse := readFrame 12 bs

/-- `writePacket` -/
def frame (payload : Bytes) : Bytes := writeVarInt payload.length ++ payload

/-! ### PROXY protocol v2 header (go-proxyproto `formatVersion2`, as used by protoutil.ProxyHeader) -/

inductive IP where
  | v4 (b : Bytes)     -- 4 bytes
  | v6 (b : Bytes)     -- 16 bytes
  deriving DecidableEq, Repr

structure Addr where
  ip : IP
  port : Nat
  deriving DecidableEq, Repr

def sigV2 : Bytes := [0x0D, 0x0A, 0x0D, 0x0A, 0x00, 0x0D, 0x0A, 0x51, 0x55, 0x49, 0x54, 0x0A]

def mapped (b : Bytes) : Bytes := List.replicate 10 0 ++ [0xFF, 0xFF] ++ b

def IP.to16 : IP → Bytes
  | .v4 b => mapped b
  | .v6 b => b

/-- TCP over IPv4 when both ends are IPv4, otherwise TCP over IPv6 with IPv4 ends as v4-mapped addresses -/
def proxyHeader (src dst : Addr) : Bytes :=
  match src.ip, dst.ip with
  | .v4 s, .v4 d => sigV2 ++ [0x21, 0x11] ++ beBytes 2 12 ++ s ++ d ++ beBytes 2 src.port ++ beBytes 2 dst.port
  | s, d => sigV2 ++ [0x21, 0x21] ++ beBytes 2 36 ++ s.to16 ++ d.to16 ++ beBytes 2 src.port ++ beBytes 2 dst.port

/-- the first `n` bytes and the rest, if there are `n` bytes -/
def splitN (n : Nat) (bs : Bytes) : Option (Bytes × Bytes) :=
  if n ≤ bs.length then some (bs.take n, bs.drop n) else none

/-- a receiver's parse of a version-2 header: source, destination, and the bytes after the header -/
def parseProxyHeader (bs : Bytes) : Option (Addr × Addr × Bytes) :=
  match splitN 12 bs with
  | some (sig, r0) =>
    if sig = sigV2 then
      match splitN 2 r0 with
      | some (vf, r1) =>
        (match splitN 2 r1 with
         | some (len, r2) =>
           let alen := if vf = [0x21, 0x11] then 4 else 16
           if (vf = [0x21, 0x11] ∧ beNat len = 12) ∨ (vf = [0x21, 0x21] ∧ beNat len = 36) then
             match splitN alen r2 with
             | some (sa, r3) =>
               (match splitN alen r3 with
                | some (da, r4) =>
                  (match splitN 2 r4 with
                   | some (sp, r5) =>
                     (match splitN 2 r5 with
                      | some (dp, rest) =>
                        if alen = 4 then some (⟨.v4 sa, beNat sp⟩, ⟨.v4 da, beNat dp⟩, rest)
                        else some (⟨.v6 sa, beNat sp⟩, ⟨.v6 da, beNat dp⟩, rest)
                      | none => none)
                   | none => none)
                | none => none)
             | none => none
           else none
         | none => none)
      | none => none
    else none
  | none => none

/-! ### the forwarded stream -/

structure Opts where
  proxyProtocol : Bool
  modifyVirtualHost : Bool
  tcpShield : Bool
  deriving DecidableEq, Repr

structure Env where
  client : Addr            -- src.RemoteAddr()
  backend : Addr           -- dst.RemoteAddr()
  clientStr : Bytes        -- srcAddr.String()
  backendHost : Bytes      -- netutil.HostStr(backendAddr)
  now : Nat                -- time.Now().Unix()

/-- the two rewrites of `dialRoute`; the flag is `forceUpdatePacketContext` -/
def rewriteAddr (eqFold : Bytes → Bytes → Bool) (o : Opts) (env : Env) (addr : Bytes) : Bytes × Bool :=
  let cleared := clearVirtualHost addr
  let r1 : Bytes × Bool :=
    if o.modifyVirtualHost && !eqFold cleared env.backendHost then (replaceAll addr cleared env.backendHost, true)
    else (addr, false)
  if o.tcpShield && isTCPShield r1.1 then (tcpShieldRealIP r1.1 env.clientStr env.now, true) else r1

/-- handshake accepted for forwarding: payload of its frame, the decoded packet, and the bytes after the frame -/
def acceptHandshake (client : Bytes) : Option (Bytes × Handshake × Bytes) :=
  match firstFrame client with
  | .frame payload rest =>
    (match readVarInt payload with
     | .ok (pid, data) =>
       if pid = 0 then
         (match decodeHandshake data with
          | .ok (h, _) => if h.next = 2 ∨ h.next = 3 then some (payload, h, rest) else none
          | .error _ => none)
       else none
     | .error _ => none)
  | _ => none

/-- the payload `writePacket` sends: untouched unless a rewrite forced `update` -/
def forwardedPayload (eqFold : Bytes → Bytes → Bool) (o : Opts) (env : Env) (payload : Bytes) (h : Handshake) : Bytes :=
  let (addr', forced) := rewriteAddr eqFold o env h.addr
  if forced then writeVarInt 0 ++ encodeHandshake { h with addr := addr' } else payload

/-- everything the backend receives for the client stream `client` (none: nothing is dialled) -/
def backendStream (eqFold : Bytes → Bytes → Bool) (o : Opts) (env : Env) (client : Bytes) : Option Bytes :=
  match acceptHandshake client with
  | some (payload, h, rest) =>
    some ((if o.proxyProtocol then proxyHeader env.client env.backend else []) ++
          frame (forwardedPayload eqFold o env payload h) ++ rest)
  | none => none

/-- `io.Copy`: every chunk that is read is written, in order -/
def pipe (chunks : List Bytes) : Bytes := chunks.foldl (· ++ ·) []

/-- ASCII-only case folding: equals `strings.EqualFold` whenever one side is ASCII without `k`, `s`, `K`, `S`
    or the other side contains neither U+212A nor U+017F -/
def asciiLower (b : UInt8) : UInt8 := if 65 ≤ b.toNat ∧ b.toNat ≤ 90 then b + 32 else b
def eqFoldAscii (a b : Bytes) : Bool := a.map asciiLower == b.map asciiLower

/-! ### facts over `calls` lists of tools/gofacts -/

def has (calls : List String) (x : String) : Bool := calls.contains x
def idxOf (calls : List String) (x : String) : Nat := calls.findIdx (· == x)
def before (calls : List String) (a b : String) : Bool :=
  has calls a && has calls b && idxOf calls a < idxOf calls b
def count (calls : List String) (x : String) : Nat := (calls.filter (· == x)).length

end Gate.C31
