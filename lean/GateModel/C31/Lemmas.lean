import GateModel.C31.Model
import GateModel.C03.Lemmas
/-
C31 — helper lemmas: what the VarInt reader consumes, frames, ranges of decoded fields, handshake round trip,
ReplaceAll on the plain host, PROXY header parse.
-/
namespace Gate.C31
open Gate
open Gate.C03

/-! ### VarInt reader: consumes a non-empty prefix, yields an int32 -/

theorem readVarLoop_consumes (fuel i acc : Nat) (bs : Bytes) (u : Nat) (r : Bytes)
    (h : readVarLoop fuel i acc bs = .ok (u, r)) : ∃ pre, bs = pre ++ r ∧ pre ≠ [] ∧ u < 2 ^ 32 := by
  induction fuel generalizing i acc bs with
  | zero => simp [readVarLoop] at h
  | succ n ih =>
    cases bs with
    | nil => simp [readVarLoop] at h
    | cons b rest =>
      simp only [readVarLoop] at h
      split at h
      · cases h
      · split at h
        · simp only [Except.ok.injEq, Prod.mk.injEq] at h
          obtain ⟨h1, h2⟩ := h
          subst h1; subst h2
          exact ⟨[b], rfl, by simp, Nat.mod_lt _ (by decide)⟩
        · obtain ⟨pre, hp, _, hu⟩ := ih _ _ _ h
          exact ⟨b :: pre, by rw [hp]; rfl, by simp, hu⟩

theorem readVarInt_consumes {bs : Bytes} {v : Int} {r : Bytes} (h : readVarInt bs = .ok (v, r)) :
    ∃ pre, bs = pre ++ r ∧ pre ≠ [] ∧ wfInt32 v := by
  unfold readVarInt at h
  split at h
  · rename_i u r' hl
    simp only [Except.ok.injEq, Prod.mk.injEq] at h
    obtain ⟨h1, h2⟩ := h
    subst h1; subst h2
    obtain ⟨pre, hp, hne, hu⟩ := readVarLoop_consumes _ _ _ _ _ _ hl
    refine ⟨pre, hp, hne, ?_⟩
    unfold wfInt32 ofU
    split <;> constructor <;> omega
  · cases h

theorem beNat_lt (bs : Bytes) : beNat bs < 256 ^ bs.length := by
  have gen : ∀ (l : Bytes) (acc k : Nat), acc < 256 ^ k →
      l.foldl (fun acc b => acc * 256 + b.toNat) acc < 256 ^ (k + l.length) := by
    intro l
    induction l with
    | nil => intro acc k h; simpa using h
    | cons b t ih =>
      intro acc k h
      simp only [List.foldl_cons, List.length_cons]
      have hb : b.toNat < 256 := b.toNat_lt
      have : acc * 256 + b.toNat < 256 ^ (k + 1) := by
        rw [Nat.pow_succ]
        have : acc + 1 ≤ 256 ^ k := h
        calc acc * 256 + b.toNat < acc * 256 + 256 := by omega
          _ = (acc + 1) * 256 := by rw [Nat.add_mul]
          _ ≤ 256 ^ k * 256 := Nat.mul_le_mul_right _ this
      have := ih _ (k + 1) this
      rwa [Nat.add_assoc, Nat.add_comm 1] at this
  have := gen bs 0 0 (by simp)
  simpa [beNat] using this

theorem readInt2_range {bs : Bytes} {v : Int} {r : Bytes} (h : readInt 2 bs = .ok (v, r)) :
    -(2 ^ 15 : Nat) ≤ v ∧ v < (2 ^ 15 : Nat) := by
  unfold readInt readUint at h
  split at h
  · rename_i u r' hu
    simp only [Except.ok.injEq, Prod.mk.injEq] at h
    obtain ⟨h1, _⟩ := h
    subst h1
    split at hu
    · rename_i b r'' hf
      simp only [Except.ok.injEq, Prod.mk.injEq] at hu
      obtain ⟨hu1, _⟩ := hu
      subst hu1
      have hlen : b.length = 2 := by
        unfold readFull at hf
        split at hf
        · simp only [Except.ok.injEq, Prod.mk.injEq] at hf
          rw [← hf.1]; simp; omega
        · cases hf
      have := beNat_lt b
      rw [hlen] at this
      unfold ofU
      split <;> constructor <;> omega
    · cases hu
  · cases h

/-! ### frames -/

theorem readFrame_spec (fuel : Nat) (bs payload rest : Bytes) (h : readFrame fuel bs = .frame payload rest) :
    ∃ pre, bs = pre ++ payload ++ rest ∧ pre ≠ [] ∧ 0 < payload.length ∧ payload.length ≤ maxFrame := by
  induction fuel generalizing bs with
  | zero => simp [readFrame] at h
  | succ n ih =>
    simp only [readFrame] at h
    split at h
    · cases h
    · cases h
    · rename_i len r hv
      obtain ⟨pre, hp, hne, _⟩ := readVarInt_consumes hv
      split at h
      · obtain ⟨pre2, hp2, _, h3⟩ := ih r h
        exact ⟨pre ++ pre2, by rw [hp, hp2]; simp, by simp [hne], h3⟩
      · split at h
        · cases h
        · split at h
          · rename_i hz hr hl
            simp only [Parse.frame.injEq] at h
            obtain ⟨h1, h2⟩ := h
            subst h1; subst h2
            refine ⟨pre, ?_, hne, ?_, ?_⟩
            · rw [hp, List.append_assoc, List.take_append_drop]
            · rw [List.length_take]; omega
            · rw [List.length_take]; omega
          · cases h

theorem firstFrame_of_minimal (payload rest : Bytes) (h0 : 0 < payload.length) (h1 : payload.length ≤ maxFrame) :
    firstFrame (frame payload ++ rest) = .frame payload rest := by
  have hmax : maxFrame = 2097151 := by decide
  unfold firstFrame frame
  simp only [readFrame]
  rw [List.append_assoc, readVarInt_writeVarInt _ _ (by omega) (by omega)]
  simp only
  have hz : ¬ ((payload.length : Int) = 0) := by omega
  have hr : ¬ ((payload.length : Int) < 0 ∨ (payload.length : Int) > maxFrame) := by omega
  rw [if_neg hz, if_neg hr]
  simp

/-! ### handshake round trip -/

def wfHandshake (h : Handshake) : Prop :=
  wfInt32 h.proto ∧ h.addr.length ≤ defaultMaxStringSize * 4 ∧
  (-(2 ^ 15 : Nat) ≤ h.port ∧ h.port < (2 ^ 15 : Nat)) ∧ wfInt32 h.next

theorem decode_encode (h : Handshake) (rest : Bytes) (hw : wfHandshake h) :
    decodeHandshake (encodeHandshake h ++ rest) = .ok (h, rest) := by
  obtain ⟨hp, ha, hport, hn⟩ := hw
  unfold decodeHandshake encodeHandshake
  simp only [List.append_assoc]
  rw [readVarInt_writeVarInt _ _ hp.1 hp.2]
  simp only
  rw [string_RT h.addr _ ha]
  simp only
  rw [readInt_rt 2 (by decide) h.port _ (by simpa using hport.1) (by simpa using hport.2)]
  simp only
  rw [readVarInt_writeVarInt _ _ hn.1 hn.2]

/-- whatever the decoder produced has fields in range (so re-encoding it is lossless) -/
theorem decoded_fields_in_range {data : Bytes} {h : Handshake} {r : Bytes} (hd : decodeHandshake data = .ok (h, r)) :
    wfInt32 h.proto ∧ (-(2 ^ 15 : Nat) ≤ h.port ∧ h.port < (2 ^ 15 : Nat)) ∧ wfInt32 h.next := by
  unfold decodeHandshake at hd
  split at hd
  · cases hd
  · rename_i p r1 h1
    split at hd
    · cases hd
    · rename_i a r2 h2
      split at hd
      · cases hd
      · rename_i port r3 h3
        split at hd
        · cases hd
        · rename_i n r4 h4
          simp only [Except.ok.injEq, Prod.mk.injEq] at hd
          obtain ⟨hh, _⟩ := hd
          subst hh
          exact ⟨(readVarInt_consumes h1).choose_spec.2.2, readInt2_range h3, (readVarInt_consumes h4).choose_spec.2.2⟩

/-! ### ReplaceAll -/

theorem hasPrefix_self (s : Bytes) : hasPrefix s s = true := by
  unfold hasPrefix; exact List.isPrefixOf_iff_prefix.2 (List.prefix_refl s)

theorem replaceAll_self (old new : Bytes) (h : old ≠ []) : replaceAll old old new = new := by
  cases old with
  | nil => exact absurd rfl h
  | cons b rest =>
    unfold replaceAll
    simp only [List.length_cons, replaceAllAux, List.isEmpty_cons, hasPrefix_self,
      Bool.false_eq_true, if_false, if_true]
    simp [replaceAllAux]

/-! ### pipe -/

theorem foldl_append_flatten (acc : Bytes) (chunks : List Bytes) :
    chunks.foldl (· ++ ·) acc = acc ++ chunks.flatten := by
  induction chunks generalizing acc with
  | nil => simp
  | cons c cs ih => simp [ih, List.append_assoc]

theorem pipe_flatten (chunks : List Bytes) : pipe chunks = chunks.flatten := by
  unfold pipe; simpa using foldl_append_flatten [] chunks

/-! ### PROXY header -/

theorem splitN_append {n : Nat} (a b : Bytes) (h : a.length = n) : splitN n (a ++ b) = some (a, b) := by
  unfold splitN
  subst h
  simp

theorem beNat_beBytes2 (p : Nat) (h : p < 65536) : beNat (beBytes 2 p) = p :=
  beNat_beBytes 2 p (by simpa using h)

theorem parse_v4 (s d rest : Bytes) (sp dp : Nat) (hs : s.length = 4) (hd : d.length = 4) (hsp : sp < 65536) (hdp : dp < 65536) :
    parseProxyHeader (proxyHeader ⟨.v4 s, sp⟩ ⟨.v4 d, dp⟩ ++ rest) = some (⟨.v4 s, sp⟩, ⟨.v4 d, dp⟩, rest) := by
  have l2 : ∀ n, (beBytes 2 n).length = 2 := fun n => beBytes_length 2 n
  unfold parseProxyHeader proxyHeader
  simp only [List.append_assoc]
  rw [splitN_append (n := 12) sigV2 _ rfl]
  simp only [if_true]
  rw [splitN_append (n := 2) [0x21, 0x11] _ rfl]
  simp only
  rw [splitN_append (beBytes 2 12) _ (l2 _)]
  simp only [true_and, if_true, beNat_beBytes2 12 (by decide), true_or]
  rw [splitN_append s _ hs]
  simp only
  rw [splitN_append d _ hd]
  simp only
  rw [splitN_append (beBytes 2 sp) _ (l2 _)]
  simp only
  rw [splitN_append (beBytes 2 dp) _ (l2 _)]
  simp only [beNat_beBytes2 _ hsp, beNat_beBytes2 _ hdp]

theorem parse_v6 (src dst : Addr) (rest : Bytes) (hmix : ¬ (∃ s d, src.ip = .v4 s ∧ dst.ip = .v4 d))
    (hs : src.ip.to16.length = 16) (hd : dst.ip.to16.length = 16) (hsp : src.port < 65536) (hdp : dst.port < 65536) :
    parseProxyHeader (proxyHeader src dst ++ rest) = some (⟨.v6 src.ip.to16, src.port⟩, ⟨.v6 dst.ip.to16, dst.port⟩, rest) := by
  have l2 : ∀ n, (beBytes 2 n).length = 2 := fun n => beBytes_length 2 n
  have hh : proxyHeader src dst = sigV2 ++ [0x21, 0x21] ++ beBytes 2 36 ++ src.ip.to16 ++ dst.ip.to16 ++ beBytes 2 src.port ++ beBytes 2 dst.port := by
    unfold proxyHeader
    cases hsi : src.ip <;> cases hdi : dst.ip <;> simp_all
  rw [hh]
  unfold parseProxyHeader
  simp only [List.append_assoc]
  rw [splitN_append (n := 12) sigV2 _ rfl]
  simp only [if_true]
  rw [splitN_append (n := 2) [0x21, 0x21] _ rfl]
  simp only
  rw [splitN_append (beBytes 2 36) _ (l2 _)]
  have h36 : beNat (beBytes 2 36) = 36 := beNat_beBytes2 36 (by decide)
  simp only [h36, and_true]
  simp only [show ([0x21, 0x21] : Bytes) = [0x21, 0x11] ↔ False by decide, false_and, false_or, if_true, if_false]
  rw [splitN_append _ _ hs]
  simp only
  rw [splitN_append _ _ hd]
  simp only
  rw [splitN_append (beBytes 2 src.port) _ (l2 _)]
  simp only
  rw [splitN_append (beBytes 2 dst.port) _ (l2 _)]
  simp [beNat_beBytes2 _ hsp, beNat_beBytes2 _ hdp]

end Gate.C31
