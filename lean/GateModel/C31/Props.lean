import GateModel.C31.Lemmas
/-
C31 — Lite forwards the connection unchanged apart from configured rewrites.

`backendStream eqFold o env client` is everything the chosen backend receives when the client sends the byte stream
`client` (all of it, however it is split into segments) through a route with options `o`; `eqFold` (strings.EqualFold)
is arbitrary in every theorem.  `acceptHandshake client = some (payload, h, rest)`: the first non-empty frame of the
stream has payload `payload`, which decodes to the handshake `h` with login/transfer intent; `rest` is what follows.
-/
namespace Gate.C31.Props
open Gate Gate.C31
open Gate.C03 (writeVarInt readVarInt wfInt32 defaultMaxStringSize)

/-! ### what is forwarded, and when -/

/-- the connection is forwarded iff the first non-empty frame is an acceptable handshake: otherwise nothing is dialled -/
theorem dials_iff_handshake (eqFold : Bytes → Bytes → Bool) (o : Opts) (env : Env) (client : Bytes) :
    (backendStream eqFold o env client).isSome = (acceptHandshake client).isSome := by
  unfold backendStream
  cases acceptHandshake client with
  | none => rfl
  | some x => obtain ⟨p, h, r⟩ := x; rfl

/-- an accepted handshake decomposes the client stream: framing prefix (empty frames + length VarInt), the payload,
    and the bytes after the frame; the payload is non-empty and within the frame limit -/
theorem accepted_stream_shape (client payload rest : Bytes) (h : Handshake)
    (ha : acceptHandshake client = some (payload, h, rest)) :
    ∃ pre, client = pre ++ payload ++ rest ∧ pre ≠ [] ∧ 0 < payload.length ∧ payload.length ≤ maxFrame ∧
      (h.next = 2 ∨ h.next = 3) := by
  unfold acceptHandshake at ha
  split at ha
  · rename_i p r hf
    split at ha
    · split at ha
      · split at ha
        · split at ha
          · simp only [Option.some.injEq, Prod.mk.injEq] at ha
            obtain ⟨h1, h2, h3⟩ := ha
            subst h1; subst h2; subst h3
            rename_i hn
            obtain ⟨pre, hp, hne, h0, h1⟩ := readFrame_spec 12 client p r hf
            exact ⟨pre, hp, hne, h0, h1, hn⟩
          · cases ha
        · cases ha
      · cases ha
    · cases ha
  · cases ha

/-- **Shape of the backend stream**: optional PROXY header, ONE minimally framed packet, then every byte that followed
    the client's handshake frame, unchanged -/
theorem backend_stream_shape (eqFold : Bytes → Bytes → Bool) (o : Opts) (env : Env) (client payload rest : Bytes)
    (h : Handshake) (ha : acceptHandshake client = some (payload, h, rest)) :
    backendStream eqFold o env client =
      some ((if o.proxyProtocol then proxyHeader env.client env.backend else []) ++
            frame (forwardedPayload eqFold o env payload h) ++ rest) := by
  unfold backendStream; rw [ha]

/-! ### no rewrite: the handshake payload is exactly what the client sent -/

/-- neither rewrite applies: virtual-host rewriting is off or the cleaned host equals the backend host
    (case-insensitively), and TCPShield real-IP is off or the address has no `///` -/
def noRewrite (eqFold : Bytes → Bytes → Bool) (o : Opts) (env : Env) (addr : Bytes) : Prop :=
  (o.modifyVirtualHost = false ∨ eqFold (clearVirtualHost addr) env.backendHost = true) ∧
  (o.tcpShield = false ∨ isTCPShield addr = false)

theorem rewriteAddr_of_noRewrite (eqFold : Bytes → Bytes → Bool) (o : Opts) (env : Env) (addr : Bytes)
    (hn : noRewrite eqFold o env addr) : rewriteAddr eqFold o env addr = (addr, false) := by
  obtain ⟨h1, h2⟩ := hn
  unfold rewriteAddr
  have e1 : (o.modifyVirtualHost && !eqFold (clearVirtualHost addr) env.backendHost) = false := by
    rcases h1 with h | h <;> simp [h]
  simp only [e1, Bool.false_eq_true, if_false]
  have e2 : (o.tcpShield && isTCPShield addr) = false := by
    rcases h2 with h | h <;> simp [h]
  simp [e2]

/-- no rewrite ⇒ the forwarded payload IS the client's payload (surplus bytes, non-minimal VarInts inside it
    included), after the optional header and followed by the rest of the client's bytes -/
theorem no_rewrite_payload_identical (eqFold : Bytes → Bytes → Bool) (o : Opts) (env : Env)
    (client payload rest : Bytes) (h : Handshake) (ha : acceptHandshake client = some (payload, h, rest))
    (hn : noRewrite eqFold o env h.addr) :
    backendStream eqFold o env client =
      some ((if o.proxyProtocol then proxyHeader env.client env.backend else []) ++ frame payload ++ rest) := by
  rw [backend_stream_shape eqFold o env client payload rest h ha]
  unfold forwardedPayload
  rw [rewriteAddr_of_noRewrite eqFold o env h.addr hn]
  simp

/-- **Identity.**  No option set, the client framed its handshake with a minimal length prefix and sent no empty
    frame before it: the backend receives the client's byte stream, byte for byte. -/
theorem no_rewrite_identity (eqFold : Bytes → Bytes → Bool) (env : Env) (payload rest : Bytes) (h : Handshake)
    (ha : acceptHandshake (frame payload ++ rest) = some (payload, h, rest)) :
    backendStream eqFold ⟨false, false, false⟩ env (frame payload ++ rest) = some (frame payload ++ rest) := by
  rw [no_rewrite_payload_identical eqFold _ env _ payload rest h ha ⟨Or.inl rfl, Or.inl rfl⟩]
  simp

/-- a minimally framed payload is read back as exactly that frame (so the hypothesis above only asks for a
    decodable login handshake) -/
theorem minimal_frame_is_first_frame (payload rest : Bytes) (h0 : 0 < payload.length) (h1 : payload.length ≤ maxFrame) :
    firstFrame (frame payload ++ rest) = .frame payload rest :=
  firstFrame_of_minimal payload rest h0 h1

/-- in general the framing prefix is the only thing that may differ: for ANY accepted stream without rewrite,
    client = pre ++ payload ++ rest and the backend gets header? ++ minimalPrefix ++ payload ++ rest -/
theorem only_framing_prefix_changes (eqFold : Bytes → Bytes → Bool) (o : Opts) (env : Env)
    (client payload rest : Bytes) (h : Handshake) (ha : acceptHandshake client = some (payload, h, rest))
    (hn : noRewrite eqFold o env h.addr) :
    ∃ pre, client = pre ++ (payload ++ rest) ∧
      backendStream eqFold o env client =
        some ((if o.proxyProtocol then proxyHeader env.client env.backend else []) ++
              writeVarInt payload.length ++ (payload ++ rest)) := by
  obtain ⟨pre, hp, _⟩ := accepted_stream_shape client payload rest h ha
  refine ⟨pre, by rw [hp, List.append_assoc], ?_⟩
  rw [no_rewrite_payload_identical eqFold o env client payload rest h ha hn]
  simp [frame, List.append_assoc]

/-! ### rewrites change the server address only -/

/-- when a rewrite applies, the backend receives packet id 0 followed by a handshake that DECODES to the client's
    protocol version, port and next state, with the rewritten address (provided it fits a protocol string) -/
theorem rewrite_only_host (eqFold : Bytes → Bytes → Bool) (o : Opts) (env : Env) (client payload rest : Bytes)
    (h : Handshake) (ha : acceptHandshake client = some (payload, h, rest)) (addr' : Bytes)
    (hr : rewriteAddr eqFold o env h.addr = (addr', true)) (hlen : addr'.length ≤ defaultMaxStringSize * 4) :
    forwardedPayload eqFold o env payload h = writeVarInt 0 ++ encodeHandshake { h with addr := addr' } ∧
    readVarInt (forwardedPayload eqFold o env payload h) = .ok (0, encodeHandshake { h with addr := addr' }) ∧
    decodeHandshake (encodeHandshake { h with addr := addr' }) = .ok ({ h with addr := addr' }, []) := by
  have hf : forwardedPayload eqFold o env payload h = writeVarInt 0 ++ encodeHandshake { h with addr := addr' } := by
    unfold forwardedPayload; rw [hr]; simp
  -- the decoded handshake has in-range fields
  have hrange : wfInt32 h.proto ∧ (-(2 ^ 15 : Nat) ≤ h.port ∧ h.port < (2 ^ 15 : Nat)) ∧ wfInt32 h.next := by
    unfold acceptHandshake at ha
    split at ha
    · split at ha
      · split at ha
        · split at ha
          · rename_i h' _ hd
            split at ha
            · simp only [Option.some.injEq, Prod.mk.injEq] at ha
              obtain ⟨_, h2, _⟩ := ha
              subst h2
              exact decoded_fields_in_range hd
            · cases ha
          · cases ha
        · cases ha
      · cases ha
    · cases ha
  refine ⟨hf, ?_, ?_⟩
  · rw [hf]
    exact C03.readVarInt_writeVarInt 0 _ (by decide) (by decide)
  · have := decode_encode { h with addr := addr' } [] ⟨hrange.1, hlen, hrange.2.1, hrange.2.2⟩
    simpa using this

/-- virtual-host rewriting of a plain host name (no NUL, no `///`, no outer dots: cleaning leaves it as it is) that
    differs from the backend host gives exactly the backend host -/
theorem modify_plain_host (eqFold : Bytes → Bytes → Bool) (env : Env) (addr : Bytes) (hne : addr ≠ [])
    (hplain : clearVirtualHost addr = addr) (hdiff : eqFold addr env.backendHost = false)
    (hnots : isTCPShield env.backendHost = false) :
    rewriteAddr eqFold ⟨false, true, true⟩ env addr = (env.backendHost, true) := by
  unfold rewriteAddr
  simp only [hplain, hdiff, Bool.not_false, Bool.and_self, if_true, replaceAll_self addr env.backendHost hne, hnots,
    Bool.and_false, Bool.false_eq_true, if_false]

/-- … and when the cleaned host already equals the backend host (any case) nothing is rewritten -/
theorem modify_same_host_noop (eqFold : Bytes → Bytes → Bool) (o : Opts) (env : Env) (addr : Bytes)
    (hsame : eqFold (clearVirtualHost addr) env.backendHost = true) (hts : o.tcpShield = false) :
    rewriteAddr eqFold o env addr = (addr, false) :=
  rewriteAddr_of_noRewrite eqFold o env addr ⟨Or.inr hsame, Or.inl hts⟩

/-- TCPShield real-IP: host part, `///`, the client's address, `///`, the unix time, then the first forge segment
    re-wrapped in NULs if there was one -/
theorem tcpshield_shape (addr clientStr : Bytes) (now : Nat) :
    ∃ tail, tcpShieldRealIP addr clientStr now =
      beforeSep nul addr ++ tripleSlash ++ clientStr ++ tripleSlash ++ natDigits now ++ tail ∧
      (afterSep nul addr = none → tail = []) := by
  unfold tcpShieldRealIP
  cases afterSep nul addr with
  | none => exact ⟨[], by simp, fun _ => rfl⟩
  | some r => exact ⟨nul ++ beforeSep nul r ++ nul, by simp [List.append_assoc], fun h => by cases h⟩

/-! ### PROXY protocol header -/

/-- the stream starts with the header iff the route enables it (otherwise it starts with the handshake frame) -/
theorem header_iff_enabled (eqFold : Bytes → Bytes → Bool) (o : Opts) (env : Env) (client payload rest : Bytes)
    (h : Handshake) (ha : acceptHandshake client = some (payload, h, rest)) :
    (o.proxyProtocol = true → backendStream eqFold o env client =
        some (proxyHeader env.client env.backend ++ (frame (forwardedPayload eqFold o env payload h) ++ rest))) ∧
    (o.proxyProtocol = false → backendStream eqFold o env client =
        some (frame (forwardedPayload eqFold o env payload h) ++ rest)) := by
  rw [backend_stream_shape eqFold o env client payload rest h ha]
  constructor <;> intro hp <;> simp [hp, List.append_assoc]

/-- IPv4 client, IPv4 backend: a receiver parses exactly the client's address and port (and the backend's), and
    continues with the bytes after the header -/
theorem header_carries_client_address_v4 (s d rest : Bytes) (sp dp : Nat) (hs : s.length = 4) (hd : d.length = 4)
    (hsp : sp < 65536) (hdp : dp < 65536) :
    parseProxyHeader (proxyHeader ⟨.v4 s, sp⟩ ⟨.v4 d, dp⟩ ++ rest) = some (⟨.v4 s, sp⟩, ⟨.v4 d, dp⟩, rest) :=
  parse_v4 s d rest sp dp hs hd hsp hdp

/-- any other pair: TCP over IPv6, IPv4 ends as v4-mapped addresses -/
theorem header_carries_client_address_v6 (src dst : Addr) (rest : Bytes)
    (hmix : ¬ (∃ s d, src.ip = .v4 s ∧ dst.ip = .v4 d)) (hs : src.ip.to16.length = 16) (hd : dst.ip.to16.length = 16)
    (hsp : src.port < 65536) (hdp : dst.port < 65536) :
    parseProxyHeader (proxyHeader src dst ++ rest) =
      some (⟨.v6 src.ip.to16, src.port⟩, ⟨.v6 dst.ip.to16, dst.port⟩, rest) :=
  parse_v6 src dst rest hmix hs hd hsp hdp

/-! ### piping -/

/-- `io.Copy` delivers the concatenation of the chunks it reads -/
theorem pipe_identity (chunks : List Bytes) : pipe chunks = chunks.flatten := pipe_flatten chunks

/-- however the bytes after the handshake are split between the read buffer (`emptyReadBuff`) and later reads
    (`io.Copy`), the backend receives them all, in order -/
theorem delivery_independent_of_chunking (rest buffered : Bytes) (later : List Bytes)
    (h : rest = buffered ++ later.flatten) : buffered ++ pipe later = rest := by
  rw [pipe_flatten, h]

/-! ### non-vacuity -/

def hs1 : Handshake := ⟨765, [104, 46, 99], 25565, 2⟩           -- "h.c"
def pl1 : Bytes := writeVarInt 0 ++ encodeHandshake hs1
def env1 : Env := ⟨⟨.v4 [203, 0, 113, 7], 50000⟩, ⟨.v4 [127, 0, 0, 1], 25566⟩, [], [49, 50, 55, 46, 48, 46, 48, 46, 49], 1700000000⟩

example : acceptHandshake (frame pl1 ++ [1, 2, 3]) = some (pl1, hs1, [1, 2, 3]) := by decide
example : backendStream eqFoldAscii ⟨false, false, false⟩ env1 (frame pl1 ++ [1, 2, 3]) = some (frame pl1 ++ [1, 2, 3]) := by
  decide
/-- a non-minimal length prefix (0x8a 0x00 for 10) and a leading empty frame are normalised, the payload is kept -/
example : backendStream eqFoldAscii ⟨false, false, false⟩ env1 ([0] ++ [0x8a, 0x00] ++ pl1 ++ [9]) = some (frame pl1 ++ [9]) := by
  decide
/-- virtual-host rewriting: "h.c" becomes "127.0.0.1", everything else is kept -/
example : backendStream eqFoldAscii ⟨false, true, false⟩ env1 (frame pl1 ++ [9]) =
    some (frame (writeVarInt 0 ++ encodeHandshake { hs1 with addr := env1.backendHost }) ++ [9]) := by decide
/-- status intent is not forwarded -/
example : backendStream eqFoldAscii ⟨false, false, false⟩ env1 (frame (writeVarInt 0 ++ encodeHandshake { hs1 with next := 1 })) = none := by
  decide

/-! ### tie to the source -/

open Gate.Gen.C31 in
/-- `dialRoute`: header (if any) is written before the handshake; both rewrites and `update` precede `writePacket`;
    `writePacket` writes a VarInt length and then the payload; `update` writes the packet id and the encoded packet -/
theorem dialRoute_shape :
    before dialRouteCalls "dialer.DialContext" "protoutil.ProxyHeader" = true ∧
    before dialRouteCalls "header.WriteTo" "writePacket" = true ∧
    before dialRouteCalls "strings.ReplaceAll" "TCPShieldRealIP" = true ∧
    before dialRouteCalls "TCPShieldRealIP" "update" = true ∧
    before dialRouteCalls "update" "writePacket" = true ∧
    count dialRouteCalls "writePacket" = 1 ∧ count dialRouteCalls "header.WriteTo" = 1 ∧
    has dialRouteCalls "strings.EqualFold" = true ∧ has dialRouteCalls "netutil.HostStr" = true ∧
    writePacketCalls = ["len", "util.WriteVarInt", "fmt.Errorf", "return", "dst.Write", "fmt.Errorf", "return", "return"] ∧
    updateCalls = ["new", "int", "util.WriteVarInt", "h.Encode", "payload.Bytes"] := by decide

open Gate.Gen.C31 in
/-- `Forward`: dial (through `tryBackends`), then the buffered bytes, then the pipe; `emptyReadBuff` writes what
    `ReadBuffered` returned; `pipe` copies in both directions -/
theorem forward_shape :
    before forwardCalls "tryBackends" "emptyReadBuff" = true ∧ before forwardCalls "emptyReadBuff" "pipe" = true ∧
    has forwardCalls "dialRoute" = true ∧
    before emptyReadBuffCalls "buf.ReadBuffered" "dst.Write" = true ∧
    count pipeCalls "io.Copy" = 2 := by decide

open Gate.Gen.C31 in
/-- constants and helper shapes the model relies on -/
theorem helper_shape :
    maximumFrameLength = 2097151 ∧ forgeSeparator = "\x00" ∧ tcpShieldSeparator = "///" ∧
    clearVirtualHostCalls = ["strings.Split", "strings.Split", "strings.Trim", "return"] ∧
    isTCPShieldCalls = ["strings.Split", "len", "return"] ∧
    has tcpShieldCalls "strings.SplitN" = true ∧ has tcpShieldCalls "clientAddr.String" = true ∧
    has tcpShieldCalls "time.Now().Unix" = true ∧
    has proxyHeaderCalls "proxyproto.HeaderProxyFromAddrs" = true ∧
    handshakeEncodeCalls = ["util.WriteVarInt", "return", "util.WriteString", "return", "int16", "util.WriteInt16",
                            "return", "util.WriteVarInt", "return"] ∧
    handshakeDecodeCalls = ["util.ReadVarInt", "return", "util.ReadString", "return", "util.ReadInt16", "return", "int",
                            "util.ReadVarInt", "return"] := by decide

end Gate.C31.Props
