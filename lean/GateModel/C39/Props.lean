import GateModel.C39.Lemmas
/-
C39 — Floodgate identity data is authentic and interoperable with Floodgate.

`readHostname`, `writeHostname`, `decrypt` … are the model of gate's floodgate package (Model.lean);
`fgHostname` (Floodgate's encoder) and `fgRead` (Floodgate's decoder) the hand transcription of the
Java side (Spec.lean).  AES-GCM for the configured key is the pair of parameters `sealF`/`opn`; what
is assumed about it is always an explicit hypothesis.  Helper lemmas: Lemmas.lean.
-/
namespace Gate.C39.Props
open Gate Gate.C39

/-- AEAD correctness: what was sealed under the key with a 12-byte IV opens to the same plaintext -/
def OpensSealed (sealF : Bytes → Bytes → Bytes) (opn : Bytes → Bytes → Option Bytes) : Prop :=
  ∀ iv p, iv.length = 12 → opn iv (sealF iv p) = some p

/-! ### building blocks: Base64 topping, NUL records, decimal fields -/

/-- Go's decoder inverts the encoder, for every byte string -/
theorem base64_roundtrip (bs : Bytes) : b64Decode (b64Encode bs) = some bs := b64_roundtrip bs
/-- so does Java's basic decoder -/
theorem base64_roundtrip_java (bs : Bytes) : javaQuanta (b64Encode bs) = some bs := javaQuanta_encode bs
/-- an encoding never contains NUL, CR, LF, the splitter `!` or the port separator `:` — so the splitter
    found first is the real one, the hostname splits at the real NUL and no port is cut off -/
theorem base64_alphabet_separates (bs : Bytes) :
    ∀ c ∈ b64Encode bs, c ≠ 0 ∧ c ≠ 10 ∧ c ≠ 13 ∧ c ≠ 33 ∧ c ≠ 58 := b64Encode_safe bs
/-- `strings.Split` inverts the NUL join of NUL-free fields -/
theorem split_join (xs : List Bytes) (hne : xs ≠ []) (h : ∀ x ∈ xs, (0 : UInt8) ∉ x) :
    splitOn 0 (join 0 xs) = xs := splitOn_join 0 xs hne h
/-- `ParseInt(FormatInt(i)) = i` on int64, `Integer.parseInt` likewise on int32 -/
theorem decimal_roundtrip (i : Int) (h : int64 i) : parseInt64 (showInt i) = some i := parseInt64_showInt i h.1 h.2
theorem decimal_roundtrip_java (i : Int) (h : int32 i) : javaParseInt (showInt i) = some i := javaParseInt_showInt i h.1 h.2
/-- `Decrypt ∘ Encrypt = id` for the proxy's own cipher framing -/
theorem decrypt_encrypt_id (sealF : Bytes → Bytes → Bytes) (opn : Bytes → Bytes → Option Bytes) (hA : OpensSealed sealF opn)
    (iv p : Bytes) (hiv : iv.length = 12) : decrypt opn (encrypt sealF iv p) = .ok p :=
  decrypt_encrypt true sealF opn iv p hiv (hA iv p hiv)

/-- … and the blob exposes exactly the IV it was sealed with, so two blobs carry the same nonce iff they
    were sealed with the same IV (what the concurrent probe's `nonce-reuse` verdict evaluates) -/
theorem encrypt_exposes_nonce (sealF : Bytes → Bytes → Bytes) (iv p : Bytes) : ivOf (encrypt sealF iv p) = some iv :=
  ivOf_encrypt sealF iv p
theorem distinct_ivs_distinct_blobs (sealF : Bytes → Bytes → Bytes) (iv iv' p p' : Bytes)
    (h : encrypt sealF iv p = encrypt sealF iv' p') : iv = iv' := by
  have h1 := ivOf_encrypt sealF iv p
  rw [h, ivOf_encrypt] at h1
  exact (Option.some.inj h1).symm

/-! ### (a) data produced by Floodgate's own encoder is decoded to the same fields -/

theorem gate_reads_floodgate (sealF : Bytes → Bytes → Bytes) (opn : Bytes → Bytes → Option Bytes) (hA : OpensSealed sealF opn)
    (iv host : Bytes) (d : FgData) (x : Int) (hiv : iv.length = 12) (h : WfFg host d x) :
    readHostname opn (fgHostname sealF iv host d) = .ok (host, ofFg d x) :=
  readHostname_fgHostname true sealF opn iv host d x hiv (hA iv _ hiv) h

/-! ### (c) data the proxy encodes is decoded by Floodgate's decoder to the same fields -/

theorem floodgate_reads_gate (sealF : Bytes → Bytes → Bytes) (opn : Bytes → Bytes → Option Bytes) (hA : OpensSealed sealF opn)
    (iv host : Bytes) (d : BedrockData) (sub : Int) (hiv : iv.length = 12) (h : WfGate host d sub) :
    ∃ hn, writeHostname sealF iv host d = .ok hn ∧ fgRead opn hn = .ok (host, toFg d sub) :=
  ⟨_, writeHostname_ok sealF iv host d sub h, fgRead_written sealF opn iv host d sub hiv (hA iv _ hiv) h⟩

/-- outside that domain the proxy refuses to write ambiguous data: a NUL in the host or in any field -/
theorem write_rejects_nul (sealF : Bytes → Bytes → Bytes) (iv host : Bytes) (d : BedrockData)
    (h : (0 : UInt8) ∈ host ∨ ∃ f ∈ recordFields d, (0 : UInt8) ∈ f) : ∃ e, writeHostname sealF iv host d = .error e := by
  unfold writeHostname
  by_cases hh : host.contains 0 = true
  · exact ⟨.hostNul, by rw [if_pos hh]⟩
  · rcases h with h | ⟨f, hf, h0⟩
    · exact absurd (by simpa using h) hh
    · have : (recordFields d).any (·.contains 0) = true := List.any_eq_true.2 ⟨f, hf, by simpa using h0⟩
      exact ⟨.fieldNul, by rw [if_neg hh, if_pos this]⟩

/-! ### (b) authenticity: what acceptance implies, for ANY input string -/

/-- Whenever `ReadHostname` accepts a string, the record is the parse of a plaintext that the AEAD opened,
    under the configured key, from exactly the 12-byte IV and the ciphertext that are Base64-decoded from
    the string's data part.  Nothing else in the string influences the identity fields. -/
theorem accepted_is_opened (opn : Bytes → Bytes → Option Bytes) (hn host : Bytes) (d : BedrockData)
    (h : readHostname opn hn = .ok (host, d)) :
    ∃ data ivB64 ctB64 iv ct plain,
      splitOn 0 hn = [host, data] ∧
      cutAt splitter ((cutPort data).drop header.length) = some (ivB64, ctB64) ∧
      b64Decode ivB64 = some iv ∧ b64Decode ctB64 = some ct ∧ iv.length = 12 ∧
      opn iv ct = some plain ∧ readBedrockData plain = .ok d := by
  obtain ⟨data, plain, hs, hd, hr⟩ := readHostname_ok_inv true opn hn host d h
  obtain ⟨ivB64, ctB64, iv, ct, hcut, hiv, hct, hlen, ho⟩ := decrypt_ok_inv true opn _ _ hd
  exact ⟨data, ivB64, ctB64, iv, ct, plain, hs, hcut, hiv, hct, hlen, ho, hr⟩

/-- Under the integrity hypothesis "only issued (iv, ciphertext) pairs open under this key" every accepted
    record is the parse of an issued ciphertext: data made without the key — under another key, or by
    altering bytes — is rejected. -/
theorem forged_rejected (opn : Bytes → Bytes → Option Bytes) (Issued : Bytes → Bytes → Prop)
    (hint : ∀ iv ct p, opn iv ct = some p → Issued iv ct)
    (hn host : Bytes) (d : BedrockData) (h : readHostname opn hn = .ok (host, d)) :
    ∃ iv ct p, Issued iv ct ∧ opn iv ct = some p ∧ readBedrockData p = .ok d := by
  obtain ⟨_, _, _, iv, ct, p, _, _, _, _, _, ho, hr⟩ := accepted_is_opened opn hn host d h
  exact ⟨iv, ct, p, hint iv ct p ho, ho, hr⟩

/-- With a single issued message `(iv, sealF iv p)`: ANY string the reader accepts — in particular any
    alteration of the genuine hostname — decodes to exactly the record of `p`.  (Alterations that leave the
    decoded pair unchanged, such as CR/LF inside the Base64 text, unused trailing Base64 bits, the host
    prefix or a `:port` suffix, are accepted and harmless; everything else is rejected.) -/
theorem altered_rejected_or_same (sealF : Bytes → Bytes → Bytes) (opn : Bytes → Bytes → Option Bytes) (iv p : Bytes)
    (hint : ∀ iv' ct' p', opn iv' ct' = some p' → iv' = iv ∧ ct' = sealF iv p)
    (hA : opn iv (sealF iv p) = some p)
    (hn' host' : Bytes) (d' : BedrockData) (h : readHostname opn hn' = .ok (host', d')) :
    readBedrockData p = .ok d' := by
  obtain ⟨_, _, _, iv', ct', p', _, _, _, _, _, ho, hr⟩ := accepted_is_opened opn hn' host' d' h
  obtain ⟨e1, e2⟩ := hint iv' ct' p' ho
  subst e1; subst e2
  rw [hA] at ho; cases ho; exact hr

/-- Genuine Floodgate data of ANOTHER key (whose ciphertexts do not open under ours) is rejected with the
    decryption error — the pipeline reaches the AEAD with exactly that ciphertext and stops. -/
theorem other_key_rejected (sealOther : Bytes → Bytes → Bytes) (opn : Bytes → Bytes → Option Bytes)
    (iv host : Bytes) (d : FgData) (hiv : iv.length = 12) (hhost : noNul host)
    (hno : opn iv (sealOther iv (fgToString d)) = none) :
    readHostname opn (fgHostname sealOther iv host d) = .error (.decrypt .open) :=
  readHostname_other_key true sealOther opn iv host d hiv hhost hno

/-! ### no crash -/

/-- the (repaired) reader is a total function with no panic outcome, whatever the input and the AEAD do -/
theorem read_never_panics (opn : Bytes → Bytes → Option Bytes) (hn : Bytes) :
    readHostname opn hn ≠ .error (.decrypt .panic) := by
  unfold readHostname readHostnameV
  split
  · split
    · rename_i e he
      intro h; cases h
      exact decrypt_no_panic opn _ he
    · rename_i plain _
      split
      · rename_i e he
        intro h; cases h
        exact readBedrockData_no_decrypt_err plain _ he
      · simp
  · simp

/-- the code as found: a hostname whose IV field decodes to 9 bytes made `gcm.Open` panic
    (`"h\0^Floodgate^>AAAAAAAAAAAA!"`) -/
theorem read_defective_fails :
    readHostnameDefective (fun _ _ => none)
      ([104, 0, 94, 70, 108, 111, 111, 100, 103, 97, 116, 101, 94, 62] ++ List.replicate 12 65 ++ [33])
      = .error (.decrypt .panic) := by decide +kernel

/-! ### tie to the source: regenerated facts -/

theorem constants : header = "^Floodgate^>".toUTF8.toList ∧ splitter = 0x21 ∧ ivLength = 12 :=
  ⟨header_eq, splitter_eq, ivLength_eq⟩

def positions (x : String) (cs : List String) : List Nat := (cs.zipIdx.filter fun p => p.1 == x).map (·.2)

/-- `Decrypt` checks the nonce size before the only `gcm.Open`, finds the FIRST splitter
    (`bytes.IndexByte`), and decodes both halves with `base64.StdEncoding.DecodeString` -/
theorem decrypt_call_shape :
    (positions "gcm.Open" Gate.Gen.C39.decryptCalls).length = 1 ∧
    (positions "gcm.NonceSize" Gate.Gen.C39.decryptCalls).length = 1 ∧
    positions "gcm.NonceSize" Gate.Gen.C39.decryptCalls < positions "gcm.Open" Gate.Gen.C39.decryptCalls ∧
    (positions "bytes.IndexByte" Gate.Gen.C39.decryptCalls).length = 1 ∧
    (positions "base64.StdEncoding.DecodeString" Gate.Gen.C39.decryptCalls).length = 2 ∧
    (positions "base64.StdEncoding.EncodeToString" Gate.Gen.C39.encryptCalls).length = 2 ∧
    (positions "gcm.Seal" Gate.Gen.C39.encryptCalls).length = 1 := by decide +kernel

/-! ### non-vacuity -/

/-- a toy AEAD (identity with a one-byte tag) satisfies the correctness hypothesis … -/
def toySeal (_ : Bytes) (p : Bytes) : Bytes := 7 :: p
def toyOpen (_ : Bytes) (c : Bytes) : Option Bytes := match c with | 7 :: p => some p | _ => none
example : OpensSealed toySeal toyOpen := fun _ _ _ => rfl
/-- … and the integrity hypothesis of `altered_rejected_or_same` is satisfiable too -/
example : ∃ (opn : Bytes → Bytes → Option Bytes), (∀ iv' ct' p', opn iv' ct' = some p' → iv' = [1] ∧ ct' = [2]) ∧ opn [1] [2] = some [3] :=
  ⟨fun iv ct => if iv = [1] ∧ ct = [2] then some [3] else none, by
    intro iv' ct' p' h
    by_cases hc : iv' = [1] ∧ ct' = [2]
    · exact hc
    · simp [hc] at h, by simp⟩

def sampleFg : FgData :=
  { version := [49], username := [83, 116, 101, 118, 101], xuid := [52, 50], deviceOs := 2, languageCode := [101, 110],
    uiProfile := 1, inputMode := 1, ip := [49, 46, 50], linkedPlayer := [110, 117, 108, 108], fromProxy := false,
    subscribeId := 7, verifyCode := [99] }
def sampleGate : BedrockData := ofFg sampleFg 42

example : WfFg [104] sampleFg 42 := by
  refine ⟨?_, ?_, ?_, ?_, ?_, ?_, ?_, ?_, ?_, ?_, ?_, ?_, ?_, ?_, ?_⟩ <;> first | decide | (unfold int64; decide) | (unfold noNul; decide)
example : WfGate [104] sampleGate 7 := by
  refine ⟨?_, ?_, ?_, ?_, ?_, ?_, ?_, ?_, ?_, ?_, ?_, ?_, ?_, ?_⟩ <;> first | decide | (unfold int32; decide) | (unfold noNul; decide) | decide +kernel
/-- the concrete round trips, computed -/
example : readHostname toyOpen (fgHostname toySeal (List.replicate 12 0) [104] sampleFg) = .ok ([104], sampleGate) := by
  decide +kernel
example : (writeHostname toySeal (List.replicate 12 0) [104] sampleGate).toOption.map (fgRead toyOpen) =
    some (.ok ([104], toFg sampleGate 7)) := by decide +kernel
/-- an empty verify code is outside Floodgate's own format: Java's split drops the trailing empty string -/
example : fgFromString (join 0 (recordFields { sampleGate with verifyCode := [] })) = .error .length := by decide +kernel

end Gate.C39.Props
