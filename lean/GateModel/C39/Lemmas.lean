import GateModel.C39.Spec
/-
C39 — helper lemmas: Base64 round trip and alphabet separation, split/join, decimal round trip,
prefix/cut helpers.
-/
deriving instance DecidableEq for Except

namespace Gate.C39
open Gate

/-! ## Base64 -/

theorem decChar_encChar : ∀ n, n < 64 → decChar (encChar n) = some n := by decide +kernel

/-- no alphabet character is NUL, LF, CR, `!`, `:` or `=` -/
theorem encChar_safe : ∀ n, n < 64 →
    encChar n ≠ 0 ∧ encChar n ≠ 10 ∧ encChar n ≠ 13 ∧ encChar n ≠ 33 ∧ encChar n ≠ 58 ∧ encChar n ≠ 61 := by
  decide +kernel

/-- characters that may appear in an encoding: alphabet or `=` — in particular none of NUL, LF, CR, `!`, `:` -/
def safeChar (c : UInt8) : Prop := c ≠ 0 ∧ c ≠ 10 ∧ c ≠ 13 ∧ c ≠ 33 ∧ c ≠ 58

theorem encChar_safeChar (n : Nat) (h : n < 64) : safeChar (encChar n) := by
  have := encChar_safe n h
  exact ⟨this.1, this.2.1, this.2.2.1, this.2.2.2.1, this.2.2.2.2.1⟩

theorem pad_safeChar : safeChar pad := by unfold safeChar pad; decide

theorem b64Encode_safe : ∀ (bs : Bytes), ∀ c ∈ b64Encode bs, safeChar c := by
  intro bs
  induction bs using b64Encode.induct with
  | case1 a b c r ih =>
    intro x hx
    have ha := a.toNat_lt; have hb := b.toNat_lt; have hc := c.toNat_lt
    simp only [b64Encode, List.mem_cons] at hx
    rcases hx with h | h | h | h | h
    · subst h; exact encChar_safeChar _ (by omega)
    · subst h; exact encChar_safeChar _ (by omega)
    · subst h; exact encChar_safeChar _ (by omega)
    · subst h; exact encChar_safeChar _ (by omega)
    · exact ih x h
  | case2 a b =>
    intro x hx
    have ha := a.toNat_lt; have hb := b.toNat_lt
    simp only [b64Encode, List.mem_cons, List.not_mem_nil, or_false] at hx
    rcases hx with h | h | h | h
    · subst h; exact encChar_safeChar _ (by omega)
    · subst h; exact encChar_safeChar _ (by omega)
    · subst h; exact encChar_safeChar _ (by omega)
    · subst h; exact pad_safeChar
  | case3 a =>
    intro x hx
    have ha := a.toNat_lt
    simp only [b64Encode, List.mem_cons, List.not_mem_nil, or_false] at hx
    rcases hx with h | h | h | h
    · subst h; exact encChar_safeChar _ (by omega)
    · subst h; exact encChar_safeChar _ (by omega)
    · subst h; exact pad_safeChar
    · subst h; exact pad_safeChar
  | case4 => intro x hx; simp [b64Encode] at hx

theorem ofNat_toNat (a : UInt8) : UInt8.ofNat a.toNat = a := by simp

theorem encChar_ne_pad (n : Nat) (h : n < 64) : encChar n ≠ pad := (encChar_safe n h).2.2.2.2.2

/-- decoding an encoding gives the bytes back (quantum level, no CR/LF involved) -/
theorem decodeQuanta_encode : ∀ (bs : Bytes), decodeQuanta (b64Encode bs) = some bs := by
  intro bs
  induction bs using b64Encode.induct with
  | case1 a b c r ih =>
    have ha := a.toNat_lt; have hb := b.toNat_lt; have hc := c.toNat_lt
    simp only [b64Encode]
    have h1 : (a.toNat * 65536 + b.toNat * 256 + c.toNat) / 262144 < 64 := by omega
    have h2 : (a.toNat * 65536 + b.toNat * 256 + c.toNat) / 4096 % 64 < 64 := by omega
    have h3 : (a.toNat * 65536 + b.toNat * 256 + c.toNat) / 64 % 64 < 64 := by omega
    have h4 : (a.toNat * 65536 + b.toNat * 256 + c.toNat) % 64 < 64 := by omega
    unfold decodeQuanta
    simp only [decChar_encChar _ h1, decChar_encChar _ h2, decChar_encChar _ h3, decChar_encChar _ h4,
      if_neg (encChar_ne_pad _ h3), if_neg (encChar_ne_pad _ h4), ih]
    have e1 : (a.toNat * 65536 + b.toNat * 256 + c.toNat) / 262144 * 4 + (a.toNat * 65536 + b.toNat * 256 + c.toNat) / 4096 % 64 / 16 = a.toNat := by omega
    have e2 : (a.toNat * 65536 + b.toNat * 256 + c.toNat) / 4096 % 64 % 16 * 16 + (a.toNat * 65536 + b.toNat * 256 + c.toNat) / 64 % 64 / 4 = b.toNat := by omega
    have e3 : (a.toNat * 65536 + b.toNat * 256 + c.toNat) / 64 % 64 % 4 * 64 + (a.toNat * 65536 + b.toNat * 256 + c.toNat) % 64 = c.toNat := by omega
    rw [e1, e2, e3, ofNat_toNat, ofNat_toNat, ofNat_toNat]
  | case2 a b =>
    have ha := a.toNat_lt; have hb := b.toNat_lt
    simp only [b64Encode]
    have h1 : (a.toNat * 1024 + b.toNat * 4) / 4096 < 64 := by omega
    have h2 : (a.toNat * 1024 + b.toNat * 4) / 64 % 64 < 64 := by omega
    have h3 : (a.toNat * 1024 + b.toNat * 4) % 64 < 64 := by omega
    unfold decodeQuanta
    simp only [decChar_encChar _ h1, decChar_encChar _ h2, decChar_encChar _ h3, if_neg (encChar_ne_pad _ h3), if_true]
    have e1 : (a.toNat * 1024 + b.toNat * 4) / 4096 * 4 + (a.toNat * 1024 + b.toNat * 4) / 64 % 64 / 16 = a.toNat := by omega
    have e2 : (a.toNat * 1024 + b.toNat * 4) / 64 % 64 % 16 * 16 + (a.toNat * 1024 + b.toNat * 4) % 64 / 4 = b.toNat := by omega
    rw [e1, e2, ofNat_toNat, ofNat_toNat]
  | case3 a =>
    have ha := a.toNat_lt
    simp only [b64Encode]
    have h1 : (a.toNat * 16) / 64 < 64 := by omega
    have h2 : (a.toNat * 16) % 64 < 64 := by omega
    unfold decodeQuanta
    simp only [decChar_encChar _ h1, decChar_encChar _ h2, if_true, and_self]
    have e1 : (a.toNat * 16) / 64 * 4 + (a.toNat * 16) % 64 / 16 = a.toNat := by omega
    rw [e1, ofNat_toNat]
  | case4 => simp [b64Encode, decodeQuanta]

theorem filter_id_of_safe (s : Bytes) (h : ∀ c ∈ s, safeChar c) :
    s.filter (fun c => c != 10 && c != 13) = s := by
  apply List.filter_eq_self.2
  intro c hc
  have := h c hc
  simp [this.2.1, this.2.2.1]

/-- `DecodeString(EncodeToString(b)) = b` -/
theorem b64_roundtrip (bs : Bytes) : b64Decode (b64Encode bs) = some bs := by
  unfold b64Decode
  rw [filter_id_of_safe _ (b64Encode_safe bs)]
  exact decodeQuanta_encode bs

/-- Java's basic decoder inverts the encoder too -/
theorem javaQuanta_encode : ∀ (bs : Bytes), javaQuanta (b64Encode bs) = some bs := by
  intro bs
  induction bs using b64Encode.induct with
  | case1 a b c r ih =>
    have ha := a.toNat_lt; have hb := b.toNat_lt; have hc := c.toNat_lt
    simp only [b64Encode]
    have h1 : (a.toNat * 65536 + b.toNat * 256 + c.toNat) / 262144 < 64 := by omega
    have h2 : (a.toNat * 65536 + b.toNat * 256 + c.toNat) / 4096 % 64 < 64 := by omega
    have h3 : (a.toNat * 65536 + b.toNat * 256 + c.toNat) / 64 % 64 < 64 := by omega
    have h4 : (a.toNat * 65536 + b.toNat * 256 + c.toNat) % 64 < 64 := by omega
    unfold javaQuanta
    simp only [decChar_encChar _ h1, decChar_encChar _ h2, decChar_encChar _ h3, decChar_encChar _ h4,
      if_neg (encChar_ne_pad _ h3), if_neg (encChar_ne_pad _ h4), ih]
    have e1 : (a.toNat * 65536 + b.toNat * 256 + c.toNat) / 262144 * 4 + (a.toNat * 65536 + b.toNat * 256 + c.toNat) / 4096 % 64 / 16 = a.toNat := by omega
    have e2 : (a.toNat * 65536 + b.toNat * 256 + c.toNat) / 4096 % 64 % 16 * 16 + (a.toNat * 65536 + b.toNat * 256 + c.toNat) / 64 % 64 / 4 = b.toNat := by omega
    have e3 : (a.toNat * 65536 + b.toNat * 256 + c.toNat) / 64 % 64 % 4 * 64 + (a.toNat * 65536 + b.toNat * 256 + c.toNat) % 64 = c.toNat := by omega
    rw [e1, e2, e3, ofNat_toNat, ofNat_toNat, ofNat_toNat]
  | case2 a b =>
    have ha := a.toNat_lt; have hb := b.toNat_lt
    simp only [b64Encode]
    have h1 : (a.toNat * 1024 + b.toNat * 4) / 4096 < 64 := by omega
    have h2 : (a.toNat * 1024 + b.toNat * 4) / 64 % 64 < 64 := by omega
    have h3 : (a.toNat * 1024 + b.toNat * 4) % 64 < 64 := by omega
    unfold javaQuanta
    simp only [decChar_encChar _ h1, decChar_encChar _ h2, decChar_encChar _ h3, if_neg (encChar_ne_pad _ h3), if_true]
    have e1 : (a.toNat * 1024 + b.toNat * 4) / 4096 * 4 + (a.toNat * 1024 + b.toNat * 4) / 64 % 64 / 16 = a.toNat := by omega
    have e2 : (a.toNat * 1024 + b.toNat * 4) / 64 % 64 % 16 * 16 + (a.toNat * 1024 + b.toNat * 4) % 64 / 4 = b.toNat := by omega
    rw [e1, e2, ofNat_toNat, ofNat_toNat]
  | case3 a =>
    have ha := a.toNat_lt
    simp only [b64Encode]
    have h1 : (a.toNat * 16) / 64 < 64 := by omega
    have h2 : (a.toNat * 16) % 64 < 64 := by omega
    unfold javaQuanta
    simp only [decChar_encChar _ h1, decChar_encChar _ h2, if_true, and_self]
    have e1 : (a.toNat * 16) / 64 * 4 + (a.toNat * 16) % 64 / 16 = a.toNat := by omega
    rw [e1, ofNat_toNat]
  | case4 => simp [b64Encode, javaQuanta]


/-! ## split / join / cut / prefix -/

theorem splitOn_ne_nil (sep : UInt8) : ∀ (s : Bytes), splitOn sep s ≠ [] := by
  intro s
  induction s with
  | nil => simp [splitOn]
  | cons b r ih =>
    unfold splitOn
    split
    · simp
    · split
      · simp
      · simp

theorem splitOn_nosep (sep : UInt8) : ∀ (x : Bytes), sep ∉ x → splitOn sep x = [x] := by
  intro x
  induction x with
  | nil => intro _; rfl
  | cons b r ih =>
    intro h
    have hb : b ≠ sep := fun e => h (by simp [e])
    have hr : sep ∉ r := fun e => h (by simp [e])
    unfold splitOn
    rw [if_neg hb, ih hr]

theorem splitOn_append_sep (sep : UInt8) (rest : Bytes) : ∀ (x : Bytes), sep ∉ x →
    splitOn sep (x ++ sep :: rest) = x :: splitOn sep rest := by
  intro x
  induction x with
  | nil => intro _; simp [splitOn]
  | cons b r ih =>
    intro h
    have hb : b ≠ sep := fun e => h (by simp [e])
    have hr : sep ∉ r := fun e => h (by simp [e])
    simp only [List.cons_append]
    conv => lhs; unfold splitOn
    rw [if_neg hb, ih hr]

theorem splitOn_join (sep : UInt8) : ∀ (xs : List Bytes), xs ≠ [] → (∀ x ∈ xs, sep ∉ x) →
    splitOn sep (join sep xs) = xs := by
  intro xs
  induction xs with
  | nil => intro h; exact absurd rfl h
  | cons x r ih =>
    intro _ hx
    cases r with
    | nil => simp only [join]; exact splitOn_nosep sep x (hx x (by simp))
    | cons y r' =>
      simp only [join]
      rw [splitOn_append_sep sep _ x (hx x (by simp))]
      rw [ih (by simp) (fun z hz => hx z (by simp [hz]))]

theorem cutAt_nosep (sep : UInt8) : ∀ (x : Bytes), sep ∉ x → cutAt sep x = none := by
  intro x
  induction x with
  | nil => intro _; rfl
  | cons b r ih =>
    intro h
    have hb : b ≠ sep := fun e => h (by simp [e])
    have hr : sep ∉ r := fun e => h (by simp [e])
    unfold cutAt
    rw [if_neg hb, ih hr]

theorem cutAt_append_sep (sep : UInt8) (rest : Bytes) : ∀ (x : Bytes), sep ∉ x →
    cutAt sep (x ++ sep :: rest) = some (x, rest) := by
  intro x
  induction x with
  | nil => intro _; simp [cutAt]
  | cons b r ih =>
    intro h
    have hb : b ≠ sep := fun e => h (by simp [e])
    have hr : sep ∉ r := fun e => h (by simp [e])
    simp only [List.cons_append]
    unfold cutAt
    rw [if_neg hb, ih hr]

theorem isPrefix_append : ∀ (p s : Bytes), isPrefix p (p ++ s) = true := by
  intro p
  induction p with
  | nil => intro s; rfl
  | cons a r ih => intro s; simp [isPrefix, ih]

theorem contains_false_of_not_mem (x : Bytes) (c : UInt8) (h : c ∉ x) : x.contains c = false := by
  simpa using h

/-! ## decimal -/

def isDigit (c : UInt8) : Prop := 48 ≤ c.toNat ∧ c.toNat ≤ 57

/-- `showNatAux` writes a non-empty block of digits in front of `tail`, and `parseDigits` reads it back -/
theorem showNatAux_spec : ∀ (fuel n : Nat) (tail : Bytes), n < fuel →
    ∃ ds : Bytes, ds ≠ [] ∧ (∀ c ∈ ds, isDigit c) ∧ showNatAux fuel n tail = ds ++ tail ∧
      ∀ a rest, parseDigits a (ds ++ rest) = parseDigits (a * 10 ^ ds.length + n) rest := by
  intro fuel
  induction fuel with
  | zero => intro n tail h; omega
  | succ f ih =>
    intro n tail hn
    have hd : (UInt8.ofNat (48 + n % 10)).toNat = 48 + n % 10 := by
      simp [UInt8.toNat_ofNat']; omega
    by_cases h10 : n < 10
    · refine ⟨[UInt8.ofNat (48 + n % 10)], by simp, ?_, ?_, ?_⟩
      · intro c hc; have hc' := List.mem_singleton.1 hc; subst hc'; unfold isDigit; rw [hd]; omega
      · simp [showNatAux, h10]
      · intro a rest
        simp only [List.cons_append, List.nil_append, parseDigits, hd]
        rw [if_pos (by omega)]
        congr 1
        simp; omega
    · obtain ⟨ds, hne, hdig, hshow, hparse⟩ := ih (n / 10) (UInt8.ofNat (48 + n % 10) :: tail) (by omega)
      refine ⟨ds ++ [UInt8.ofNat (48 + n % 10)], by simp, ?_, ?_, ?_⟩
      · intro c hc
        rcases List.mem_append.1 hc with hc | hc
        · exact hdig c hc
        · have hc' := List.mem_singleton.1 hc; subst hc'; unfold isDigit; rw [hd]; omega
      · simp only [showNatAux, if_neg h10, hshow, List.append_assoc, List.cons_append, List.nil_append]
      · intro a rest
        rw [List.append_assoc, hparse]
        simp only [List.cons_append, List.nil_append, parseDigits, hd]
        rw [if_pos (by omega)]
        congr 1
        simp [Nat.pow_succ]
        have : a * (10 ^ ds.length * 10) = a * 10 ^ ds.length * 10 := by rw [Nat.mul_assoc]
        rw [this]
        omega

theorem showNat_spec (n : Nat) : ∃ ds : Bytes, ds ≠ [] ∧ (∀ c ∈ ds, isDigit c) ∧ showNat n = ds ∧ parseDigits 0 ds = some n := by
  obtain ⟨ds, hne, hdig, hshow, hparse⟩ := showNatAux_spec (n + 1) n [] (Nat.lt_succ_self _)
  refine ⟨ds, hne, hdig, by simpa [showNat] using hshow, ?_⟩
  have := hparse 0 []
  simpa [parseDigits] using this

theorem showInt_chars (i : Int) : ∀ c ∈ showInt i, c = 45 ∨ isDigit c := by
  intro c hc
  unfold showInt at hc
  split at hc
  · obtain ⟨ds, _, hdig, hshow, _⟩ := showNat_spec i.natAbs
    rw [hshow] at hc
    rcases List.mem_cons.1 hc with h | h
    · exact Or.inl h
    · exact Or.inr (hdig c h)
  · obtain ⟨ds, _, hdig, hshow, _⟩ := showNat_spec i.toNat
    rw [hshow] at hc
    exact Or.inr (hdig c hc)

theorem showInt_noNul (i : Int) : (0 : UInt8) ∉ showInt i := by
  intro h
  rcases showInt_chars i 0 h with h | h
  · exact absurd h (by decide)
  · unfold isDigit at h; simp at h

theorem parseSigned_showInt (lim : Nat) (i : Int) (h1 : -(lim : Int) ≤ i) (h2 : i < (lim : Int)) :
    parseSigned lim (showInt i) = some i := by
  unfold showInt
  by_cases hneg : i < 0
  · rw [if_pos hneg]
    obtain ⟨ds, hne, hdig, hshow, hparse⟩ := showNat_spec i.natAbs
    rw [hshow]
    have hemp : ds.isEmpty = false := by cases ds with | nil => exact absurd rfl hne | cons _ _ => rfl
    simp only [parseSigned]
    have : ¬ ((45 : UInt8) = 43) := by decide
    simp only [this, if_false, if_true, hemp, hparse, Bool.false_eq_true]
    have hle : ¬ (i.natAbs > lim) := by omega
    simp only [hle, if_false]
    congr 1; omega
  · rw [if_neg hneg]
    obtain ⟨ds, hne, hdig, hshow, hparse⟩ := showNat_spec i.toNat
    rw [hshow]
    cases ds with
    | nil => exact absurd rfl hne
    | cons c r =>
      have hc := hdig c (by simp)
      unfold isDigit at hc
      have c43 : ¬ (c = 43) := by intro e; subst e; simp at hc
      have c45 : ¬ (c = 45) := by intro e; subst e; simp at hc
      simp only [parseSigned, c43, c45, if_false, List.isEmpty_cons, hparse, Bool.false_eq_true]
      have hlt : ¬ (i.toNat ≥ lim) := by omega
      simp only [hlt, if_false]
      congr 1; omega

theorem parseInt64_showInt (i : Int) (h1 : -(2 ^ 63 : Nat) ≤ i) (h2 : i < (2 ^ 63 : Nat)) :
    parseInt64 (showInt i) = some i := parseSigned_showInt _ i h1 h2
theorem javaParseInt_showInt (i : Int) (h1 : -(2 ^ 31 : Nat) ≤ i) (h2 : i < (2 ^ 31 : Nat)) :
    javaParseInt (showInt i) = some i := parseSigned_showInt _ i h1 h2

/-! ## the cipher layer -/

theorem header_bytes : header = [94, 70, 108, 111, 111, 100, 103, 97, 116, 101, 94, 62] := by decide +kernel
theorem fgHeader_bytes : fgHeader = [94, 70, 108, 111, 111, 100, 103, 97, 116, 101, 94, 62] := by decide +kernel
theorem fgIdentifier_bytes : fgIdentifier = [94, 70, 108, 111, 111, 100, 103, 97, 116, 101, 94] := by decide +kernel
theorem header_eq : header = fgHeader := by rw [header_bytes, fgHeader_bytes]
theorem header_length : header.length = 12 := by rw [header_bytes]; rfl
theorem splitter_eq : splitter = 33 := by decide +kernel
theorem ivLength_eq : ivLength = 12 := by decide +kernel
theorem header_chars : ∀ c ∈ header, c ≠ 0 ∧ c ≠ 58 ∧ c ≠ 33 := by rw [header_bytes]; decide

theorem b64Encode_length : ∀ (bs : Bytes), (b64Encode bs).length = 4 * ((bs.length + 2) / 3) := by
  intro bs
  induction bs using b64Encode.induct with
  | case1 a b c r ih => simp only [b64Encode, List.length_cons, ih]; omega
  | case2 a b => simp [b64Encode]
  | case3 a => simp [b64Encode]
  | case4 => simp [b64Encode]

theorem not_mem_b64 (bs : Bytes) (c : UInt8) (hc : c = 0 ∨ c = 10 ∨ c = 13 ∨ c = 33 ∨ c = 58) : c ∉ b64Encode bs := by
  intro h
  have := b64Encode_safe bs c h
  unfold safeChar at this
  rcases hc with e | e | e | e | e <;> simp [e] at this

/-- the encrypted blob is `header ‖ b64(iv) ‖ '!' ‖ b64(ct)` and contains neither NUL nor ':' -/
theorem encrypt_shape (sealF : Bytes → Bytes → Bytes) (iv p : Bytes) :
    encrypt sealF iv p = header ++ (b64Encode iv ++ splitter :: b64Encode (sealF iv p)) := by
  simp [encrypt]

theorem encrypt_noNul (sealF : Bytes → Bytes → Bytes) (iv p : Bytes) :
    (0 : UInt8) ∉ encrypt sealF iv p ∧ (58 : UInt8) ∉ encrypt sealF iv p := by
  rw [encrypt_shape, splitter_eq]
  constructor
  · intro h
    rcases List.mem_append.1 h with h | h
    · exact (header_chars 0 h).1 rfl
    · rcases List.mem_append.1 h with h | h
      · exact not_mem_b64 iv 0 (by simp) h
      · rcases List.mem_cons.1 h with h | h
        · exact absurd h (by decide)
        · exact not_mem_b64 _ 0 (by simp) h
  · intro h
    rcases List.mem_append.1 h with h | h
    · exact (header_chars 58 h).2.1 rfl
    · rcases List.mem_append.1 h with h | h
      · exact not_mem_b64 iv 58 (by simp) h
      · rcases List.mem_cons.1 h with h | h
        · exact absurd h (by decide)
        · exact not_mem_b64 _ 58 (by simp) h

/-- `Decrypt(Encrypt(p))` for a 12-byte IV reaches the AEAD with exactly `(iv, seal iv p)` -/
theorem decrypt_encrypt_gen (chk : Bool) (sealF : Bytes → Bytes → Bytes) (opn : Bytes → Bytes → Option Bytes)
    (iv p : Bytes) (hiv : iv.length = 12) :
    decryptV chk opn (encrypt sealF iv p) =
      match opn iv (sealF iv p) with | none => .error .open | some q => .ok q := by
  have hlen : ¬ ((encrypt sealF iv p).length < header.length + ivLength + 1) := by
    rw [encrypt_shape]
    simp only [List.length_append, List.length_cons, b64Encode_length, hiv, header_length, ivLength_eq]
    omega
  have hpre : isPrefix header (encrypt sealF iv p) = true := by rw [encrypt_shape]; exact isPrefix_append _ _
  have hdrop : (encrypt sealF iv p).drop header.length = b64Encode iv ++ splitter :: b64Encode (sealF iv p) := by
    rw [encrypt_shape]; simp
  have hcut : cutAt splitter (b64Encode iv ++ splitter :: b64Encode (sealF iv p)) = some (b64Encode iv, b64Encode (sealF iv p)) :=
    cutAt_append_sep _ _ _ (by rw [splitter_eq]; exact not_mem_b64 iv 33 (by simp))
  unfold decryptV
  rw [if_neg hlen]
  simp only [hpre, Bool.not_true, Bool.false_eq_true, if_false, hdrop, hcut, b64_roundtrip]
  have : ¬ (iv.length ≠ ivLength) := by rw [hiv, ivLength_eq]; simp
  rw [if_neg this]
  rfl

/-- the blob written by `Encrypt` exposes exactly the IV it was sealed with -/
theorem ivOf_encrypt (sealF : Bytes → Bytes → Bytes) (iv p : Bytes) : ivOf (encrypt sealF iv p) = some iv := by
  have hdrop : (encrypt sealF iv p).drop header.length = b64Encode iv ++ splitter :: b64Encode (sealF iv p) := by
    rw [encrypt_shape]; simp
  have hcut : cutAt splitter (b64Encode iv ++ splitter :: b64Encode (sealF iv p)) = some (b64Encode iv, b64Encode (sealF iv p)) :=
    cutAt_append_sep _ _ _ (by rw [splitter_eq]; exact not_mem_b64 iv 33 (by simp))
  unfold ivOf
  rw [hdrop, hcut]
  exact b64_roundtrip iv

/-- `Decrypt(Encrypt(p)) = p` for a 12-byte IV, given that the AEAD opens what it sealed -/
theorem decrypt_encrypt (chk : Bool) (sealF : Bytes → Bytes → Bytes) (opn : Bytes → Bytes → Option Bytes)
    (iv p : Bytes) (hiv : iv.length = 12) (hA : opn iv (sealF iv p) = some p) :
    decryptV chk opn (encrypt sealF iv p) = .ok p := by
  rw [decrypt_encrypt_gen chk sealF opn iv p hiv, hA]

end Gate.C39

namespace Gate.C39
open Gate

/-! ## the record layer -/

theorem boolField_noNul (b : Bool) : (0 : UInt8) ∉ (if b then [49] else [48] : Bytes) := by
  cases b <;> simp

theorem readBedrockData_fgToString (host : Bytes) (d : FgData) (x : Int) (h : WfFg host d x) :
    readBedrockData (fgToString d) = .ok (ofFg d x) := by
  have hsplit : splitOn 0 (fgToString d) =
      [d.version, d.username, d.xuid, showInt d.deviceOs, d.languageCode, showInt d.uiProfile, showInt d.inputMode,
       d.ip, d.linkedPlayer, (if d.fromProxy then [49] else [48]), showInt d.subscribeId, d.verifyCode] := by
    unfold fgToString
    apply splitOn_join 0 _ (by simp)
    intro z hz
    simp only [List.mem_cons, List.not_mem_nil, or_false] at hz
    rcases hz with e | e | e | e | e | e | e | e | e | e | e | e <;> subst e
    · exact h.version
    · exact h.username
    · rw [h.xuid]; exact showInt_noNul _
    · exact showInt_noNul _
    · exact h.language
    · exact showInt_noNul _
    · exact showInt_noNul _
    · exact h.ip
    · exact h.linked
    · exact boolField_noNul _
    · exact showInt_noNul _
    · exact h.verify
  unfold readBedrockData
  rw [hsplit]
  have hu : d.username.isEmpty = false := by
    cases hun : d.username with
    | nil => exact absurd hun h.usernameNE
    | cons _ _ => rfl
  have hx : parseInt64 d.xuid = some x := by rw [h.xuid]; exact parseInt64_showInt x h.xuidRange.1 h.xuidRange.2
  have hd := parseInt64_showInt _ h.dev.1 h.dev.2
  have hui := parseInt64_showInt _ h.ui.1 h.ui.2
  have him := parseInt64_showInt _ h.im.1 h.im.2
  simp only [hu, hx, hd, hui, him, Bool.false_eq_true, if_false, if_neg h.xuidNZ]
  cases hfp : d.fromProxy <;> simp [ofFg, hfp]

/-! ## the hostname layer, direction (a): Floodgate → gate -/

theorem fgEncrypt_eq_encrypt (sealF : Bytes → Bytes → Bytes) (iv p : Bytes) : fgEncrypt sealF iv p = encrypt sealF iv p := by
  simp [fgEncrypt, encrypt, header_eq, splitter_eq]

theorem cutPort_noColon (x : Bytes) (h : (58 : UInt8) ∉ x) : cutPort x = x := by
  simp [cutPort, cutAt_nosep 58 x h]

theorem readHostname_fgHostname (chk : Bool) (sealF : Bytes → Bytes → Bytes) (opn : Bytes → Bytes → Option Bytes)
    (iv host : Bytes) (d : FgData) (x : Int) (hiv : iv.length = 12)
    (hA : opn iv (sealF iv (fgToString d)) = some (fgToString d)) (h : WfFg host d x) :
    readHostnameV chk opn (fgHostname sealF iv host d) = .ok (host, ofFg d x) := by
  have hn := encrypt_noNul sealF iv (fgToString d)
  have hsplit : splitOn 0 (fgHostname sealF iv host d) = [host, encrypt sealF iv (fgToString d)] := by
    unfold fgHostname
    rw [fgEncrypt_eq_encrypt, List.append_assoc]
    show splitOn 0 (host ++ 0 :: encrypt sealF iv (fgToString d)) = _
    rw [splitOn_append_sep 0 _ host h.hostOk, splitOn_nosep 0 _ hn.1]
  unfold readHostnameV
  rw [hsplit]
  simp only [cutPort_noColon _ hn.2, decrypt_encrypt chk sealF opn iv _ hiv hA, readBedrockData_fgToString host d x h]

/-! ## the hostname layer, direction (c): gate → Floodgate -/

theorem boolString_noNul (b : Bool) : (0 : UInt8) ∉ boolString b := by cases b <;> simp [boolString]

theorem recordFields_noNul (host : Bytes) (d : BedrockData) (sub : Int) (h : WfGate host d sub) :
    ∀ z ∈ recordFields d, (0 : UInt8) ∉ z := by
  intro z hz
  simp only [recordFields, List.mem_cons, List.not_mem_nil, or_false] at hz
  rcases hz with e | e | e | e | e | e | e | e | e | e | e | e <;> subst e
  · exact h.version
  · exact h.username
  · exact showInt_noNul _
  · exact showInt_noNul _
  · exact h.language
  · exact showInt_noNul _
  · exact showInt_noNul _
  · exact h.ip
  · exact h.linked
  · exact boolString_noNul _
  · rw [h.subscribe]; exact showInt_noNul _
  · exact h.verify

theorem writeHostname_ok (sealF : Bytes → Bytes → Bytes) (iv host : Bytes) (d : BedrockData) (sub : Int)
    (h : WfGate host d sub) :
    writeHostname sealF iv host d = .ok (host ++ 0 :: encrypt sealF iv (join 0 (recordFields d))) := by
  unfold writeHostname
  have h1 : host.contains 0 = false := contains_false_of_not_mem _ _ h.hostOk
  have h2 : (recordFields d).any (·.contains 0) = false := by
    rw [List.any_eq_false]
    intro z hz
    simpa using recordFields_noNul host d sub h z hz
  rw [h1, h2]
  rfl

theorem fgDecrypt_encrypt (sealF : Bytes → Bytes → Bytes) (opn : Bytes → Bytes → Option Bytes)
    (iv p : Bytes) (hiv : iv.length = 12) (hA : opn iv (sealF iv p) = some p) :
    fgDecrypt opn (encrypt sealF iv p) = .ok p := by
  have hlen : ¬ ((encrypt sealF iv p).length ≤ fgHeader.length) := by
    rw [encrypt_shape, ← header_eq]
    simp only [List.length_append, List.length_cons, b64Encode_length, hiv, header_length]
    omega
  have hpre : isPrefix fgIdentifier (encrypt sealF iv p) = true := by
    rw [encrypt_shape, header_bytes, fgIdentifier_bytes]
    show isPrefix [94, 70, 108, 111, 111, 100, 103, 97, 116, 101, 94] ([94, 70, 108, 111, 111, 100, 103, 97, 116, 101, 94] ++ (62 :: _)) = true
    exact isPrefix_append _ _
  have hdrop : (encrypt sealF iv p).drop fgHeader.length = b64Encode iv ++ splitter :: b64Encode (sealF iv p) := by
    rw [encrypt_shape, ← header_eq]; simp
  have hcut : cutAt 0x21 (b64Encode iv ++ splitter :: b64Encode (sealF iv p)) = some (b64Encode iv, b64Encode (sealF iv p)) := by
    rw [splitter_eq]
    exact cutAt_append_sep _ _ _ (not_mem_b64 iv 33 (by simp))
  have hne : iv.isEmpty = false := by
    cases iv with
    | nil => simp at hiv
    | cons _ _ => rfl
  unfold fgDecrypt
  rw [if_neg hlen]
  simp only [hpre, Bool.not_true, Bool.false_eq_true, if_false, hdrop, hcut, javaQuanta_encode, hne, hA]

theorem fgFromString_record (host : Bytes) (d : BedrockData) (sub : Int) (h : WfGate host d sub) :
    fgFromString (join 0 (recordFields d)) = .ok (toFg d sub) := by
  have hsplit : splitOn 0 (join 0 (recordFields d)) = recordFields d :=
    splitOn_join 0 _ (by simp [recordFields]) (recordFields_noNul host d sub h)
  have hv : d.verifyCode.isEmpty = false := by
    cases hvc : d.verifyCode with
    | nil => exact absurd hvc h.verifyNE
    | cons _ _ => rfl
  have hd := javaParseInt_showInt _ h.dev.1 h.dev.2
  have hui := javaParseInt_showInt _ h.ui.1 h.ui.2
  have him := javaParseInt_showInt _ h.im.1 h.im.2
  have hsub : javaParseInt d.subscribeID = some sub := by rw [h.subscribe]; exact javaParseInt_showInt _ h.subRange.1 h.subRange.2
  unfold fgFromString javaSplit
  rw [hsplit]
  simp only [recordFields, dropTrailingEmpty, hv, Bool.false_eq_true, if_false, hd, hui, him, hsub]
  cases hp : d.proxy <;> simp [toFg, boolString, hp]

theorem carriesData_encrypt (sealF : Bytes → Bytes → Bytes) (iv p : Bytes) (hiv : iv.length = 12) :
    carriesData (encrypt sealF iv p) = true := by
  have hlen : (encrypt sealF iv p).length > fgHeader.length := by
    rw [encrypt_shape, ← header_eq]
    simp only [List.length_append, List.length_cons, b64Encode_length, hiv, header_length]
    omega
  have hpre : isPrefix fgIdentifier (encrypt sealF iv p) = true := by
    rw [encrypt_shape, header_bytes, fgIdentifier_bytes]
    show isPrefix [94, 70, 108, 111, 111, 100, 103, 97, 116, 101, 94] ([94, 70, 108, 111, 111, 100, 103, 97, 116, 101, 94] ++ (62 :: _)) = true
    exact isPrefix_append _ _
  simp [carriesData, hlen, hpre]

theorem fgRead_written (sealF : Bytes → Bytes → Bytes) (opn : Bytes → Bytes → Option Bytes)
    (iv host : Bytes) (d : BedrockData) (sub : Int) (hiv : iv.length = 12)
    (hA : opn iv (sealF iv (join 0 (recordFields d))) = some (join 0 (recordFields d))) (h : WfGate host d sub) :
    fgRead opn (host ++ 0 :: encrypt sealF iv (join 0 (recordFields d))) = .ok (host, toFg d sub) := by
  have hn := encrypt_noNul sealF iv (join 0 (recordFields d))
  have hsplit : splitOn 0 (host ++ 0 :: encrypt sealF iv (join 0 (recordFields d))) = [host, encrypt sealF iv (join 0 (recordFields d))] := by
    rw [splitOn_append_sep 0 _ host h.hostOk, splitOn_nosep 0 _ hn.1]
  have hcar := carriesData_encrypt sealF iv (join 0 (recordFields d)) hiv
  have hne : (encrypt sealF iv (join 0 (recordFields d))).isEmpty = false := by
    rw [encrypt_shape, header_bytes]; rfl
  have hhand : fgHandshake (host ++ 0 :: encrypt sealF iv (join 0 (recordFields d))) =
      some (host, encrypt sealF iv (join 0 (recordFields d))) := by
    unfold fgHandshake javaSplit
    rw [hsplit]
    simp [dropTrailingEmpty, hne, List.filter, hcar, h.hostPlain, join]
  have hver : (encrypt sealF iv (join 0 (recordFields d))).getD fgIdentifier.length 0 = 0x3E := by
    rw [encrypt_shape, header_bytes, fgIdentifier_bytes]; rfl
  unfold fgRead
  rw [hhand]
  simp only [hver, ne_eq, not_true_eq_false, if_false, fgDecrypt_encrypt sealF opn iv _ hiv hA, fgFromString_record host d sub h]

end Gate.C39

namespace Gate.C39
open Gate

/-! ## authenticity: what acceptance implies -/

theorem decrypt_ok_inv (chk : Bool) (opn : Bytes → Bytes → Option Bytes) (s p : Bytes)
    (h : decryptV chk opn s = .ok p) :
    ∃ ivB64 ctB64 iv ct, cutAt splitter (s.drop header.length) = some (ivB64, ctB64) ∧ b64Decode ivB64 = some iv ∧
      b64Decode ctB64 = some ct ∧ iv.length = 12 ∧ opn iv ct = some p := by
  unfold decryptV at h
  split at h
  · cases h
  · split at h
    · cases h
    · split at h
      · cases h
      · rename_i ivB64 ctB64 hcut
        split at h
        · cases h
        · rename_i iv hiv
          split at h
          · cases h
          · rename_i ct hct
            split at h
            · split at h <;> cases h
            · rename_i hlen
              split at h
              · cases h
              · rename_i q hq
                cases h
                refine ⟨ivB64, ctB64, iv, ct, hcut, hiv, hct, ?_, hq⟩
                rw [← ivLength_eq]
                exact Classical.not_not.1 hlen

theorem decrypt_no_panic (opn : Bytes → Bytes → Option Bytes) (s : Bytes) : decrypt opn s ≠ .error .panic := by
  unfold decrypt decryptV
  simp only [if_true]
  repeat' split
  all_goals simp

theorem readBedrockData_no_decrypt_err (p : Bytes) (e : DErr) : readBedrockData p ≠ .error (.decrypt e) := by
  unfold readBedrockData
  repeat' split
  all_goals simp

theorem readHostname_ok_inv (chk : Bool) (opn : Bytes → Bytes → Option Bytes) (hn host : Bytes) (d : BedrockData)
    (h : readHostnameV chk opn hn = .ok (host, d)) :
    ∃ data plain, splitOn 0 hn = [host, data] ∧ decryptV chk opn (cutPort data) = .ok plain ∧ readBedrockData plain = .ok d := by
  unfold readHostnameV at h
  split at h
  · rename_i h0 data hs
    split at h
    · cases h
    · rename_i plain hd
      split at h
      · cases h
      · rename_i d' hr
        cases h
        exact ⟨data, plain, hs, hd, hr⟩
  · cases h

theorem readHostname_other_key (chk : Bool) (sealF : Bytes → Bytes → Bytes) (opn : Bytes → Bytes → Option Bytes)
    (iv host : Bytes) (d : FgData) (hiv : iv.length = 12) (hhost : noNul host)
    (hno : opn iv (sealF iv (fgToString d)) = none) :
    readHostnameV chk opn (fgHostname sealF iv host d) = .error (.decrypt .open) := by
  have hn := encrypt_noNul sealF iv (fgToString d)
  have hsplit : splitOn 0 (fgHostname sealF iv host d) = [host, encrypt sealF iv (fgToString d)] := by
    unfold fgHostname
    rw [fgEncrypt_eq_encrypt, List.append_assoc]
    show splitOn 0 (host ++ 0 :: encrypt sealF iv (fgToString d)) = _
    rw [splitOn_append_sep 0 _ host hhost, splitOn_nosep 0 _ hn.1]
  unfold readHostnameV
  rw [hsplit]
  simp only [cutPort_noColon _ hn.2, decrypt_encrypt_gen chk sealF opn iv _ hiv, hno]

end Gate.C39
