import GateModel.C39.Model
/-
C39 — reference: Floodgate's own encoder and decoder, transcribed by hand from
org.geysermc.floodgate.{crypto.AesCipher, crypto.Base64Topping, crypto.FloodgateCipher, util.BedrockData}
and the handshake split of FloodgateHandshakeHandler (sources are not on this machine).

  encoder:  BedrockData.toString  →  AesCipher.encrypt (AES/GCM/NoPadding, 12-byte random IV, 128-bit tag,
            Base64Topping on IV and ciphertext, HEADER ‖ iv ‖ 0x21 ‖ ciphertext)  →  host ‖ NUL ‖ data
  decoder:  hostname.split("\0") → the item that carries the identifier is the data, the rest is the host →
            checkHeader → first 0x21 → java.util.Base64 basic decoder → AES-GCM open → BedrockData.fromString
            (String.split drops trailing empty strings; Integer.parseInt on fields 3,5,6,10)

The AEAD itself is the same parameter as in the model.  `LinkedPlayer`'s inner `a;b;c` format is not
transcribed: the field is carried as an opaque string.
-/
namespace Gate.C39
open Gate

/-- Floodgate's `BedrockData` (xuid is a String there, subscribeId an int) -/
structure FgData where
  version  : Bytes
  username : Bytes
  xuid     : Bytes
  deviceOs : Int
  languageCode : Bytes
  uiProfile : Int
  inputMode : Int
  ip       : Bytes
  linkedPlayer : Bytes
  fromProxy : Bool
  subscribeId : Int
  verifyCode : Bytes
  deriving DecidableEq, Repr, Inhabited

/-- `BedrockData.toString()` -/
def fgToString (d : FgData) : Bytes :=
  join 0 [d.version, d.username, d.xuid, showInt d.deviceOs, d.languageCode, showInt d.uiProfile, showInt d.inputMode,
          d.ip, d.linkedPlayer, (if d.fromProxy then [49] else [48]), showInt d.subscribeId, d.verifyCode]

/-- `"^Floodgate^" + (char)(VERSION + 0x3E)` -/
def fgHeader : Bytes := "^Floodgate^>".toUTF8.toList
def fgIdentifier : Bytes := "^Floodgate^".toUTF8.toList

/-- `AesCipher.encrypt` with `Base64Topping` -/
def fgEncrypt (sealF : Bytes → Bytes → Bytes) (iv data : Bytes) : Bytes :=
  fgHeader ++ b64Encode iv ++ [0x21] ++ b64Encode (sealF iv data)

/-- what Geyser puts into the handshake: `address + '\0' + encryptedData` -/
def fgHostname (sealF : Bytes → Bytes → Bytes) (iv host : Bytes) (d : FgData) : Bytes :=
  host ++ [0] ++ fgEncrypt sealF iv (fgToString d)

/-! ### decoder -/

def dropTrailingEmpty : List Bytes → List Bytes
  | [] => []
  | x :: xs =>
    match dropTrailingEmpty xs with
    | [] => if x.isEmpty then [] else [x]
    | ys => x :: ys

/-- `s.split("\0")`: no match → `[s]`; otherwise trailing empty strings are removed -/
def javaSplit (s : Bytes) : List Bytes :=
  match splitOn 0 s with
  | [x] => [x]
  | ps => dropTrailingEmpty ps

/-- `Integer.parseInt` (ASCII digits; other Unicode digits are not modelled) -/
def javaParseInt (s : Bytes) : Option Int := parseSigned (2 ^ 31) s

/-- `java.util.Base64.getDecoder().decode`: padding optional but, if present, complete and final;
    no characters outside the alphabet; unused trailing bits unchecked -/
def javaQuanta : Bytes → Option Bytes
  | [] => some []
  | [a, b] =>
    match decChar a, decChar b with
    | some x, some y => some [UInt8.ofNat (x * 4 + y / 16)]
    | _, _ => none
  | [a, b, c] =>
    match decChar a, decChar b, decChar c with
    | some x, some y, some z => some [UInt8.ofNat (x * 4 + y / 16), UInt8.ofNat (y % 16 * 16 + z / 4)]
    | _, _, _ => none
  | a :: b :: c :: d :: r =>
    match decChar a, decChar b with
    | some x, some y =>
      if c = pad then
        (if d = pad ∧ r = [] then some [UInt8.ofNat (x * 4 + y / 16)] else none)
      else match decChar c with
        | none => none
        | some z =>
          if d = pad then
            (if r = [] then some [UInt8.ofNat (x * 4 + y / 16), UInt8.ofNat (y % 16 * 16 + z / 4)] else none)
          else match decChar d with
            | none => none
            | some w =>
              match javaQuanta r with
              | none => none
              | some t => some (UInt8.ofNat (x * 4 + y / 16) :: UInt8.ofNat (y % 16 * 16 + z / 4) :: UInt8.ofNat (z % 4 * 64 + w) :: t)
    | _, _ => none
  | _ => none

inductive FErr where
  | noData           -- no hostname item carries the Floodgate identifier
  | version          -- identifier present, version byte differs
  | format           -- header/splitter/Base64 problems (InvalidFormatException, IllegalArgumentException)
  | open             -- AEADBadTagException
  | length           -- BedrockData.fromString: not 12 parts
  | number           -- NumberFormatException
  deriving DecidableEq, Repr, Inhabited

def FErr.toString : FErr → String
  | .noData => "no-data" | .version => "version" | .format => "format" | .open => "open" | .length => "length" | .number => "number"

/-- `AesCipher.decrypt` (after `checkHeader`) -/
def fgDecrypt (opn : Bytes → Bytes → Option Bytes) (s : Bytes) : Except FErr Bytes :=
  if s.length ≤ fgHeader.length then .error .format
  else if !isPrefix fgIdentifier s then .error .format
  else
    match cutAt 0x21 (s.drop fgHeader.length) with
    | none => .error .format
    | some (ivB64, ctB64) =>
      match javaQuanta ivB64, javaQuanta ctB64 with
      | some iv, some ct =>
        if iv.isEmpty then .error .format else
        match opn iv ct with
        | none => .error .open
        | some p => .ok p
      | _, _ => .error .format

/-- `BedrockData.fromString` -/
def fgFromString (s : Bytes) : Except FErr FgData :=
  match javaSplit s with
  | [p0, p1, p2, p3, p4, p5, p6, p7, p8, p9, p10, p11] =>
    match javaParseInt p3, javaParseInt p5, javaParseInt p6, javaParseInt p10 with
    | some dev, some ui, some im, some sub =>
      .ok { version := p0, username := p1, xuid := p2, deviceOs := dev, languageCode := p4, uiProfile := ui,
            inputMode := im, ip := p7, linkedPlayer := p8, fromProxy := (p9 == [49]), subscribeId := sub, verifyCode := p11 }
    | _, _, _, _ => .error .number
  | _ => .error .length

/-- `FloodgateCipher.version(item) != -1`: longer than the header and starting with the identifier -/
def carriesData (item : Bytes) : Bool := decide (item.length > fgHeader.length) && isPrefix fgIdentifier item

/-- the handshake split: the (last) item carrying the identifier is the data, the others, re-joined
    with NUL, are the host -/
def fgHandshake (hostname : Bytes) : Option (Bytes × Bytes) :=
  let items := javaSplit hostname
  match (items.filter carriesData).getLast? with
  | none => none
  | some data => some (join 0 (items.filter fun i => !carriesData i), data)

/-- Floodgate's reading of a handshake hostname -/
def fgRead (opn : Bytes → Bytes → Option Bytes) (hostname : Bytes) : Except FErr (Bytes × FgData) :=
  match fgHandshake hostname with
  | none => .error .noData
  | some (host, data) =>
    if data.getD fgIdentifier.length 0 ≠ 0x3E then .error .version else
    match fgDecrypt opn data with
    | .error e => .error e
    | .ok plain =>
      match fgFromString plain with
      | .error e => .error e
      | .ok d => .ok (host, d)

/-! ### the two records side by side -/

/-- how Floodgate sees a record written by gate -/
def toFg (d : BedrockData) (sub : Int) : FgData :=
  { version := d.version, username := d.username, xuid := showInt d.xuid, deviceOs := d.deviceOS,
    languageCode := d.language, uiProfile := d.uiProfile, inputMode := d.inputMode, ip := d.ip,
    linkedPlayer := d.linkedPlayer, fromProxy := d.proxy, subscribeId := sub, verifyCode := d.verifyCode }

/-- how gate sees a record written by Floodgate (`xuid` parsed, device id normalised, subscribeId as text) -/
def ofFg (d : FgData) (xuid : Int) : BedrockData :=
  { version := d.version, username := d.username, xuid := xuid, deviceOS := deviceOSFromID d.deviceOs,
    language := d.languageCode, uiProfile := d.uiProfile, inputMode := d.inputMode, ip := d.ip,
    linkedPlayer := d.linkedPlayer, proxy := d.fromProxy, subscribeID := showInt d.subscribeId, verifyCode := d.verifyCode }

/-! ### domains of the interop theorems -/

def int64 (i : Int) : Prop := -(2 ^ 63 : Nat) ≤ i ∧ i < (2 ^ 63 : Nat)
def int32 (i : Int) : Prop := -(2 ^ 31 : Nat) ≤ i ∧ i < (2 ^ 31 : Nat)
def noNul (x : Bytes) : Prop := (0 : UInt8) ∉ x

/-- Records Floodgate can emit that gate is meant to accept: no NUL inside a field, a non-empty
    username, the xuid the canonical decimal of a non-zero int64 `x`, integers within int64
    (Floodgate's are int32). -/
structure WfFg (host : Bytes) (d : FgData) (x : Int) : Prop where
  hostOk : noNul host
  version : noNul d.version
  username : noNul d.username
  usernameNE : d.username ≠ []
  xuid : d.xuid = showInt x
  xuidNZ : x ≠ 0
  xuidRange : int64 x
  language : noNul d.languageCode
  ip : noNul d.ip
  linked : noNul d.linkedPlayer
  verify : noNul d.verifyCode
  dev : int64 d.deviceOs
  ui : int64 d.uiProfile
  im : int64 d.inputMode
  sub : int64 d.subscribeId

/-- Records gate can write for which Floodgate's own format is well defined: no NUL inside a field,
    the host does not itself look like Floodgate data, the subscribe id is the canonical decimal of an
    int32 `sub`, the verify code is not empty (Java's `split` drops trailing empty strings), the
    integers Floodgate parses with `Integer.parseInt` are int32. -/
structure WfGate (host : Bytes) (d : BedrockData) (sub : Int) : Prop where
  hostOk : noNul host
  hostPlain : carriesData host = false
  version : noNul d.version
  username : noNul d.username
  language : noNul d.language
  ip : noNul d.ip
  linked : noNul d.linkedPlayer
  subscribe : d.subscribeID = showInt sub
  subRange : int32 sub
  verify : noNul d.verifyCode
  verifyNE : d.verifyCode ≠ []
  dev : int32 d.deviceOS
  ui : int32 d.uiProfile
  im : int32 d.inputMode

end Gate.C39
