import GateModel.Base.Bytes
import GateModel.Gen.C39
/-
C39 — model of pkg/edition/bedrock/geyser/floodgate/{cipher,floodgate}.go.

AES-GCM is a parameter: `opn : iv → ciphertext → Option plaintext` and `sealF : iv → plaintext → ciphertext`
for the configured key.  Everything around it is modelled exactly: header, splitter, Go's
`base64.StdEncoding` (padded, CR/LF skipped, trailing bits unchecked), `strings.Split` on NUL,
`strconv.ParseInt`/`Atoi` (base 10), the twelve-field record.  Go strings are byte strings.
-/
namespace Gate.C39
open Gate

/-! ## Base64 (encoding/base64.StdEncoding) -/

/-- the alphabet `A–Z a–z 0–9 + /` by index -/
def encChar (n : Nat) : UInt8 :=
  if n < 26 then UInt8.ofNat (65 + n)
  else if n < 52 then UInt8.ofNat (71 + n)
  else if n < 62 then UInt8.ofNat (n - 4)
  else if n = 62 then 43 else 47

def decChar (c : UInt8) : Option Nat :=
  let n := c.toNat
  if 65 ≤ n ∧ n ≤ 90 then some (n - 65)
  else if 97 ≤ n ∧ n ≤ 122 then some (n - 71)
  else if 48 ≤ n ∧ n ≤ 57 then some (n + 4)
  else if n = 43 then some 62
  else if n = 47 then some 63
  else none

def pad : UInt8 := 61  -- '='

/-- `EncodeToString` -/
def b64Encode : Bytes → Bytes
  | a :: b :: c :: r =>
    let n := a.toNat * 65536 + b.toNat * 256 + c.toNat
    encChar (n / 262144) :: encChar (n / 4096 % 64) :: encChar (n / 64 % 64) :: encChar (n % 64) :: b64Encode r
  | [a, b] =>
    let n := a.toNat * 1024 + b.toNat * 4
    [encChar (n / 4096), encChar (n / 64 % 64), encChar (n % 64), pad]
  | [a] =>
    let n := a.toNat * 16
    [encChar (n / 64), encChar (n % 64), pad, pad]
  | [] => []

/-- the quantum loop of `Decode` on input from which CR/LF have been removed: full quanta of four
    alphabet characters, the last one possibly `xx==` or `xxx=`; the unused low bits of a padded
    quantum are NOT checked (non-strict mode); anything else is `CorruptInputError`. -/
def decodeQuanta : Bytes → Option Bytes
  | [] => some []
  | a :: b :: c :: d :: r =>
    match decChar a, decChar b with
    | some x, some y =>
      if c = pad then
        (if d = pad ∧ r = [] then some [UInt8.ofNat (x * 4 + y / 16)] else none)
      else match decChar c with
        | none => none
        | some z =>
          if d = pad then
            (if r = [] then some [UInt8.ofNat (x * 4 + y / 16), UInt8.ofNat (y % 16 * 16 + z / 4)] else none)
          else match decChar d with
            | none => none
            | some w =>
              match decodeQuanta r with
              | none => none
              | some t => some (UInt8.ofNat (x * 4 + y / 16) :: UInt8.ofNat (y % 16 * 16 + z / 4) :: UInt8.ofNat (z % 4 * 64 + w) :: t)
    | _, _ => none
  | _ => none

/-- `DecodeString`: `\r` and `\n` are ignored wherever they occur -/
def b64Decode (s : Bytes) : Option Bytes := decodeQuanta (s.filter fun c => c != 10 && c != 13)

/-! ## cipher.go -/

def ivLength : Nat := Gate.Gen.C39.ivLength.toNat
def splitter : UInt8 := UInt8.ofNat Gate.Gen.C39.splitter.toNat
/-- `HEADER = IDENTIFIER + string(rune(VERSION+MAGIC))` (a one-byte rune: `>`) -/
def header : Bytes := Gate.Gen.C39.identifier.toUTF8.toList ++ [UInt8.ofNat (Gate.Gen.C39.version + Gate.Gen.C39.magic).toNat]

/-- `bytes.IndexByte` + the two slices around the hit -/
def cutAt (sep : UInt8) : Bytes → Option (Bytes × Bytes)
  | [] => none
  | b :: r => if b = sep then some ([], r) else
    match cutAt sep r with
    | none => none
    | some (x, y) => some (b :: x, y)

def isPrefix : Bytes → Bytes → Bool
  | [], _ => true
  | _ :: _, [] => false
  | a :: p, b :: s => a == b && isPrefix p s

inductive DErr where
  | len | header | splitter | ivB64 | ctB64 | nonceLen | open
  | panic     -- only the pre-fix variant: gcm.Open panics on a nonce that is not 12 bytes long
  deriving DecidableEq, Repr, Inhabited

def DErr.toString : DErr → String
  | .len => "len" | .header => "header" | .splitter => "splitter" | .ivB64 => "iv-b64" | .ctB64 => "ct-b64"
  | .nonceLen => "noncelen" | .open => "open" | .panic => "panic"

/-- `AesCipher.Decrypt`.  `checked = true` is the repaired code (nonce length verified before
    `gcm.Open`), `checked = false` the code as found. -/
def decryptV (checked : Bool) (opn : Bytes → Bytes → Option Bytes) (s : Bytes) : Except DErr Bytes :=
  if s.length < header.length + ivLength + 1 then .error .len
  else if !isPrefix header s then .error .header
  else
    match cutAt splitter (s.drop header.length) with
    | none => .error .splitter
    | some (ivB64, ctB64) =>
      match b64Decode ivB64 with
      | none => .error .ivB64
      | some iv =>
        match b64Decode ctB64 with
        | none => .error .ctB64
        | some ct =>
          if iv.length ≠ ivLength then (if checked then .error .nonceLen else .error .panic)
          else match opn iv ct with
            | none => .error .open
            | some p => .ok p

def decrypt := decryptV true
def decryptDefective := decryptV false

/-- `AesCipher.Encrypt` with the random IV made explicit -/
def encrypt (sealF : Bytes → Bytes → Bytes) (iv : Bytes) (plain : Bytes) : Bytes :=
  header ++ b64Encode iv ++ [splitter] ++ b64Encode (sealF iv plain)

/-- the nonce a Floodgate blob carries: Base64 text between the header and the first splitter -/
def ivOf (s : Bytes) : Option Bytes :=
  match cutAt splitter (s.drop header.length) with
  | none => none
  | some (ivB64, _) => b64Decode ivB64

/-! ## strings.Split, strconv -/

/-- `strings.Split(s, string(sep))` for a one-byte separator -/
def splitOn (sep : UInt8) : Bytes → List Bytes
  | [] => [[]]
  | b :: r =>
    if b = sep then [] :: splitOn sep r
    else match splitOn sep r with
      | [] => [[b]]            -- unreachable: splitOn never returns []
      | x :: xs => (b :: x) :: xs

def join (sep : UInt8) : List Bytes → Bytes
  | [] => []
  | [x] => x
  | x :: y :: r => x ++ sep :: join sep (y :: r)

/-- the digit loop of `ParseUint(s, 10, 64)`: `none` = syntax error -/
def parseDigits : Nat → Bytes → Option Nat
  | acc, [] => some acc
  | acc, c :: r => if 48 ≤ c.toNat ∧ c.toNat ≤ 57 then parseDigits (acc * 10 + (c.toNat - 48)) r else none

/-- signed decimal with magnitude bound `lim` (= 2^(bits-1)): optional sign, at least one digit, only
    ASCII digits, `-lim ≤ value < lim`; `none` = any error -/
def parseSigned (lim : Nat) (s : Bytes) : Option Int :=
  match s with
  | [] => none
  | c :: r =>
    let (neg, ds) := if c = 43 then (false, r) else if c = 45 then (true, r) else (false, s)
    if ds.isEmpty then none else
    match parseDigits 0 ds with
    | none => none
    | some n =>
      if neg then (if n > lim then none else some (-(n : Int)))
      else (if n ≥ lim then none else some (n : Int))

/-- `strconv.ParseInt(s, 10, 64)` (and `Atoi` on a 64-bit platform) -/
def parseInt64 (s : Bytes) : Option Int := parseSigned (2 ^ 63) s

/-- decimal digits of a natural number, most significant first (`strconv.FormatInt` magnitude) -/
def showNatAux : Nat → Nat → Bytes → Bytes
  | 0, _, acc => acc
  | fuel + 1, n, acc =>
    let acc' := UInt8.ofNat (48 + n % 10) :: acc
    if n < 10 then acc' else showNatAux fuel (n / 10) acc'
def showNat (n : Nat) : Bytes := showNatAux (n + 1) n []
/-- `strconv.FormatInt(i, 10)` / `strconv.Itoa` -/
def showInt (i : Int) : Bytes := if i < 0 then 45 :: showNat i.natAbs else showNat i.toNat

/-! ## floodgate.go -/

/-- `BedrockData` (DeviceOS by its ID) -/
structure BedrockData where
  version  : Bytes
  username : Bytes
  xuid     : Int
  deviceOS : Int
  language : Bytes
  uiProfile : Int
  inputMode : Int
  ip       : Bytes
  linkedPlayer : Bytes
  proxy    : Bool
  subscribeID : Bytes
  verifyCode : Bytes
  deriving DecidableEq, Repr, Inhabited

inductive RErr where
  | hostParts                       -- hostname does not have exactly two NUL-separated parts
  | decrypt (e : DErr)
  | fields | username | xuid | xuidZero | deviceOS | uiProfile | inputMode
  deriving DecidableEq, Repr, Inhabited

def RErr.toString : RErr → String
  | .hostParts => "host-parts" | .decrypt e => "decrypt-" ++ e.toString | .fields => "fields"
  | .username => "username" | .xuid => "xuid" | .xuidZero => "xuid-zero" | .deviceOS => "device-os"
  | .uiProfile => "ui-profile" | .inputMode => "input-mode"

/-- `DeviceOSFromID`: ids outside the table (0..15) map to `DeviceOSUnknown` (id 0) -/
def deviceOSFromID (id : Int) : Int := if 0 ≤ id ∧ id ≤ 15 then id else 0

/-- `ReadBedrockData` -/
def readBedrockData (data : Bytes) : Except RErr BedrockData :=
  match splitOn 0 data with
  | [p0, p1, p2, p3, p4, p5, p6, p7, p8, p9, p10, p11] =>
    if p1.isEmpty then .error .username else
    match parseInt64 p2 with
    | none => .error .xuid
    | some xuid =>
      if xuid = 0 then .error .xuidZero else
      match parseInt64 p3 with
      | none => .error .deviceOS
      | some dev =>
        match parseInt64 p5 with
        | none => .error .uiProfile
        | some ui =>
          match parseInt64 p6 with
          | none => .error .inputMode
          | some im =>
            .ok { version := p0, username := p1, xuid := xuid, deviceOS := deviceOSFromID dev, language := p4,
                  uiProfile := ui, inputMode := im, ip := p7, linkedPlayer := p8, proxy := (p9 == [49]),
                  subscribeID := p10, verifyCode := p11 }
  | _ => .error .fields

/-- `strings.Split(data, ":")[0]` when `data` contains `:` -/
def cutPort (data : Bytes) : Bytes :=
  match cutAt 58 data with
  | some (x, _) => x
  | none => data

/-- `Floodgate.ReadHostname` -/
def readHostnameV (checked : Bool) (opn : Bytes → Bytes → Option Bytes) (hostname : Bytes) :
    Except RErr (Bytes × BedrockData) :=
  match splitOn 0 hostname with
  | [host, data] =>
    match decryptV checked opn (cutPort data) with
    | .error e => .error (.decrypt e)
    | .ok plain =>
      match readBedrockData plain with
      | .error e => .error e
      | .ok d => .ok (host, d)
  | _ => .error .hostParts

def readHostname := readHostnameV true
def readHostnameDefective := readHostnameV false

inductive WErr where
  | hostNul | fieldNul
  deriving DecidableEq, Repr, Inhabited
def WErr.toString : WErr → String | .hostNul => "host-nul" | .fieldNul => "field-nul"

def boolString (b : Bool) : Bytes := if b then [49] else [48]

/-- the `fields` slice of `WriteHostname` -/
def recordFields (d : BedrockData) : List Bytes :=
  [d.version, d.username, showInt d.xuid, showInt d.deviceOS, d.language, showInt d.uiProfile, showInt d.inputMode,
   d.ip, d.linkedPlayer, boolString d.proxy, d.subscribeID, d.verifyCode]

/-- `Floodgate.WriteHostname` with the IV explicit (`d ≠ nil`) -/
def writeHostname (sealF : Bytes → Bytes → Bytes) (iv : Bytes) (host : Bytes) (d : BedrockData) : Except WErr Bytes :=
  if host.contains 0 then .error .hostNul
  else if (recordFields d).any (·.contains 0) then .error .fieldNul
  else .ok (host ++ 0 :: encrypt sealF iv (join 0 (recordFields d)))

end Gate.C39
