import GateModel.Base.Line
import GateModel.C39.Model
import GateModel.C39.Spec
/-
C39 driver.  Byte strings are hex (`-` = empty).  AES-GCM results come as an oracle table
`iv/ct/pt;iv/ct/!;…` (`!` = open fails, `_` = empty table) computed by the harness with crypto/cipher
directly; a pair that is not in the table does not open.

  hdr                                   HEADER bytes
  b64d <s> | b64e <b>                   encoding/base64.StdEncoding.DecodeString / EncodeToString
  atoi <s> | itoa <int>                 strconv.ParseInt(s,10,64) (= Atoi) / FormatInt
  pbd <plain>                           ReadBedrockData
  dec <data> <oracle>                   AesCipher.Decrypt
  rd <hostname> <oracle> <orig|->       ReadHostname on a mutated / foreign-key hostname; `orig` = the record
                                        line of the genuine hostname it was derived from
  fg <host> <iv> <12 FgData tokens> <hostname> <oracle>
                                        hostname built by the harness's Floodgate-encoder twin → ReadHostname
  wr <host> <12 BedrockData tokens>     WriteHostname → harness's Floodgate-decoder twin
  cenc <plain> <oracle>                 Encrypt on a Floodgate instance shared by several goroutines → returned blob
  cnonce <blob1> <blob2>                two returned blobs the harness found to carry the same nonce
  csum <keylen> <goroutines> <rounds>   summary of the concurrent probe
-/
namespace Gate.C39
open Gate

abbrev Oracle := List (Bytes × Bytes × Option Bytes)

def parseOracle (s : String) : Option Oracle :=
  if s = "_" then some [] else
  (s.splitOn ";").mapM fun e => match e.splitOn "/" with
    | [a, b, c] => do
      let iv ← parseHex a
      let ct ← parseHex b
      let pt ← if c = "!" then some none else (parseHex c).map some
      pure (iv, ct, pt)
    | _ => none

def oracleOpen (o : Oracle) (iv ct : Bytes) : Option Bytes :=
  match o.find? (fun e => e.1 == iv && e.2.1 == ct) with
  | some (_, _, r) => r
  | none => none

/-- the sealing function the oracle table implies (only used to re-build the reference encoding) -/
def oracleSeal (o : Oracle) (iv pt : Bytes) : Bytes :=
  match o.find? (fun e => e.1 == iv && e.2.2 == some pt) with
  | some (_, ct, _) => ct
  | none => []

def b (x : Bool) : String := if x then "1" else "0"

def showData (d : BedrockData) : String :=
  "v=" ++ toHex d.version ++ " u=" ++ toHex d.username ++ " x=" ++ toString d.xuid ++ " d=" ++ toString d.deviceOS ++
  " l=" ++ toHex d.language ++ " ui=" ++ toString d.uiProfile ++ " im=" ++ toString d.inputMode ++ " ip=" ++ toHex d.ip ++
  " lp=" ++ toHex d.linkedPlayer ++ " px=" ++ b d.proxy ++ " sub=" ++ toHex d.subscribeID ++ " vc=" ++ toHex d.verifyCode

def showFg (d : FgData) : String :=
  "v=" ++ toHex d.version ++ " u=" ++ toHex d.username ++ " x=" ++ toHex d.xuid ++ " d=" ++ toString d.deviceOs ++
  " l=" ++ toHex d.languageCode ++ " ui=" ++ toString d.uiProfile ++ " im=" ++ toString d.inputMode ++ " ip=" ++ toHex d.ip ++
  " lp=" ++ toHex d.linkedPlayer ++ " px=" ++ b d.fromProxy ++ " sub=" ++ toString d.subscribeId ++ " vc=" ++ toHex d.verifyCode

def showRead : Except RErr (Bytes × BedrockData) → String
  | .ok (h, d) => "ok host=" ++ toHex h ++ " " ++ showData d
  | .error e => "err " ++ e.toString

def parseFg : List String → Option FgData
  | [v, u, x, dv, l, ui, im, ip, lp, px, sub, vc] => do
    pure { version := ← parseHex v, username := ← parseHex u, xuid := ← parseHex x, deviceOs := ← dv.toInt?,
           languageCode := ← parseHex l, uiProfile := ← ui.toInt?, inputMode := ← im.toInt?, ip := ← parseHex ip,
           linkedPlayer := ← parseHex lp, fromProxy := px = "1", subscribeId := ← sub.toInt?, verifyCode := ← parseHex vc }
  | _ => none

def parseData : List String → Option BedrockData
  | [v, u, x, dv, l, ui, im, ip, lp, px, sub, vc] => do
    pure { version := ← parseHex v, username := ← parseHex u, xuid := ← x.toInt?, deviceOS := ← dv.toInt?,
           language := ← parseHex l, uiProfile := ← ui.toInt?, inputMode := ← im.toInt?, ip := ← parseHex ip,
           linkedPlayer := ← parseHex lp, proxy := px = "1", subscribeID := ← parseHex sub, verifyCode := ← parseHex vc }
  | _ => none

def noNulB (x : Bytes) : Bool := !x.contains 0
def inRange (lo hi : Int) (i : Int) : Bool := decide (lo ≤ i) && decide (i ≤ hi)

/-- domain of direction (a): what Floodgate can emit and gate is meant to accept -/
def wfFgExec (host : Bytes) (d : FgData) : Option Int :=
  match parseInt64 d.xuid with
  | some x =>
    if noNulB host && noNulB d.version && noNulB d.username && !d.username.isEmpty && noNulB d.xuid && d.xuid == showInt x && x != 0 &&
       noNulB d.languageCode && noNulB d.ip && noNulB d.linkedPlayer && noNulB d.verifyCode &&
       inRange (-2147483648) 2147483647 d.deviceOs && inRange (-2147483648) 2147483647 d.uiProfile &&
       inRange (-2147483648) 2147483647 d.inputMode && inRange (-2147483648) 2147483647 d.subscribeId
    then some x else none
  | none => none

/-- domain of direction (c): records gate can hold for which Floodgate's format is well defined -/
def wfGateExec (host : Bytes) (d : BedrockData) : Option Int :=
  match javaParseInt d.subscribeID with
  | some sub =>
    if noNulB host && !carriesData host && noNulB d.version && noNulB d.username && noNulB d.language && noNulB d.ip && noNulB d.linkedPlayer &&
       noNulB d.subscribeID && noNulB d.verifyCode && !d.verifyCode.isEmpty && d.subscribeID == showInt sub &&
       inRange (-2147483648) 2147483647 d.deviceOS && inRange (-2147483648) 2147483647 d.uiProfile &&
       inRange (-2147483648) 2147483647 d.inputMode && inRange (-9223372036854775808) 9223372036854775807 d.xuid
    then some sub else none
  | none => none

def crashed (impl : String) : Bool := impl = "panic" || impl = "hang"

/-- fields part of a record line (`ok host=… <fields>` → `<fields>`) -/
def fieldsOf (line : String) : String := " ".intercalate ((line.splitOn " ").drop 2)

def toyOpen (_ : Bytes) (ct : Bytes) : Option Bytes := some ct
def toySeal (_ : Bytes) (p : Bytes) : Bytes := p

def step (c : Case) : String × String :=
  match c.op, c.args with
  | "hdr", _ => (toHex header, "-")
  | "b64d", [s] => match parseHex s with
    | some bs => ((match b64Decode bs with | some r => "ok " ++ toHex r | none => "err"), "-")
    | none => ("bad-op", "-")
  | "b64e", [s] => match parseHex s with
    | some bs =>
      -- spec: decoding what the implementation printed gives the input back
      let v := match parseHex ((c.impl.splitOn " ").getD 1 "zz") with
        | some enc => if b64Decode enc = some bs && javaQuanta enc = some bs then "ok" else "viol:b64-roundtrip"
        | none => "viol:b64-roundtrip"
      ("ok " ++ toHex (b64Encode bs), v)
    | none => ("bad-op", "-")
  | "atoi", [s] => match parseHex s with
    | some bs => ((match parseInt64 bs with | some i => "ok " ++ toString i | none => "err"), "-")
    | none => ("bad-op", "-")
  | "itoa", [s] => match s.toInt? with
    | some i => ("ok " ++ toHex (showInt i), if c.impl = "ok " ++ toHex (showInt i) && parseInt64 (showInt i) = some i then "ok" else "viol:itoa")
    | none => ("bad-op", "-")
  | "pbd", [s] => match parseHex s with
    | some bs =>
      ((match readBedrockData bs with | .ok d => "ok " ++ showData d | .error e => "err " ++ e.toString),
       if crashed c.impl then "viol:crash" else "-")
    | none => ("bad-op", "-")
  | "dec", [s, o] => match parseHex s, parseOracle o with
    | some bs, some orc =>
      ((match decrypt (oracleOpen orc) bs with | .ok p => "ok " ++ toHex p | .error e => "err " ++ e.toString),
       if crashed c.impl then "viol:crash" else "-")
    | _, _ => ("bad-op", "-")
  | "rd", [s, o, orig] => match parseHex s, parseOracle o with
    | some bs, some orc =>
      let orig := orig.replace "," " "
      let v := if crashed c.impl then "viol:crash"
               else if c.impl.startsWith "err " then "ok"
               else if orig != "-" && fieldsOf c.impl = fieldsOf orig then "ok"
               else "viol:forged-accepted"
      (showRead (readHostname (oracleOpen orc) bs), v)
    | _, _ => ("bad-op", "-")
  | "fg", host :: iv :: rest =>
    match parseHex host, parseHex iv, parseFg (rest.take 12), rest.drop 12 with
    | some host, some iv, some d, [hn, o] =>
      match parseHex hn, parseOracle o with
      | some hn, some orc =>
        if fgHostname (oracleSeal orc) iv host d != hn then ("reference-encoder-mismatch", "-") else
        let v := if crashed c.impl then "viol:crash" else
          match wfFgExec host d with
          | some x => if c.impl = "ok host=" ++ toHex host ++ " " ++ showData (ofFg d x) then "ok" else "viol:floodgate-data-misread"
          | none => "-"
        (showRead (readHostname (oracleOpen orc) hn), v)
      | _, _ => ("bad-op", "-")
    | _, _, _, _ => ("bad-op", "-")
  -- concurrent probe: goroutines sharing ONE Floodgate instance.  The IV is random, so the blob cannot be
  -- predicted: the model column echoes the implementation, the verdict is the model's framing/round-trip
  -- relation (`decrypt_encrypt_id`) evaluated on the returned bytes with the harness's own AES-GCM as oracle.
  | "cenc", [pl, o] => match parseHex pl, parseOracle o with
    | some plain, some orc =>
      let v := if crashed c.impl then "viol:crash" else
        match c.impl.splitOn " " with
        | ["ok", e] => match parseHex e with
          | some enc => match decrypt (oracleOpen orc) enc with
            | .ok q => if q = plain then "ok" else "viol:ciphertext-corrupted"
            | .error _ => "viol:ciphertext-corrupted"
          | none => "viol:ciphertext-corrupted"
        | _ => "viol:ciphertext-corrupted"
      (c.impl, v)
    | _, _ => ("bad-op", "-")
  | "cnonce", [e1, e2] => match parseHex e1, parseHex e2 with
    | some b1, some b2 =>
      if (ivOf b1).isSome && ivOf b1 = ivOf b2 then ("same-nonce", "viol:nonce-reuse") else ("distinct", "-")
    | _, _ => ("bad-op", "-")
  | "csum", [_, g, r] => match g.toNat?, r.toNat? with
    | some g, some r =>
      let want := "total=" ++ toString (g * r) ++ " fail=0 dup=0 panic=0"
      let has (k : String) : Bool := (c.impl.splitOn " ").any fun t => t.startsWith k && !(t == k ++ "0")
      let v := if c.impl = want then "ok"
               else if has "panic=" then "viol:crash"
               else if has "fail=" then "viol:ciphertext-corrupted"
               else if has "dup=" then "viol:nonce-reuse" else "viol:ciphertext-corrupted"
      (want, v)
    | _, _ => ("bad-op", "-")
  | "wr", host :: rest =>
    match parseHex host, parseData rest with
    | some host, some d =>
      let out := match writeHostname toySeal (List.replicate 12 0) host d with
        | .error e => "werr " ++ e.toString
        | .ok hn => match fgRead toyOpen hn with
          | .ok (h, f) => "ok iv=12 host=" ++ toHex h ++ " " ++ showFg f
          | .error e => "fgerr " ++ e.toString
      let v := if crashed c.impl then "viol:crash" else
        match wfGateExec host d with
        | some sub => if c.impl = "ok iv=12 host=" ++ toHex host ++ " " ++ showFg (toFg d sub) then "ok" else "viol:floodgate-cannot-read"
        | none => "-"
      (out, v)
    | _, _ => ("bad-op", "-")
  | _, _ => ("bad-op", "-")

end Gate.C39

def main : IO Unit := Gate.runPureDriver Gate.C39.step
