import GateModel.C33.Spec
/-
C33 — helper lemmas: masked compare = interval membership; facts about what `parseNetwork` returns
(host bits cleared); `mapM` over `Option`; normalisation; `Host` on the two shapes `net.TCPAddr.String()` prints.
-/
namespace Gate.C33
open Gate

/-! ## masked compare = interval membership -/

theorem div_eq_iff_range (x k q : Nat) (hk : 0 < k) : x / k = q ↔ q * k ≤ x ∧ x < q * k + k := by
  constructor
  · intro h
    have h1 := Nat.div_add_mod x k
    have h2 := Nat.mod_lt x hk
    subst h
    rw [Nat.mul_comm]
    omega
  · intro ⟨h1, h2⟩
    have a : q ≤ x / k := (Nat.le_div_iff_mul_le hk).mpr h1
    have b : x / k < q + 1 := (Nat.div_lt_iff_lt_mul hk).mpr (by rw [Nat.add_mul]; omega)
    omega

/-- a prefix whose host bits are zero -/
def Prefix.masked (p : Prefix) : Prop := p.val % 2 ^ (p.bitLen - p.bits) = 0

theorem contains_eq_inRange (p : Prefix) (ip : PAddr) (hm : p.masked) : p.contains ip = inRange p ip := by
  unfold Prefix.contains inRange
  have hk : 0 < 2 ^ (p.bitLen - p.bits) := Nat.pow_pos (by decide)
  have hq : p.val / 2 ^ (p.bitLen - p.bits) * 2 ^ (p.bitLen - p.bits) = p.val := by
    have := Nat.div_add_mod p.val (2 ^ (p.bitLen - p.bits))
    unfold Prefix.masked at hm
    rw [hm, Nat.add_zero, Nat.mul_comm] at this
    exact this
  have := div_eq_iff_range ip.val (2 ^ (p.bitLen - p.bits)) (p.val / 2 ^ (p.bitLen - p.bits)) hk
  rw [hq] at this
  congr 1
  rw [Bool.eq_iff_iff]
  simp only [beq_iff_eq, decide_eq_true_eq]
  exact this

/-! ## parseNetwork -/

theorem maskTo_masked (n bits v : Nat) : maskTo n bits v % 2 ^ (n - bits) = 0 := by
  unfold maskTo; exact Nat.mul_mod_left _ _

theorem unmap_of_not_mapped (a : PAddr) (h : a.is4In6 = false) : a.unmap = a := by
  unfold PAddr.unmap; simp [h]

theorem parseNetwork_some_iff (t : Bytes) (ppfx : Option (PAddr × Nat)) (paddr : Option PAddr) :
    (parseNetwork t ppfx paddr).isSome ↔
      (if t.contains 47 then ∃ a b, ppfx = some (a, b) ∧ a.is4In6 = false
       else ∃ a, paddr = some a ∧ a.is4In6 = false) := by
  unfold parseNetwork
  by_cases hs : t.contains 47 = true
  · simp only [hs, if_true]
    cases ppfx with
    | none => simp
    | some ab =>
      obtain ⟨a, b⟩ := ab
      cases hm : a.is4In6 <;> simp [hm]
  · simp only [hs, Bool.false_eq_true, if_false]
    cases paddr with
    | none => simp
    | some a => cases hm : a.is4In6 <;> simp [hm]

theorem parseNetwork_masked (t : Bytes) (ppfx : Option (PAddr × Nat)) (paddr : Option PAddr) (p : Prefix)
    (h : parseNetwork t ppfx paddr = some p) : p.masked := by
  unfold parseNetwork at h
  split at h
  · cases ppfx with
    | none => simp at h
    | some ab =>
      obtain ⟨a, b⟩ := ab
      simp only at h
      split at h
      · cases h
      · cases h
        unfold Prefix.masked Prefix.bitLen PAddr.bitLen
        simp only
        exact maskTo_masked _ _ _
  · cases paddr with
    | none => simp at h
    | some a =>
      simp only at h
      split at h
      · cases h
      · cases h
        unfold Prefix.masked Prefix.bitLen PAddr.bitLen
        simp only [Nat.sub_self, Nat.pow_zero, Nat.mod_one]

theorem mapM_some_forall {α β : Type} (f : α → Option β) : ∀ (xs : List α) (ys : List β),
    xs.mapM f = some ys → ∀ y ∈ ys, ∃ x ∈ xs, f x = some y := by
  intro xs
  induction xs with
  | nil => intro ys h y hy; simp at h; subst h; simp at hy
  | cons x xs ih =>
    intro ys h y hy
    rw [List.mapM_cons] at h
    cases hx : f x with
    | none => simp [hx] at h
    | some b =>
      cases hr : xs.mapM f with
      | none => simp [hx, hr] at h
      | some bs =>
        simp [hx, hr] at h
        subst h
        rcases List.mem_cons.mp hy with rfl | hy'
        · exact ⟨x, by simp, hx⟩
        · obtain ⟨x', hx', hfx⟩ := ih bs hr y hy'
          exact ⟨x', by simp [hx'], hfx⟩

theorem mapM_isSome_iff {α β : Type} (f : α → Option β) : ∀ (xs : List α),
    (xs.mapM f).isSome ↔ ∀ x ∈ xs, (f x).isSome := by
  intro xs
  induction xs with
  | nil => simp
  | cons x xs ih =>
    rw [List.mapM_cons]
    cases hx : f x with
    | none => simp [hx]
    | some b =>
      cases hr : xs.mapM f with
      | none =>
        have : ¬ ∀ x ∈ xs, (f x).isSome := by rw [← ih, hr]; simp
        simp [hx]; simpa using this
      | some bs =>
        have : ∀ x ∈ xs, (f x).isSome := by rw [← ih, hr]; simp
        simp [hx]; simpa using this

theorem parseTrusted_masked (es : List Entry) (ps : List Prefix) (h : parseTrusted es = some ps) :
    ∀ p ∈ ps, p.masked := by
  intro p hp
  obtain ⟨e, _, he⟩ := mapM_some_forall _ es ps h p hp
  exact parseNetwork_masked _ _ _ p he

/-! ## normalisation -/

theorem canon_eq_normalise (ip : PAddr) : canon ip = ip.normalise := by
  unfold canon PAddr.normalise PAddr.unmap PAddr.withoutZone PAddr.is4In6
  by_cases h : ip.v6 = true ∧ ip.val / 2 ^ 32 = 0xffff
  · simp [h.1, h.2]
  · by_cases hv : ip.v6 = true
    · have h2 : ¬ ip.val / 2 ^ 32 = 0xffff := fun hh => h ⟨hv, hh⟩
      simp [hv, h2]
    · simp [hv]

theorem any_congr {α} (l : List α) (f g : α → Bool) (h : ∀ x ∈ l, f x = g x) : l.any f = l.any g := by
  induction l with
  | nil => rfl
  | cons x xs ih =>
    simp only [List.any_cons]
    rw [h x (by simp), ih (fun y hy => h y (by simp [hy]))]

theorem containsParsed_eq_spec (trusted : List Prefix) (hm : ∀ p ∈ trusted, p.masked) (ph : Option PAddr) :
    containsParsed trusted ph = trustedSpec trusted false ph := by
  cases ph with
  | none => rfl
  | some ip =>
    simp only [containsParsed, trustedSpec, Bool.not_false, Bool.true_and]
    apply any_congr
    intro p hp
    rw [canon_eq_normalise, contains_eq_inRange p _ (hm p hp)]

/-! ## Host -/

theorem contains_false_of_not_mem {c : UInt8} {s : Bytes} (h : c ∉ s) : s.contains c = false := by
  cases hc : s.contains c with
  | false => rfl
  | true => exact absurd (List.contains_iff_mem.mp hc) h

theorem indexOf_append_here (c : UInt8) (a b : Bytes) (h : c ∉ a) : indexOf c (a ++ c :: b) = some a.length := by
  unfold indexOf
  have : (a ++ c :: b).idxOf c = a.length := by
    rw [List.idxOf_append]; simp [h]
  simp only [this, List.length_append, List.length_cons]
  rw [if_pos (by omega)]

theorem lastIndexOf_append_here (c : UInt8) (a b : Bytes) (h : c ∉ b) : lastIndexOf c (a ++ c :: b) = some a.length := by
  unfold lastIndexOf
  have hr : (a ++ c :: b).reverse = b.reverse ++ c :: a.reverse := by simp
  rw [hr, indexOf_append_here c b.reverse a.reverse (by simpa using h)]
  simp only [Option.map_some, List.length_reverse, List.length_append, List.length_cons]
  congr 1; omega

/-- `host:port` (what `net.TCPAddr.String()` prints for IPv4): the host is returned -/
theorem hostOf_plain (h port : Bytes) (h1 : 58 ∉ h) (h2 : 91 ∉ h) (h3 : 93 ∉ h)
    (p1 : 58 ∉ port) (p2 : 91 ∉ port) (p3 : 93 ∉ port) : hostOf (h ++ 58 :: port) = h := by
  unfold hostOf splitHostPort
  rw [lastIndexOf_append_here 58 h port p1]
  have hhead : ¬ ((h ++ 58 :: port).head? = some 91) := by
    cases h with
    | nil => simp
    | cons x xs => simp; intro hx; subst hx; simp at h2
  have t : (h ++ 58 :: port).take h.length = h := by simp
  have c1 : h.contains 58 = false := contains_false_of_not_mem h1
  have c2 : (h ++ 58 :: port).contains 91 = false := contains_false_of_not_mem (by simp [h2, p2])
  have c3 : (h ++ 58 :: port).contains 93 = false := contains_false_of_not_mem (by simp [h3, p3])
  simp only [hhead, if_false, t, c1, c2, c3, Bool.false_eq_true]

/-- `[host]:port` (what `net.TCPAddr.String()` prints for IPv6, zone included in `host`) -/
theorem hostOf_bracketed (h port : Bytes) (h2 : 91 ∉ h) (h3 : 93 ∉ h)
    (p1 : 58 ∉ port) (p2 : 91 ∉ port) (p3 : 93 ∉ port) : hostOf (91 :: (h ++ 93 :: 58 :: port)) = h := by
  unfold hostOf splitHostPort
  have e1 : (91 :: (h ++ 93 :: 58 :: port)) = (91 :: h ++ [93]) ++ 58 :: port := by simp
  have hl : lastIndexOf 58 (91 :: (h ++ 93 :: 58 :: port)) = some (h.length + 2) := by
    rw [e1, lastIndexOf_append_here 58 _ port p1]; simp
  have e2 : (91 :: (h ++ 93 :: 58 :: port)) = (91 :: h) ++ 93 :: (58 :: port) := by simp
  have hi : indexOf 93 (91 :: (h ++ 93 :: 58 :: port)) = some (h.length + 1) := by
    rw [e2, indexOf_append_here 93 _ _ (by simp [h3])]; simp
  rw [hl, hi]
  have len : (91 :: (h ++ 93 :: 58 :: port)).length = h.length + 3 + port.length := by simp; omega
  have d1 : (91 :: (h ++ 93 :: 58 :: port)).drop 1 = h ++ 93 :: 58 :: port := rfl
  have c1 : (h ++ 93 :: 58 :: port).contains 91 = false := contains_false_of_not_mem (by simp [h2, p2])
  have d2 : (91 :: (h ++ 93 :: 58 :: port)).drop (h.length + 1 + 1) = 58 :: port := by
    rw [e2]; simp
  have c2 : (58 :: port).contains 93 = false := contains_false_of_not_mem (by simp [p3])
  have t : (h ++ 93 :: 58 :: port).take (h.length + 1 - 1) = h := by simp
  simp only [List.head?_cons, if_true, len, d1, c1, d2, c2, t, Bool.false_eq_true, if_false]
  rw [if_neg (by omega)]


/-! ## socket address byte forms -/
theorem beNat4 (a b c d : UInt8) : beNat [a, b, c, d] = ((a.toNat * 256 + b.toNat) * 256 + c.toNat) * 256 + d.toNat := by
  simp [beNat]
theorem beNat_mapped (a b c d : UInt8) :
    beNat [0, 0, 0, 0, 0, 0, 0, 0, 0, 0, 0xff, 0xff, a, b, c, d] = 0xffff * 2 ^ 32 + beNat [a, b, c, d] := by
  simp [beNat]; omega

end Gate.C33
