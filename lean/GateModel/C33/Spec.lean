import GateModel.C33.Model
/-
C33 — executable reference notions (what the property says), independent of the masked compare:
* `inRange`: set-theoretic CIDR membership — same family, no zone, and the address value lies in the
  interval `[base, base + 2^(len - bits))`.
* `trustedSpec`: the peer (IPv4-mapped unwrapped, zone dropped) lies in some trusted range.
* `outcomeOk`: the three clauses of the property on an observed outcome.
-/
namespace Gate.C33
open Gate

def inRange (p : Prefix) (ip : PAddr) : Bool :=
  ip.zone.isEmpty && (p.v6 == ip.v6) && decide (p.val ≤ ip.val ∧ ip.val < p.val + 2 ^ (p.bitLen - p.bits))

/-- IPv4-mapped IPv6 → IPv4, zone dropped -/
def canon (ip : PAddr) : PAddr :=
  if ip.v6 ∧ ip.val / 2 ^ 32 = 0xffff then { v6 := false, val := ip.val % 2 ^ 32, zone := [] }
  else { ip with zone := [] }

def trustedSpec (trusted : List Prefix) (peerIsNil : Bool) : Option PAddr → Bool
  | none => false
  | some ip => !peerIsNil && trusted.any fun p => inRange p (canon ip)

/-- the address a socket `net.Addr` (`*net.TCPAddr`, `*net.UDPAddr`, `*net.IPAddr`) denotes: a 4-byte IP slice is
    IPv4, a 16-byte slice is IPv6 (possibly IPv4-mapped) with the address's zone; anything else is no IP -/
def addrOfIP (ip : Bytes) (zone : Bytes) : Option PAddr :=
  if ip.length = 4 then some { v6 := false, val := beNat ip, zone := [] }
  else if ip.length = 16 then some { v6 := true, val := beNat ip, zone := zone }
  else none

/-- the property, clause by clause, on an observed outcome
    (`addrChanged`: RemoteAddr() differs from the peer's own; `failed`: the first read failed) -/
def outcomeVerdict (isTrusted : Bool) (h : Hdr) (addrIsSrc addrIsOwn failed payloadIntact : Bool) : String :=
  match h with
  | .none => if addrIsOwn && !failed && payloadIntact then "ok" else "viol:no-header-changed"
  | .proxy _ =>
    if isTrusted then (if addrIsSrc && !failed && payloadIntact then "ok" else "viol:trusted-header-ignored")
    else if addrIsSrc then "viol:spoofed-address-accepted"
    else if !failed then "viol:untrusted-header-not-rejected"
    else if addrIsOwn then "ok" else "viol:no-header-changed"
  | .local_ =>
    if isTrusted then (if addrIsOwn && !failed && payloadIntact then "ok" else "viol:trusted-header-ignored")
    else if !failed then "viol:untrusted-header-not-rejected"
    else if addrIsOwn then "ok" else "viol:no-header-changed"
  | .malformed => if addrIsOwn && failed then "ok" else "viol:malformed-header-accepted"

end Gate.C33
