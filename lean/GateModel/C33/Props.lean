import GateModel.C33.Lemmas
import GateModel.Gen.C33
/-
C33 — PROXY protocol headers are honoured only from trusted upstreams.

Property theorems only.  `netip.ParseAddr/ParsePrefix` and go-proxyproto's `Conn` are parameters of the
model (see Model.lean); everything gate itself does with their results is proved here for ALL parsed
peers, all trusted lists and all first-byte classes.

* `policy_use_iff`                 USE is chosen iff the peer — IPv4-mapped unwrapped, zone dropped — lies in the
                                   numeric range of some trusted network (same family, no zone)
* `address_changes_only_if_trusted` RemoteAddr() differs from the peer's own address only for a trusted peer
                                   that sent a well-formed PROXY-command header (then it is that header's source)
* `untrusted_header_fails`         a header (PROXY or LOCAL) from any other peer makes the first read fail and
                                   leaves the address alone
* `no_header_keeps_addr`           without a header the address is the peer's own and nothing fails, trusted or not
* `nil_peer_or_unparsable_never_trusted`, `no_config_trusts_nothing`
* `parse_accepts_iff`, `parse_list_accepts_iff`  an entry is accepted iff netip accepts it as IP (no `/`) resp.
                                   CIDR (with `/`) and it is not IPv4-mapped; a list iff every entry is
* `parsed_prefix_masked`, `single_ip_entry_matches_only_itself`
* `mapped_peer_same_as_v4`, `socket_forms_agree`, `zone_irrelevant`, `families_never_mix`   normalisation
* `host_of_tcpaddr_v4`, `host_of_tcpaddr_v6`   `Host` returns the IP literal for both shapes a TCP address prints
* `src_*`                          source-shape facts regenerated from /repo
-/
namespace Gate.C33.Props
open Gate Gate.C33

/-! ### trusted-network membership -/

/-- For every list `ParseTrustedNetworks` can return: USE ⇔ range membership of the normalised peer. -/
theorem policy_use_iff (es : List Entry) (trusted : List Prefix) (hp : parseTrusted es = some trusted)
    (peerIsNil : Bool) (parsedHost : Option PAddr) :
    choosePolicy trusted peerIsNil parsedHost = .use ↔ trustedSpec trusted peerIsNil parsedHost = true := by
  unfold choosePolicy
  rw [containsParsed_eq_spec trusted (parseTrusted_masked es trusted hp)]
  cases peerIsNil
  · cases h : trustedSpec trusted false parsedHost <;> simp
  · have : trustedSpec trusted true parsedHost = false := by
      cases parsedHost <;> simp [trustedSpec]
    simp [this]

/-- masked compare = set-theoretic CIDR membership, for any prefix without host bits -/
theorem contains_iff_in_range (p : Prefix) (ip : PAddr) (hm : p.val % 2 ^ (p.bitLen - p.bits) = 0) :
    p.contains ip = true ↔
      (ip.zone = [] ∧ p.v6 = ip.v6 ∧ p.val ≤ ip.val ∧ ip.val < p.val + 2 ^ (p.bitLen - p.bits)) := by
  rw [contains_eq_inRange p ip hm]
  unfold inRange
  simp [List.isEmpty_iff, and_assoc]

example : (Prefix.mk false 0x0a000000 8).contains ⟨false, 0x0a09_0807, []⟩ = true := by decide
example : (Prefix.mk false 0x0a000000 8).contains ⟨false, 0x0b00_0000, []⟩ = false := by decide

theorem nil_peer_or_unparsable_never_trusted (trusted : List Prefix) (ph : Option PAddr) :
    choosePolicy trusted true ph = .reject ∧ choosePolicy trusted false none = .reject := by
  constructor
  · simp [choosePolicy]
  · simp [choosePolicy, containsParsed]

/-- a nil wrapper / empty list trusts nothing -/
theorem no_config_trusts_nothing (peerIsNil : Bool) (ph : Option PAddr) :
    choosePolicy [] peerIsNil ph = .reject := by
  cases ph <;> simp [choosePolicy, containsParsed]

/-! ### what the wrapped connection does -/

theorem address_changes_only_if_trusted (es : List Entry) (trusted : List Prefix)
    (hp : parseTrusted es = some trusted) (peerIsNil : Bool) (ph : Option PAddr) (h : Hdr) (a : Bytes)
    (hc : (wrapOutcome (choosePolicy trusted peerIsNil ph) h).addr = some a) :
    trustedSpec trusted peerIsNil ph = true ∧ h = .proxy a ∧
    (wrapOutcome (choosePolicy trusted peerIsNil ph) h).err = .none := by
  cases hpol : choosePolicy trusted peerIsNil ph
  · have ht := (policy_use_iff es trusted hp peerIsNil ph).mp hpol
    rw [hpol] at hc
    cases h <;> simp [wrapOutcome] at hc ⊢
    exact ⟨ht, hc⟩
  · rw [hpol] at hc
    cases h <;> simp [wrapOutcome] at hc

theorem untrusted_header_fails (es : List Entry) (trusted : List Prefix) (hp : parseTrusted es = some trusted)
    (peerIsNil : Bool) (ph : Option PAddr) (hu : trustedSpec trusted peerIsNil ph = false) (h : Hdr)
    (hh : h ≠ .none) :
    (wrapOutcome (choosePolicy trusted peerIsNil ph) h).addr = none ∧
    (wrapOutcome (choosePolicy trusted peerIsNil ph) h).err ≠ .none := by
  have hpol : choosePolicy trusted peerIsNil ph = .reject := by
    cases hc : choosePolicy trusted peerIsNil ph
    · have := (policy_use_iff es trusted hp peerIsNil ph).mp hc
      rw [hu] at this; cases this
    · rfl
  rw [hpol]
  cases h <;> simp [wrapOutcome] at hh ⊢

theorem trusted_header_applied (trusted : List Prefix) (peerIsNil : Bool) (ph : Option PAddr)
    (hpol : choosePolicy trusted peerIsNil ph = .use) (src : Bytes) :
    wrapOutcome (choosePolicy trusted peerIsNil ph) (.proxy src) = ⟨some src, .none⟩ := by
  rw [hpol]; rfl

theorem no_header_keeps_addr (pol : Policy) : wrapOutcome pol .none = ⟨none, .none⟩ := by
  cases pol <;> rfl

/-! ### parsing the trusted list -/

theorem parse_accepts_iff (t : Bytes) (ppfx : Option (PAddr × Nat)) (paddr : Option PAddr) :
    (parseNetwork t ppfx paddr).isSome ↔
      (if t.contains 47 then ∃ a b, ppfx = some (a, b) ∧ a.is4In6 = false
       else ∃ a, paddr = some a ∧ a.is4In6 = false) := parseNetwork_some_iff t ppfx paddr

theorem parse_list_accepts_iff (es : List Entry) :
    (parseTrusted es).isSome ↔ ∀ e ∈ es, (parseNetwork (trimSpace e.raw) e.ppfx e.paddr).isSome :=
  mapM_isSome_iff _ es

/-- every accepted entry has its host bits cleared (`Masked()`), so `Contains` is the range test -/
theorem parsed_prefix_masked (es : List Entry) (ps : List Prefix) (h : parseTrusted es = some ps) :
    ∀ p ∈ ps, p.val % 2 ^ (p.bitLen - p.bits) = 0 := parseTrusted_masked es ps h

/-- a plain IP entry (no `/`) trusts exactly that address (zone of the entry ignored) -/
theorem single_ip_entry_matches_only_itself (t : Bytes) (a : PAddr) (ht : t.contains 47 = false)
    (hm : a.is4In6 = false) (ip : PAddr) :
    ∃ p, parseNetwork t none (some a) = some p ∧
      (p.contains ip = true ↔ ip.zone = [] ∧ ip.v6 = a.v6 ∧ ip.val = a.val) := by
  refine ⟨{ v6 := a.v6, val := a.val, bits := a.bitLen }, ?_, ?_⟩
  · unfold parseNetwork
    rw [if_neg (by rw [ht]; simp)]
    simp [hm, unmap_of_not_mapped a hm]
  · unfold Prefix.contains Prefix.bitLen PAddr.bitLen
    simp only [Nat.sub_self, Nat.pow_zero, Nat.div_one, Bool.and_eq_true, beq_iff_eq, List.isEmpty_iff]
    constructor
    · intro ⟨⟨h1, h2⟩, h3⟩; exact ⟨h1, h2.symm, h3⟩
    · intro ⟨h1, h2, h3⟩; exact ⟨⟨h1, h2.symm⟩, h3⟩

example : (parseNetwork [49] none (some ⟨true, 0xffff00000000 + 5, []⟩)).isSome = false := by decide

/-! ### normalisation -/

/-- an IPv4-mapped peer `::ffff:a.b.c.d` (with any zone) is judged exactly like `a.b.c.d` -/
theorem mapped_peer_same_as_v4 (trusted : List Prefix) (v : Nat) (hv : v < 2 ^ 32) (z : Bytes) :
    containsParsed trusted (some ⟨true, 0xffff * 2 ^ 32 + v, z⟩) = containsParsed trusted (some ⟨false, v, []⟩) := by
  have h1 : (0xffff * 2 ^ 32 + v) / 2 ^ 32 = 0xffff := by omega
  have h2 : (0xffff * 2 ^ 32 + v) % 2 ^ 32 = v := by omega
  have : (PAddr.mk true (0xffff * 2 ^ 32 + v) z).normalise = (PAddr.mk false v []).normalise := by
    simp [PAddr.normalise, PAddr.unmap, PAddr.is4In6, PAddr.withoutZone, h1, h2]
  simp only [containsParsed, this]

/-- a socket peer (`*net.TCPAddr` / `*net.UDPAddr`) carrying an IPv4 address as 16-byte IPv4-mapped slice (what a
    dual-stack listener reports) must be judged exactly like the 4-byte form — this is the spec the harness's
    `cta` probe evaluates on every `net.Addr` implementation (`viol:contains-mismatch`) -/
theorem socket_forms_agree (trusted : List Prefix) (a b c d : UInt8) (z : Bytes) :
    trustedSpec trusted false (addrOfIP [0, 0, 0, 0, 0, 0, 0, 0, 0, 0, 0xff, 0xff, a, b, c, d] z) =
    trustedSpec trusted false (addrOfIP [a, b, c, d] []) := by
  have hlt : beNat [a, b, c, d] < 2 ^ 32 := by
    rw [beNat4]; have := a.toNat_lt; have := b.toNat_lt; have := c.toNat_lt; have := d.toNat_lt; omega
  have h1 : (0xffff * 2 ^ 32 + beNat [a, b, c, d]) / 2 ^ 32 = 0xffff := by omega
  have h2 : (0xffff * 2 ^ 32 + beNat [a, b, c, d]) % 2 ^ 32 = beNat [a, b, c, d] := by omega
  have e16 : addrOfIP [0, 0, 0, 0, 0, 0, 0, 0, 0, 0, 0xff, 0xff, a, b, c, d] z
      = some ⟨true, 0xffff * 2 ^ 32 + beNat [a, b, c, d], z⟩ := by
    simp only [addrOfIP, List.length_cons, List.length_nil]; rw [beNat_mapped]; rfl
  have e4 : addrOfIP [a, b, c, d] [] = some ⟨false, beNat [a, b, c, d], []⟩ := by
    simp [addrOfIP]
  rw [e16, e4]
  simp only [trustedSpec, Bool.not_false, Bool.true_and]
  have : canon ⟨true, 0xffff * 2 ^ 32 + beNat [a, b, c, d], z⟩ = canon ⟨false, beNat [a, b, c, d], []⟩ := by
    simp [canon, h1, h2]
  rw [this]

/-- the zone of the peer never matters -/
theorem zone_irrelevant (trusted : List Prefix) (a : PAddr) (z : Bytes) :
    containsParsed trusted (some { a with zone := z }) = containsParsed trusted (some a) := by
  have : ({ a with zone := z } : PAddr).normalise = a.normalise := by
    unfold PAddr.normalise PAddr.unmap PAddr.is4In6 PAddr.withoutZone
    by_cases h : (a.v6 && a.val / 2 ^ 32 == 0xffff) = true <;> simp [h]
  simp only [containsParsed, this]

/-- an IPv4 address never matches an IPv6 network and vice versa -/
theorem families_never_mix (p : Prefix) (ip : PAddr) (h : p.v6 ≠ ip.v6) : p.contains ip = false := by
  unfold Prefix.contains
  have : (p.v6 == ip.v6) = false := by simpa using h
  simp [this]

/-! ### Host -/

theorem host_of_tcpaddr_v4 (h port : Bytes) (h1 : 58 ∉ h) (h2 : 91 ∉ h) (h3 : 93 ∉ h)
    (p1 : 58 ∉ port) (p2 : 91 ∉ port) (p3 : 93 ∉ port) : hostOf (h ++ 58 :: port) = h :=
  hostOf_plain h port h1 h2 h3 p1 p2 p3

theorem host_of_tcpaddr_v6 (h port : Bytes) (h2 : 91 ∉ h) (h3 : 93 ∉ h)
    (p1 : 58 ∉ port) (p2 : 91 ∉ port) (p3 : 93 ∉ port) : hostOf (91 :: (h ++ 93 :: 58 :: port)) = h :=
  hostOf_bracketed h port h2 h3 p1 p2 p3

-- "[::1]:80" ↦ "::1";  "pipe" ↦ "pipe" (not an IP);  "[::1" ↦ "" (missing ']': no host at all)
example : hostOf [91, 58, 58, 49, 93, 58, 56, 48] = [58, 58, 49] := by decide
example : hostOf [112, 105, 112, 101] = [112, 105, 112, 101] := by decide
example : hostOf [91, 58, 58, 49] = [] := by decide

/-! ### tie to the source: facts regenerated by `tools/gofacts` -/

def before (a b : String) (cs : List String) : Bool := cs.idxOf a < cs.idxOf b && cs.idxOf a < cs.length

open Gate.Gen.C33 in
theorem src_wrap_shape :
    wrapCalls = ["p.trustedNetworks", "conn.RemoteAddr", "p.trustedNetworks().Contains", "proxyproto.WithPolicy",
      "proxyproto.SetReadHeaderTimeout", "proxyproto.NewConn", "return"] ∧
    wrapConnCalls = ["p.wrapConnTimeout", "return"] ∧
    containsCalls = ["return", "Host", "t.ContainsStr", "return"] ∧
    containsStrCalls = ["netip.ParseAddr", "return", "ip.Unmap", "ip.Unmap().WithZone", "prefix.Contains",
      "return", "return"] := by decide

open Gate.Gen.C33 in
/-- both branches of `parseNetwork` test `Is4In6` before building the prefix; the CIDR branch masks;
    `ParseTrustedNetworks` trims before parsing -/
theorem src_parse_shape :
    before "strings.TrimSpace" "parseNetwork" parseTrustedCalls ∧
    before "netip.ParsePrefix" "prefix.Addr().Is4In6" parseNetworkCalls ∧
    before "prefix.Addr().Is4In6" "netip.PrefixFrom" parseNetworkCalls ∧
    "netip.PrefixFrom().Masked" ∈ parseNetworkCalls ∧
    before "netip.ParseAddr" "addr.Is4In6" parseNetworkCalls ∧
    before "addr.Is4In6" "addr.Unmap" parseNetworkCalls ∧
    splitHostPortCalls = ["net.SplitHostPort", "strconv.Atoi", "isMissingPortErr", "isTooManyColonsErr", "uint16", "return"] := by
  decide

end Gate.C33.Props
