import GateModel.Base.Bytes
/-
C33 — model of pkg/util/netutil/trusted.go (+ `Host` of util.go) and
pkg/edition/java/proxy/proxy_protocol.go.

External functions are parameters, never re-implemented here:
* `netip.ParseAddr` / `netip.ParsePrefix` (text → address): the harness passes their results
  (`PAddr` = family, 32/128-bit value, zone) next to the text; the model works on the parsed values.
* go-proxyproto's `Conn`: modelled by its documented policy semantics as a small total function
  (`wrapOutcome`): USE = header optional and applied, REJECT = header ⇒ error, no header ⇒ untouched.
What IS modelled by hand: `strings.TrimSpace`, the `/` test, the IPv4-mapped rejection, `Unmap`,
`Masked`, `PrefixFrom` (zone stripped), `Prefix.Contains`, `Addr.Unmap().WithZone("")`,
`net.SplitHostPort` + gate's `splitHostPort` error handling (`Host`), the policy choice.
-/
namespace Gate.C33
open Gate

/-! ## netip values -/

structure PAddr where
  v6   : Bool
  val  : Nat          -- < 2^32 for IPv4, < 2^128 for IPv6
  zone : Bytes        -- IPv6 only
  deriving DecidableEq, Repr

def PAddr.bitLen (a : PAddr) : Nat := if a.v6 then 128 else 32
/-- `Addr.Is4In6`: IPv6 with the top 96 bits `0:0:0:0:0:ffff` -/
def PAddr.is4In6 (a : PAddr) : Bool := a.v6 && a.val / 2 ^ 32 == 0xffff
/-- `Addr.Unmap` (also drops the zone of a mapped address) -/
def PAddr.unmap (a : PAddr) : PAddr := if a.is4In6 then { v6 := false, val := a.val % 2 ^ 32, zone := [] } else a
/-- `Addr.WithZone("")` -/
def PAddr.withoutZone (a : PAddr) : PAddr := { a with zone := [] }
/-- what `ContainsStr` tests: `ip.Unmap().WithZone("")` -/
def PAddr.normalise (a : PAddr) : PAddr := a.unmap.withoutZone

structure Prefix where
  v6   : Bool
  val  : Nat
  bits : Nat
  deriving DecidableEq, Repr

def Prefix.bitLen (p : Prefix) : Nat := if p.v6 then 128 else 32

/-- `Prefix.Masked`: clear the host bits -/
def maskTo (n bits v : Nat) : Nat := v / 2 ^ (n - bits) * 2 ^ (n - bits)

/-- `Prefix.Contains`: no zone, same family, the top `bits` bits agree -/
def Prefix.contains (p : Prefix) (ip : PAddr) : Bool :=
  ip.zone.isEmpty && (p.v6 == ip.v6) && (ip.val / 2 ^ (p.bitLen - p.bits) == p.val / 2 ^ (p.bitLen - p.bits))

/-! ## parseNetwork / ParseTrustedNetworks -/

/-- UTF-8 encodings of the code points `unicode.IsSpace` accepts -/
def spaceSeqs : List Bytes :=
  [[9], [10], [11], [12], [13], [32], [0xc2, 0x85], [0xc2, 0xa0], [0xe1, 0x9a, 0x80],
   [0xe2, 0x80, 0x80], [0xe2, 0x80, 0x81], [0xe2, 0x80, 0x82], [0xe2, 0x80, 0x83], [0xe2, 0x80, 0x84],
   [0xe2, 0x80, 0x85], [0xe2, 0x80, 0x86], [0xe2, 0x80, 0x87], [0xe2, 0x80, 0x88], [0xe2, 0x80, 0x89],
   [0xe2, 0x80, 0x8a], [0xe2, 0x80, 0xa8], [0xe2, 0x80, 0xa9], [0xe2, 0x80, 0xaf], [0xe2, 0x81, 0x9f],
   [0xe3, 0x80, 0x80]]

def stripPrefixOnce (s : Bytes) : Option Bytes :=
  spaceSeqs.findSome? fun q => if q.isPrefixOf s then some (s.drop q.length) else none

def trimLeft : Nat → Bytes → Bytes
  | 0, s => s
  | fuel + 1, s => match stripPrefixOnce s with | some r => trimLeft fuel r | none => s

def stripSuffixOnce (s : Bytes) : Option Bytes :=
  spaceSeqs.findSome? fun q => if q.isSuffixOf s then some (s.take (s.length - q.length)) else none

def trimRight : Nat → Bytes → Bytes
  | 0, s => s
  | fuel + 1, s => match stripSuffixOnce s with | some r => trimRight fuel r | none => s

/-- `strings.TrimSpace` -/
def trimSpace (s : Bytes) : Bytes := trimRight s.length (trimLeft s.length s)

/-- `parseNetwork` on the trimmed text; `ppfx` = result of `netip.ParsePrefix` (address without zone, bits),
    `paddr` = result of `netip.ParseAddr`; `none` = error -/
def parseNetwork (trimmed : Bytes) (ppfx : Option (PAddr × Nat)) (paddr : Option PAddr) : Option Prefix :=
  if trimmed.contains 47 then
    match ppfx with
    | none => none
    | some (a, bits) =>
      if a.is4In6 then none
      else let u := a.unmap; some { v6 := u.v6, val := maskTo u.bitLen bits u.val, bits := bits }
  else
    match paddr with
    | none => none
    | some a =>
      if a.is4In6 then none
      else let u := a.unmap; some { v6 := u.v6, val := u.val, bits := u.bitLen }   -- PrefixFrom strips the zone

/-- one configured entry with the parser results for its trimmed text -/
structure Entry where
  raw   : Bytes
  ppfx  : Option (PAddr × Nat)
  paddr : Option PAddr

/-- `ParseTrustedNetworks`: the first bad entry fails the whole list -/
def parseTrusted (es : List Entry) : Option (List Prefix) :=
  es.mapM fun e => parseNetwork (trimSpace e.raw) e.ppfx e.paddr

/-! ## Host (net.SplitHostPort + gate's error handling) -/

def indexOf (c : UInt8) (s : Bytes) : Option Nat :=
  let i := s.idxOf c; if i < s.length then some i else none
def lastIndexOf (c : UInt8) (s : Bytes) : Option Nat :=
  (indexOf c s.reverse).map fun i => s.length - 1 - i

inductive SHP where
  | ok (host port : Bytes) | missingPort | tooManyColons | other
  deriving DecidableEq, Repr

def splitHostPort (s : Bytes) : SHP :=
  match lastIndexOf 58 s with
  | none => .missingPort
  | some i =>
    if s.head? = some 91 then
      match indexOf 93 s with
      | none => .other                                   -- missing ']'
      | some e =>
        if e + 1 = s.length then .missingPort
        else if e + 1 = i then
          if (s.drop 1).contains 91 then .other          -- unexpected '['
          else if (s.drop (e + 1)).contains 93 then .other
          else .ok ((s.drop 1).take (e - 1)) (s.drop (i + 1))
        else if s.getD (e + 1) 0 = 58 then .tooManyColons
        else .missingPort
    else
      let host := s.take i
      if host.contains 58 then .tooManyColons
      else if s.contains 91 then .other
      else if s.contains 93 then .other
      else .ok host (s.drop (i + 1))

/-- `netutil.HostStr`: the host on success, the whole string for "missing port"/"too many colons",
    `""` for every other error -/
def hostOf (s : Bytes) : Bytes :=
  match splitHostPort s with
  | .ok h _ => h
  | .missingPort | .tooManyColons => s
  | .other => []

/-! ## Contains and the policy choice -/

/-- `ContainsStr` given `netip.ParseAddr(host)` -/
def containsParsed (trusted : List Prefix) : Option PAddr → Bool
  | none => false
  | some ip => trusted.any fun p => p.contains ip.normalise

inductive Policy where | use | reject deriving DecidableEq, Repr

/-- `wrapConnTimeout`'s policy: `peer = none` is a nil `RemoteAddr()`; `parsedHost` is
    `netip.ParseAddr(Host(peer))`.  A nil `*proxyProtocol` has the empty trusted list. -/
def choosePolicy (trusted : List Prefix) (peerIsNil : Bool) (parsedHost : Option PAddr) : Policy :=
  if !peerIsNil && containsParsed trusted parsedHost then .use else .reject

/-- what the first bytes of the connection are -/
inductive Hdr where
  | none                    -- no PROXY signature (or nothing at all before the header timeout)
  | proxy (src : Bytes)     -- well-formed header, command PROXY, source address `src` (as printed)
  | local_                  -- well-formed header, command LOCAL / v1 UNKNOWN
  | malformed               -- PROXY signature followed by garbage
  deriving DecidableEq, Repr

inductive RdErr where | none | superfluous | parse deriving DecidableEq, Repr

structure Outcome where
  addr : Option Bytes       -- `some src`: RemoteAddr() is the header's source; `none`: the peer's own address
  err  : RdErr              -- error of the first Read
  deriving DecidableEq, Repr

/-- go-proxyproto `Conn` with policy USE / REJECT -/
def wrapOutcome : Policy → Hdr → Outcome
  | _, .none => ⟨none, .none⟩
  | _, .malformed => ⟨none, .parse⟩
  | .use, .proxy src => ⟨some src, .none⟩
  | .use, .local_ => ⟨none, .none⟩
  | .reject, .proxy _ => ⟨none, .superfluous⟩
  | .reject, .local_ => ⟨none, .superfluous⟩

end Gate.C33
