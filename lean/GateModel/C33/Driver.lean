import GateModel.Base.Line
import GateModel.C33.Spec
/-
C33 driver (stateful: the current trusted list).  Tokens: address `err | 4:<8 hex> | 6:<32 hex>:<zonehex|->`,
prefix-parse result `err | <addr>/<bits>`.

  host <addrhex>                                  model: hex of netutil.HostStr(addr)
  pn <rawhex> <trimmedhex> <pfxres|-> <addrres|->  ParseTrustedNetworks([raw]): `ok <prefix>` | `err`
  tl <n> <entry>…   entry = rawhex|trimmedhex|pfxres|addrres     sets the trusted list; `ok p1,p2,…` | `err`
                                                  (after `err` the wrapper is nil: trusts nothing)
  ct <addrhex|nil> <hosthex> <parsedhost>         TrustedNetworks.Contains: `<hosthex> <0|1>`
  cta <kind> <iphex|-> <zonehex|-> <strhex> <hosthex> <parsedhost>
                                                  Contains on a concrete net.Addr implementation (tcp/udp/ip = *net.TCPAddr/
                                                  UDPAddr/IPAddr built from the raw IP bytes + zone, str = String() only);
                                                  model: the code's route through String(); spec: range membership of the
                                                  NORMALISED address the bytes denote → `viol:contains-mismatch`
  wr <addrhex|nil> <hosthex> <parsedhost> <kind> <srchex> <payloadhex>
                                                  wrapConnTimeout on a fake conn; kind ∈ none idle proxy local bad
                                                  `a=<own|src|other> e=<none|superfluous|parse> d=<hex of bytes read>`
-/
namespace Gate.C33
open Gate

def natOfHex (s : String) : Option Nat := (parseHex s).map beNat

def parseAddrTok (s : String) : Option (Option PAddr) :=
  if s = "err" then some none else
  match s.splitOn ":" with
  | ["4", h] => (natOfHex h).map fun v => some ⟨false, v, []⟩
  | ["6", h, z] => do let v ← natOfHex h; let zb ← parseHex z; pure (some ⟨true, v, zb⟩)
  | _ => none

def parsePfxTok (s : String) : Option (Option (PAddr × Nat)) :=
  if s = "err" || s = "-" then some none else
  match s.splitOn "/" with
  | [a, b] => do
    let pa ← parseAddrTok a
    let bits ← b.toNat?
    pure (pa.map fun x => (x, bits))
  | _ => none

def showPrefix (p : Prefix) : String :=
  (if p.v6 then "6:" ++ toHex (beBytes 16 p.val) else "4:" ++ toHex (beBytes 4 p.val)) ++ "/" ++ toString p.bits

def parseEntry (raw trimmed pfx addr : String) : Option (Entry × Bytes) := do
  let r ← parseHex raw
  let t ← parseHex trimmed
  let pp ← parsePfxTok pfx
  let pa ← if addr = "-" then some none else parseAddrTok addr
  pure (⟨r, pp, pa⟩, t)

def parseHdr (kind src : String) : Option Hdr :=
  match kind with
  | "none" | "idle" => some .none
  | "proxy" => (parseHex src).map .proxy
  | "local" => some .local_
  | "bad" => some .malformed
  | _ => none

structure St where
  trusted : List Prefix := []

def step (s : St) (c : Case) : St × String × String :=
  match c.op, c.args with
  | "host", [a] =>
    match parseHex a with
    | some b => (s, toHex (hostOf b), "-")
    | none => (s, "bad-op", "-")
  | "pn", [raw, trimmed, pfx, addr] =>
    match parseEntry raw trimmed pfx addr with
    | some (e, t) =>
      if trimSpace e.raw ≠ t then (s, "trim-mismatch", "-") else
      let res := parseTrusted [e]
      let out := match res with | some [p] => "ok " ++ showPrefix p | _ => "err"
      -- the property: accepted iff a valid IP or CIDR (per netip) that is not IPv4-mapped
      let valid := if t.contains 47 then (match e.ppfx with | some (a, _) => !(a.v6 && a.val / 2 ^ 32 == 0xffff) | none => false)
                   else (match e.paddr with | some a => !(a.v6 && a.val / 2 ^ 32 == 0xffff) | none => false)
      (s, out, if c.impl.startsWith "ok" == valid then "ok" else "viol:parse-accept")
    | none => (s, "bad-op", "-")
  | "tl", _ :: entries =>
    match entries.mapM (fun tok => match tok.splitOn "|" with
        | [a, b, p, q] => parseEntry a b p q | _ => none) with
    | some es =>
      if es.any (fun (e, t) => trimSpace e.raw ≠ t) then (s, "trim-mismatch", "-") else
      match parseTrusted (es.map (·.1)) with
      | some ps => ({ s with trusted := ps }, "ok " ++ (if ps.isEmpty then "-" else ",".intercalate (ps.map showPrefix)), "-")
      | none => ({ s with trusted := [] }, "err", "-")
    | none => (s, "bad-op", "-")
  | "ct", [a, h, ph] =>
    match (if a = "nil" then some none else (parseHex a).map some), parseHex h, parseAddrTok ph with
    | some ao, some hb, some pa =>
      match ao with
      | none => (s, "- 0", if c.impl.endsWith " 0" then "ok" else "viol:membership")
      | some ab =>
        let host := hostOf ab
        if host ≠ hb then (s, toHex host ++ " host-mismatch", "-") else
        let r := containsParsed s.trusted pa
        let want := trustedSpec s.trusted false pa
        (s, toHex host ++ (if r then " 1" else " 0"),
         if c.impl.endsWith (if want then " 1" else " 0") then "ok" else "viol:membership")
    | _, _, _ => (s, "bad-op", "-")
  | "cta", [kind, ipb, zone, str, h, ph] =>
    match parseHex ipb, parseHex zone, parseHex str, parseHex h, parseAddrTok ph with
    | some ip, some z, some sb, some hb, some pa =>
      let host := hostOf sb
      if host ≠ hb then (s, "host-mismatch", "-") else
      let r := containsParsed s.trusted pa
      -- what the address denotes: from the raw bytes for socket addresses, from the text for a String()-only one
      let denoted := if kind = "str" then pa else addrOfIP ip z
      let want := trustedSpec s.trusted false denoted
      (s, if r then "1" else "0", if c.impl = (if want then "1" else "0") then "ok" else "viol:contains-mismatch")
    | _, _, _, _, _ => (s, "bad-op", "-")
  | "wr", [a, h, ph, kind, src, payload] =>
    match (if a = "nil" then some none else (parseHex a).map some), parseHex h, parseAddrTok ph,
          parseHdr kind src, parseHex payload with
    | some ao, some hb, some pa, some hdr, some pl =>
      let host := match ao with | some ab => hostOf ab | none => []
      if host ≠ hb then (s, "host-mismatch", "-") else
      let pol := choosePolicy s.trusted ao.isNone pa
      let o := wrapOutcome pol hdr
      let es := match o.err with | .none => "none" | .superfluous => "superfluous" | .parse => "parse"
      let out := "a=" ++ (if o.addr.isSome then "src" else "own") ++ " e=" ++ es ++ " d=" ++
        (if o.err = .none then toHex pl else "-")
      -- spec on the implementation's output
      let isTrusted := trustedSpec s.trusted ao.isNone pa
      let verdict := outcomeVerdict isTrusted hdr (c.impl.startsWith "a=src ") (c.impl.startsWith "a=own ")
        (!(c.impl.splitOn " e=none ").length == 2) (c.impl.endsWith (" d=" ++ toHex pl))
      ({ s with }, out, verdict)
    | _, _, _, _, _ => (s, "bad-op", "-")
  | _, _ => (s, "bad-op", "-")

end Gate.C33

def main : IO Unit := Gate.runDriver ({} : Gate.C33.St) Gate.C33.step
