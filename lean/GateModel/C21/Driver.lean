import GateModel.Base.Line
import GateModel.C21.Model
/-
C21 driver.  Case lines (one chat-queue history = `reset … (op …)* [end]`):

  reset <forceKey 0|1> <p1205 0|1> <mode l|c> <protocol>   impl `ok` (protocol number: informational)
  chat <offset> <signed 0|1> <allow|deny|modify>
  cmd  <offset> <signedArgs 0|1> <consume|err|fwdSame|fwdNew> <how>   (how = the way the harness realises it; ignored)
  ucmd <consume|err|fwdSame|fwdNew> <how>
  ack  <offset>
  end                                                  (mode c only)

mode l (lockstep): the harness waits for the queue to drain after every packet; impl output of an op is
  `<pkts> d=<delayedAckCount> x=<disconnects so far>` with `<pkts>` = `-` or the packets that reached the backend
  because of this op (`chat:<off>:<modified>:<src>`, `cmd:<off>:<modified>:<src>`, `ucmd:<modified>:<src>`, `ack:<off>`).
mode c (concurrent): the backend connection blocks writes while further packets are queued; impl output of an op
  is `q`; `end` reports the whole backend log, `d=` and `x=` after everything drained.

Spec verdicts are evaluated on the IMPLEMENTATION's numbers only (its own previous delayedAckCount, its packets).
-/
namespace Gate.C21
open Gate

def bit (b : Bool) : String := if b then "1" else "0"

def Body.show (src : Nat) : Body → String
  | .chat off m => s!"chat:{off}:{bit m}:{src}"
  | .cmd off m => s!"cmd:{off}:{bit m}:{src}"
  | .ucmd m => s!"ucmd:{bit m}:{src}"
  | .ack off => s!"ack:{off}"

def showPkts (ps : List Pkt) : String :=
  if ps.isEmpty then "-" else ",".intercalate (ps.map fun p => p.body.show p.src)

def parseBit : String → Option Bool
  | "0" => some false | "1" => some true | _ => none

/-- a backend packet as reported by the harness: body and, where the packet has a text, the client index in it -/
def parsePkt (s : String) : Option (Body × Option Nat) :=
  match s.splitOn ":" with
  | ["chat", off, m, src] => do pure (.chat (← off.toInt?) (← parseBit m), some (← src.toNat?))
  | ["cmd", off, m, src] => do pure (.cmd (← off.toInt?) (← parseBit m), some (← src.toNat?))
  | ["ucmd", m, src] => do pure (.ucmd (← parseBit m), some (← src.toNat?))
  | ["ack", off] => do pure (.ack (← off.toInt?), none)
  | _ => none

def parsePkts (s : String) : Option (List (Body × Option Nat)) :=
  if s = "-" then some [] else (s.splitOn ",").mapM parsePkt

structure Obs where
  pkts : List (Body × Option Nat)
  d : Int
  x : Nat

def parseObs (s : String) : Option Obs :=
  match s.splitOn " " with
  | [ps, ds, xs] =>
    if ds.startsWith "d=" && xs.startsWith "x=" then do
      pure ⟨← parsePkts ps, ← (ds.drop 2).toString.toInt?, ← (xs.drop 2).toString.toNat?⟩
    else none
  | _ => none

def parseChatDec : String → Option ChatDec
  | "allow" => some .allow | "deny" => some .deny | "modify" => some .modify | _ => none
def parseCmdDec : String → Option CmdDec
  | "consume" => some .consume | "err" => some .err | "fwdSame" => some .fwdSame | "fwdNew" => some .fwdNew | _ => none

def parseOp (c : Case) : Option Op :=
  match c.op, c.args with
  | "chat", [o, s, d] => do pure (.chat (← o.toInt?) (← parseBit s) (← parseChatDec d))
  | "cmd", o :: s :: d :: _ => do pure (.cmd (← o.toInt?) (← parseBit s) (← parseCmdDec d))
  | "ucmd", d :: _ => do pure (.ucmd (← parseCmdDec d))
  | "ack", [o] => do pure (.ack (← o.toInt?))
  | _, _ => none

structure DS where
  cfg : Cfg := ⟨true, false, true⟩
  lock : Bool := true
  st : St := St.init            -- model state
  x : Nat := 0                   -- model: disconnects so far
  ops : List Op := []            -- history, newest first
  lossRewritten : Int := 0       -- model: acknowledgements lost on the known-finding path
  lossIllegal : Int := 0         -- model: … on illegal-protocol-state paths
  dirty : Bool := false          -- history contains an out-of-range / negative offset
  dImpl : Int := 0               -- implementation's delayedAckCount after the previous op
  xImpl : Nat := 0

def sumAcks (ps : List (Body × Option Nat)) : Int := ps.foldl (fun a p => a + p.1.acks) 0

def Op.offset : Op → Int
  | .chat o _ _ => o | .cmd o _ _ => o | .ucmd _ => 0 | .ack o => o

/-- spec verdict for one lockstep op, from the implementation's observation -/
def verdictLock (ds : DS) (op : Op) (o : Obs) : String :=
  let dPrev := ds.dImpl
  let idx := ds.st.idx
  if op.offset < 0 then "-"
  else if dPrev < 0 || dPrev ≥ 40 then "-"
  else
    let sent := sumAcks o.pkts
    let loss := dPrev + op.acked - o.d - sent
    let orderOk := o.pkts.length ≤ 1 && o.pkts.all (fun p => p.1.from op && (match p.2 with | some s => s == idx | none => true))
    if !orderOk then "viol:order"
    else if op.illegal ds.cfg then
      (if ds.cfg.forceKey then (if o.x > ds.xImpl then "ok" else "viol:illegal-state-not-disconnected") else "-")
    else if op.rewrittenUnsigned ds.cfg then (if loss = 0 then "ok" else "viol:ack-drop-rewritten-unsigned")
    else if !op.inRange then (if loss = 0 && 0 ≤ o.d && o.d < 40 then "ok" else "viol:ack-int32-wrap")
    else if loss ≠ 0 then "viol:ack-conservation"
    else if o.d < 0 || o.d ≥ 40 then "viol:ack-lag"
    else if op.hasLastSeen && o.d ≠ 0 then "viol:ack-not-flushed"
    else if (match op with | .ucmd _ => o.d ≠ dPrev || sent ≠ 0 | _ => false) then "viol:unsigned-not-neutral"
    else "ok"

def strictlyIncreasing : List Nat → Bool
  | a :: b :: r => a < b && strictlyIncreasing (b :: r)
  | _ => true

/-- spec verdict for a whole concurrent history -/
def verdictEnd (ds : DS) (o : Obs) : String :=
  let ops := ds.ops.reverse
  let srcs := o.pkts.filterMap (·.2)
  let kindsOk := o.pkts.all fun p => match p.2 with
    | some s => (match ops[s]? with | some op => p.1.from op | none => false)
    | none => true
  if !strictlyIncreasing srcs || !kindsOk then "viol:order"
  else if ds.dirty then "-"
  else
    let loss := clientAcks ops - sumAcks o.pkts - o.d
    if loss = ds.lossRewritten + ds.lossIllegal then
      (if ds.lossRewritten ≠ 0 then "viol:ack-drop-rewritten-unsigned"
       else if o.d < 0 || o.d ≥ 40 then "viol:ack-lag" else "ok")
    else "viol:ack-conservation"

def step (ds : DS) (c : Case) : DS × String × String :=
  match c.op, c.args with
  | "reset", fk :: p :: mode :: _ =>
    match parseBit fk, parseBit p with
    | some fk, some p => ({ cfg := ⟨fk, p, true⟩, lock := (mode == "l") }, "ok", "-")
    | _, _ => (ds, "bad-op", "-")
  | "end", [] =>
    let out := showPkts ds.st.log ++ s!" d={ds.st.d} x={ds.x}"
    let v := match parseObs c.impl with
      | some o => verdictEnd ds o
      | none => "viol:" ++ (if c.impl = "hang" then "hang" else if c.impl = "panic" then "panic" else "unreadable")
    (ds, out, v)
  | _, _ =>
    match parseOp c with
    | none => (ds, "bad-op", "-")
    | some op =>
      let r := stepOp ds.cfg ds.st.d op
      let st' := seqStep ds.cfg ds.st op
      let newPkts := st'.log.drop ds.st.log.length
      let x' := if r.2.disc then ds.x + 1 else ds.x
      let loss := ds.st.d + op.acked - r.1 - optAcks r.2.pkt
      let lr := if op.rewrittenUnsigned ds.cfg && !op.illegal ds.cfg then ds.lossRewritten + loss else ds.lossRewritten
      let li := if op.illegal ds.cfg then ds.lossIllegal + loss else ds.lossIllegal
      let dirty' := ds.dirty || !op.inRange
      let ds' : DS := { ds with st := st', x := x', ops := op :: ds.ops, lossRewritten := lr, lossIllegal := li, dirty := dirty' }
      if ds.lock then
        let out := showPkts newPkts ++ s!" d={st'.d} x={x'}"
        match parseObs c.impl with
        | some o => ({ ds' with dImpl := o.d, xImpl := o.x }, out, verdictLock ds op o)
        | none => (ds', out, "viol:" ++ (if c.impl = "hang" then "hang" else if c.impl = "panic" then "panic" else "unreadable"))
      else (ds', "q", "-")

end Gate.C21

def main : IO Unit := Gate.runDriver ({} : Gate.C21.DS) Gate.C21.step
