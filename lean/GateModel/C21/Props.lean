import GateModel.C21.Lemmas
/-
C21 — secure-chat packets keep client order and conserve acknowledgements.

All theorems quantify over every schedule `acts : List Act` (client packets interleaved arbitrarily with the
asynchronous completions of the future chain) and every decision of the event handlers / command dispatch
(part of each `Op`).  `cfg.repaired = true` is the code after fixes/C21-ack-conservation.diff.

`Op.legal` (hypothesis of the `_partial` theorems) restricts client packets to
  * non-negative offsets, ChatAcknowledgement offsets ≤ 2^31 − 41 (above that the int32 counter wraps:
    `ack_counter_wraps_fails`, known finding ack-int32-wrap),
  * no "illegal protocol state" (a *signed* chat message cancelled, signed command arguments consumed, or — with
    forceKeyAuthentication — rewritten): the handlers disconnect the player / the signature chain is broken,
  * no last-seen-carrying command rewritten by the event on 1.20.5+ (`rewritten_unsigned_drops_acks_fails`,
    known finding ack-drop-rewritten-unsigned).
-/
namespace Gate.C21.Props
open Gate.C21

/-! ### source shape (regenerated from /repo on every run) -/

def subseq : List String → List String → Bool
  | [], _ => true
  | _ :: _, [] => false
  | a :: as, b :: bs => if a = b then subseq as bs else subseq (a :: as) bs

/-- the counter constants the "fewer than 40" bound is made of -/
theorem constants : window = 20 ∧ minDelayed = 20 := ⟨rfl, rfl⟩

/-- queueTask extends the chain (`head = ThenCompose(head, …)`) while holding internalLock -/
theorem queueTask_extends_chain_under_lock :
    subseq ["cq.internalLock.Lock", "defer:cq.internalLock.Unlock", "cq.player.ensureBackendConnection",
      "func:{", "task", "}", "future.ThenCompose"] Gate.Gen.C21.queueTaskCalls = true := by decide

/-- a QueuePacket task updates the ChatState first, then obtains the packet, then writes it -/
theorem queuePacket_task_shape :
    subseq ["func:{", "chatState.UpdateFromMessage", "nextPacket", "func:{", "cq.writePacket", "}",
      "future.ThenCompose", "}", "cq.queueTask"] Gate.Gen.C21.queuePacketCalls = true := by decide

/-- an acknowledgement is accounted inside a queued task -/
theorem handleAck_task_shape :
    subseq ["func:{", "chatState.AccumulateAckCount", "cq.writePacket", "}", "cq.queueTask"]
      Gate.Gen.C21.handleAckCalls = true ∧
    subseq ["c.player.chatQueue.HandleAcknowledgement"] Gate.Gen.C21.handleChatAckCalls = true := by decide

/-- writePacket completes the task's future only after WritePacket returned -/
theorem writePacket_completes_after_write :
    subseq ["go:{", "smc.WritePacket", "f.Complete", "}"] Gate.Gen.C21.writePacketCalls = true := by decide

/-- ThenCompose completes its result inside the inner future's callback (so the next task starts afterwards) -/
theorem thenCompose_completes_after_inner :
    subseq ["func:{", "callback", "func:{", "out.Complete", "}", "callback().ThenAccept", "}", "f.ThenAccept"]
      Gate.Gen.C21.thenComposeCalls = true := by decide

/-- the held-back counter is swapped to 0 by UpdateFromMessage and is an int32 add/store in AccumulateAckCount -/
theorem counter_accesses :
    subseq ["cs.delayedAckCount.Swap"] Gate.Gen.C21.updateFromMessageCalls = true ∧
    subseq ["int32", "cs.delayedAckCount.Add", "cs.delayedAckCount.Store"] Gate.Gen.C21.accumulateAckCountCalls = true := by
  decide

/-! ### the future chain is the sequential semantics -/

/-- Under every schedule, the chain's state is the sequential state after a prefix `done` of the client's
    packets (the rest is still queued, at most one packet is in flight). -/
theorem chain_refines_sequential (cfg : Cfg) (acts : List Act) :
    ∃ done, done ++ (Sys.init.run cfg acts).pending = opsOf acts ∧
      seqRun cfg St.init done = (Sys.init.run cfg acts).abs ∧
      (inflight (Sys.init.run cfg acts).cur).length ≤ 1 := by
  obtain ⟨done, h1, h2⟩ := reachable_refines cfg acts
  exact ⟨done, h1, h2, inflight_length _⟩

/-- Order: under every schedule and for all event/command outcomes, the packets on the backend connection stem
    from strictly increasing client packets (client order, at most one backend packet per client packet), and each
    is of a kind its client packet can produce. -/
theorem order_preserved (cfg : Cfg) (acts : List Act) :
    (Sys.init.run cfg acts).log.Pairwise (fun a b => a.src < b.src) ∧
    ∀ p ∈ (Sys.init.run cfg acts).log, ∃ op, (opsOf acts)[p.src]? = some op ∧ p.body.from op = true := by
  obtain ⟨done, h1, h2⟩ := reachable_refines cfg acts
  have hord := seqRun_ordered cfg done St.init (by simp [Ordered, St.init])
  have hatt := seqRun_attributed cfg done St.init [] (by simp [St.init]) (by simp [Attributed, St.init])
  rw [h2] at hord hatt
  simp only [Sys.abs] at hord hatt
  constructor
  · exact (List.pairwise_append.mp hord.1).1
  · intro p hp
    obtain ⟨op, ho, hf⟩ := hatt p (by simp [hp])
    refine ⟨op, ?_, hf⟩
    rw [← h1]
    simp only [List.nil_append] at ho
    have hlt : p.src < done.length := by
      rcases Nat.lt_or_ge p.src done.length with h' | h'
      · exact h'
      · rw [List.getElem?_eq_none h'] at ho; cases ho
    rw [List.getElem?_append_left hlt]; exact ho

/-- Once everything queued has completed, the backend has received exactly the sequential run's packets. -/
theorem quiescent_eq_sequential (cfg : Cfg) (acts : List Act)
    (hp : (Sys.init.run cfg acts).pending = []) (hc : (Sys.init.run cfg acts).cur = none) :
    (Sys.init.run cfg acts).log = (seqRun cfg St.init (opsOf acts)).log ∧
    (Sys.init.run cfg acts).d = (seqRun cfg St.init (opsOf acts)).d := by
  obtain ⟨done, h1, h2⟩ := reachable_refines cfg acts
  rw [hp] at h1
  simp only [List.append_nil] at h1
  subst h1
  rw [h2]
  simp [Sys.abs, hc, inflight]

/-! ### acknowledgement conservation -/

/-- Conservation, every schedule: with `done` the client packets the queue has taken up so far,
    sent + in-flight + held-back = acknowledged by `done`; the held-back count stays in [0,40)
    (so the backend lags by fewer than 40); the backend never has more than the client acknowledged. -/
theorem ack_conservation_partial (cfg : Cfg) (hr : cfg.repaired = true) (acts : List Act)
    (hl : ∀ op ∈ opsOf acts, op.legal cfg = true) :
    ∃ done, done ++ (Sys.init.run cfg acts).pending = opsOf acts ∧
      backendAcks ((Sys.init.run cfg acts).log ++ inflight (Sys.init.run cfg acts).cur) + (Sys.init.run cfg acts).d
        = clientAcks done ∧
      0 ≤ (Sys.init.run cfg acts).d ∧ (Sys.init.run cfg acts).d < 40 ∧
      backendAcks (Sys.init.run cfg acts).log ≤ clientAcks (opsOf acts) := by
  obtain ⟨done, h1, h2⟩ := reachable_refines cfg acts
  have hld : ∀ op ∈ done, op.legal cfg = true := fun op ho => hl op (by rw [← h1]; simp [ho])
  have hlp : ∀ op ∈ (Sys.init.run cfg acts).pending, op.legal cfg = true := fun op ho => hl op (by rw [← h1]; simp [ho])
  obtain ⟨e1, e2, e3, _⟩ := seqRun_ledger cfg hr done St.init hld (by simp [St.init]) (by simp [St.init])
  have hnn := seqRun_nonneg cfg hr done St.init hld (by simp [St.init]) (by simp [St.init]) (by simp [St.init])
  rw [h2] at e1 e2 e3 hnn
  simp only [Sys.abs, St.init, backendAcks] at e1 e2 e3 hnn
  refine ⟨done, h1, by omega, e2, e3, ?_⟩
  have hin : 0 ≤ backendAcks (inflight (Sys.init.run cfg acts).cur) :=
    backendAcks_nonneg _ (fun p hp => hnn p (by simp [hp]))
  have hpend := clientAcks_nonneg cfg _ hlp
  rw [← h1, clientAcks_append]
  rw [backendAcks_append] at e1
  omega

/-- Conservation at quiescence: the backend's count is at most the client's and lags it by fewer than 40. -/
theorem ack_lag_bounded_partial (cfg : Cfg) (hr : cfg.repaired = true) (acts : List Act)
    (hl : ∀ op ∈ opsOf acts, op.legal cfg = true)
    (hp : (Sys.init.run cfg acts).pending = []) (hc : (Sys.init.run cfg acts).cur = none) :
    backendAcks (Sys.init.run cfg acts).log ≤ clientAcks (opsOf acts) ∧
    clientAcks (opsOf acts) - backendAcks (Sys.init.run cfg acts).log < 40 := by
  obtain ⟨done, h1, e1, e2, e3, e4⟩ := ack_conservation_partial cfg hr acts hl
  rw [hp] at h1
  simp only [List.append_nil] at h1
  subst h1
  rw [hc] at e1
  simp only [inflight, List.append_nil] at e1
  omega

/-- Catch-up: right after a packet that carries a last-seen update has been processed, nothing is held back and
    the backend's count equals the client's. -/
theorem ack_catch_up_partial (cfg : Cfg) (hr : cfg.repaired = true) (ops : List Op) (op : Op)
    (hl : ∀ o ∈ ops ++ [op], o.legal cfg = true) (hls : op.hasLastSeen = true) :
    (seqRun cfg St.init (ops ++ [op])).d = 0 ∧
    backendAcks (seqRun cfg St.init (ops ++ [op])).log = clientAcks (ops ++ [op]) := by
  obtain ⟨e1, _, _, _⟩ := seqRun_ledger cfg hr (ops ++ [op]) St.init hl (by simp [St.init]) (by simp [St.init])
  obtain ⟨_, f2, f3, _⟩ := seqRun_ledger cfg hr ops St.init (fun o ho => hl o (by simp [ho])) (by simp [St.init]) (by simp [St.init])
  have hd : (seqRun cfg St.init (ops ++ [op])).d = 0 := by
    rw [seqRun_snoc]
    exact (step_lossless cfg hr _ op (hl op (by simp)) f2 f3).2.2.2.2 hls
  refine ⟨hd, ?_⟩
  rw [hd] at e1
  simpa [St.init, backendAcks] using e1

/-- Unsigned commands neither carry nor flush held acknowledgements — for every configuration, every held-back
    count and every outcome (no hypothesis). -/
theorem unsigned_neutral (cfg : Cfg) (d : Int) (dec : CmdDec) :
    (stepOp cfg d (.ucmd dec)).1 = d ∧ optAcks (stepOp cfg d (.ucmd dec)).2.pkt = 0 ∧
    ∀ b, (stepOp cfg d (.ucmd dec)).2.pkt = some b → (∃ m, b = .ucmd m) ∨ (cfg.p1205 = false ∧ b = .cmd 0 true) := by
  obtain ⟨fk, p, r⟩ := cfg
  cases dec <;> cases p <;> simp [stepOp, modifyCommand, optAcks, Body.acks]

/-! ### what the code did before fixes/C21-ack-conservation.diff (`repaired = false`) -/

/-- held acknowledgements + the offset of an unsigned chat message cancelled by a plugin were dropped -/
theorem denied_chat_drops_acks_fails :
    ¬ (backendAcks (seqRun ⟨true, false, false⟩ St.init [.ack 3, .chat 2 false .deny]).log
        + (seqRun ⟨true, false, false⟩ St.init [.ack 3, .chat 2 false .deny]).d
        = clientAcks [.ack 3, .chat 2 false .deny]) := by decide

/-- … of a proxy command that returned an error -/
theorem failed_command_drops_acks_fails :
    ¬ (backendAcks (seqRun ⟨true, false, false⟩ St.init [.ack 3, .cmd 2 false .err]).log
        + (seqRun ⟨true, false, false⟩ St.init [.ack 3, .cmd 2 false .err]).d
        = clientAcks [.ack 3, .cmd 2 false .err]) := by decide

/-- … of a command rewritten by the command event (before 1.20.5) -/
theorem rewritten_command_drops_acks_fails :
    ¬ (backendAcks (seqRun ⟨true, false, false⟩ St.init [.ack 3, .cmd 2 false .fwdNew]).log
        + (seqRun ⟨true, false, false⟩ St.init [.ack 3, .cmd 2 false .fwdNew]).d
        = clientAcks [.ack 3, .cmd 2 false .fwdNew]) := by decide

/-! ### what the current code still does (known findings) -/

/-- 1.20.5+: a last-seen-carrying command rewritten by the event becomes an UnsignedPlayerCommand; its offset and the
    held acknowledgements are lost (known finding ack-drop-rewritten-unsigned) -/
theorem rewritten_unsigned_drops_acks_fails :
    ¬ (backendAcks (seqRun ⟨true, true, true⟩ St.init [.ack 3, .cmd 2 false .fwdNew]).log
        + (seqRun ⟨true, true, true⟩ St.init [.ack 3, .cmd 2 false .fwdNew]).d
        = clientAcks [.ack 3, .cmd 2 false .fwdNew]) := by decide

/-- the held-back counter is an int32: 39 held acknowledgements plus a ChatAcknowledgement of 2^31 − 1 wrap it
    to −2147483610, nothing is forwarded and the backend falls behind by more than 2^31
    (known finding ack-int32-wrap) -/
theorem ack_counter_wraps_fails :
    ¬ (clientAcks [.ack 39, .ack 2147483647]
        - backendAcks (seqRun ⟨true, true, true⟩ St.init [.ack 39, .ack 2147483647]).log < 40) ∧
    (seqRun ⟨true, true, true⟩ St.init [.ack 39, .ack 2147483647]).d = -2147483610 := by
  decide

/-! ### non-vacuity -/

/-- the hypotheses are satisfiable by a history exercising every kind of packet and the three repaired paths -/
example : ∀ op ∈ [Op.ack 3, .chat 2 false .deny, .cmd 1 false .err, .cmd 4 false .fwdNew, .ucmd .fwdNew,
    .chat 0 true .allow, .cmd 0 true .fwdSame, .ack 38, .ack 1, .cmd 7 false .consume],
    op.legal ⟨true, false, true⟩ = true := by decide

/-- and such a history really sends acknowledgements through all three channels -/
example : (seqRun ⟨true, false, true⟩ St.init [.ack 3, .chat 2 false .deny, .ack 38, .ack 1, .ack 1, .cmd 7 false .consume]).log
    = [⟨1, .ack 5⟩, ⟨4, .ack 20⟩, ⟨5, .ack 27⟩] := by decide

/-- a schedule with two packets queued behind an unfinished write -/
example : (Sys.init.run ⟨true, false, true⟩ [.enq (.chat 1 false .allow), .tick, .tick, .enq (.ack 2), .enq (.ucmd .fwdSame)]).pending.length = 2 := by
  decide

end Gate.C21.Props
