import GateModel.C21.Model
/-
C21 helper lemmas: per-task accounting, sequential invariants, refinement of the future chain to the
sequential semantics.  Core Lean only.
-/
namespace Gate.C21

theorem window_eq : window = 20 := rfl
theorem minDelayed_eq : minDelayed = 20 := rfl

theorem wrap32_id (x : Int) (h1 : -2147483648 ≤ x) (h2 : x < 2147483648) : wrap32 x = x := by
  unfold wrap32; omega

/-! ### ledgers -/

theorem backendAcks_append (a b : List Pkt) : backendAcks (a ++ b) = backendAcks a + backendAcks b := by
  induction a with
  | nil => simp [backendAcks]
  | cons p r ih => simp [backendAcks, ih]; omega

theorem clientAcks_append (a b : List Op) : clientAcks (a ++ b) = clientAcks a + clientAcks b := by
  induction a with
  | nil => simp [clientAcks]
  | cons p r ih => simp [clientAcks, ih]; omega

theorem backendAcks_emit (log : List Pkt) (i : Nat) (o : Option Body) :
    backendAcks (emit log i o) = backendAcks log + optAcks o := by
  cases o <;> simp [emit, optAcks, backendAcks_append, backendAcks]

/-! ### one task -/

theorem accumulate_spec (d o : Int) (hd0 : 0 ≤ d) (hd : d < 40) (ho0 : 0 ≤ o) (ho : o ≤ 2147483607) :
    (accumulate d o = (d + o, none) ∧ d + o < 40) ∨
    (accumulate d o = (20, some (d + o - 20)) ∧ 40 ≤ d + o) := by
  have e1 : wrap32 o = o := wrap32_id o (by omega) (by omega)
  have e2 : wrap32 (d + o) = d + o := wrap32_id _ (by omega) (by omega)
  have e3 : wrap32 (d + o - 20) = d + o - 20 := wrap32_id _ (by omega) (by omega)
  simp only [accumulate, e1, e2, minDelayed_eq, window_eq, e3]
  by_cases h : d + o - 20 ≥ 20
  · right; simp [h]; omega
  · left; simp [h]; omega

theorem ackOrNone_acks (off : Int) : optAcks (ackOrNone off).pkt = off := by
  by_cases h : off = 0 <;> simp [ackOrNone, optAcks, Body.acks, h]

theorem ackOrNone_pkt (off : Int) (b : Body) (h : (ackOrNone off).pkt = some b) : b = .ack off := by
  by_cases h0 : off = 0 <;> simp [ackOrNone, h0] at h
  exact h.symm

/-- A legal task neither creates nor loses acknowledgements, keeps `0 ≤ delayed < 40`,
    and a last-seen-carrying packet flushes everything that was held back. -/
theorem step_lossless (cfg : Cfg) (hr : cfg.repaired = true) (d : Int) (op : Op) (hl : op.legal cfg = true)
    (hd0 : 0 ≤ d) (hd : d < 40) :
    (stepOp cfg d op).1 + optAcks (stepOp cfg d op).2.pkt = d + op.acked ∧
    0 ≤ (stepOp cfg d op).1 ∧ (stepOp cfg d op).1 < 40 ∧ 0 ≤ optAcks (stepOp cfg d op).2.pkt ∧
    (op.hasLastSeen = true → (stepOp cfg d op).1 = 0) := by
  cases op with
  | chat o signed dec =>
    simp only [Op.legal, Op.inRange, Op.rewrittenUnsigned, Bool.and_eq_true, Bool.not_eq_true', decide_eq_true_eq] at hl
    obtain ⟨⟨ho, hi⟩, _⟩ := hl
    cases dec <;> cases signed <;> simp [Op.illegal] at hi <;>
      simp only [stepOp, hr, hi, Op.acked, Op.hasLastSeen, Bool.false_eq_true, if_false, if_true, Bool.false_and,
        Bool.true_and, ackOrNone_acks] <;>
      simp [optAcks, Body.acks] <;> omega
  | cmd o sargs dec =>
    simp only [Op.legal, Op.inRange, Bool.and_eq_true, Bool.not_eq_true', decide_eq_true_eq] at hl
    obtain ⟨⟨ho, hi⟩, hu⟩ := hl
    cases dec <;> cases sargs <;> simp [Op.illegal] at hi <;> simp [Op.rewrittenUnsigned] at hu <;>
      simp only [stepOp, hr, hi, hu, Op.acked, Op.hasLastSeen, if_true, consumeCommand, ackOrNone_acks, modifyCommand,
        Bool.false_and, Bool.true_and, Bool.false_eq_true, if_false] <;>
      simp [optAcks, Body.acks] <;> omega
  | ucmd dec =>
    cases dec <;> simp only [stepOp, modifyCommand, Op.acked, Op.hasLastSeen, Bool.false_and, Bool.false_eq_true, if_false] <;>
      (try split) <;> simp [optAcks, Body.acks, hd0, hd]
  | ack o =>
    simp only [Op.legal, Op.inRange, Bool.and_eq_true, decide_eq_true_eq] at hl
    obtain ⟨⟨⟨ho0, ho⟩, _⟩, _⟩ := hl
    rcases accumulate_spec d o hd0 hd ho0 ho with ⟨h, hlt⟩ | ⟨h, hge⟩
    · simp [stepOp, h, optAcks, Op.acked, Op.hasLastSeen]; omega
    · simp [stepOp, h, optAcks, Body.acks, Op.acked, Op.hasLastSeen]; omega

theorem consume_from (cfg : Cfg) (sargs : Bool) (off : Int) (b : Body) (h : (consumeCommand cfg sargs off).pkt = some b) :
    b = .ack off := by
  cases sargs
  · exact ackOrNone_pkt off b (by simpa [consumeCommand] using h)
  · simp [consumeCommand] at h

theorem modify_from (cfg : Cfg) (sargs : Bool) (off : Int) (b : Body) (h : (modifyCommand cfg sargs off).pkt = some b) :
    b = .ucmd true ∨ ∃ o, b = .cmd o true := by
  unfold modifyCommand at h
  split at h
  · simp at h
  · split at h
    · left; simpa using h.symm
    · right; exact ⟨_, by simpa using h.symm⟩

/-- a packet produced for a client packet is of a kind that client packet can produce -/
theorem step_from (cfg : Cfg) (d : Int) (op : Op) (b : Body) (h : (stepOp cfg d op).2.pkt = some b) :
    b.from op = true := by
  cases op with
  | chat o signed dec =>
    cases dec with
    | allow => simp [stepOp] at h; subst h; rfl
    | deny =>
      simp only [stepOp] at h
      split at h
      · simp at h
      · split at h
        · rw [ackOrNone_pkt _ b h]; rfl
        · simp at h
    | modify =>
      simp only [stepOp] at h
      split at h
      · simp at h
      · simp at h; subst h; rfl
  | cmd o sargs dec =>
    cases dec with
    | consume => simp only [stepOp] at h; rw [consume_from _ _ _ b h]; rfl
    | err =>
      simp only [stepOp] at h
      split at h
      · rw [consume_from _ _ _ b h]; rfl
      · simp at h
    | fwdSame => simp [stepOp] at h; subst h; rfl
    | fwdNew =>
      simp only [stepOp] at h
      rcases modify_from _ _ _ b h with h | ⟨o', h⟩ <;> subst h <;> rfl
  | ucmd dec =>
    cases dec with
    | consume => simp [stepOp] at h
    | err => simp [stepOp] at h
    | fwdSame => simp [stepOp] at h; subst h; rfl
    | fwdNew =>
      simp only [stepOp] at h
      rcases modify_from _ _ _ b h with h | ⟨o', h⟩ <;> subst h <;> rfl
  | ack o =>
    simp only [stepOp] at h
    split at h <;> simp at h
    subst h; rfl

/-! ### sequential runs -/

theorem seqRun_append (cfg : Cfg) (s : St) (a b : List Op) :
    seqRun cfg s (a ++ b) = seqRun cfg (seqRun cfg s a) b := by
  simp [seqRun, List.foldl_append]

theorem seqRun_snoc (cfg : Cfg) (s : St) (a : List Op) (op : Op) :
    seqRun cfg s (a ++ [op]) = seqStep cfg (seqRun cfg s a) op := by
  simp [seqRun, List.foldl_append]

theorem seqRun_idx (cfg : Cfg) (s : St) (ops : List Op) : (seqRun cfg s ops).idx = s.idx + ops.length := by
  induction ops generalizing s with
  | nil => simp [seqRun]
  | cons op r ih =>
    have := ih (seqStep cfg s op)
    simp only [seqRun, List.foldl_cons] at this ⊢
    rw [this]; simp [seqStep]; omega

/-- ledger invariant of a sequential run of legal packets -/
theorem seqRun_ledger (cfg : Cfg) (hr : cfg.repaired = true) (ops : List Op) :
    ∀ s : St, (∀ op ∈ ops, op.legal cfg = true) → 0 ≤ s.d → s.d < 40 →
      backendAcks (seqRun cfg s ops).log + (seqRun cfg s ops).d = backendAcks s.log + s.d + clientAcks ops ∧
      0 ≤ (seqRun cfg s ops).d ∧ (seqRun cfg s ops).d < 40 ∧
      backendAcks s.log ≤ backendAcks (seqRun cfg s ops).log := by
  induction ops with
  | nil => intro s _ h0 h1; simp [seqRun, clientAcks, h0, h1]
  | cons op r ih =>
    intro s hl h0 h1
    have hop := hl op (by simp)
    obtain ⟨e1, e2, e3, e4, _⟩ := step_lossless cfg hr s.d op hop h0 h1
    have := ih (seqStep cfg s op) (fun o ho => hl o (by simp [ho])) (by simpa [seqStep] using e2) (by simpa [seqStep] using e3)
    simp only [seqRun, List.foldl_cons] at this ⊢
    obtain ⟨a1, a2, a3, a4⟩ := this
    have hlog : backendAcks (seqStep cfg s op).log = backendAcks s.log + optAcks (stepOp cfg s.d op).2.pkt := by
      simp [seqStep, backendAcks_emit]
    have hd : (seqStep cfg s op).d = (stepOp cfg s.d op).1 := by simp [seqStep]
    refine ⟨?_, a2, a3, ?_⟩
    · rw [a1, hlog, hd]; simp only [clientAcks]; omega
    · omega

theorem backendAcks_nonneg (l : List Pkt) (h : ∀ p ∈ l, 0 ≤ p.body.acks) : 0 ≤ backendAcks l := by
  induction l with
  | nil => simp [backendAcks]
  | cons p r ih =>
    have h1 := h p (by simp)
    have h2 := ih (fun q hq => h q (by simp [hq]))
    simp only [backendAcks]; omega

theorem legal_acked_nonneg (cfg : Cfg) (op : Op) (h : op.legal cfg = true) : 0 ≤ op.acked := by
  cases op <;> simp [Op.legal, Op.inRange, Op.acked] at h ⊢ <;> omega

theorem clientAcks_nonneg (cfg : Cfg) (ops : List Op) (h : ∀ op ∈ ops, op.legal cfg = true) : 0 ≤ clientAcks ops := by
  induction ops with
  | nil => simp [clientAcks]
  | cons op r ih =>
    have h1 := legal_acked_nonneg cfg op (h op (by simp))
    have h2 := ih (fun q hq => h q (by simp [hq]))
    simp only [clientAcks]; omega

/-- no packet of a legal run carries a negative acknowledgement count -/
theorem seqRun_nonneg (cfg : Cfg) (hr : cfg.repaired = true) (ops : List Op) :
    ∀ s : St, (∀ op ∈ ops, op.legal cfg = true) → 0 ≤ s.d → s.d < 40 → (∀ p ∈ s.log, 0 ≤ p.body.acks) →
      ∀ p ∈ (seqRun cfg s ops).log, 0 ≤ p.body.acks := by
  induction ops with
  | nil => intro s _ _ _ h; simpa [seqRun] using h
  | cons op r ih =>
    intro s hl h0 h1 hn
    obtain ⟨_, e2, e3, e4, _⟩ := step_lossless cfg hr s.d op (hl op (by simp)) h0 h1
    have hn' : ∀ p ∈ (seqStep cfg s op).log, 0 ≤ p.body.acks := by
      intro p hp
      simp only [seqStep] at hp
      cases hk : (stepOp cfg s.d op).2.pkt with
      | none => rw [hk] at hp; exact hn p hp
      | some b =>
        rw [hk] at hp e4
        simp only [emit, List.mem_append, List.mem_singleton] at hp
        rcases hp with hp | hp
        · exact hn p hp
        · subst hp; simpa [optAcks] using e4
    have := ih (seqStep cfg s op) (fun o ho => hl o (by simp [ho])) (by simpa [seqStep] using e2)
      (by simpa [seqStep] using e3) hn'
    simpa [seqRun] using this

/-- packets appear on the backend in strictly increasing order of their client packets -/
def Ordered (log : List Pkt) (bound : Nat) : Prop :=
  log.Pairwise (fun a b => a.src < b.src) ∧ ∀ p ∈ log, p.src < bound

theorem ordered_emit (log : List Pkt) (i : Nat) (o : Option Body) (h : Ordered log i) : Ordered (emit log i o) (i + 1) := by
  obtain ⟨hp, hb⟩ := h
  cases o with
  | none => exact ⟨hp, fun p hp' => Nat.lt_succ_of_lt (hb p hp')⟩
  | some b =>
    constructor
    · simp only [emit]
      rw [List.pairwise_append]
      refine ⟨hp, by simp, ?_⟩
      intro a ha c hc
      simp at hc; subst hc; exact hb a ha
    · intro p hp'
      simp only [emit, List.mem_append, List.mem_singleton] at hp'
      rcases hp' with h | h
      · exact Nat.lt_succ_of_lt (hb p h)
      · subst h; exact Nat.lt_succ_self _

theorem seqRun_ordered (cfg : Cfg) (ops : List Op) :
    ∀ s : St, Ordered s.log s.idx → Ordered (seqRun cfg s ops).log (seqRun cfg s ops).idx := by
  induction ops with
  | nil => intro s h; simpa [seqRun] using h
  | cons op r ih =>
    intro s h
    have := ih (seqStep cfg s op) (by simpa [seqStep] using ordered_emit s.log s.idx _ h)
    simpa [seqRun] using this

/-- every backend packet stems from the client packet with its index, and is of a kind that packet produces -/
def Attributed (log : List Pkt) (ops : List Op) : Prop :=
  ∀ p ∈ log, ∃ op, ops[p.src]? = some op ∧ p.body.from op = true

theorem seqRun_attributed (cfg : Cfg) (ops : List Op) :
    ∀ (s : St) (pre : List Op), s.idx = pre.length → Attributed s.log pre →
      Attributed (seqRun cfg s ops).log (pre ++ ops) := by
  induction ops with
  | nil => intro s pre _ h; simpa [seqRun] using h
  | cons op r ih =>
    intro s pre hidx h
    have key : Attributed (seqStep cfg s op).log (pre ++ [op]) := by
      intro p hp
      simp only [seqStep] at hp
      cases hpk : (stepOp cfg s.d op).2.pkt with
      | none =>
        rw [hpk] at hp
        obtain ⟨o, ho, hf⟩ := h p hp
        have hlt : p.src < pre.length := by
          rcases Nat.lt_or_ge p.src pre.length with h' | h'
          · exact h'
          · rw [List.getElem?_eq_none h'] at ho; cases ho
        exact ⟨o, by rw [List.getElem?_append_left hlt]; exact ho, hf⟩
      | some b =>
        rw [hpk] at hp
        simp only [emit, List.mem_append, List.mem_singleton] at hp
        rcases hp with hp | hp
        · obtain ⟨o, ho, hf⟩ := h p hp
          have hlt : p.src < pre.length := by
            rcases Nat.lt_or_ge p.src pre.length with h' | h'
            · exact h'
            · rw [List.getElem?_eq_none h'] at ho; cases ho
          exact ⟨o, by rw [List.getElem?_append_left hlt]; exact ho, hf⟩
        · subst hp
          refine ⟨op, ?_, step_from cfg s.d op b hpk⟩
          simp [hidx]
    have := ih (seqStep cfg s op) (pre ++ [op]) (by simp [seqStep, hidx]) key
    simpa [seqRun] using this

/-! ### the future chain refines the sequential semantics -/

/-- abstraction: the sequential state the chain has reached (the in-flight packet counts as sent) -/
def Sys.abs (s : Sys) : St := ⟨s.d, s.log ++ inflight s.cur, s.started⟩

theorem step_refines (cfg : Cfg) (s : Sys) (done : List Op) (a : Act)
    (h : seqRun cfg St.init done = s.abs) :
    ∃ done', done' ++ (s.step cfg a).pending = done ++ s.pending ++ opsOf [a] ∧
      seqRun cfg St.init done' = (s.step cfg a).abs := by
  cases a with
  | enq op => exact ⟨done, by simp [Sys.step, opsOf], by simpa [Sys.step, Sys.abs] using h⟩
  | tick =>
    cases hc : s.cur with
    | none =>
      cases hp : s.pending with
      | nil => exact ⟨done, by simp [Sys.step, hc, hp, opsOf], by simpa [Sys.step, hc, hp, Sys.abs] using h⟩
      | cons op rest =>
        refine ⟨done ++ [op], by simp [Sys.step, hc, hp, opsOf], ?_⟩
        rw [seqRun_snoc, h]
        cases hk : (stepOp cfg s.d op).2.pkt <;>
          simp [Sys.step, hc, hp, Sys.abs, seqStep, inflight, emit, hk]
    | some ph =>
      cases ph with
      | creating out =>
        cases out with
        | none => exact ⟨done, by simp [Sys.step, hc, opsOf], by simpa [Sys.step, hc, Sys.abs, inflight] using h⟩
        | some p => exact ⟨done, by simp [Sys.step, hc, opsOf], by simpa [Sys.step, hc, Sys.abs, inflight] using h⟩
      | writing p => exact ⟨done, by simp [Sys.step, hc, opsOf], by simpa [Sys.step, hc, Sys.abs, inflight] using h⟩
      | written => exact ⟨done, by simp [Sys.step, hc, opsOf], by simpa [Sys.step, hc, Sys.abs, inflight] using h⟩

theorem opsOf_cons (a : Act) (r : List Act) : opsOf (a :: r) = opsOf [a] ++ opsOf r := by
  cases a <;> simp [opsOf]

theorem run_refines (cfg : Cfg) (acts : List Act) :
    ∀ (s : Sys) (done : List Op), seqRun cfg St.init done = s.abs →
      ∃ done', done' ++ (s.run cfg acts).pending = done ++ s.pending ++ opsOf acts ∧
        seqRun cfg St.init done' = (s.run cfg acts).abs := by
  induction acts with
  | nil => intro s done h; exact ⟨done, by simp [Sys.run, opsOf], by simpa [Sys.run] using h⟩
  | cons a r ih =>
    intro s done h
    obtain ⟨d1, e1, h1⟩ := step_refines cfg s done a h
    obtain ⟨d2, e2, h2⟩ := ih (s.step cfg a) d1 h1
    refine ⟨d2, ?_, by simpa [Sys.run] using h2⟩
    have : (s.run cfg (a :: r)) = (s.step cfg a).run cfg r := by simp [Sys.run]
    rw [this, e2, e1, opsOf_cons a r]; simp

/-- Every reachable state of the chain is the sequential state after a prefix `done` of the client's packets;
    the rest is still queued, at most one packet is in flight. -/
theorem reachable_refines (cfg : Cfg) (acts : List Act) :
    ∃ done, done ++ (Sys.init.run cfg acts).pending = opsOf acts ∧
      seqRun cfg St.init done = (Sys.init.run cfg acts).abs := by
  have := run_refines cfg acts Sys.init [] (by simp [seqRun, Sys.abs, Sys.init, St.init, inflight])
  simpa [Sys.init] using this

theorem inflight_length (c : Option Phase) : (inflight c).length ≤ 1 := by
  cases c with
  | none => simp [inflight]
  | some ph => cases ph with
    | creating o => cases o <;> simp [inflight]
    | writing p => simp [inflight]
    | written => simp [inflight]

end Gate.C21
