import GateModel.Gen.C21
/-
C21 — model of the 1.19.3+ secure-chat path of gate:
  pkg/edition/java/proxy/chat_queue.go   (chatQueue.queueTask/QueuePacket/HandleAcknowledgement/writePacket,
                                          ChatState.UpdateFromMessage/AccumulateAckCount)
  pkg/edition/java/proxy/handle_chat.go  (handleSessionChat)
  pkg/edition/java/proxy/handle_cmd.go   (handleSessionCommand: consumeCommand/modifyCommand/forwardCommand)
  pkg/edition/java/proxy/session_client_play.go (handleChatAcknowledgement)

A client packet is an `Op`.  Everything the event handlers / the proxy's command dispatch decide is part of the
op (`ChatDec`, `CmdDec`), so quantifying over op lists quantifies over all outcomes.  The only state the chat
queue keeps that matters is `ChatState.delayedAckCount` (an `atomic.Int32`, modelled as an `Int` with explicit
32-bit wrap-around).  A task produces at most one backend packet.

`Cfg.repaired` is the variant switch for the three sites repaired by fixes/C21-ack-conservation.diff
(`true` = the code as it is now, `false` = before the fix).
-/
namespace Gate.C21

/-- `lastSeenMessagesWindowSize` -/
def window : Int := Gate.Gen.C21.lastSeenMessagesWindowSize
/-- `minimumDelayedAckCount` -/
def minDelayed : Int := Gate.Gen.C21.minimumDelayedAckCount

/-- Go `int32(x)` for an `int` x (two's complement wrap). -/
def wrap32 (x : Int) : Int := (x + 2147483648) % 4294967296 - 2147483648

structure Cfg where
  /-- `config.ForceKeyAuthentication` (disconnectIllegalProtocolState disconnects iff set) -/
  forceKey : Bool
  /-- player protocol ≥ 1.20.5 (`chat.Builder.ToServer` builds an UnsignedPlayerCommand) -/
  p1205 : Bool
  /-- code after fixes/C21-ack-conservation.diff -/
  repaired : Bool
  deriving DecidableEq, Repr

/-- PlayerChatEvent outcome for a SessionPlayerChat. -/
inductive ChatDec where
  | allow    -- allowed, message unchanged
  | deny     -- !evt.Allowed()
  | modify   -- allowed, evt.Message() ≠ packet.Message
  deriving DecidableEq, Repr

/-- What CommandExecuteEvent + executeCommand decide for a command. -/
inductive CmdDec where
  | consume  -- event denied it, or the proxy ran it (hasRun): consumeCommand
  | err      -- the proxy ran it and executeCommand returned an error
  | fwdSame  -- forwarded (event forward or not a proxy command), command text unchanged
  | fwdNew   -- forwarded with a command text changed by the event: modifyCommand
  deriving DecidableEq, Repr

/-- One serverbound packet of a 1.19.3+ client. Offsets are the VarInt the client sent. -/
inductive Op where
  | chat (o : Int) (signed : Bool) (d : ChatDec)     -- SessionPlayerChat, LastSeenMessages.Offset = o
  | cmd (o : Int) (sargs : Bool) (d : CmdDec)        -- SessionPlayerCommand (carries last-seen); sargs = packet.Signed()
  | ucmd (d : CmdDec)                                -- UnsignedPlayerCommand (no last-seen)
  | ack (o : Int)                                    -- ChatAcknowledgement{Offset: o}
  deriving DecidableEq, Repr

/-- A packet written to the backend connection. -/
inductive Body where
  | chat (off : Int) (modified : Bool)   -- SessionPlayerChat with LastSeenMessages.Offset = off
  | cmd (off : Int) (modified : Bool)    -- SessionPlayerCommand with LastSeenMessages.Offset = off
  | ucmd (modified : Bool)               -- UnsignedPlayerCommand
  | ack (off : Int)                      -- ChatAcknowledgement{Offset: off}
  deriving DecidableEq, Repr

/-- Backend packet tagged with the index of the client packet it stems from. -/
structure Pkt where
  src : Nat
  body : Body
  deriving DecidableEq, Repr

/-- Result of the packet-creating function of one task. -/
structure Out where
  pkt : Option Body
  /-- player.Disconnect was called ("illegal protocol state") -/
  disc : Bool := false
  /-- handleSessionChat returns a nil *Future here; future.ThenCompose dereferences it (never driven by the harness) -/
  crash : Bool := false
  deriving DecidableEq, Repr

/-- `ChatState.AccumulateAckCount(o)` on delayedAckCount = d: new delayedAckCount and the count to forward. -/
def accumulate (d o : Int) : Int × Option Int :=
  let d1 := wrap32 (d + wrap32 o)          -- delayedAckCount.Add(int32(ackCount))
  let fwd := wrap32 (d1 - minDelayed)      -- int32 subtraction
  if fwd ≥ window then (minDelayed, some fwd) else (d1, none)

/-- `if offset != 0 { return &chat.ChatAcknowledgement{Offset: offset} }; return nil` -/
def ackOrNone (off : Int) : Out :=
  if off ≠ 0 then { pkt := some (.ack off) } else { pkt := none }

/-- consumeCommand(packet, true) with packet.LastSeenMessages.Offset = off. -/
def consumeCommand (cfg : Cfg) (sargs : Bool) (off : Int) : Out :=
  if sargs then { pkt := none, disc := cfg.forceKey }
  else ackOrNone off

/-- modifyCommand(packet, newCommand) with packet.LastSeenMessages.Offset = off. -/
def modifyCommand (cfg : Cfg) (sargs : Bool) (off : Int) : Out :=
  if sargs && cfg.forceKey then { pkt := none, disc := true }
  else if cfg.p1205 then { pkt := some (.ucmd true) }
  else { pkt := some (.cmd (if cfg.repaired then off else 0) true) }

/-- The task queued for one client packet, run on delayedAckCount = d: new delayedAckCount and result. -/
def stepOp (cfg : Cfg) (d : Int) : Op → Int × Out
  | .chat o signed dec =>
    let off := o + d                       -- UpdateFromMessage: Swap(0), Offset + delayed
    (0, match dec with
      | .allow => { pkt := some (.chat off false) }
      | .deny =>
        if signed then { pkt := none, disc := cfg.forceKey }
        else if cfg.repaired then ackOrNone off
        else { pkt := none }
      | .modify =>
        if signed && cfg.forceKey then { pkt := none, disc := true, crash := true }
        else { pkt := some (.chat off true) })
  | .cmd o sargs dec =>
    let off := o + d
    (0, match dec with
      | .consume => consumeCommand cfg sargs off
      | .err => if cfg.repaired then consumeCommand cfg sargs off else { pkt := none }
      | .fwdSame => { pkt := some (.cmd off false) }
      | .fwdNew => modifyCommand cfg sargs off)
  | .ucmd dec =>
    -- lastSeenMessages == nil: UpdateFromMessage leaves delayedAckCount alone
    (d, match dec with
      | .consume => { pkt := none }
      | .err => { pkt := none }
      | .fwdSame => { pkt := some (.ucmd false) }
      | .fwdNew => modifyCommand cfg false 0)
  | .ack o =>
    match accumulate d o with
    | (d', some fwd) => (d', { pkt := some (.ack fwd) })
    | (d', none) => (d', { pkt := none })

/-! ### Sequential semantics: tasks run one after the other in queue order -/

structure St where
  d : Int            -- delayedAckCount
  log : List Pkt     -- packets written to the backend, oldest first
  idx : Nat          -- number of client packets processed
  deriving DecidableEq, Repr

def St.init : St := ⟨0, [], 0⟩

def emit (log : List Pkt) (src : Nat) : Option Body → List Pkt
  | some b => log ++ [⟨src, b⟩]
  | none => log

def seqStep (cfg : Cfg) (s : St) (op : Op) : St :=
  let r := stepOp cfg s.d op
  { d := r.1, log := emit s.log s.idx r.2.pkt, idx := s.idx + 1 }

def seqRun (cfg : Cfg) (s : St) (ops : List Op) : St := ops.foldl (seqStep cfg) s

/-! ### Concurrent semantics: the future chain of chatQueue

`queueTask` appends a task to the chain (`head = ThenCompose(head, task)`) under `internalLock`; a task starts when
its predecessor's future completes; a QueuePacket task first updates the ChatState, then waits for the packet
(created on another goroutine — event/command handling), then `writePacket` writes it on yet another goroutine and
completes the task's future afterwards.  `tick` is one such asynchronous completion, `enq` is the client read loop
queueing the next packet; a schedule is any list of these. -/

inductive Phase where
  | creating (out : Option Pkt)   -- ChatState updated; the packet future has not completed yet
  | writing (p : Pkt)             -- writePacket's goroutine has not yet called WritePacket
  | written                       -- WritePacket returned, f.Complete not yet called
  deriving DecidableEq, Repr

structure Sys where
  d : Int
  log : List Pkt
  started : Nat            -- number of tasks started so far
  pending : List Op        -- queued tasks not yet started (chained futures)
  cur : Option Phase       -- the running task
  deriving DecidableEq, Repr

def Sys.init : Sys := ⟨0, [], 0, [], none⟩

inductive Act where
  | enq (op : Op)
  | tick
  deriving DecidableEq, Repr

def Sys.step (cfg : Cfg) (s : Sys) : Act → Sys
  | .enq op => { s with pending := s.pending ++ [op] }
  | .tick =>
    match s.cur with
    | none =>
      match s.pending with
      | [] => s
      | op :: rest =>
        let r := stepOp cfg s.d op
        { s with d := r.1, started := s.started + 1, pending := rest,
                 cur := some (.creating (r.2.pkt.map (Pkt.mk s.started))) }
    | some (.creating none) => { s with cur := none }
    | some (.creating (some p)) => { s with cur := some (.writing p) }
    | some (.writing p) => { s with log := s.log ++ [p], cur := some .written }
    | some .written => { s with cur := none }

def Sys.run (cfg : Cfg) (s : Sys) (acts : List Act) : Sys := acts.foldl (Sys.step cfg) s

/-- the client packets of a schedule, in the order the client sent them -/
def opsOf : List Act → List Op
  | [] => []
  | .enq op :: r => op :: opsOf r
  | .tick :: r => opsOf r

/-- the packet of the running task that is not yet on the wire -/
def inflight : Option Phase → List Pkt
  | some (.creating (some p)) => [p]
  | some (.writing p) => [p]
  | _ => []

/-! ### Acknowledgement ledgers -/

/-- acknowledgements the client expressed with this packet -/
def Op.acked : Op → Int
  | .chat o _ _ => o
  | .cmd o _ _ => o
  | .ucmd _ => 0
  | .ack o => o

/-- acknowledgements the backend receives with this packet -/
def Body.acks : Body → Int
  | .chat off _ => off
  | .cmd off _ => off
  | .ucmd _ => 0
  | .ack off => off

def clientAcks : List Op → Int
  | [] => 0
  | op :: r => op.acked + clientAcks r

def backendAcks : List Pkt → Int
  | [] => 0
  | p :: r => p.body.acks + backendAcks r

def optAcks : Option Body → Int
  | some b => b.acks
  | none => 0

/-- the packet carries a last-seen update -/
def Op.hasLastSeen : Op → Bool
  | .chat .. => true
  | .cmd .. => true
  | _ => false

/-- offsets a client may send: non-negative; a ChatAcknowledgement small enough for the int32 counter -/
def Op.inRange : Op → Bool
  | .chat o _ _ => decide (0 ≤ o)
  | .cmd o _ _ => decide (0 ≤ o)
  | .ucmd _ => true
  | .ack o => decide (0 ≤ o ∧ o ≤ 2147483607)

/-- the handlers themselves call this an illegal protocol state (a signed message/argument cannot be
    cancelled, consumed or — with forceKeyAuthentication — rewritten); the player is disconnected when
    forceKeyAuthentication is set, and the signature chain is broken either way -/
def Op.illegal (cfg : Cfg) : Op → Bool
  | .chat _ signed .deny => signed
  | .chat _ signed .modify => signed && cfg.forceKey
  | .cmd _ sargs .consume => sargs
  | .cmd _ sargs .err => sargs
  | .cmd _ sargs .fwdNew => sargs && cfg.forceKey
  | _ => false

/-- a last-seen-carrying command rewritten by the event on 1.20.5+: chat.Builder turns it into an
    UnsignedPlayerCommand, which cannot carry the offset (known finding) -/
def Op.rewrittenUnsigned (cfg : Cfg) : Op → Bool
  | .cmd _ _ .fwdNew => cfg.p1205
  | _ => false

def Op.legal (cfg : Cfg) (op : Op) : Bool :=
  op.inRange && !op.illegal cfg && !op.rewrittenUnsigned cfg

/-- which client packets a backend packet may stem from -/
def Body.from : Body → Op → Bool
  | .chat .., .chat .. => true
  | .ack _, .chat _ _ .deny => true
  | .cmd .., .cmd .. => true
  | .ucmd _, .cmd _ _ .fwdNew => true
  | .ack _, .cmd _ _ .consume => true
  | .ack _, .cmd _ _ .err => true
  | .ucmd _, .ucmd _ => true
  | .cmd _ true, .ucmd .fwdNew => true
  | .ack _, .ack _ => true
  | _, _ => false

end Gate.C21
