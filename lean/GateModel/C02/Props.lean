import GateModel.C02.Lemmas
import GateModel.C02.Stream
/-
C02 — Frame decoding matches the vanilla/Velocity acceptance rules on hostile byte streams.

The reference (`Spec.lean`) is Velocity's frame + compress decoder transcribed by hand.  Theorems:
  * `frame_agrees`      for EVERY stream that starts with a minimally encoded length prefix (any int32 value,
                        so negative and > 2^21-1 lengths included) gate's frame reader and Velocity's agree:
                        same skip / same frame and remainder / both still waiting / both reject;
  * `envelope_agrees`   for every frame body, threshold, direction and zlib behaviour, the compression
                        envelope gives the same payload or the same rejection as Velocity (negative claimed,
                        below threshold, above the direction cap, body not inflating to exactly claimed,
                        uncompressed body larger than the threshold; exactly-threshold tolerated);
  * `frame_alloc_bounded`, `inflate_alloc_bounded`  the two allocations are ≤ 2^21-1 resp. ≤ the direction cap
                        and are made only after the checks;
  * `stream_agrees_partial`  whole streams of minimally framed, non-empty-payload frames decode to the same
                        payload list and the same ending as Velocity.  PARTIAL: streams containing frames that
                        yield an empty payload are covered per frame (`frame_agrees` skip case) but not by the
                        stream theorem, because gate gives up after 11 consecutive empty frames
                        (`empty_frame_cap_deviates`, recorded finding) where Velocity does not.
  * `stream_agrees_bounded_empty_runs`  the FULL stream statement: any stream of complete frames — zero-length
                        frames, frames opening to an empty payload, rejected frames included — in which at most
                        11 empty-payload frames follow each other decodes to the same payloads and the same
                        ending as in Velocity; `twelve_empty_frames_rejected` is the converse (the finding,
                        for every stream).  Together they characterise the deviation exactly.
  * totality: `readPayload`, `readPacket`, `decodeAll` are total Lean functions — the model cannot hang.
-/
namespace Gate.C02.Props
open Gate Gate.C01 Gate.C02 Gate.C03

deriving instance DecidableEq for Except

theorem frame_agrees (len : Int) (r : Bytes) (h : wfInt32 len) :
    toV (readVarIntFrame (writeVarInt len ++ r)) = velocityFrame (writeVarInt len ++ r) :=
  frame_agrees_lemma len r h

theorem envelope_agrees (cfg : Cfg) (Z : Bytes → Option Bytes) (frame : Bytes) :
    openEnvelope cfg Z frame = velocityOpen cfg Z frame := envelope_agrees_lemma cfg Z frame

/-- the clauses of the statement, spelled out on the model (decision logic stated outright) -/
theorem negative_claimed_rejected (cfg : Cfg) (Z : Bytes → Option Bytes) (frame body : Bytes) (claimed : Int)
    (hthr : 0 ≤ cfg.threshold) (h : readVarInt frame = .ok (claimed, body)) (hneg : claimed < 0) :
    openEnvelope cfg Z frame = .error .belowThreshold := by
  unfold openEnvelope; rw [h]; simp only
  rw [if_neg (by omega), if_pos (by omega)]

theorem claimed_below_threshold_rejected (cfg : Cfg) (Z : Bytes → Option Bytes) (frame body : Bytes) (claimed : Int)
    (h : readVarInt frame = .ok (claimed, body)) (h0 : claimed ≠ 0) (hlt : claimed < cfg.threshold) :
    openEnvelope cfg Z frame = .error .belowThreshold := by
  unfold openEnvelope; rw [h]; simp only
  rw [if_neg h0, if_pos hlt]

theorem claimed_above_cap_rejected (cfg : Cfg) (Z : Bytes → Option Bytes) (frame body : Bytes) (claimed : Int)
    (h : readVarInt frame = .ok (claimed, body)) (hge : cfg.threshold ≤ claimed) (h0 : claimed ≠ 0)
    (hcap : claimed > (cfg.cap : Int)) : openEnvelope cfg Z frame = .error .overCap := by
  unfold openEnvelope; rw [h]; simp only
  rw [if_neg h0, if_neg (by omega), if_pos hcap]

theorem inexact_inflate_rejected (cfg : Cfg) (Z : Bytes → Option Bytes) (frame body : Bytes) (claimed : Int)
    (h : readVarInt frame = .ok (claimed, body)) (h0 : claimed ≠ 0) (hge : cfg.threshold ≤ claimed)
    (hcap : claimed ≤ (cfg.cap : Int))
    (hz : ∀ out, Z body = some out → (out.length : Int) ≠ claimed) :
    openEnvelope cfg Z frame = .error .badBody := by
  unfold openEnvelope; rw [h]; simp only
  rw [if_neg h0, if_neg (by omega), if_neg (by omega)]
  unfold inflateExact
  cases hzb : Z body with
  | none => rfl
  | some out => simp [hz out hzb]

theorem uncompressed_threshold_rule (cfg : Cfg) (Z : Bytes → Option Bytes) (body : Bytes) :
    openEnvelope cfg Z (0 :: body) =
      if (body.length : Int) > cfg.threshold then .error .overThreshold else .ok body := by
  unfold openEnvelope
  have : readVarInt (0 :: body) = .ok (0, body) := by
    have := readVarInt_nat 0 body (by omega)
    simpa [writeVarInt_zero] using this
  rw [this]; simp

theorem frame_alloc_bounded (s : Bytes) (n : Nat) (h : frameAlloc s = some n) : 0 < n ∧ n ≤ 2 ^ 21 - 1 := by
  have := frameAlloc_bounded s n h
  rw [maxFrame_eq] at this; exact this

theorem inflate_alloc_bounded (cfg : Cfg) (frame : Bytes) (n : Nat) (hthr : 0 ≤ cfg.threshold)
    (h : inflateAlloc cfg frame = some n) :
    n ≤ (if cfg.serverBound then 2 * 1024 * 1024 else 8 * 1024 * 1024) ∧ cfg.threshold ≤ (n : Int) := by
  obtain ⟨h1, h2, _⟩ := inflateAlloc_bounded cfg frame n hthr h
  refine ⟨?_, h2⟩
  unfold Cfg.cap at h1
  have hs : capServerBound = 2 * 1024 * 1024 := by decide
  have hc : capClientBound = 8 * 1024 * 1024 := by decide
  split at h1 <;> simp_all

theorem stream_agrees_partial (cfg : Cfg) (Z : Bytes → Option Bytes) (fs : List Bytes)
    (hfs : ∀ b ∈ fs, b ≠ [] ∧ b.length ≤ maxFrame)
    (hpay : 0 ≤ cfg.threshold → ∀ b ∈ fs, openEnvelope cfg Z b ≠ .ok [])
    (f1 f2 : Nat) (h1 : fs.length < f1) (h2 : fs.length < f2) :
    decodeAll cfg Z f1 (ser fs) = velocityDecodeAll cfg Z f2 (ser fs) :=
  stream_agrees_lemma cfg Z fs hfs hpay f1 f2 h1 h2

/-- FULL stream statement, empty payloads included: a stream of complete frames (any mix of zero-length
    frames, frames that open to an empty payload, ordinary frames and frames either decoder rejects) in which
    no more than 11 empty-payload frames follow each other decodes in gate to the same payload list and the
    same ending as in Velocity ("stream ended" and "waiting for more" identified: the stream is closed).
    The bound 11 is exactly gate's retry cap — beyond it `twelve_empty_frames_rejected` applies. -/
theorem stream_agrees_bounded_empty_runs (cfg : Cfg) (Z : Bytes → Option Bytes) (fs : List Bytes)
    (hfs : ∀ b ∈ fs, b.length ≤ maxFrame)
    (hrun : ∀ pre run post, fs = pre ++ run ++ post → (∀ b ∈ run, payloadOf cfg Z b = .ok []) →
      run.length ≤ 11)
    (f1 f2 : Nat) (h1 : fs.length < f1) (h2 : fs.length < f2) :
    (decodeAll cfg Z f1 (ser fs)).1 = (velocityDecodeAll cfg Z f2 (ser fs)).1 ∧
    endNorm (decodeAll cfg Z f1 (ser fs)).2 = endNorm (velocityDecodeAll cfg Z f2 (ser fs)).2 := by
  rw [decodeAll_ser cfg Z fs hfs f1 h1, velocityDecodeAll_ser cfg Z fs hfs f2 h2]
  exact frames_agree_aux cfg Z fs 0
    (fun run post h hall => by have := hrun [] run post (by simpa using h) hall; omega) hrun

/-- the deviation, for every stream: 12 empty-payload frames in a row at the start of a packet read make
    gate give up (`tooManyEmpty`), whatever follows — this is the recorded finding `empty-frame-retry-cap`,
    and by `stream_agrees_bounded_empty_runs` it is the ONLY way the two decoders differ on complete frames. -/
theorem twelve_empty_frames_rejected (cfg : Cfg) (Z : Bytes → Option Bytes) (run post : List Bytes)
    (hfs : ∀ b ∈ run ++ post, b.length ≤ maxFrame)
    (hall : ∀ b ∈ run, payloadOf cfg Z b = .ok []) (h12 : run.length = 12)
    (fuel : Nat) (hfuel : (run ++ post).length < fuel) :
    decodeAll cfg Z fuel (ser (run ++ post)) = ([], some .tooManyEmpty) := by
  rw [decodeAll_ser cfg Z _ hfs fuel hfuel]
  exact gateFrames_empty_run cfg Z run post 0 hall (by omega) (by omega)

/-! ### recorded finding and repaired defects (kernel-checked witnesses) -/

/-- FINDING `empty-frame-retry-cap`: 12 zero-length frames then a valid frame — Velocity yields the frame,
    gate's reader fails with "too many empty packets". -/
theorem empty_frame_cap_deviates :
    decodeAll ⟨-1, true⟩ (fun _ => none) 30 [0, 0, 0, 0, 0, 0, 0, 0, 0, 0, 0, 0, 1, 7] = ([], some .tooManyEmpty) ∧
    velocityDecodeAll ⟨-1, true⟩ (fun _ => none) 30 [0, 0, 0, 0, 0, 0, 0, 0, 0, 0, 0, 0, 1, 7] = ([[7]], none) := by
  constructor <;> decide +kernel

/-- pre-fix: claimed size −5 (`fb ff ff ff 0f`) was taken as "uncompressed" and its bytes passed on -/
theorem negative_claimed_accepted_by_defective_variant :
    openEnvelopeDefective ⟨0, true⟩ (fun _ => []) [0xfb, 0xff, 0xff, 0xff, 0x0f] = .ok [] ∧
    openEnvelope ⟨0, true⟩ (fun _ => none) [0xfb, 0xff, 0xff, 0xff, 0x0f] = .error .belowThreshold := by
  constructor <;> decide +kernel

/-- pre-fix: a body inflating to 4 bytes with claimed size 3 was accepted as a 3-byte payload -/
theorem surplus_inflate_accepted_by_defective_variant :
    openEnvelopeDefective ⟨1, true⟩ (fun _ => [1, 2, 3, 4]) [3, 9, 9] = .ok [1, 2, 3] ∧
    openEnvelope ⟨1, true⟩ (fun _ => some [1, 2, 3, 4]) [3, 9, 9] = .error .badBody := by
  constructor <;> decide +kernel

/-! ### tie to the source -/
open Gate.Gen.C01 in
/-- in `decompress` both rejections (`errs.NewSilentErr`) precede `make`, and the exact-size check
    (`d.zrd.Read` of one extra byte) follows the `io.ReadFull` of the claimed bytes -/
theorem src_decompress_shape :
    decompressCalls.idxOf "errs.NewSilentErr" < decompressCalls.idxOf "make" ∧
    decompressCalls.idxOf "make" < decompressCalls.idxOf "io.ReadFull" ∧
    decompressCalls.idxOf "io.ReadFull" < decompressCalls.idxOf "d.zrd.Read" ∧
    "d.zrd.Read" ∈ decompressCalls := by decide

open Gate.Gen.C01 in
theorem src_frame_checked_before_alloc :
    readVarIntFrameCalls.idxOf "FrameTooLargeError{}" ≥ 0 ∧
    readVarIntFrameCalls.idxOf "util.ReadVarIntReturnN" < readVarIntFrameCalls.idxOf "make" := by decide

open Gate.Gen.C01 in
/-- every `Read` the frame decoder issues is a full read: the reader is wrapped in `fullReader` both by the
    constructor and by `SetReader` (the path `EnableEncryption` takes), and `fullReader.Read` is `io.ReadFull`.
    This is what makes the model's "function of the remaining stream" reading sound for chunked delivery. -/
theorem src_decoder_reads_are_full :
    "io.ReadFull" ∈ fullReaderReadCalls ∧ "fullReader" ∈ newDecoderLits ∧ "fullReader" ∈ setReaderLits := by
  decide

/-! ### non-vacuity -/
example : wfInt32 300 ∧ wfInt32 (-5) ∧ wfInt32 2097152 := by unfold wfInt32; omega
example : ∀ b ∈ [[1, 2], [3]], b ≠ [] ∧ b.length ≤ maxFrame := by
  have : 2 ≤ maxFrame := by decide
  intro b hb; simp at hb; rcases hb with rfl | rfl <;> exact ⟨by simp, by simp; omega⟩

/-- a stream with zero-length frames and an empty-envelope frame between ordinary ones meets the hypotheses
    of `stream_agrees_bounded_empty_runs` non-trivially (threshold 0: `[0]` opens to the empty payload) -/
example : payloadOf ⟨0, true⟩ (fun _ => none) [] = .ok [] ∧ payloadOf ⟨0, true⟩ (fun _ => none) [0] = .ok [] ∧
    payloadOf ⟨-1, true⟩ (fun _ => none) [7] = .ok [7] := by decide +kernel
example : decodeAll ⟨-1, true⟩ (fun _ => none) 30 (ser [[], [], [7], [], [8, 9]]) = ([[7], [8, 9]], none) := by
  decide +kernel

end Gate.C02.Props
