import GateModel.C01.Model
/-
C02 — reference: Velocity's `MinecraftVarintFrameDecoder` + `MinecraftCompressDecoder`, transcribed by
hand (not derived from gate's code), as a function of the remaining byte stream.

  frame decoder : read a VarInt of at most 3 bytes (21 bits); a 3-byte prefix whose third byte still has
                  the continuation bit is BAD_LENGTH; length 0 frames are skipped (no limit on how many);
                  otherwise wait for `length` bytes and emit them.
  compress decoder (threshold ≥ 0): claimed := readVarInt (5-byte VarInt);
                  claimed = 0 → pass the rest through; the property statement sides with vanilla here:
                                a frame of exactly the threshold size is tolerated, larger is rejected;
                  claimed < threshold → reject (this covers every negative claimed size);
                  claimed > cap(direction) → reject;
                  the body must be a complete zlib stream inflating to exactly `claimed` bytes.
  An empty pass-through payload is dropped by the next stage (`if (!buf.isReadable()) return`).
-/
namespace Gate.C02
open Gate Gate.C01 Gate.C03

inductive VRes where
  | frame (body rest : Bytes)
  | skip (rest : Bytes)      -- zero-length frame
  | incomplete               -- stream ends inside the prefix or the frame: Velocity waits for more
  | badLength
  deriving Repr

/-- Velocity's 21-bit VarInt frame prefix: at most three bytes. -/
def velocityPrefix : Nat → Nat → Nat → Bytes → Option (Option (Nat × Bytes))
  -- returns none = incomplete, some none = bad length, some (some (len, rest))
  | 0, _, _, _ => some none
  | _ + 1, _, _, [] => none
  | fuel + 1, i, acc, b :: rest =>
    let acc' := acc + (b.toNat % 128) * 2 ^ (7 * i)
    if b.toNat < 128 then some (some (acc', rest)) else velocityPrefix fuel (i + 1) acc' rest

def velocityFrame (s : Bytes) : VRes :=
  match velocityPrefix 3 0 0 s with
  | none => .incomplete
  | some none => .badLength
  | some (some (len, r)) =>
    if len = 0 then .skip r
    else if len ≤ r.length then .frame (r.take len) (r.drop len) else .incomplete

def velocityOpen (cfg : Cfg) (Z : Bytes → Option Bytes) (frame : Bytes) : Except DErr Bytes :=
  match readVarInt frame with
  | .error _ => .error .badClaimed
  | .ok (claimed, body) =>
    if claimed = 0 then
      if (body.length : Int) ≤ cfg.threshold then .ok body else .error .overThreshold
    else if claimed < cfg.threshold then .error .belowThreshold
    else if claimed > (cfg.cap : Int) then .error .overCap
    else match Z body with
      | some out => if (out.length : Int) = claimed then .ok out else .error .badBody
      | none => .error .badBody

/-- all payloads Velocity's pipeline hands to the packet decoder, and how the stream ends
    (`none` = consumed cleanly or waiting for more bytes, `some e` = connection dropped) -/
def velocityDecodeAll (cfg : Cfg) (Z : Bytes → Option Bytes) : Nat → Bytes → List Bytes × Option DErr
  | 0, _ => ([], none)
  | fuel + 1, s =>
    if s.isEmpty then ([], none) else
    match velocityFrame s with
    | .incomplete => ([], none)
    | .badLength => ([], some .frameTooLarge)
    | .skip r => velocityDecodeAll cfg Z fuel r
    | .frame body r =>
      if cfg.threshold < 0 then
        let (ps, e) := velocityDecodeAll cfg Z fuel r; (body :: ps, e)
      else match velocityOpen cfg Z body with
        | .error e => ([], some e)
        | .ok p =>
          let (ps, e) := velocityDecodeAll cfg Z fuel r
          if p.isEmpty then (ps, e) else (p :: ps, e)

end Gate.C02
