import GateModel.C02.Lemmas
/-
C02 — whole streams, INCLUDING frames that yield an empty payload (zero-length frames and frames whose
compression envelope opens to nothing).

`gateFrames` / `velFrames` are the two decoders rendered on the list of frames a stream consists of; the
refinement lemmas `decodeAll_ser` / `velocityDecodeAll_ser` show that the byte-level models (the ones the
correspondence check runs against the Go code) compute exactly these functions on `ser fs`.  The agreement
theorem `frames_agree` then says: as long as no more than 11 empty-payload frames follow each other, gate and
Velocity hand the same payloads to the packet decoder and end the same way.  The bound 11 is gate's
`tooManyEmpty` cap — the recorded finding — so the theorem characterises the deviation exactly.
-/
namespace Gate.C02
open Gate Gate.C01 Gate.C03

/-- what a complete frame body yields in either decoder (they agree on it: `envelope_agrees`) -/
def payloadOf (cfg : Cfg) (Z : Bytes → Option Bytes) (b : Bytes) : Except DErr Bytes :=
  if b.isEmpty then .ok []
  else if cfg.threshold < 0 then .ok b
  else openEnvelope cfg Z b

/-- gate's `readPacket` on a list of frames: `k` = empty payloads skipped so far -/
def packetFrames (cfg : Cfg) (Z : Bytes → Option Bytes) : Nat → List Bytes → Except DErr (Bytes × List Bytes)
  | _, [] => .error .eof
  | k, b :: t =>
    match payloadOf cfg Z b with
    | .error e => .error e
    | .ok p =>
      if p.isEmpty then
        if k > 10 then .error .tooManyEmpty else packetFrames cfg Z (k + 1) t
      else .ok (p, t)

/-- gate's decoder on a list of frames -/
def gateFrames (cfg : Cfg) (Z : Bytes → Option Bytes) : Nat → List Bytes → List Bytes × Option DErr
  | k, [] => ([], if k = 0 then none else some .eof)
  | k, b :: t =>
    match payloadOf cfg Z b with
    | .error e => ([], some e)
    | .ok p =>
      if p.isEmpty then
        if k > 10 then ([], some .tooManyEmpty) else gateFrames cfg Z (k + 1) t
      else ((p :: (gateFrames cfg Z 0 t).1), (gateFrames cfg Z 0 t).2)

/-- Velocity's pipeline on a list of frames -/
def velFrames (cfg : Cfg) (Z : Bytes → Option Bytes) : List Bytes → List Bytes × Option DErr
  | [] => ([], none)
  | b :: t =>
    match payloadOf cfg Z b with
    | .error e => ([], some e)
    | .ok p => if p.isEmpty then velFrames cfg Z t else (p :: (velFrames cfg Z t).1, (velFrames cfg Z t).2)

/-- "the stream ended" and "waiting for more bytes" are the same observation on a closed stream -/
def endNorm : Option DErr → Option DErr
  | some .eof => none
  | e => e

/-! ### byte level = frame level -/

theorem ser_nil : ser [] = [] := rfl

theorem ser_length_ge (fs : List Bytes) : fs.length ≤ (ser fs).length := by
  induction fs with
  | nil => simp [ser]
  | cons b t ih =>
    rw [ser_cons]
    have := writeVarInt_length_pos (b.length : Int)
    simp only [List.length_append, List.length_cons]
    omega

theorem ser_cons_ne (b : Bytes) (t : List Bytes) : (ser (b :: t)).isEmpty = false := by
  rw [ser_cons]
  apply isEmpty_false_of_ne
  intro hc
  have := writeVarInt_length_pos (b.length : Int)
  rw [List.append_eq_nil_iff] at hc; rw [hc.1] at this; simp at this

theorem readVarIntFrame_ser (b : Bytes) (t : List Bytes) (hmax : b.length ≤ maxFrame) :
    readVarIntFrame (ser (b :: t)) = .ok (b, ser t) := by
  have hmax' : maxFrame = 2 ^ 21 - 1 := maxFrame_eq
  cases b with
  | nil =>
    rw [ser_cons]
    unfold readVarIntFrame
    have : readVarInt (writeVarInt (([] : Bytes).length : Int) ++ ([] ++ ser t)) = .ok (0, ser t) := by
      have := readVarInt_nat 0 (ser t) (by omega)
      simpa using this
    rw [this]; simp
  | cons a r =>
    rw [ser_cons]
    exact readVarIntFrame_ok (a :: r) (ser t) (by simp) hmax (by omega)

theorem velocityFrame_ser (b : Bytes) (t : List Bytes) (hmax : b.length ≤ maxFrame) :
    velocityFrame (ser (b :: t)) = if b.isEmpty then .skip (ser t) else .frame b (ser t) := by
  have hmax' : maxFrame = 2 ^ 21 - 1 := maxFrame_eq
  have := frame_agrees_lemma (b.length : Int) (b ++ ser t) ⟨by omega, by omega⟩
  rw [← ser_cons, readVarIntFrame_ser b t hmax] at this
  rw [← this]; simp [toV]

theorem readPayload_ser (cfg : Cfg) (Z : Bytes → Option Bytes) (b : Bytes) (t : List Bytes)
    (hmax : b.length ≤ maxFrame) :
    readPayload cfg Z (ser (b :: t)) =
      match payloadOf cfg Z b with
      | .error e => .error e
      | .ok p => .ok (p, ser t) := by
  unfold readPayload payloadOf
  rw [readVarIntFrame_ser b t hmax]
  simp only
  by_cases hb : b.isEmpty = true
  · simp [hb]
  · simp only [hb, Bool.false_eq_true, if_false]
    by_cases hthr : cfg.threshold < 0
    · simp [hthr]
    · simp only [hthr, if_false]
      cases openEnvelope cfg Z b <;> rfl

theorem readPayload_nil (cfg : Cfg) (Z : Bytes → Option Bytes) : readPayload cfg Z [] = .error .eof := rfl

theorem gateFrames_cons (cfg : Cfg) (Z : Bytes → Option Bytes) (k : Nat) (b : Bytes) (t : List Bytes) :
    gateFrames cfg Z k (b :: t) =
      match payloadOf cfg Z b with
      | .error e => ([], some e)
      | .ok p =>
        if p.isEmpty then
          if k > 10 then ([], some .tooManyEmpty) else gateFrames cfg Z (k + 1) t
        else ((p :: (gateFrames cfg Z 0 t).1), (gateFrames cfg Z 0 t).2) := by
  rw [gateFrames]

theorem packetFrames_cons (cfg : Cfg) (Z : Bytes → Option Bytes) (k : Nat) (b : Bytes) (t : List Bytes) :
    packetFrames cfg Z k (b :: t) =
      match payloadOf cfg Z b with
      | .error e => .error e
      | .ok p =>
        if p.isEmpty then
          if k > 10 then .error .tooManyEmpty else packetFrames cfg Z (k + 1) t
        else .ok (p, t) := by
  rw [packetFrames]

theorem velFrames_cons (cfg : Cfg) (Z : Bytes → Option Bytes) (b : Bytes) (t : List Bytes) :
    velFrames cfg Z (b :: t) =
      match payloadOf cfg Z b with
      | .error e => ([], some e)
      | .ok p => if p.isEmpty then velFrames cfg Z t else (p :: (velFrames cfg Z t).1, (velFrames cfg Z t).2) := by
  rw [velFrames]

theorem readPacket_ser (cfg : Cfg) (Z : Bytes → Option Bytes) (fs : List Bytes)
    (hfs : ∀ b ∈ fs, b.length ≤ maxFrame) (k fuel : Nat) (hfuel : fs.length < fuel) :
    readPacket cfg Z fuel k (ser fs) =
      match packetFrames cfg Z k fs with
      | .error e => .error e
      | .ok (p, t) => .ok (p, ser t) := by
  induction fs generalizing k fuel with
  | nil =>
    cases fuel with
    | zero => omega
    | succ f => unfold readPacket; rw [ser_nil, readPayload_nil]; rfl
  | cons b t ih =>
    cases fuel with
    | zero => omega
    | succ f =>
      rw [packetFrames_cons]
      unfold readPacket
      rw [readPayload_ser cfg Z b t (hfs b (by simp))]
      cases hp : payloadOf cfg Z b with
      | error e => rfl
      | ok p =>
        simp only
        by_cases hpe : p.isEmpty = true
        · simp only [hpe, if_true]
          by_cases hk : k > 10
          · simp [hk]
          · simp only [hk, if_false]
            exact ih (fun x hx => hfs x (by simp [hx])) (k + 1) f (by simp at hfuel; omega)
        · simp [hpe]

theorem packetFrames_length (cfg : Cfg) (Z : Bytes → Option Bytes) (fs : List Bytes) (k : Nat) (p : Bytes)
    (t : List Bytes) (h : packetFrames cfg Z k fs = .ok (p, t)) :
    t.length < fs.length ∧ (∀ x ∈ t, x ∈ fs) := by
  induction fs generalizing k with
  | nil => simp [packetFrames] at h
  | cons b r ih =>
    rw [packetFrames_cons] at h
    cases hp : payloadOf cfg Z b with
    | error e => rw [hp] at h; simp at h
    | ok q =>
      rw [hp] at h
      simp only at h
      by_cases hqe : q.isEmpty = true
      · simp only [hqe, if_true] at h
        by_cases hk : k > 10
        · simp [hk] at h
        · simp only [hk, if_false] at h
          obtain ⟨h1, h2⟩ := ih (k + 1) h
          exact ⟨by simp; omega, fun x hx => by simp [h2 x hx]⟩
      · simp only [hqe, Bool.false_eq_true, if_false, Except.ok.injEq, Prod.mk.injEq] at h
        obtain ⟨_, rfl⟩ := h
        exact ⟨by simp, fun x hx => by simp [hx]⟩

/-- `gateFrames` unfolds along `packetFrames` exactly like `decodeAll` along `readPacket` -/
theorem gateFrames_packet (cfg : Cfg) (Z : Bytes → Option Bytes) (fs : List Bytes) (k : Nat)
    (hne : fs ≠ [] ∨ k ≠ 0) :
    gateFrames cfg Z k fs =
      match packetFrames cfg Z k fs with
      | .error e => ([], some e)
      | .ok (p, t) => (p :: (gateFrames cfg Z 0 t).1, (gateFrames cfg Z 0 t).2) := by
  induction fs generalizing k with
  | nil =>
    have hk : k ≠ 0 := by rcases hne with h | h; exact absurd rfl h; exact h
    simp [gateFrames, packetFrames, hk]
  | cons b t ih =>
    rw [gateFrames_cons, packetFrames_cons]
    cases hp : payloadOf cfg Z b with
    | error e => rfl
    | ok p =>
      simp only
      by_cases hpe : p.isEmpty = true
      · simp only [hpe, if_true]
        by_cases hk : k > 10
        · simp [hk]
        · simp only [hk, if_false]
          exact ih (k + 1) (Or.inr (by omega))
      · simp [hpe]

theorem decodeAll_ser (cfg : Cfg) (Z : Bytes → Option Bytes) (fs : List Bytes)
    (hfs : ∀ b ∈ fs, b.length ≤ maxFrame) (fuel : Nat) (hfuel : fs.length < fuel) :
    decodeAll cfg Z fuel (ser fs) = gateFrames cfg Z 0 fs := by
  induction fuel generalizing fs with
  | zero => omega
  | succ f ih =>
    cases fs with
    | nil => simp [decodeAll, ser_nil, gateFrames]
    | cons b t =>
      unfold decodeAll
      rw [ser_cons_ne]
      simp only [Bool.false_eq_true, if_false]
      rw [readPacket_ser cfg Z (b :: t) hfs 0 _ (by have := ser_length_ge (b :: t); omega)]
      rw [gateFrames_packet cfg Z (b :: t) 0 (Or.inl (by simp))]
      cases hp : packetFrames cfg Z 0 (b :: t) with
      | error e => rfl
      | ok v =>
        obtain ⟨p, t'⟩ := v
        obtain ⟨hlen, hmem⟩ := packetFrames_length cfg Z (b :: t) 0 p t' hp
        simp only
        rw [ih t' (fun x hx => hfs x (hmem x hx)) (by simp at hfuel hlen; omega)]

theorem velocityDecodeAll_ser (cfg : Cfg) (Z : Bytes → Option Bytes) (fs : List Bytes)
    (hfs : ∀ b ∈ fs, b.length ≤ maxFrame) (fuel : Nat) (hfuel : fs.length < fuel) :
    velocityDecodeAll cfg Z fuel (ser fs) = velFrames cfg Z fs := by
  induction fs generalizing fuel with
  | nil =>
    cases fuel with
    | zero => omega
    | succ f => simp [velocityDecodeAll, ser_nil, velFrames]
  | cons b t ih =>
    cases fuel with
    | zero => omega
    | succ f =>
      have ih' := ih (fun x hx => hfs x (by simp [hx])) f (by simp at hfuel; omega)
      rw [velFrames_cons]
      unfold velocityDecodeAll payloadOf
      rw [ser_cons_ne]
      simp only [Bool.false_eq_true, if_false]
      rw [velocityFrame_ser b t (hfs b (by simp))]
      by_cases hb : b.isEmpty = true
      · simp [hb, ih']
      · simp only [hb, Bool.false_eq_true, if_false]
        by_cases hthr : cfg.threshold < 0
        · simp [hthr, hb, ih']
        · simp only [hthr, if_false]
          rw [← envelope_agrees_lemma]
          cases henv : openEnvelope cfg Z b with
          | error e => rfl
          | ok p =>
            by_cases hpe : p.isEmpty = true <;> simp [hpe, ih']

/-! ### agreement on the frame level -/

theorem frames_agree_aux (cfg : Cfg) (Z : Bytes → Option Bytes) (fs : List Bytes) (k : Nat)
    (hlead : ∀ run post, fs = run ++ post → (∀ b ∈ run, payloadOf cfg Z b = .ok []) → run.length + k ≤ 11)
    (hrun : ∀ pre run post, fs = pre ++ run ++ post → (∀ b ∈ run, payloadOf cfg Z b = .ok []) →
      run.length ≤ 11) :
    (gateFrames cfg Z k fs).1 = (velFrames cfg Z fs).1 ∧
    endNorm (gateFrames cfg Z k fs).2 = endNorm (velFrames cfg Z fs).2 := by
  induction fs generalizing k with
  | nil =>
    unfold gateFrames velFrames
    by_cases hk : k = 0 <;> simp [hk, endNorm]
  | cons b t ih =>
    rw [gateFrames_cons, velFrames_cons]
    cases hp : payloadOf cfg Z b with
    | error e => simp
    | ok p =>
      simp only
      have hrun' : ∀ pre run post, t = pre ++ run ++ post → (∀ b ∈ run, payloadOf cfg Z b = .ok []) →
          run.length ≤ 11 := by
        intro pre run post ht hall
        exact hrun (b :: pre) run post (by simp [ht]) hall
      by_cases hpe : p.isEmpty = true
      · have hp0 : p = [] := by cases p with | nil => rfl | cons a r => simp at hpe
        subst hp0
        have hk : ¬ k > 10 := by
          have := hlead [b] t (by simp) (by intro x hx; simp at hx; subst hx; exact hp)
          simp at this; omega
        simp only [List.isEmpty_nil, if_true, hk, if_false]
        apply ih (k + 1) _ hrun'
        intro run post ht hall
        have := hlead (b :: run) post (by simp [ht]) (by
          intro x hx; simp at hx; rcases hx with rfl | hx; exact hp; exact hall x hx)
        simp at this; omega
      · simp only [hpe, Bool.false_eq_true, if_false]
        have := ih 0 (by
          intro run post ht hall
          have := hrun [b] run post (by simp [ht]) hall
          omega) hrun'
        exact ⟨by rw [this.1], this.2⟩

theorem gateFrames_empty_run (cfg : Cfg) (Z : Bytes → Option Bytes) (run post : List Bytes) (k : Nat)
    (hall : ∀ b ∈ run, payloadOf cfg Z b = .ok []) (h12 : 12 ≤ run.length + k) (hk : k ≤ 11) :
    gateFrames cfg Z k (run ++ post) = ([], some .tooManyEmpty) := by
  induction run generalizing k with
  | nil => simp at h12; omega
  | cons b r ih =>
    rw [List.cons_append, gateFrames_cons, hall b (by simp)]
    simp only [List.isEmpty_nil, if_true]
    by_cases hk10 : k > 10
    · simp [hk10]
    · simp only [hk10, if_false]
      exact ih (k + 1) (fun x hx => hall x (by simp [hx])) (by simp at h12; omega) (by omega)

end Gate.C02
