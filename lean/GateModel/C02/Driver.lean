import GateModel.C01.DriverLib
def main : IO Unit := Gate.runPureDriver Gate.C01.step
