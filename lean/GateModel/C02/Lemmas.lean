import GateModel.C02.Spec
import GateModel.C01.Lemmas
namespace Gate.C02
open Gate Gate.C01 Gate.C03

/-- gate's frame reader rendered in the reference's vocabulary -/
def toV : Except DErr (Bytes × Bytes) → VRes
  | .ok (b, r) => if b.isEmpty then .skip r else .frame b r
  | .error .eof => .incomplete
  | .error _ => .badLength

/-- serialise frame bodies with minimally encoded length prefixes -/
def ser (fs : List Bytes) : Bytes := (fs.map fun b => writeVarInt b.length ++ b).flatten

theorem velocityPrefix_small (n : Nat) (r : Bytes) (h : n < 2 ^ 21) :
    velocityPrefix 3 0 0 (writeVarU 4 n ++ r) = some (some (n, r)) := by
  by_cases h1 : n < 128
  · simp only [writeVarU, h1, if_true, List.cons_append, List.nil_append, velocityPrefix, u8_toNat_ofNat]
    have e : n % 256 % 128 * 2 ^ (7 * 0) = n := by omega
    have e2 : n % 256 < 128 := by omega
    simp [e2]; omega
  · by_cases h2 : n / 128 < 128
    · simp only [writeVarU, h1, h2, if_true, if_false, List.cons_append, List.nil_append, velocityPrefix,
        u8_toNat_ofNat]
      have a1 : ¬ (n % 128 + 128) % 256 < 128 := by omega
      have a2 : n / 128 % 256 < 128 := by omega
      simp only [a1, a2, if_true, if_false]
      congr 3; omega
    · have h3 : n / 128 / 128 < 128 := by omega
      simp only [writeVarU, h1, h2, h3, if_true, if_false, List.cons_append, List.nil_append, velocityPrefix,
        u8_toNat_ofNat]
      have a1 : ¬ (n % 128 + 128) % 256 < 128 := by omega
      have a2 : ¬ (n / 128 % 128 + 128) % 256 < 128 := by omega
      have a3 : n / 128 / 128 % 256 < 128 := by omega
      simp only [a1, a2, a3, if_true, if_false]
      congr 3; omega

theorem velocityPrefix_big (n : Nat) (r : Bytes) (h : 2 ^ 21 ≤ n) :
    velocityPrefix 3 0 0 (writeVarU 4 n ++ r) = some none := by
  have h1 : ¬ n < 128 := by omega
  have h2 : ¬ n / 128 < 128 := by omega
  have h3 : ¬ n / 128 / 128 < 128 := by omega
  simp only [writeVarU, h1, h2, h3, if_false, List.cons_append, velocityPrefix, u8_toNat_ofNat]
  have a1 : ¬ (n % 128 + 128) % 256 < 128 := by omega
  have a2 : ¬ (n / 128 % 128 + 128) % 256 < 128 := by omega
  have a3 : ¬ (n / 128 / 128 % 128 + 128) % 256 < 128 := by omega
  simp only [a1, a2, a3, if_false]

theorem toU_nonneg (v : Int) (h0 : 0 ≤ v) (h1 : v < (2 ^ 31 : Nat)) : toU 32 v = v.toNat := by
  unfold toU
  rw [emod_nonneg_small v _ h0 (by omega)]

theorem toU_neg_big (v : Int) (h0 : v < 0) (h1 : -(2 ^ 31 : Nat) ≤ v) : 2 ^ 21 ≤ toU 32 v := by
  unfold toU
  rw [emod_neg_small v _ (by omega) h0]
  omega

end Gate.C02

namespace Gate.C02
open Gate Gate.C01 Gate.C03

theorem maxFrame_eq : maxFrame = 2 ^ 21 - 1 := by decide

theorem frame_agrees_lemma (len : Int) (r : Bytes) (h : wfInt32 len) :
    toV (readVarIntFrame (writeVarInt len ++ r)) = velocityFrame (writeVarInt len ++ r) := by
  unfold readVarIntFrame velocityFrame
  rw [readVarInt_writeVarInt len r h.1 h.2]
  simp only
  unfold writeVarInt
  by_cases h0 : len = 0
  · subst h0
    have : toU 32 0 = 0 := by rfl
    rw [this, velocityPrefix_small 0 r (by omega)]
    simp [toV]
  · rw [if_neg h0]
    by_cases hbad : len < 0 ∨ len > (maxFrame : Int)
    · rw [if_pos hbad]
      have hbig : 2 ^ 21 ≤ toU 32 len := by
        rcases hbad with hneg | hgt
        · exact toU_neg_big len hneg h.1
        · rw [toU_nonneg len (by rw [maxFrame_eq] at hgt; omega) h.2]
          rw [maxFrame_eq] at hgt; omega
      rw [velocityPrefix_big _ r hbig]
      simp [toV]
    · rw [if_neg hbad]
      have hpos : 0 < len := by omega
      have hle : len ≤ (maxFrame : Int) := by omega
      rw [toU_nonneg len (by omega) h.2]
      rw [velocityPrefix_small len.toNat r (by rw [maxFrame_eq] at hle; omega)]
      simp only
      have hn0 : ¬ len.toNat = 0 := by omega
      rw [if_neg hn0]
      unfold readFull
      by_cases hfit : len.toNat ≤ r.length
      · rw [if_pos hfit, if_pos hfit]
        simp only [toV]
        have : (List.take len.toNat r).isEmpty = false := by
          cases hr : r with
          | nil => simp [hr] at hfit; omega
          | cons a t =>
            have : len.toNat = (len.toNat - 1) + 1 := by omega
            rw [this]; rfl
        simp [this]
      · rw [if_neg hfit, if_neg hfit]
        simp [toV]

theorem envelope_agrees_lemma (cfg : Cfg) (Z : Bytes → Option Bytes) (frame : Bytes) :
    openEnvelope cfg Z frame = velocityOpen cfg Z frame := by
  unfold openEnvelope velocityOpen inflateExact
  cases readVarInt frame with
  | error e => rfl
  | ok v =>
    obtain ⟨claimed, body⟩ := v
    simp only
    by_cases h0 : claimed = 0
    · rw [if_pos h0, if_pos h0]
      by_cases h1 : (body.length : Int) > cfg.threshold
      · rw [if_pos h1, if_neg (by omega)]
      · rw [if_neg h1, if_pos (by omega)]
    · rw [if_neg h0, if_neg h0]
      by_cases h1 : claimed < cfg.threshold
      · rw [if_pos h1, if_pos h1]
      · rw [if_neg h1, if_neg h1]
        by_cases h2 : claimed > (cfg.cap : Int)
        · rw [if_pos h2, if_pos h2]
        · rw [if_neg h2, if_neg h2]
          cases Z body <;> rfl

theorem frameAlloc_bounded (s : Bytes) (n : Nat) (h : frameAlloc s = some n) : 0 < n ∧ n ≤ maxFrame := by
  unfold frameAlloc at h
  cases hr : readVarInt s with
  | error e => rw [hr] at h; simp at h
  | ok v =>
    obtain ⟨len, r⟩ := v
    rw [hr] at h
    simp only at h
    by_cases hc : len = 0 ∨ len < 0 ∨ len > (maxFrame : Int)
    · rw [if_pos hc] at h; simp at h
    · rw [if_neg hc] at h
      simp only [Option.some.injEq] at h
      omega

theorem inflateAlloc_bounded (cfg : Cfg) (frame : Bytes) (n : Nat) (hthr : 0 ≤ cfg.threshold)
    (h : inflateAlloc cfg frame = some n) :
    n ≤ cfg.cap ∧ cfg.threshold ≤ (n : Int) ∧ 0 < n := by
  unfold inflateAlloc at h
  cases hr : readVarInt frame with
  | error e => rw [hr] at h; simp at h
  | ok v =>
    obtain ⟨claimed, body⟩ := v
    rw [hr] at h
    simp only at h
    by_cases hc : claimed = 0 ∨ claimed < cfg.threshold ∨ claimed > (cfg.cap : Int)
    · rw [if_pos hc] at h; simp at h
    · rw [if_neg hc] at h
      simp only [Option.some.injEq] at h
      omega

end Gate.C02

namespace Gate.C02
open Gate Gate.C01 Gate.C03

theorem ser_cons (b : Bytes) (t : List Bytes) : ser (b :: t) = writeVarInt b.length ++ (b ++ ser t) := by
  simp [ser]

theorem isEmpty_false_of_ne {α} (l : List α) (h : l ≠ []) : l.isEmpty = false := by
  cases l with
  | nil => exact absurd rfl h
  | cons a t => rfl

theorem stream_agrees_lemma (cfg : Cfg) (Z : Bytes → Option Bytes) (fs : List Bytes)
    (hfs : ∀ b ∈ fs, b ≠ [] ∧ b.length ≤ maxFrame)
    (hpay : 0 ≤ cfg.threshold → ∀ b ∈ fs, openEnvelope cfg Z b ≠ .ok [])
    (f1 f2 : Nat) (h1 : fs.length < f1) (h2 : fs.length < f2) :
    decodeAll cfg Z f1 (ser fs) = velocityDecodeAll cfg Z f2 (ser fs) := by
  induction fs generalizing f1 f2 with
  | nil =>
    cases f1 with
    | zero => omega
    | succ a => cases f2 with
      | zero => omega
      | succ b => simp [ser, decodeAll, velocityDecodeAll]
  | cons b t ih =>
    cases f1 with
    | zero => omega
    | succ a => cases f2 with
      | zero => omega
      | succ c =>
        obtain ⟨hb, hmax⟩ := hfs b (by simp)
        have hmax' : maxFrame = 2 ^ 21 - 1 := maxFrame_eq
        have hne : (ser (b :: t)).isEmpty = false := by
          rw [ser_cons]
          apply isEmpty_false_of_ne
          intro hc
          have := writeVarInt_length_pos (b.length : Int)
          rw [List.append_eq_nil_iff] at hc; rw [hc.1] at this; simp at this
        have hframe : readVarIntFrame (ser (b :: t)) = .ok (b, ser t) := by
          rw [ser_cons]; exact readVarIntFrame_ok b (ser t) hb hmax (by omega)
        have hv : velocityFrame (ser (b :: t)) = .frame b (ser t) := by
          have := frame_agrees_lemma (b.length : Int) (b ++ ser t) ⟨by omega, by omega⟩
          rw [← ser_cons, hframe] at this
          rw [← this]; simp [toV, isEmpty_false_of_ne b hb]
        have ih' := ih (fun x hx => hfs x (by simp [hx])) (fun ht x hx => hpay ht x (by simp [hx])) a c
          (by simp at h1; omega) (by simp at h2; omega)
        have hbne := isEmpty_false_of_ne b hb
        unfold decodeAll velocityDecodeAll
        simp only [hne, Bool.false_eq_true, if_false, hv]
        unfold readPacket readPayload
        rw [hframe]
        simp only [hbne, Bool.false_eq_true, if_false]
        by_cases hthr : cfg.threshold < 0
        · simp only [if_pos hthr, hbne, Bool.false_eq_true, if_false, ih']
        · simp only [if_neg hthr]
          rw [← envelope_agrees_lemma]
          cases henv : openEnvelope cfg Z b with
          | error e => simp
          | ok p =>
            have hp : p ≠ [] := by
              intro hc; subst hc
              exact hpay (by omega) b (by simp) henv
            simp only [isEmpty_false_of_ne p hp, Bool.false_eq_true, if_false, ih']

end Gate.C02
